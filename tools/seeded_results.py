#!/usr/bin/env python3
"""Regenerates seeded/RESULTS.md from seeded/<name>/{meta,verify,result}.json (latest run per seed and tier)."""
import json, os, re

VERIF = os.path.dirname(os.path.dirname(os.path.abspath(__file__)))
SEEDED = os.path.join(VERIF, 'seeded')

HEAD = """# Seeded changes and what the checks report (latest run per seed)

Each directory holds `patch.diff` (git apply-able to /repo), `demo.rs` (integration test that fails with the change and passes
without it), `meta.json` (property, what it breaks, what it needs to manifest), `verify.json` (our confirmation in a scratch
worktree: compiles, full suite green with the change, demo fails with / passes without) and `result.json` (exit status and
VIOLATION line of `./check <property> <tier>` with the patch applied to /repo, patch reverted afterwards).
`*-A`/`*-B`: first round, `*-C`/`*-D`: second round, `*-E` (a change in shared low-level infrastructure) / `*-F` (two
cooperating edits, each harmless alone): third round, `*-G` (wrong only at a boundary of a numeric or size parameter) /
`*-H` (stateful use or refusal paths): fourth round of independent sub-agents (they saw only the property text);
`F*`: return of a repaired defect (reverse of the `fix:` commit).

| seed | property | confirmed | tier | reported as | wall s | change |
|---|---|---|---|---|---|---|
"""


def key(name):
    m = re.match(r'C(\d+)-([A-Z])$', name)
    return (0, int(m.group(1)), m.group(2)) if m else (1, 0, name)


def main():
    rows = []
    stats = {}
    for name in sorted(os.listdir(SEEDED), key=key):
        d = os.path.join(SEEDED, name)
        if not os.path.isdir(d) or not os.path.exists(os.path.join(d, 'meta.json')):
            continue
        meta = json.load(open(os.path.join(d, 'meta.json')))
        ver = json.load(open(os.path.join(d, 'verify.json'))) if os.path.exists(os.path.join(d, 'verify.json')) else {}
        res = json.load(open(os.path.join(d, 'result.json'))) if os.path.exists(os.path.join(d, 'result.json')) else {}
        pid = meta['property']
        # prefer the quick tier when it already reports a failing input
        best = None
        for k, v in res.items():
            if not k.startswith(pid):
                continue
            tier = 'thorough' if k.endswith(':thorough') else 'quick'
            lines = v.get('violation_lines', [])
            if v.get('exit') == 0 or not lines:
                kind = 'MISSED'
            elif all(l.rstrip().endswith('no-failing-input-found') for l in lines):
                kind = 'broken obligation/correspondence only (no-failing-input-found)'
            else:
                kind = 'failing input (replay)'
            rank = {'failing input (replay)': 0, 'broken obligation/correspondence only (no-failing-input-found)': 1, 'MISSED': 2}[kind]
            cand = (rank, 0 if tier == 'quick' else 1, tier, kind, v.get('wall_s', ''))
            if best is None or cand < best:
                best = cand
        if best is None:
            best = (3, 0, '-', 'not run', '')
        stats[best[3]] = stats.get(best[3], 0) + 1
        summ = (meta.get('summary') or '').replace('|', '/').replace('\n', ' ')[:160]
        rows.append('| %s | %s | %s | %s | %s | %s | %s |' % (name, pid, 'yes' if ver.get('confirmed') else 'NO', best[2], best[3], best[4], summ))
    with open(os.path.join(SEEDED, 'RESULTS.md'), 'w') as f:
        f.write(HEAD + '\n'.join(rows) + '\n\nTotals: ' + ', '.join('%s: %d' % kv for kv in sorted(stats.items())) + '\n')
    print(stats)


HARMLESS_HEAD = """# Harmless changes and what the checks report

40 changes by independent sub-agents that saw only the property text (two per property: at least one changes an
observable detail the property leaves open — message wording, which of several valid answers, rng draws, chunking of
reads/writes, enumeration order — the other is an internal refactoring). `verify.json`: the property tests of the
change's own demo pass with and without it and the full suite passes with it. `result.json`: `./check <property> quick`
with the patch applied. A harmless change may break a proof obligation or the model agreement (then the check searches
for a failing input and reports `no-failing-input-found`); it must never be reported WITH a failing input.

| change | property | confirmed | reported as | wall s | unspecified detail that changes |
|---|---|---|---|---|---|
"""


def harmless():
    root = os.path.join(VERIF, 'seeded_harmless')
    rows, bad = [], 0
    for n in sorted(os.listdir(root)):
        d = os.path.join(root, n)
        if not os.path.isdir(d) or not os.path.exists(os.path.join(d, 'result.json')):
            continue
        m = json.load(open(os.path.join(d, 'meta.json')))
        v = json.load(open(os.path.join(d, 'verify.json')))
        r = json.load(open(os.path.join(d, 'result.json')))
        x = r[sorted(r.keys())[0]]
        if x['exit'] == 0:
            kind = 'no report (exit 0)'
        elif all(l.rstrip().endswith('no-failing-input-found') for l in x['violation_lines']):
            kind = 'broken obligation/correspondence only'
        else:
            kind = 'FALSE ALARM: failing input'; bad += 1
        rows.append('| %s | %s | %s | %s | %s | %s |' % (n, m['property'], 'yes' if v.get('confirmed') else 'NO', kind, x.get('wall_s', ''),
                    (m.get('changes_unspecified') or m.get('summary', ''))[:150].replace('|', '/').replace('\n', ' ')))
    open(os.path.join(root, 'RESULTS.md'), 'w').write(HARMLESS_HEAD + '\n'.join(rows) + '\n')
    print('harmless:', len(rows), 'changes,', bad, 'false alarms')


if __name__ == '__main__':
    main()
    harmless()
