#!/usr/bin/env python3
"""add_theorems.py <PID> <import module> <theorem> [<theorem> …]  — registers theorems proved in another module with a
property: adds the import + `#print axioms` lines to Audit/<PID>.lean and the names to Props/index/<PID>.json."""
import json, sys, os
V = os.path.dirname(os.path.dirname(os.path.abspath(__file__)))
pid, mod, thms = sys.argv[1], sys.argv[2], sys.argv[3:]
ap = os.path.join(V, 'lean/BddVerif/Audit/%s.lean' % pid)
a = open(ap).read()
imp = 'import %s\n' % mod
if imp not in a:
    lines = a.split('\n'); k = max(i for i, l in enumerate(lines) if l.startswith('import '))
    lines.insert(k + 1, imp.rstrip('\n')); a = '\n'.join(lines)
for t in thms:
    if '#print axioms %s\n' % t not in a + '\n':
        a = a.rstrip('\n') + '\n#print axioms %s\n' % t
open(ap, 'w').write(a)
ip = os.path.join(V, 'lean/BddVerif/Props/index/%s.json' % pid)
e = json.load(open(ip))
for t in thms:
    if t not in e['theorems']: e['theorems'].append(t)
for tag, gf in (('AlgoEq', 'Algo.lean'), ('AlgoEq2', 'Algo2.lean'), ('AlgoEq3', 'Algo2.lean'), ('AlgoEq3', 'Algo3.lean'), ('AlgoEq4', 'Algo3.lean'), ('AlgoEq4', 'Algo4.lean')):
    if tag in mod and gf not in e.get('gen_files', []): e.setdefault('gen_files', []).append(gf)
json.dump(e, open(ip, 'w'), indent=1)
print(pid, len(e['theorems']), 'theorems')
