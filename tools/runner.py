#!/usr/bin/env python3
"""Runner of the per-property checks (see DESIGN.md §3, §6).

  runner.py <ID> quick|thorough          full check of one property
  runner.py <ID> --replay <file>         re-run one recorded case against the current /repo
  runner.py setup                        build everything once (MANIFEST.setup_cmd)

Exit status 0: the property held on everything explored. Exit status 1 with a line
`VIOLATION property=<ID> replay=<path>[ no-failing-input-found]` otherwise.
"""
import collections, hashlib, json, os, re, subprocess, sys, time, concurrent.futures

VERIF = os.path.dirname(os.path.dirname(os.path.abspath(__file__)))
LEAN = os.path.join(VERIF, 'lean')
HARNESS = os.path.join(VERIF, 'harness')
WORK = os.path.join(VERIF, 'work')
REPO = '/repo'
ALLOWED_AXIOMS = {'propext', 'Classical.choice', 'Quot.sound'}
FORBIDDEN = re.compile(r'\bsorry\b|\badmit\b|^\s*axiom\s|native_decide|bv_decide|implemented_by|\bunsafe\s|maxHeartbeats\s+0')
ENV = dict(os.environ, CARGO_NET_OFFLINE='true')
NCPU = os.cpu_count() or 4
# properties whose case lines the translated-model driver drv_algo understands
ALGO_PROPS = {'C01', 'C02', 'C03', 'C04', 'C05', 'C06', 'C07', 'C08', 'C09', 'C10', 'C11', 'C12', 'C13', 'C14', 'C15', 'C16', 'C17', 'C18', 'C19', 'C20'}  # C19: ported instruction interpreter (Drive/Algo4Ext.exec19); an unsigned subtraction below zero in translated code on an invalid diagram is reported as `wrapped` (release build wraps), never as a disagreement


def sh(cmd, cwd=None, timeout=None, input=None):
    p = subprocess.run(cmd, cwd=cwd, env=ENV, stdout=subprocess.PIPE, stderr=subprocess.STDOUT,
                       text=True, timeout=timeout, input=input)
    return p.returncode, p.stdout


def load_index():
    d = os.path.join(LEAN, 'BddVerif', 'Props', 'index')
    return {f[:-5]: json.load(open(os.path.join(d, f))) for f in sorted(os.listdir(d)) if f.endswith('.json')}


def harness_bin(pid):
    return os.path.join(HARNESS, 'target', 'release', pid.lower())


# ------------------------------------------------------------------------------------------------
# build steps

def regenerate():
    with lake_lock():
        rc, out = sh([sys.executable, os.path.join(VERIF, 'tools', 'gen_lean.py')])
    try:
        rep = json.loads(out)
    except Exception:
        rep = {'files': {}, 'broken': {'translator': out[-400:]}}
    return rep


class lake_lock:
    """Checks of different properties may run concurrently; their `lake build`s share one build directory, so they
    are serialised with an flock (released by the kernel if the holder dies; the case generation and the drivers,
    which dominate the run time, stay parallel)."""
    def __enter__(self):
        import fcntl
        d = os.path.join(VERIF, 'work', 'locks')
        os.makedirs(d, exist_ok=True)
        self.f = open(os.path.join(d, 'lake.lock'), 'w')
        fcntl.flock(self.f, fcntl.LOCK_EX)
        return self

    def __exit__(self, *a):
        import fcntl
        fcntl.flock(self.f, fcntl.LOCK_UN)
        self.f.close()


def lake_build(targets):
    with lake_lock():
        rc, out = sh(['lake', 'build'] + targets, cwd=LEAN, timeout=3000)
    return rc == 0, out


def strip_lean_comments(text):
    text = re.sub(r'/-.*?-/', '', text, flags=re.S)
    text = re.sub(r'"(?:[^"\\\n]|\\.)*"', '""', text)   # string literals are data, not code
    return '\n'.join(l.split('--')[0] for l in text.split('\n'))


def import_closure(roots):
    """Lean source files (relative module names) reachable from the given modules through `import BddVerif.…`"""
    seen, todo = set(), list(roots)
    while todo:
        m = todo.pop()
        if m in seen:
            continue
        path = os.path.join(LEAN, *m.split('.')) + '.lean'
        if not os.path.exists(path):
            continue
        seen.add(m)
        for mm in re.findall(r'^\s*import\s+(BddVerif(?:\.[A-Za-z0-9_]+)+)', open(path).read(), flags=re.M):
            todo.append(mm)
    return seen


def forbidden_scan(pid):
    """forbidden tokens in the Lean sources this property's theorems, audit and driver depend on"""
    hits = []
    mods = import_closure(['BddVerif.Props.' + pid, 'BddVerif.Audit.' + pid, 'BddVerif.Drive.%sMain' % pid])
    for m in sorted(mods):
        p = os.path.join(LEAN, *m.split('.')) + '.lean'
        for ln, line in enumerate(strip_lean_comments(open(p).read()).split('\n'), 1):
            if FORBIDDEN.search(line):
                hits.append('%s:%d: %s' % (os.path.relpath(p, LEAN), ln, line.strip()[:80]))
    return hits, len(mods)


def audit(pid, theorems):
    """runs the audit twin and returns {theorem: [axioms]} for every theorem it reports"""
    path = os.path.join('BddVerif', 'Audit', pid + '.lean')
    if not os.path.exists(os.path.join(LEAN, path)):
        return {}, 'missing ' + path
    with lake_lock():
        rc, out = sh(['lake', 'env', 'lean', path], cwd=LEAN, timeout=1200)
    res = {}
    for m in re.finditer(r"'([^']+)' depends on axioms: \[([^\]]*)\]", out.replace('\n', ' ')):
        res[m.group(1)] = [a.strip() for a in m.group(2).split(',') if a.strip()]
    for m in re.finditer(r"'([^']+)' does not depend on any axioms", out):
        res[m.group(1)] = []
    return res, ('' if rc == 0 else out[-2000:])


def cargo_build(pid=None):
    cmd = ['cargo', 'build', '--release', '--offline'] + (['--bin', pid.lower()] if pid else ['--bins'])
    rc, out = sh(cmd, cwd=HARNESS, timeout=3000)
    return rc == 0, out


# ------------------------------------------------------------------------------------------------
# correspondence

def run_driver(pid, case_file, shards, exe_name=None):
    """returns list of verdict lines (one per case line)"""
    exe = os.path.join(LEAN, '.lake', 'build', 'bin', exe_name or ('drv_' + pid.lower()))
    lines = open(case_file).read().split('\n')
    if lines and lines[-1] == '':
        lines.pop()
    if not lines:
        return [], []
    shards = max(1, min(shards, len(lines) // 2000 + 1))
    size = (len(lines) + shards - 1) // shards
    chunks = [lines[i:i + size] for i in range(0, len(lines), size)]

    def one(chunk):
        p = subprocess.run([exe], input='\n'.join(chunk) + '\n', stdout=subprocess.PIPE, stderr=subprocess.PIPE, text=True)
        out = p.stdout.split('\n')
        if out and out[-1] == '':
            out.pop()
        if p.returncode != 0 or len(out) != len(chunk):
            # the driver died: pad with a synthetic verdict so that the run is reported as broken
            out = out[:len(chunk)] + ['DRIVERDIED 0 - rc=%s %s' % (p.returncode, p.stderr[-200:].replace('\n', ' '))] * (len(chunk) - len(out))
        return out
    with concurrent.futures.ThreadPoolExecutor(max_workers=shards) as ex:
        outs = list(ex.map(one, chunks))
    verdicts = [v for o in outs for v in o]
    return lines, verdicts


def hang_verdict(pid, hang):
    """A case on which the library did not return within the per-case limit. For inputs the property quantifies over
    this is an outcome it never allows (FAIL). A driver may know that the input lies OUTSIDE the property's quantifier
    (e.g. a variable that is not in the variable set, where the property only requires nothing): it then answers the
    line `<case> => hang` with a plain `DIS` (model disagreement) and the hang is reported as a broken correspondence,
    not as a violation with a failing input. Anything else the driver says (FAIL, bad, dies) keeps the FAIL."""
    line = hang + ' => hang'
    exe = os.path.join(LEAN, '.lake', 'build', 'bin', 'drv_' + pid.lower())
    try:
        p = subprocess.run([exe], input=line + '\n', stdout=subprocess.PIPE, stderr=subprocess.PIPE, text=True, timeout=600)
        v = (p.stdout.strip().split('\n') or [''])[0]
    except Exception:
        v = ''
    if v.split(' ', 1)[0] == 'DIS' and 'model=unparsable:' not in v:   # (`unparsable:` = the driver has no rule for this line)
        return (line, v, 'hang on an input outside the property\'s quantifier (driver: %s)' % v[:200]), False
    return (line, 'FAIL 1 hang clause=outcome:hang', 'clause=outcome:hang (the call did not return within the per-case limit)'), True


def known_findings(pid):
    p = os.path.join(VERIF, 'known_findings.json')
    if not os.path.exists(p):
        return []
    return [f for f in json.load(open(p)).get('findings', []) if f.get('property') == pid and f.get('status') == 'finding']


def case_signature(line):
    return line.split(' =>')[0]


def write_replay(pid, kind, payload):
    os.makedirs(os.path.join(VERIF, 'replays'), exist_ok=True)
    h = hashlib.sha256(json.dumps(payload, sort_keys=True).encode()).hexdigest()[:12]
    path = os.path.join(VERIF, 'replays', '%s-%s-%s.json' % (pid, kind, h))
    payload = dict(payload, property=pid, kind=kind,
                   replay_cmd='cd /verif && ./check %s --replay %s' % (pid, os.path.relpath(path, VERIF)))
    json.dump(payload, open(path, 'w'), indent=1)
    return path


def generate(pid, tier, seed, case_file, cap=None):
    """runs the harness generator; returns (ok, output, hang_line). A case that runs longer than
    VERIF_CASE_TIMEOUT seconds is reported by the harness's watchdog (exit status 3, `<file>.hang`);
    a generator that exceeds the global limit is killed."""
    env = dict(ENV)
    corpus = os.path.join(VERIF, 'corpus', pid + '.cases')
    if os.path.exists(corpus):
        env['VERIF_CORPUS'] = corpus
    if cap:
        env['VERIF_CASE_CAP'] = str(cap)
    limit = int(os.environ.get('VERIF_GEN_TIMEOUT', '900' if tier == 'quick' else '7200'))
    hang_file = case_file + '.hang'
    if os.path.exists(hang_file):
        os.remove(hang_file)
    try:
        p = subprocess.run([harness_bin(pid), 'gen', tier, str(seed), case_file], env=env,
                           stdout=subprocess.PIPE, stderr=subprocess.STDOUT, text=True, timeout=limit)
    except subprocess.TimeoutExpired:
        return False, 'generator killed after %d s' % limit, None
    hang = open(hang_file).read().strip() if os.path.exists(hang_file) else None
    return p.returncode == 0, p.stdout, hang


def classify(lines, verdicts):
    stats = collections.Counter()
    tags = collections.Counter()
    fails, dis, bad = [], [], []
    nontrivial = set()
    for line, v in zip(lines, verdicts):
        parts = v.split(' ', 3)
        st = parts[0]
        stats[st] += 1
        if len(parts) > 2:
            for t in parts[2].split(','):
                if t != '-':
                    tags[t] += 1
        if len(parts) > 1 and parts[1] == '1':
            nontrivial.add(hashlib.blake2b(case_signature(line).encode(), digest_size=8).digest())
        detail = parts[3] if len(parts) > 3 else ''
        if st in ('FAIL', 'DISFAIL'):
            fails.append((line, v, detail))
        if st in ('DIS', 'DISFAIL'):
            dis.append((line, v, detail))
        if st not in ('OK', 'DIS', 'FAIL', 'DISFAIL'):
            bad.append((line, v, detail))
    return stats, tags, fails, dis, bad, len(nontrivial)


def check(pid, tier, seed):
    t0 = time.time()
    os.makedirs(WORK, exist_ok=True)
    os.makedirs(os.path.join(VERIF, 'evidence'), exist_ok=True)
    index = load_index()
    entry = index[pid]
    theorems = entry['theorems']
    violations = []   # (replay path, suffix)
    notes = []
    broken_ties = []  # names of theorems / correspondence streams that no longer check

    # 1. regenerate the translated parts of the model from the current source
    regen = regenerate()
    for f, why in regen.get('broken', {}).items():
        if f in entry.get('gen_files', []) or f == 'translator':
            broken_ties.append('translator:%s: %s' % (f, why))

    # 2. proof obligations
    # proof obligations and the driver are built separately: a broken obligation must not stop
    # the correspondence from running (the search for a failing input needs the driver)
    ok_build, out_build = lake_build(['BddVerif.Props.' + pid, 'BddVerif.Audit.' + pid])
    ok_drv, out_drv = lake_build(['drv_' + pid.lower()])
    axioms, audit_err = ({}, 'build failed') if not ok_build else audit(pid, theorems)
    discharged = 0
    for th in theorems:
        ax = axioms.get(th)
        if ax is None:
            broken_ties.append('theorem:%s: not checked (%s)' % (th, 'build failed' if not ok_build else 'absent from audit output'))
        elif not set(ax) <= ALLOWED_AXIOMS:
            broken_ties.append('theorem:%s: depends on axioms %s' % (th, ax))
        else:
            discharged += 1
    hits, n_mods = forbidden_scan(pid)
    notes.append('forbidden-token scan over %d Lean modules (import closure of the property)' % n_mods)
    if hits:
        broken_ties.append('forbidden tokens in Lean sources: ' + '; '.join(hits[:5]))
    if tier == 'thorough' and ok_build:
        # independent re-check (leanchecker replays the compiled declarations through the kernel) of EVERY module of the
        # project that the property's theorems and audit depend on, not only of the module that states them
        mods = sorted(import_closure(['BddVerif.Props.' + pid, 'BddVerif.Audit.' + pid]))
        def _lc(m):
            return m, sh(['lake', 'env', 'leanchecker', m], cwd=LEAN, timeout=3000)
        with lake_lock():
            with concurrent.futures.ThreadPoolExecutor(max_workers=NCPU) as ex:
                res = list(ex.map(_lc, mods))
        badm = [(m, out) for m, (rc, out) in res if rc != 0]
        if badm:
            broken_ties.append('leanchecker: %d of %d modules rejected, e.g. %s: %s' % (len(badm), len(mods), badm[0][0], badm[0][1][-300:]))
        else:
            notes.append('leanchecker: all %d modules in the import closure of Props.%s and Audit.%s re-checked ok' % (len(mods), pid, pid))

    # 3. correspondence + property predicate on the implementation's outputs
    ok_cargo, out_cargo = cargo_build(pid)
    lines, verdicts = [], []
    stats = collections.Counter(); tags = collections.Counter(); fails = []; dis = []; bad = []; n_nontrivial = 0
    case_file = os.path.join(WORK, '%s.%s.cases' % (pid, tier))
    driver_ok = os.path.exists(os.path.join(LEAN, '.lake', 'build', 'bin', 'drv_' + pid.lower())) and ok_drv
    if not ok_cargo:
        broken_ties.append('harness does not build against the current /repo: ' + out_cargo[-600:])
    elif not driver_ok:
        broken_ties.append('driver:drv_%s does not build: %s' % (pid.lower(), out_drv[-600:]))
    else:
        ok_gen, out_gen, hang = generate(pid, tier, seed, case_file)
        if not ok_gen and not hang:
            broken_ties.append('harness generator died: ' + out_gen[-400:])
        lines, verdicts = run_driver(pid, case_file, NCPU)
        stats, tags, fails, dis, bad, n_nontrivial = classify(lines, verdicts)
        if hang:
            # the library did not return on this input: an outcome the property never allows — unless the driver
            # knows the input to lie outside the property's quantifier (see hang_verdict)
            hv, is_fail = hang_verdict(pid, hang)
            if is_fail:
                fails.append(hv)
                stats['FAIL'] += 1
            else:
                dis.append(hv)
                stats['DIS'] += 1
        if bad:
            broken_ties.append('driver could not process %d cases, e.g. %s -> %s' % (len(bad), bad[0][0][:200], bad[0][1][:200]))

    # 3b. the TRANSLATED model (lean/BddVerif/Gen/Algo.lean, regenerated from the Rust text by
    # tools/rust2lean.py) replays the same observations: statement-by-statement Lean of the current source
    algo = {'handled': 0, 'agree': 0, 'disagree': 0}
    if pid in ALGO_PROPS and lines:
        if 'Algo.lean' in regen.get('broken', {}):
            broken_ties.append('translator:Algo.lean: ' + regen['broken']['Algo.lean'])
        else:
            # drv_algo4 ⊇ drv_algo3 ⊇ drv_algo2 ⊇ drv_algo (four batches of translated functions: Gen/Algo4.lean imports Algo3.lean imports
            # Algo2.lean imports Algo.lean); if a later batch does not translate or compile, fall back to the
            # earlier one and say so
            cascade = ['drv_algo4', 'drv_algo3', 'drv_algo2', 'drv_algo']
            if 'Algo4.lean' in regen.get('broken', {}):
                # fourth batch (owned iterators, rest of the public API, C02 history replay): drv_algo4 ⊇ drv_algo3
                broken_ties.append('translator:Algo4.lean: ' + regen['broken']['Algo4.lean'])
                cascade = cascade[1:]
            if 'Algo3.lean' in regen.get('broken', {}):
                broken_ties.append('translator:Algo3.lean: ' + regen['broken']['Algo3.lean'])
                cascade = ['drv_algo2', 'drv_algo']
            if 'Algo2.lean' in regen.get('broken', {}):
                broken_ties.append('translator:Algo2.lean: ' + regen['broken']['Algo2.lean'])
                cascade = ['drv_algo']
            ok_algo, out_algo, algo_exe = False, '', cascade[-1]
            for exe in cascade:
                ok_algo, out_algo = lake_build([exe])
                algo_exe = exe
                if ok_algo:
                    break
                broken_ties.append('translated model behind %s (regenerated from the current source) does not compile: %s' % (exe, out_algo[-400:]))
            if ok_algo:
                _, averd = run_driver(pid, case_file, NCPU, exe_name=algo_exe)
                adis = []
                for line, v in zip(lines, averd):
                    parts = v.split(' ', 3)
                    if len(parts) > 2 and parts[2] == 'skip':
                        continue
                    algo['handled'] += 1
                    if parts[0] == 'OK':
                        algo['agree'] += 1
                    else:
                        algo['disagree'] += 1
                        adis.append((line, v))
                if adis:
                    adis.sort(key=lambda x: len(x[0]))
                    broken_ties.append('translated model (Gen/Algo.lean) disagrees with the implementation on %d of %d handled cases, e.g. %s -> %s' % (len(adis), algo['handled'], adis[0][0][:300], adis[0][1][:200]))
                    dis = dis + [(l, v, 'translated-model ' + v[:200]) for l, v in adis[:20]]

    # 4. classification (DESIGN.md §6)
    known = known_findings(pid)
    known_sigs = {f['signature']: f for f in known}
    reported_known = set()
    new_fails = []
    for line, v, detail in fails:
        sig = case_signature(line)
        if sig in known_sigs:
            if sig not in reported_known:
                reported_known.add(sig)
                print('KNOWN-FINDING: property=%s %s' % (pid, known_sigs[sig].get('what', sig)))
        else:
            new_fails.append((line, v, detail))
    if new_fails:
        new_fails.sort(key=lambda x: len(x[0]))
        line, v, detail = new_fails[0]
        path = write_replay(pid, 'fail', {'case': line, 'verdict': v, 'clause': detail, 'seed': seed, 'tier': tier,
                                          'failing_cases_in_run': len(new_fails),
                                          'more_cases': [x[0] for x in new_fails[1:6]]})
        violations.append((path, ''))
    elif broken_ties or dis:
        # the model no longer follows the code (or a proof obligation broke): search for a failing input
        found = None
        if ok_cargo and driver_ok and tier != 'thorough':
            sfile = os.path.join(WORK, '%s.search.cases' % pid)
            ok_gen, _, shang = generate(pid, 'thorough', seed + 1, sfile, cap=int(os.environ.get('VERIF_SEARCH_CAP', '400000')))
            sl, sv = run_driver(pid, sfile, NCPU)
            _, _, sfails, _, _, _ = classify(sl, sv)
            if shang:
                hv, is_fail = hang_verdict(pid, shang)
                if is_fail:
                    sfails.append(hv)
            sfails = [x for x in sfails if case_signature(x[0]) not in known_sigs]
            if sfails:
                sfails.sort(key=lambda x: len(x[0]))
                found = sfails[0]
        if found:
            line, v, detail = found
            path = write_replay(pid, 'fail', {'case': line, 'verdict': v, 'clause': detail, 'seed': seed + 1, 'tier': 'search',
                                              'found_by': 'search after broken tie', 'broken': broken_ties[:10],
                                              'disagreements': [x[0] for x in dis[:5]]})
            violations.append((path, ''))
        else:
            path = write_replay(pid, 'tie', {'no_longer_checks': broken_ties[:20] + (['correspondence:%s: %d of %d cases disagree with the model' % (pid, len(dis), len(lines))] if dis else []),
                                             'disagreements': [{'case': x[0], 'model': x[2]} for x in sorted(dis, key=lambda x: len(x[0]))[:10]],
                                             'seed': seed, 'tier': tier})
            violations.append((path, ' no-failing-input-found'))

    # 5. evidence
    samples = []
    seen_keys = set()
    for line in lines:
        k = line.split(' ', 1)[0]
        if k not in seen_keys:
            seen_keys.add(k); samples.append(line[:600])
        if len(samples) >= 8:
            break
    ev = {
        'property_id': pid, 'tier': tier, 'seed': seed, 'level': 'proof',
        'coverage': {
            'obligations': len(theorems), 'discharged': discharged,
            'checker_cmd': 'cd /verif/lean && lake build BddVerif.Props.%s && lake env lean BddVerif/Audit/%s.lean' % (pid, pid) + (' && lake env leanchecker BddVerif.Props.%s' % pid if tier == 'thorough' else ''),
            'trusted_base': ['Lean 4.33.0 kernel', 'axioms: ' + ', '.join(sorted({a for th in theorems for a in axioms.get(th, [])})) if axioms else 'axioms: (none reported)',
                             'hand-written Lean model of the anchored Rust code, tied to /repo by differential correspondence on this run (harness/, drv_%s)' % pid.lower(),
                             'tools/gen_lean.py for the regenerated tables', 'rustc/std, Lean compiler for the executable driver'] + entry.get('trusted', []),
            'theorems': theorems,
            'not_proved': entry.get('not_proved', []),
            'partial': entry.get('partial', ''),
            'evaluations': len(lines),
            'distinct_nontrivial': n_nontrivial,
            'rule': entry.get('rule', 'cases are (operation, inputs) lines produced by harness/src/%s.rs; distinct = distinct input part of the line; non-trivial = flagged by the Lean driver' % pid.lower()),
            'samples': samples or ['(no case was run)'],
            'traces_validated_against_impl': stats.get('OK', 0) + stats.get('FAIL', 0),
            'disagreements_checked': len(dis),
            'outcomes': dict(stats),
            'input_distribution': dict(tags.most_common(40)),
            'regenerated_files': regen.get('files', {}),
            'translated_model_replay': algo if pid in ALGO_PROPS else 'not applicable (no translated function for this property)',
            'broken_ties': broken_ties[:20],
            'exhaustive': bool(entry.get('exhaustive_' + tier, False)),
            'notes': notes,
        },
        'assumptions': entry.get('assumptions', []),
        'wall_s': round(time.time() - t0, 2),
        'violations': len(violations),
    }
    if discharged == 0:
        # no proof obligation was discharged on this run (the theorems did not build against the current source): the
        # evidence must not claim the level `proof`; what this run did establish is the differential correspondence
        if lines:
            ev['level'] = 'translation_validation'
            ev['coverage']['programs'] = len(lines)
        else:
            ev['level'] = 'other'
            ev['coverage']['explanation'] = ('neither the proof obligations nor the correspondence could be run against the current '
                                             'source: ' + '; '.join(broken_ties[:3]))[:2000]
    json.dump(ev, open(os.path.join(VERIF, 'evidence', pid + '.json'), 'w'), indent=1)
    for path, suffix in violations:
        print('VIOLATION property=%s replay=%s%s' % (pid, path, suffix))
    print('%s %s: %d cases, outcomes %s, theorems %d/%d, %.1fs' % (pid, tier, len(lines), dict(stats), discharged, len(theorems), time.time() - t0))
    return 1 if violations else 0


def replay(pid, path):
    rp = json.load(open(path))
    if 'case' not in rp:
        print('replay file records a broken tie, not an input: ' + '; '.join(rp.get('no_longer_checks', [])[:3]))
        # re-run the quick check: it reports whether the tie still fails
        return check(pid, 'quick', int(rp.get('seed', 1)))
    ok_cargo, out = cargo_build(pid)
    ok_build, outb = lake_build(['drv_' + pid.lower()])
    if not (ok_cargo and ok_build):
        print('cannot build: ' + (out if not ok_cargo else outb)[-400:])
        return 1
    p = subprocess.run([harness_bin(pid), 'replay', rp['case']], stdout=subprocess.PIPE, stderr=subprocess.STDOUT, text=True, env=ENV)
    fresh = p.stdout.strip().split('\n')[0]
    os.makedirs(WORK, exist_ok=True)
    f = os.path.join(WORK, pid + '.replay.cases')
    open(f, 'w').write(fresh + '\n')
    lines, verdicts = run_driver(pid, f, 1)
    print('case:    ' + fresh[:1000])
    print('verdict: ' + (verdicts[0] if verdicts else '(none)'))
    if verdicts and verdicts[0].split(' ')[0] in ('FAIL', 'DISFAIL'):
        print('VIOLATION property=%s replay=%s' % (pid, path))
        return 1
    return 0


def setup():
    """MANIFEST.setup_cmd: regenerate, then build the Lean targets and harness binaries of every
    CLAIMED property (unclaimed, in-progress properties cannot break the setup)."""
    regenerate()
    idx = load_index()
    claimed = [p for p in idx if idx[p].get('claimed')]
    targets = []
    for p in claimed:
        targets += ['BddVerif.Props.' + p, 'BddVerif.Audit.' + p, 'drv_' + p.lower()]
    ok, out = lake_build(targets + ['drv_algo', 'drv_algo2', 'drv_algo3', 'drv_algo4'])
    if not ok:
        print(out[-3000:])
        for p in claimed:
            okp, outp = lake_build(['BddVerif.Props.' + p, 'BddVerif.Audit.' + p, 'drv_' + p.lower()])
            print('lean %s: %s' % (p, 'ok' if okp else 'FAILED'))
    else:
        print('lean build ok (%d properties)' % len(claimed))
    ok2 = True
    cmd = ['cargo', 'build', '--release', '--offline'] + [x for p in claimed for x in ('--bin', p.lower())]
    rc, out2 = sh(cmd, cwd=HARNESS, timeout=3000)
    if rc != 0:
        ok2 = False
        print(out2[-3000:])
    else:
        print('harness build ok')
    return 0 if ok and ok2 else 1


LOCKS = os.path.join(VERIF, 'work', 'locks')


def _alive(pid):
    try:
        os.kill(pid, 0)
        return True
    except OSError:
        return False


def courtesy_lock():
    """Development aid only (nothing is locked in normal use): while tools/mutant_test.py has a seeded change applied
    to /repo it holds work/locks/mutation; a check started by someone else waits (at most 40 min, and only while the
    holder is alive) instead of judging the mutated tree. Every running check announces itself in work/locks/check.<pid>
    so that mutant_test.py can wait for it before touching /repo."""
    os.makedirs(LOCKS, exist_ok=True)
    mine = os.path.join(LOCKS, 'check.%d' % os.getpid())
    mut = os.path.join(LOCKS, 'mutation')
    t0 = time.time()
    while os.environ.get('VERIF_MUTANT') != '1' and time.time() - t0 < 2400:
        try:
            holder = int(open(mut).read().strip() or '0')
        except Exception:
            break
        if not _alive(holder):
            break
        time.sleep(2)
    open(mine, 'w').write(str(os.getpid()))
    import atexit
    atexit.register(lambda: os.path.exists(mine) and os.remove(mine))


def main():
    a = sys.argv[1:]
    if a and a[0] == 'setup':
        sys.exit(setup())
    courtesy_lock()
    pid = a[0]
    seed = int(os.environ.get('VERIF_SEED', '1') or '1')
    if '--replay' in a:
        sys.exit(replay(pid, a[a.index('--replay') + 1]))
    tier = a[1] if len(a) > 1 else os.environ.get('VERIF_TIER', 'quick')
    sys.exit(check(pid, tier, seed))


if __name__ == '__main__':
    main()
