#!/usr/bin/env python3
"""rust2lean — source-to-source translator from a subset of Rust to Lean 4 (`do`-notation in the `B.Outcome` monad).

Regenerates `lean/BddVerif/Gen/Algo.lean` from the CURRENT text of the library's algorithms, statement by
statement (explicit stacks, caches, loops with fuel, early returns), so that a change of the Rust source is a
change of the generated Lean definitions. Anything outside the supported subset is a hard error (exit status 3,
message naming file / function / construct): never guessed, never skipped.

usage: rust2lean.py [--repo DIR] [--out FILE] [--only name,name] [--debug-assertions] [--report] [--first-only]
(writes FILE = …/Gen/Algo.lean and, next to it, Algo2.lean with the second batch of targets)

Front end (tools/rust2lean_lib): tokenizer, item scanner (bodies of functions nobody asks for are not parsed),
recursive-descent parser, a light type inference (enough to resolve methods, `.0`, casts, indexing), and a
translator that first tries a PURE definition (expression-bodied function without panics) and otherwise emits a
`do` block in `B.Outcome`. Callees are translated on demand (transitive closure of the TARGETS list).

SUPPORTED: fn items with generics / where clauses whose bounds are `Fn(..) -> ..`; `&self`/`&mut self`/`&mut` params
(returned next to the result); inner `fn` (fuel-bounded recursion: `match fuel with | 0 => panic | fuel+1 => ..`);
local and crate `struct`s with named fields (as products); associated types (`Self::Item`); `let`, `let mut`,
`let .. else`, assignment and compound assignment to variables / fields / indices / `*deref`; literals, paths, calls,
method calls, closures without effects, field and tuple-field access, indexing (`Vec`, slices, `BddValuation`,
`BddPartialValuation`), `slice[a..]`, tuples, struct literals, blocks, `unsafe` blocks, `if`, `if let`, `match`
(tuple / `Some` / `None` / `Ok` / `Err` / newtype / literal / struct patterns), `while`, `while let` (incl. `x.pop()`),
`loop`, `for` over ranges / slices / materialised iterator chains (`iter into_iter cloned skip rev enumerate map
filter filter_map`) / `iter_mut()[.skip(k)]` (write-back loop), `return`, `break`, `continue`, `?`, `as` between
unsigned integers, `&`/`&mut`/`*` (erased), `panic! unreachable! assert! assert_eq! assert_ne! debug_assert!
vec! format!`, `std::mem::swap`, `min`/`max`, `Vec`/`HashMap`/`HashSet`/`Option`/`Result` methods listed in
rust2lean_lib/methods.py, `checked_add`, `u16::try_from`, `usize::from`, `BigInt::from`.
REJECTED (exit 3): floats and signed integers, strings other than literals / `format!` templates, raw / byte
strings, `char`, loop labels, `break` with value, let-chains, match guards, or-/range-/`@`-patterns, closures whose
body can panic or mutate, function values that are not pure, `dyn`/`impl Trait` other than one `Fn` bound, traits,
enums, const generics, mutual recursion, functions returning `&mut` (e.g. `mut_cell`: its callers `set_value` /
`unset_value` / `IndexMut` are in the shim), iteration over `HashMap`/`HashSet`, `HashMap::insert` whose result
is used, `break`/`continue` inside an `iter_mut` loop, unary minus, BigInt subtraction, unknown macros / methods.
SECOND BATCH (Gen/Algo2.lean) additionally uses: `crate::op_function::{and,or,imp,iff,xor,and_not}` as the regenerated
tables `Gen.and_` … (Gen/OpTables.lean); `R: Rng` = list of recorded coin flips, `rng.gen_bool(0.5)` = `Rust.genBool`;
`H: Hasher` = list of `(width, value)` writes; unconstrained type parameters (`{E : Type}`), `Ok::<T, E>(x)`;
`std::cmp::Ordering`, `.cmp()` on integers and on iterators of integer triples; derived `<`/`>` on `(unsigned, bool)`;
or-patterns without bindings; `for x in &mut v[a..b]`; `all`/`any`/`map` whose closure can panic (as explicit loops);
`unwrap_or_else(|| …)`; `zip`; `collect` into `HashMap`/`HashSet`; `HashSet::from_iter`; `format!` with plain `{}`
placeholders over integers/strings as data; `if let Some(r) = map.get_mut(&k) { *r = … }` (write-through alias);
a Rust re-declaration of a `let mut` name (numbered Lean name); `&mut dyn Read` / `&mut dyn Write` as scripted byte
devices with std's `read_exact` / `write_all` (Gen/RustShimIO.lean), `to_le_bytes`/`from_le_bytes`, `[x; n]`, `io::Error`,
`ErrorKind`, and `Vec<u8>` / `&[u8]` passed where a `dyn Write` / `dyn Read` is expected.
HASH ORDER: `Vec::from_iter(set)`, `set.into_iter()`, `map.into_iter()` yield values in hash order. They are typed
`uvec`/`uiter`: only `len`, `is_empty`, `sort` (which makes the vector an ordinary one), `map`, and `collect` back into a
hash container are accepted; indexing or iterating them is rejected.
THIRD BATCH (Gen/Algo3.lean) additionally uses: `enum`s with unit / tuple variants as generated `inductive`s (`Box`
erased, nested `Vec<Self>` = `Array`, `derive(PartialEq)` = `deriving BEq`), constructor calls / paths / patterns
(qualified, or bare through `use Enum::*` / `use Enum::Variant`), `..` in tuple-variant patterns, `matches!`; crate-level
`const`s (parameterless defs); `char` (`Char` literals and patterns, `is_whitespace`), `String`/`&str` = Lean `String`
(`chars`, `split(char)`, `parse::<u16|u32>`, `retain`, `push`, `push_str`, `as_bytes`, `is_empty`, `collect` of chars,
`String::from_utf8`), `Chars`/`Peekable<Chars>` = the list of remaining characters (`next`, `peek`, `while let Some(c) =
it.next()`); a leading `name if cond` match arm; slices `v[..a]`, `v[a..]`, `v[a..b]`; MUTUAL RECURSION (a `mutual` block,
every member structurally recursive on `fuel`); `write!`/`writeln!` into a `fmt::Formatter` (= the `String` written so
far) or a `dyn Write` (one `write_all` per literal piece and per argument, as std's `write_fmt`), `Display` impls of crate
types, `to_string()` / `format!("{}", x)` through them (`Display` of `BddVariable`/`BddPointer` is checked to be the plain
decimal printer); `read_to_string` (the read sizes chosen by std are an environment parameter of the reader); type
parameters with a `ToString` bound (`[ToString E]`), `map_err`, `Option::map` / `unwrap_or_else` whose closure can panic.
Generated names never shadow Lean core names (`and`, `or`, `xor`, … get the file stem as a prefix: `parser__and`).
FOURTH BATCH (Gen/Algo4.lean) additionally uses: `x.into()` through the crate's `impl From<typeof x> for <expected type>`;
`f.write_fmt(format_args!(…))` (= `write!`); `i32::from(bool)` (0/1); tuple structs (products of their positional fields;
`.0`, constructor calls, also `super::Name(..)`); `T: IntoIterator<Item = X>` (a materialised sequence); `impl … for &str`;
or-patterns whose alternatives bind the same names; several impls of one method name for one type (target index; numbered
Lean names `stem__Name_2`). Gen/COVERAGE.md (and the header of Gen/Algo4.lean) lists EVERY function of the crate outside test
code with the batch that translates it or the reason why not — produced by trying to translate each of them.
NOT TRANSLATED (constructs): `Bdd::cardinality` (f64), `BddVariableSetBuilder::make` (const generics), functions that return a
`&mut` (`BddPartialValuation::mut_cell`, the two `IndexMut::index_mut`; `set_value`/`unset_value` are shimmed), `bdd!`
(macro_rules, Gen/MacroRules.lean), serde impls (feature-gated).
SEMANTIC CONVENTIONS: integers are `Nat`; `a - b` panics on underflow; `as u16`/`as u32` truncate; `+`, `*`, `<<` are
not range-checked; `debug_assert!` is a comment unless --debug-assertions (the harness is a release build);
`format!` keeps only its template (messages are never compared); hash-map capacity / hasher are dropped.
"""
import os
import sys
import json
import hashlib

sys.path.insert(0, os.path.dirname(os.path.abspath(__file__)))
from rust2lean_lib.lexer import R2LError          # noqa: E402
from rust2lean_lib.fntr import Translator          # noqa: E402

# (file, owner, function) in priority order
TARGETS = [
    ('src/_impl_bdd/_impl_boolean_ops.rs', None, 'apply_with_flip'),
    ('src/_impl_bdd/_impl_boolean_ops.rs', None, 'check_flip_bounds'),
    ('src/_impl_bdd/_impl_boolean_ops.rs', None, 'apply_with_flip_and_limit'),
    ('src/_impl_bdd/_impl_boolean_ops.rs', None, 'estimated_apply_complexity'),
    ('src/_impl_bdd/_impl_boolean_ops.rs', 'Bdd', 'not'),
    ('src/_impl_bdd/_impl_ternary_ops.rs', None, 'ternary_apply'),
    ('src/_impl_bdd/_impl_nested_ops.rs', None, 'inner_apply'),
    ('src/_impl_bdd/_impl_nested_ops.rs', None, 'fix_bdd_alignment'),
    ('src/_impl_bdd/_impl_nested_ops.rs', None, 'nested_apply'),
    ('src/_impl_bdd/_impl_relation_ops.rs', None, 'restriction'),
    ('src/_impl_bdd/_impl_util.rs', 'Bdd', 'exact_cardinality'),
    ('src/_impl_bdd/_impl_util.rs', 'Bdd', 'exact_clause_cardinality'),
    ('src/_impl_bdd/_impl_util.rs', 'Bdd', 'sat_witness'),
    ('src/_impl_bdd/_impl_util.rs', 'Bdd', 'is_valuation'),
    ('src/_impl_bdd/_impl_util.rs', 'Bdd', 'is_clause'),
    ('src/_impl_bdd/_impl_util.rs', 'Bdd', 'support_set'),
    ('src/_impl_bdd/_impl_util.rs', 'Bdd', 'validate'),
    ('src/_impl_bdd/_impl_util.rs', 'Bdd', 'from_nodes'),
    ('src/_impl_bdd/_impl_util.rs', 'Bdd', 'mk_partial_valuation'),
    ('src/_impl_bdd_valuation.rs', 'Bdd', 'eval_in'),
    ('src/_impl_bdd_valuation.rs', 'BddValuation', 'next'),
    ('src/_impl_bdd_path_iterator.rs', None, 'continue_path'),
    ('src/_impl_bdd_path_iterator.rs', None, 'make_clause'),
    ('src/_impl_bdd_path_iterator.rs', 'BddPathIterator', 'next'),
    ('src/_impl_bdd/_impl_dnf.rs', 'Bdd', 'to_dnf'),
    ('src/_impl_bdd/_impl_cnf.rs', 'Bdd', 'to_cnf'),
    # thin public wrappers around the above (so that the driver can enter through the public API)
    ('src/_impl_bdd/_impl_boolean_ops.rs', None, 'apply'),
    ('src/_impl_bdd/_impl_boolean_ops.rs', 'Bdd', 'binary_op'),
    ('src/_impl_bdd/_impl_boolean_ops.rs', 'Bdd', 'binary_op_with_limit'),
    ('src/_impl_bdd/_impl_boolean_ops.rs', 'Bdd', 'fused_binary_flip_op'),
    ('src/_impl_bdd/_impl_boolean_ops.rs', 'Bdd', 'fused_binary_flip_op_with_limit'),
    ('src/_impl_bdd/_impl_boolean_ops.rs', 'Bdd', 'check_binary_op'),
    ('src/_impl_bdd/_impl_boolean_ops.rs', 'Bdd', 'check_fused_binary_flip_op'),
    ('src/_impl_bdd/_impl_ternary_ops.rs', 'Bdd', 'ternary_op'),
    ('src/_impl_bdd/_impl_ternary_ops.rs', 'Bdd', 'fused_ternary_flip_op'),
    ('src/_impl_bdd/_impl_nested_ops.rs', 'Bdd', 'binary_op_nested'),
    ('src/_impl_bdd_partial_valuation.rs', 'BddPartialValuation', 'from_values'),
    ('src/_impl_bdd/_impl_relation_ops.rs', 'Bdd', 'restrict'),
    ('src/_impl_bdd/_impl_relation_ops.rs', 'Bdd', 'var_restrict'),
    ('src/_impl_bdd/_impl_util.rs', 'Bdd', 'mk_literal'),
    ('src/_impl_bdd_path_iterator.rs', 'BddPathIterator', 'new'),
    ('src/_impl_iterator_valuations_of_clause.rs', 'ValuationsOfClauseIterator', 'new'),
    ('src/_impl_iterator_valuations_of_clause.rs', 'ValuationsOfClauseIterator', 'next'),
]

VU = 'src/_impl_bdd/_impl_valuation_utils.rs'
RO = 'src/_impl_bdd/_impl_relation_ops.rs'
NO = 'src/_impl_bdd/_impl_nested_ops.rs'
UT = 'src/_impl_bdd/_impl_util.rs'
BO = 'src/_impl_bdd/_impl_boolean_ops.rs'
VS = 'src/_impl_bdd_variable_set.rs'
SO = 'src/_impl_bdd/_impl_sort.rs'
SE = 'src/_impl_bdd/_impl_serialisation.rs'
PV = 'src/_impl_bdd_partial_valuation.rs'
BV = 'src/_impl_bdd_valuation.rs'
# second batch (Gen/Algo2.lean)
TARGETS2 = [
    (VU, 'Bdd', 'first_valuation'), (VU, 'Bdd', 'last_valuation'), (VU, 'Bdd', 'first_clause'), (VU, 'Bdd', 'last_clause'),
    (VU, 'Bdd', 'most_positive_valuation'), (VU, 'Bdd', 'most_negative_valuation'),
    (VU, 'Bdd', 'most_fixed_clause'), (VU, 'Bdd', 'most_free_clause'), (VU, 'Bdd', 'necessary_clause'),
    (VU, 'Bdd', 'random_valuation'), (VU, 'Bdd', 'random_clause'),
    (BO, 'Bdd', 'and'), (BO, 'Bdd', 'or'), (BO, 'Bdd', 'imp'), (BO, 'Bdd', 'iff'), (BO, 'Bdd', 'xor'), (BO, 'Bdd', 'and_not'),
    (NO, 'Bdd', 'binary_op_with_exists'), (NO, 'Bdd', 'binary_op_with_for_all'),
    (RO, 'Bdd', 'var_exists'), (RO, 'Bdd', 'var_for_all'), (RO, 'Bdd', 'exists'), (RO, 'Bdd', 'for_all'),
    (RO, 'Bdd', 'var_project'), (RO, 'Bdd', 'project'),
    (RO, 'Bdd', 'var_select'), (RO, 'Bdd', 'select'), (RO, None, 'sorted'),
    (RO, 'Bdd', 'var_pick'), (RO, 'Bdd', 'var_pick_random'), (RO, 'Bdd', 'pick'), (RO, 'Bdd', 'pick_random'),
    (UT, 'Bdd', 'set_num_vars'), (UT, 'Bdd', 'rename_variables'), (UT, 'Bdd', 'rename_variable'), (UT, 'Bdd', 'substitute'),
    (UT, 'Bdd', 'size_per_variable'),
    (VS, 'BddVariableSet', 'new_anonymous'), (VS, 'BddVariableSet', 'var_by_name'), (VS, 'BddVariableSet', 'name_of'),
    (VS, 'BddVariableSet', 'mk_conjunctive_clause'), (VS, 'BddVariableSet', 'mk_disjunctive_clause'),
    (VS, 'BddVariableSet', 'mk_sat_up_to_k'), (VS, 'BddVariableSet', 'mk_sat_exactly_k'), (VS, 'BddVariableSet', 'transfer_from'),
    (VS, 'BddVariableSet', 'mk_true'), (VS, 'BddVariableSet', 'mk_false'), (VS, 'BddVariableSet', 'mk_var'),
    (VS, 'BddVariableSet', 'mk_not_var'), (VS, 'BddVariableSet', 'mk_literal'),
    (VS, 'BddVariableSet', 'mk_var_by_name'), (VS, 'BddVariableSet', 'mk_not_var_by_name'),
    ('src/_impl_bdd/_impl_dnf.rs', 'Bdd', 'mk_dnf'), ('src/_impl_bdd/_impl_cnf.rs', 'Bdd', 'mk_cnf'),
    (VS, 'BddVariableSet', 'mk_dnf'), (VS, 'BddVariableSet', 'mk_cnf'),
    ('src/_impl_bdd/_impl_dnf.rs', 'Bdd', '_to_optimized_dnf'), ('src/_impl_bdd/_impl_dnf.rs', 'Bdd', 'to_optimized_dnf'),
    (SO, 'Bdd', 'cmp_size'), (SO, 'Bdd', 'cmp_cardinality'), (SO, 'Bdd', 'cmp_cardinality_strict'), (SO, 'Bdd', 'cmp_implies'),
    (SO, 'Bdd', 'cmp_structural'),
    (PV, 'BddPartialValuation', 'is_empty'), (PV, 'BddPartialValuation', 'cardinality'), (PV, 'BddPartialValuation', 'last_fixed_variable'),
    (PV, 'BddPartialValuation', 'extends'), (PV, 'BddPartialValuation', 'eq'), (PV, 'BddPartialValuation', 'hash'),
    (PV, 'BddPartialValuation', 'from'),
    (BV, 'BddValuation', 'extends'), (BV, 'BddValuation', 'to_values'), (BV, 'BddValuation', 'try_from'), (BV, 'Bdd', 'from'),
    (SE, 'Bdd', 'write_as_bytes'), (SE, 'Bdd', 'read_as_bytes'), (SE, 'Bdd', 'to_bytes'), (SE, 'Bdd', 'from_bytes'),
]

HEADER = '''import BddVerif.Gen.RustShim
import BddVerif.Model.Apply
/-!
GENERATED by tools/rust2lean.py from the Rust sources of the library — DO NOT EDIT; regenerated on every run.

Each definition follows one Rust function statement by statement (the Rust source line is quoted above every
translated statement). Functions that can panic / loop / return early live in the `B.Outcome` monad; `while`,
`while let` and `loop` are `for _ in [0:fuel]` loops followed by a check that turns fuel exhaustion into
`Outcome.panic "fuel"`; a `&mut` parameter is returned next to the result. Std / plumbing primitives come from the
hand-written `BddVerif/Gen/RustShim.lean` (`Rust.*`).
-/
set_option linter.unusedVariables false
set_option linter.constructorNameAsVariable false
namespace B.Gen.Algo
open B B.Gen
/- same operations as the `Monad Outcome` instance of Model/Outcome.lean, but inlined by the compiler (see RustShim) -/
attribute [local instance 10000] Rust.monadOutcomeInline
'''


PA = 'src/boolean_expression/_impl_parser.rs'
VB = 'src/_impl_bdd_variable_set_builder.rs'
DO = 'src/_impl_bdd/_impl_export_dot.rs'
SV = 'src/_impl_bdd_satisfying_valuations.rs'
BE = 'src/boolean_expression/_impl_boolean_expression.rs'
# third batch (Gen/Algo3.lean): strings, characters, enums
TARGETS3 = [
    (PA, None, 'tokenize_group'), (PA, None, 'index_of_first'), (PA, None, 'parse_formula'), (PA, None, 'parse_boolean_expression'),
    (BE, 'BooleanExpression', 'fmt'), (BE, 'BooleanExpression', 'try_from'),
    (BE, 'BddVariableSet', 'safe_eval_expression'), (BE, 'BddVariableSet', 'eval_expression'), (BE, 'BddVariableSet', 'eval_expression_string'),
    (UT, 'Bdd', 'to_boolean_expression'),
    (VS, 'BddVariableSet', 'new'), (VS, 'BddVariableSet', 'variables'), (VS, 'BddVariableSet', 'variable_names'), (VS, 'BddVariableSet', 'num_vars'),
    (VB, 'BddVariableSetBuilder', 'new'), (VB, 'BddVariableSetBuilder', 'make_variable'), (VB, 'BddVariableSetBuilder', 'make_variables'),
    (VB, 'BddVariableSetBuilder', 'build'),
    (DO, None, 'write_bdd_as_dot'), (DO, None, 'bdd_to_dot_string'), (DO, 'Bdd', 'write_as_dot_string'), (DO, 'Bdd', 'to_dot_string'),
    (SV, 'Bdd', 'sat_valuations'), (SV, 'BddSatisfyingValuations', 'next'), (SV, 'Bdd', 'sat_clauses'),
    (SE, None, 'lift_err'), (SE, 'Bdd', 'write_as_string'), (SE, 'Bdd', 'read_as_string'), (SE, 'Bdd', 'from_string'), (SE, 'Bdd', 'fmt'),
]

PI = 'src/_impl_bdd_path_iterator.rs'
MB = 'src/_macro_bdd.rs'
OF = 'src/op_function.rs'
LI = 'src/lib.rs'
VC = 'src/_impl_iterator_valuations_of_clause.rs'
# fourth batch (Gen/Algo4.lean): the owned iterator twins and the rest of the public API that is expressible
TARGETS4 = [
    (PI, 'OwnedBddPathIterator', 'new'), (PI, 'OwnedBddPathIterator', 'from'), (PI, 'Bdd', 'from'), (PI, 'OwnedBddPathIterator', 'next'),
    (SV, 'Bdd', 'into_sat_valuations'), (SV, 'Bdd', 'into_sat_clauses'), (SV, 'OwnedBddSatisfyingValuations', 'next'),
    (SV, 'OwnedBddSatisfyingValuations', 'from'), (SV, 'Bdd', 'from'),
    (UT, 'Bdd', 'to_nodes'), (BV, 'BddValuation', 'vector'), (BV, 'BddValuation', 'index'), (BV, 'BddValuation', 'fmt'),
    (BV, 'BddValuationIterator', 'new'), (BV, 'BddValuationIterator', 'next'),
    (PV, 'BddPartialValuation', 'default'), (PV, 'BddPartialValuation', 'index'),
    (VC, 'ValuationsOfClauseIterator', 'new_unconstrained'),
    (VS, 'BddVariableSet', 'variable_name_assignment'), (VS, 'BddVariableSet', 'fmt'), (VS, 'BddVariableSet', 'from_iter'),
    (VS, 'BddVariableSet', 'from', 0), (VS, 'BddVariableSet', 'from', 1),
    (VB, 'BddVariableSetBuilder', 'default'),
    ('src/_impl_bdd_pointer.rs', 'BddPointer', 'fmt'), ('src/_impl_bdd_variable.rs', 'BddVariable', 'fmt'),
    (MB, 'BddVariable', 'into_bdd'), (MB, 'Bdd', 'into_bdd', 0), (MB, 'Bdd', 'into_bdd', 1), (MB, 'str', 'into_bdd'),
    (OF, None, 'and'), (OF, None, 'or'), (OF, None, 'imp'), (OF, None, 'iff'), (OF, None, 'xor'), (OF, None, 'and_not'),
    (BE, 'BooleanExpression', 'support_set'),
]

HEADER4 = '''import BddVerif.Gen.Algo3
/-!
GENERATED by tools/rust2lean.py from the Rust sources of the library — DO NOT EDIT; regenerated on every run.
Fourth batch of translated functions (same conventions as Gen/Algo.lean … Gen/Algo3.lean, whose definitions it reuses):
the OWNED iterator twins (`OwnedBddPathIterator`, `OwnedBddSatisfyingValuations`: hand-maintained textual copies of the
borrowed iterators in the Rust source, translated independently of them), and the remaining expressible public items.

%s
-/
set_option linter.unusedVariables false
set_option linter.constructorNameAsVariable false
namespace B.Gen.Algo4
open B B.Gen B.Gen.Algo B.Gen.Algo2 B.Gen.Algo3
attribute [local instance 10000] Rust.monadOutcomeInline
'''

HEADER3 = '''import BddVerif.Gen.Algo2
import BddVerif.Gen.RustShimStr
/-!
GENERATED by tools/rust2lean.py from the Rust sources of the library — DO NOT EDIT; regenerated on every run.
Third batch of translated functions (same conventions as Gen/Algo.lean / Gen/Algo2.lean, whose definitions it reuses):
code over characters, strings and `enum`s. `String`/`&str` = `String`, `char` = `Char`, `Chars`/`Peekable<Chars>` = the
list of remaining characters, a Rust `enum` = a generated `inductive` (`Box` erased), `fmt::Formatter` = the `String`
written so far, mutually recursive functions = a `mutual` block with structural recursion on `fuel`.
-/
set_option linter.unusedVariables false
set_option linter.constructorNameAsVariable false
namespace B.Gen.Algo3
open B B.Gen B.Gen.Algo B.Gen.Algo2
attribute [local instance 10000] Rust.monadOutcomeInline
'''

HEADER2 = '''import BddVerif.Gen.Algo
import BddVerif.Gen.RustShimIO
import BddVerif.Gen.OpTables
/-!
GENERATED by tools/rust2lean.py from the Rust sources of the library — DO NOT EDIT; regenerated on every run.
Second batch of translated functions (same conventions as Gen/Algo.lean, whose definitions it reuses).
`crate::op_function::{and,or,…}` are the regenerated tables `Gen.and_`, `Gen.or_`, … of Gen/OpTables.lean;
a `rand::Rng` argument is the list of recorded coin flips (`Rust.genBool`).
-/
set_option linter.unusedVariables false
set_option linter.constructorNameAsVariable false
namespace B.Gen.Algo2
open B B.Gen B.Gen.Algo
attribute [local instance 10000] Rust.monadOutcomeInline
'''


def find_target(tr, file, owner, name, index=0):
    tr.crate.load(file)
    pool = tr.crate.methods.get((owner, name), []) if owner else tr.crate.free.get(name, [])
    cands = [c for c in pool if c.file == file]
    if owner:
        # several impls of one method name for one type in one file (`impl From<A> for T`, `impl From<B> for T`):
        # `index` picks the impl in source order (default: the first)
        cands = cands[index:index + 1]
    if len(cands) != 1:
        raise R2LError('target function %s%s not found (or ambiguous)' % ((owner + '::') if owner else '', name), file)
    return cands[0]


def _render(header, ns, stats, output):
    parts = [header]
    parts.append('/-! translated functions (Rust name ↦ Lean name, kind, generated lines):')
    for q, lean, kind, n, f, ln in stats:
        parts.append('  %s ↦ %s  [%s, %d lines]  %s:%d' % (q, lean, kind, n, f, ln))
    parts.append('-/\n')
    for lean, text, item in output:
        parts.append(text)
        parts.append('')
    parts.append('end ' + ns)
    return '\n'.join(parts) + '\n'


_CACHE = {}


def generate_all(repo, only=None, debug_assertions=False, second=True, tolerant=False, third=False, fourth=False):
    """returns {'Algo.lean': (text, stats), 'Algo2.lean': (text, stats)}; raises R2LError.
    Algo.lean holds TARGETS and their callees, Algo2.lean (which imports it) whatever TARGETS2 needs in addition."""
    tolerant = tolerant or bool(os.environ.get('R2L_TOLERANT'))
    third = third or fourth
    key = (os.path.abspath(repo), tuple(sorted(only)) if only else None, debug_assertions, second, tolerant, third, fourth)
    if key in _CACHE:
        return _CACHE[key]
    tr = Translator(repo, debug_assertions=debug_assertions)
    tr.phase = 1
    for file, owner, name in TARGETS:
        if only and name not in only:
            continue
        item = find_target(tr, file, owner, name)
        if item not in tr.sigs:
            tr.translate(item)
    n1 = len(tr.output)
    res = {'Algo.lean': (_render(HEADER, 'B.Gen.Algo', tr.stats[:n1], tr.output[:n1]), tr.stats[:n1])}
    if second:
        tr.phase = 2
        for file, owner, name in TARGETS2:
            if only and name not in only:
                continue
            item = find_target(tr, file, owner, name)
            if item not in tr.sigs:
                if tolerant:
                    try:
                        tr.translate(item)
                    except R2LError as e:
                        sys.stderr.write('  [skip] %s\n' % e)
                        tr.inprog.clear()
                else:
                    tr.translate(item)
        n2 = len(tr.output)
        res['Algo2.lean'] = (_render(HEADER2, 'B.Gen.Algo2', tr.stats[n1:n2], tr.output[n1:n2]), tr.stats[n1:n2])
        if third:
            tr.phase = 3
            for file, owner, name in TARGETS3:
                if only and name not in only:
                    continue
                item = find_target(tr, file, owner, name)
                if item not in tr.sigs:
                    if tolerant:
                        try:
                            tr.translate(item)
                        except R2LError as e:
                            sys.stderr.write('  [skip] %s\n' % e)
                            tr.inprog.clear(); tr.stack[:] = []; tr.group_of.clear(); tr.pending.clear()
                    else:
                        tr.translate(item)
            n3 = len(tr.output)
            res['Algo3.lean'] = (_render(HEADER3, 'B.Gen.Algo3', tr.stats[n2:n3], tr.output[n2:n3]), tr.stats[n2:n3])
            if fourth:
                tr.phase = 4
                for tgt in TARGETS4:
                    file, owner, name = tgt[:3]
                    if only and name not in only:
                        continue
                    item = find_target(tr, file, owner, name, *tgt[3:])
                    if item not in tr.sigs:
                        if tolerant:
                            try:
                                tr.translate(item)
                            except R2LError as e:
                                sys.stderr.write('  [skip] %s\n' % e)
                                tr.inprog.clear(); tr.stack[:] = []; tr.group_of.clear(); tr.pending.clear()
                        else:
                            tr.translate(item)
                n4 = len(tr.output)
                cov = coverage(tr)
                res['COVERAGE.md'] = (cov, [])
                summary = cov.split('## Functions')[0].replace('# ', '').strip()
                table = '\n'.join(l for l in cov.split('\n') if l.startswith('|'))
                res['Algo4.lean'] = (_render(HEADER4 % (summary + '\n\n' + table).replace('-/', '- /'), 'B.Gen.Algo4', tr.stats[n3:n4], tr.output[n3:n4]), tr.stats[n3:n4])
    _CACHE[key] = res
    return res


def generate(repo, only=None, debug_assertions=False):
    """Gen/Algo.lean: returns (lean text, stats); raises R2LError"""
    return generate_all(repo, only, debug_assertions, second=False)['Algo.lean']


def generate2(repo, only=None, debug_assertions=False):
    """Gen/Algo2.lean: returns (lean text, stats); raises R2LError"""
    return generate_all(repo, only, debug_assertions, second=True)['Algo2.lean']


def coverage(tr):
    """COVERAGE.md: every function of the crate (non-test code) → the batch that translates it, or why it is not translated"""
    from rust2lean_lib.fntr import SHIM_METHODS, SHIM_REJECT
    rows = []
    counts = {}
    items = []
    for rel, (src, fns, structs) in sorted(tr.crate.files.items()):
        for f in sorted(fns, key=lambda x: x.line):
            items.append(f)
    tr.phase = 5
    for f in items:
        key = (f.owner, f.name)
        what = f.qual() + (' (impl %s)' % f.trait if f.trait else '')
        if f in tr.sigs and tr.batch_of.get(f, 5) <= 4:
            b = tr.batch_of[f]
            status, note = 'Algo%s.lean' % ('' if b == 1 else b), '`%s`' % tr.sigs[f].lean
        elif key in SHIM_METHODS and f.trait is None:
            status, note = 'shim', '`%s` in Gen/RustShim.lean (writes through `mut_cell`, which returns a `&mut`)' % SHIM_METHODS[key][0]
        else:
            try:
                if f not in tr.sigs:
                    tr.translate(f)
                status, note = 'expressible, not in a batch', '`%s` translates; add it to a TARGETS list' % tr.sigs[f].lean
            except R2LError as e:
                tr.inprog.clear(); tr.stack[:] = []; tr.group_of.clear(); tr.pending.clear()
                msg = e.msg
                if key == ('BddPartialValuation', 'index_mut'): msg = 'returns a `&mut` (IndexMut); `Rust.pvalSet` in Gen/RustShim.lean'
                if key == ('BddValuation', 'index_mut'): msg = 'returns a `&mut` (IndexMut); an assignment `v[x] = b` is translated as `Rust.setIdx`'
                status, note = 'not translated', msg
        counts[status] = counts.get(status, 0) + 1
        rows.append((f.file, f.line, what, getattr(f, 'vis', '?') + (', deprecated' if getattr(f, 'deprecated', False) else ''), status, note))
    total = len(rows)
    out = ['# Coverage of the Rust → Lean translation (regenerated on every run by tools/rust2lean.py)', '',
           'Functions of the crate outside test code: %d. ' % total +
           ', '.join('%s: %d' % (k, counts[k]) for k in sorted(counts)) + '.',
           'Types: `Bdd` = `Arr`, `BddNode` = `Node`, `BddPointer`/`BddVariable`/integers/`BigInt` = `Nat`, `BddValuation` = `Array Bool`,',
           '`BddPartialValuation` = `Array (Option Bool)`, structs = products of their fields, `enum`s = generated `inductive`s,',
           '`macro_rules! bdd` is not a function (its operator table is regenerated into Gen/MacroRules.lean).', '',
           '## Functions', '', '| source | item | visibility | status | Lean name / reason |', '|---|---|---|---|---|']
    for file, line, what, vis, status, note in rows:
        out.append('| %s:%d | `%s` | %s | %s | %s |' % (file, line, what, vis, status, note.replace('|', '\\|').replace('\n', ' ')))
    return '\n'.join(out) + '\n'


def generate4(repo, only=None, debug_assertions=False):
    """Gen/Algo4.lean: returns (lean text, stats); raises R2LError"""
    return generate_all(repo, only, debug_assertions, second=True, third=True, fourth=True)['Algo4.lean']


def generate_coverage(repo):
    """Gen/COVERAGE.md"""
    return generate_all(repo, None, False, second=True, third=True, fourth=True)['COVERAGE.md'][0]


def generate3(repo, only=None, debug_assertions=False):
    """Gen/Algo3.lean: returns (lean text, stats); raises R2LError"""
    return generate_all(repo, only, debug_assertions, second=True, third=True)['Algo3.lean']


def main(argv):
    here = os.path.dirname(os.path.abspath(__file__))
    repo = '/repo'
    out = os.path.join(here, '..', 'lean', 'BddVerif', 'Gen', 'Algo.lean')
    only = None
    dbg = False
    report = False
    first_only = False
    i = 0
    while i < len(argv):
        a = argv[i]
        if a == '--repo': repo = argv[i + 1]; i += 2
        elif a == '--out': out = argv[i + 1]; i += 2
        elif a == '--only': only = set(argv[i + 1].split(',')); i += 2
        elif a == '--debug-assertions': dbg = True; i += 1
        elif a == '--report': report = True; i += 1
        elif a == '--first-only': first_only = True; i += 1
        else:
            sys.stderr.write(__doc__); return 2
    status = 0
    try:
        text, stats = generate(repo, only, dbg)
    except R2LError as e:
        sys.stderr.write('rust2lean: UNTRANSLATABLE: %s\n' % e)
        return 3
    out = os.path.abspath(out)
    old = open(out).read() if os.path.exists(out) else None
    if old != text:
        with open(out, 'w') as f:
            f.write(text)
    if not first_only:
        out2 = out[:-5] + '2.lean'
        try:
            text2, stats2 = generate2(repo, only, dbg)
            stats = stats + stats2
        except R2LError as e:
            sys.stderr.write('rust2lean: UNTRANSLATABLE (Algo2): %s\n' % e)
            text2 = 'namespace B.Gen.Algo2\nend B.Gen.Algo2\n-- BROKEN TIE: %s\n' % str(e).replace('\n', ' ')
            status = 3
        old2 = open(out2).read() if os.path.exists(out2) else None
        if old2 != text2:
            with open(out2, 'w') as f:
                f.write(text2)
        out3 = out[:-5] + '3.lean'
        try:
            text3, stats3 = generate3(repo, only, dbg)
            stats = stats + stats3
        except R2LError as e:
            sys.stderr.write('rust2lean: UNTRANSLATABLE (Algo3): %s\n' % e)
            text3 = 'namespace B.Gen.Algo3\nend B.Gen.Algo3\n-- BROKEN TIE: %s\n' % str(e).replace('\n', ' ')
            status = 3
        old3 = open(out3).read() if os.path.exists(out3) else None
        if old3 != text3:
            with open(out3, 'w') as f:
                f.write(text3)
        out4 = out[:-5] + '4.lean'
        cov_path = os.path.join(os.path.dirname(out), 'COVERAGE.md')
        try:
            text4, stats4 = generate4(repo, only, dbg)
            stats = stats + stats4
            cov = generate_coverage(repo) if not only else None
        except R2LError as e:
            sys.stderr.write('rust2lean: UNTRANSLATABLE (Algo4): %s\n' % e)
            text4 = 'namespace B.Gen.Algo4\nend B.Gen.Algo4\n-- BROKEN TIE: %s\n' % str(e).replace('\n', ' ')
            cov = None
            status = 3
        old4 = open(out4).read() if os.path.exists(out4) else None
        if old4 != text4:
            with open(out4, 'w') as f:
                f.write(text4)
        if cov is not None and (not os.path.exists(cov_path) or open(cov_path).read() != cov):
            with open(cov_path, 'w') as f:
                f.write(cov)
    if report:
        json.dump({'file': out, 'sha256': hashlib.sha256(text.encode()).hexdigest()[:16], 'lines': text.count('\n'),
                   'functions': [{'rust': q, 'lean': l, 'kind': k, 'lines': n, 'src': '%s:%d' % (f, ln)} for q, l, k, n, f, ln in stats]},
                  sys.stdout, indent=1)
        print()
    return status


if __name__ == '__main__':
    sys.exit(main(sys.argv[1:]))
