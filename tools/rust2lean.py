#!/usr/bin/env python3
"""rust2lean — source-to-source translator from a subset of Rust to Lean 4 (`do`-notation in the `B.Outcome` monad).

Regenerates `lean/BddVerif/Gen/Algo.lean` from the CURRENT text of the library's algorithms, statement by
statement (explicit stacks, caches, loops with fuel, early returns), so that a change of the Rust source is a
change of the generated Lean definitions. Anything outside the supported subset is a hard error (exit status 3,
message naming file / function / construct): never guessed, never skipped.

usage: rust2lean.py [--repo DIR] [--out FILE] [--only name,name] [--debug-assertions] [--report]

Front end (tools/rust2lean_lib): tokenizer, item scanner (bodies of functions nobody asks for are not parsed),
recursive-descent parser, a light type inference (enough to resolve methods, `.0`, casts, indexing), and a
translator that first tries a PURE definition (expression-bodied function without panics) and otherwise emits a
`do` block in `B.Outcome`. Callees are translated on demand (transitive closure of the TARGETS list).

SUPPORTED: fn items with generics / where clauses whose bounds are `Fn(..) -> ..`; `&self`/`&mut self`/`&mut` params
(returned next to the result); inner `fn` (fuel-bounded recursion: `match fuel with | 0 => panic | fuel+1 => ..`);
local and crate `struct`s with named fields (as products); associated types (`Self::Item`); `let`, `let mut`,
`let .. else`, assignment and compound assignment to variables / fields / indices / `*deref`; literals, paths, calls,
method calls, closures without effects, field and tuple-field access, indexing (`Vec`, slices, `BddValuation`,
`BddPartialValuation`), `slice[a..]`, tuples, struct literals, blocks, `unsafe` blocks, `if`, `if let`, `match`
(tuple / `Some` / `None` / `Ok` / `Err` / newtype / literal / struct patterns), `while`, `while let` (incl. `x.pop()`),
`loop`, `for` over ranges / slices / materialised iterator chains (`iter into_iter cloned skip rev enumerate map
filter filter_map`) / `iter_mut()[.skip(k)]` (write-back loop), `return`, `break`, `continue`, `?`, `as` between
unsigned integers, `&`/`&mut`/`*` (erased), `panic! unreachable! assert! assert_eq! assert_ne! debug_assert!
vec! format!`, `std::mem::swap`, `min`/`max`, `Vec`/`HashMap`/`HashSet`/`Option`/`Result` methods listed in
rust2lean_lib/methods.py, `checked_add`, `u16::try_from`, `usize::from`, `BigInt::from`.
REJECTED (exit 3): floats and signed integers, strings other than literals / `format!` templates, raw / byte
strings, `char`, loop labels, `break` with value, let-chains, match guards, or-/range-/`@`-patterns, closures whose
body can panic or mutate, function values that are not pure, `dyn`/`impl Trait` other than one `Fn` bound, traits,
enums, const generics, mutual recursion, functions returning `&mut` (e.g. `mut_cell`: its callers `set_value` /
`unset_value` / `IndexMut` are in the shim), iteration over `HashMap`/`HashSet`, `HashMap::insert` whose result
is used, `break`/`continue` inside an `iter_mut` loop, unary minus, BigInt subtraction, unknown macros / methods.
SEMANTIC CONVENTIONS: integers are `Nat`; `a - b` panics on underflow; `as u16`/`as u32` truncate; `+`, `*`, `<<` are
not range-checked; `debug_assert!` is a comment unless --debug-assertions (the harness is a release build);
`format!` keeps only its template (messages are never compared); hash-map capacity / hasher are dropped.
"""
import os
import sys
import json
import hashlib

sys.path.insert(0, os.path.dirname(os.path.abspath(__file__)))
from rust2lean_lib.lexer import R2LError          # noqa: E402
from rust2lean_lib.fntr import Translator          # noqa: E402

# (file, owner, function) in priority order
TARGETS = [
    ('src/_impl_bdd/_impl_boolean_ops.rs', None, 'apply_with_flip'),
    ('src/_impl_bdd/_impl_boolean_ops.rs', None, 'check_flip_bounds'),
    ('src/_impl_bdd/_impl_boolean_ops.rs', None, 'apply_with_flip_and_limit'),
    ('src/_impl_bdd/_impl_boolean_ops.rs', None, 'estimated_apply_complexity'),
    ('src/_impl_bdd/_impl_boolean_ops.rs', 'Bdd', 'not'),
    ('src/_impl_bdd/_impl_ternary_ops.rs', None, 'ternary_apply'),
    ('src/_impl_bdd/_impl_nested_ops.rs', None, 'inner_apply'),
    ('src/_impl_bdd/_impl_nested_ops.rs', None, 'fix_bdd_alignment'),
    ('src/_impl_bdd/_impl_nested_ops.rs', None, 'nested_apply'),
    ('src/_impl_bdd/_impl_relation_ops.rs', None, 'restriction'),
    ('src/_impl_bdd/_impl_util.rs', 'Bdd', 'exact_cardinality'),
    ('src/_impl_bdd/_impl_util.rs', 'Bdd', 'exact_clause_cardinality'),
    ('src/_impl_bdd/_impl_util.rs', 'Bdd', 'sat_witness'),
    ('src/_impl_bdd/_impl_util.rs', 'Bdd', 'is_valuation'),
    ('src/_impl_bdd/_impl_util.rs', 'Bdd', 'is_clause'),
    ('src/_impl_bdd/_impl_util.rs', 'Bdd', 'support_set'),
    ('src/_impl_bdd/_impl_util.rs', 'Bdd', 'validate'),
    ('src/_impl_bdd/_impl_util.rs', 'Bdd', 'from_nodes'),
    ('src/_impl_bdd/_impl_util.rs', 'Bdd', 'mk_partial_valuation'),
    ('src/_impl_bdd_valuation.rs', 'Bdd', 'eval_in'),
    ('src/_impl_bdd_valuation.rs', 'BddValuation', 'next'),
    ('src/_impl_bdd_path_iterator.rs', None, 'continue_path'),
    ('src/_impl_bdd_path_iterator.rs', None, 'make_clause'),
    ('src/_impl_bdd_path_iterator.rs', 'BddPathIterator', 'next'),
    ('src/_impl_bdd/_impl_dnf.rs', 'Bdd', 'to_dnf'),
    ('src/_impl_bdd/_impl_cnf.rs', 'Bdd', 'to_cnf'),
    # thin public wrappers around the above (so that the driver can enter through the public API)
    ('src/_impl_bdd/_impl_boolean_ops.rs', None, 'apply'),
    ('src/_impl_bdd/_impl_boolean_ops.rs', 'Bdd', 'binary_op'),
    ('src/_impl_bdd/_impl_boolean_ops.rs', 'Bdd', 'binary_op_with_limit'),
    ('src/_impl_bdd/_impl_boolean_ops.rs', 'Bdd', 'fused_binary_flip_op'),
    ('src/_impl_bdd/_impl_boolean_ops.rs', 'Bdd', 'fused_binary_flip_op_with_limit'),
    ('src/_impl_bdd/_impl_boolean_ops.rs', 'Bdd', 'check_binary_op'),
    ('src/_impl_bdd/_impl_boolean_ops.rs', 'Bdd', 'check_fused_binary_flip_op'),
    ('src/_impl_bdd/_impl_ternary_ops.rs', 'Bdd', 'ternary_op'),
    ('src/_impl_bdd/_impl_ternary_ops.rs', 'Bdd', 'fused_ternary_flip_op'),
    ('src/_impl_bdd/_impl_nested_ops.rs', 'Bdd', 'binary_op_nested'),
    ('src/_impl_bdd_partial_valuation.rs', 'BddPartialValuation', 'from_values'),
    ('src/_impl_bdd/_impl_relation_ops.rs', 'Bdd', 'restrict'),
    ('src/_impl_bdd/_impl_relation_ops.rs', 'Bdd', 'var_restrict'),
    ('src/_impl_bdd/_impl_util.rs', 'Bdd', 'mk_literal'),
    ('src/_impl_bdd_path_iterator.rs', 'BddPathIterator', 'new'),
    ('src/_impl_iterator_valuations_of_clause.rs', 'ValuationsOfClauseIterator', 'new'),
    ('src/_impl_iterator_valuations_of_clause.rs', 'ValuationsOfClauseIterator', 'next'),
]

HEADER = '''import BddVerif.Gen.RustShim
import BddVerif.Model.Apply
/-!
GENERATED by tools/rust2lean.py from the Rust sources of the library — DO NOT EDIT; regenerated on every run.

Each definition follows one Rust function statement by statement (the Rust source line is quoted above every
translated statement). Functions that can panic / loop / return early live in the `B.Outcome` monad; `while`,
`while let` and `loop` are `for _ in [0:fuel]` loops followed by a check that turns fuel exhaustion into
`Outcome.panic "fuel"`; a `&mut` parameter is returned next to the result. Std / plumbing primitives come from the
hand-written `BddVerif/Gen/RustShim.lean` (`Rust.*`).
-/
set_option linter.unusedVariables false
set_option linter.constructorNameAsVariable false
namespace B.Gen.Algo
open B B.Gen
/- same operations as the `Monad Outcome` instance of Model/Outcome.lean, but inlined by the compiler (see RustShim) -/
attribute [local instance 10000] Rust.monadOutcomeInline
'''


def find_target(tr, file, owner, name):
    tr.crate.load(file)
    pool = tr.crate.methods.get((owner, name), []) if owner else tr.crate.free.get(name, [])
    cands = [c for c in pool if c.file == file]
    if owner:
        # the borrowed iterator and the owned one have textually identical `next`; the first impl in the file wins
        cands = cands[:1] if cands else cands
    if len(cands) != 1:
        raise R2LError('target function %s%s not found (or ambiguous)' % ((owner + '::') if owner else '', name), file)
    return cands[0]


def generate(repo, only=None, debug_assertions=False):
    """returns (lean text, stats); raises R2LError"""
    tr = Translator(repo, debug_assertions=debug_assertions)
    for file, owner, name in TARGETS:
        if only and name not in only:
            continue
        item = find_target(tr, file, owner, name)
        if item not in tr.sigs:
            tr.translate(item)
    parts = [HEADER]
    parts.append('/-! translated functions (Rust name ↦ Lean name, kind, generated lines):')
    for q, lean, kind, n, f, ln in tr.stats:
        parts.append('  %s ↦ %s  [%s, %d lines]  %s:%d' % (q, lean, kind, n, f, ln))
    parts.append('-/\n')
    for lean, text, item in tr.output:
        parts.append(text)
        parts.append('')
    parts.append('end B.Gen.Algo')
    return '\n'.join(parts) + '\n', tr.stats


def main(argv):
    here = os.path.dirname(os.path.abspath(__file__))
    repo = '/repo'
    out = os.path.join(here, '..', 'lean', 'BddVerif', 'Gen', 'Algo.lean')
    only = None
    dbg = False
    report = False
    i = 0
    while i < len(argv):
        a = argv[i]
        if a == '--repo': repo = argv[i + 1]; i += 2
        elif a == '--out': out = argv[i + 1]; i += 2
        elif a == '--only': only = set(argv[i + 1].split(',')); i += 2
        elif a == '--debug-assertions': dbg = True; i += 1
        elif a == '--report': report = True; i += 1
        else:
            sys.stderr.write(__doc__); return 2
    try:
        text, stats = generate(repo, only, dbg)
    except R2LError as e:
        sys.stderr.write('rust2lean: UNTRANSLATABLE: %s\n' % e)
        return 3
    out = os.path.abspath(out)
    old = open(out).read() if os.path.exists(out) else None
    if old != text:
        with open(out, 'w') as f:
            f.write(text)
    if report:
        json.dump({'file': out, 'sha256': hashlib.sha256(text.encode()).hexdigest()[:16], 'lines': text.count('\n'),
                   'functions': [{'rust': q, 'lean': l, 'kind': k, 'lines': n, 'src': '%s:%d' % (f, ln)} for q, l, k, n, f, ln in stats]},
                  sys.stdout, indent=1)
        print()
    return 0


if __name__ == '__main__':
    sys.exit(main(sys.argv[1:]))
