"""Expression translation (mixin of FnTr)."""
from .lexer import R2LError
from .parser import N
from .types import *
from .core import *

INT_RANK = {'u8': 1, 'u16': 2, 'u32': 3, 'u64': 4, 'usize': 4, 'u128': 5}
INT_MAX = {'u8': 2 ** 8 - 1, 'u16': 2 ** 16 - 1, 'u32': 2 ** 32 - 1, 'u64': 2 ** 64 - 1, 'usize': 2 ** 64 - 1}


def proj(term, k, n):
    if n == 1:
        return term
    s = par(term)
    if k < n - 1:
        return s + '.2' * k + '.1'
    return s + '.2' * (n - 1)


class Place:
    def __init__(self, get, ty, set_):
        self._get, self.ty, self.set = get, ty, set_
        self._cache = None

    def get(self):
        if self._cache is None:
            self._cache = self._get()
        return self._cache


class ExprMixin:
    # ------------------------------------------------------------------------------------------ helpers
    def m(self, call):
        """monadic sub-term `(← call)`"""
        if self.pure:
            raise NotPure()
        self.eff += 1
        return '(← %s)' % call

    def strip(self, e):
        while e.kind in ('Paren',) or (e.kind == 'Unary' and e.op in ('&', '&mut', '*')):
            e = e.e
        return e

    def struct_fields(self, key):
        return self.tr.struct_fields[key]

    # ------------------------------------------------------------------------------------------ places
    def try_place(self, e):
        e = self.strip(e)
        k = e.kind
        if k == 'Path' and len(e.segs) == 1 and not e.segs[0][1]:
            v = self.lookup(e.segs[0][0])
            if v is None:
                return None
            pl = Place(lambda: v.lean, v.ty, lambda t, v=v, line=e.line: self.assign_var(v, t, line))
            pl.var = v
            return pl
        if k == 'TupleField':
            base = self.try_place(e.obj)
            if base is None:
                return None
            bt = res(base.ty)
            if isinstance(bt, TVar):
                self.fail('cannot infer the type of the base of `.%d`' % e.idx, e.line)
            if bt[0] in NEWTYPE_INNER:
                if e.idx != 0: self.fail('newtype has only field 0', e.line)
                return Place(base.get, NEWTYPE_INNER[bt[0]], base.set)
            if bt[0] == 'struct':
                fields = self.struct_fields(bt[1])
                names = [f for f, _ in fields]
                if str(e.idx) not in names: self.fail('struct %s has no field .%d' % (bt[1], e.idx), e.line)
                j0, n = names.index(str(e.idx)), len(names)
                return Place(lambda: proj(base.get(), j0, n), fields[j0][1],
                             lambda t: base.set('(' + ', '.join(t if j == j0 else proj(base.get(), j, n) for j in range(n)) + ')' if n > 1 else t))
            if bt[0] == 'tuple':
                n = len(bt[1])
                return Place(lambda: proj(base.get(), e.idx, n), bt[1][e.idx],
                             lambda t: base.set('(' + ', '.join(t if j == e.idx else proj(base.get(), j, n) for j in range(n)) + ')'))
            self.fail('tuple field on type %r' % (bt,), e.line)
        if k == 'Field':
            base = self.try_place(e.obj)
            if base is None:
                return None
            bt = res(base.ty)
            if isinstance(bt, TVar):
                self.fail('cannot infer the type of the base of `.%s`' % e.name, e.line)
            if bt[0] == 'node':
                if e.name not in NODE_FIELDS: self.fail('unknown BddNode field ' + e.name, e.line)
                lf, ft = NODE_FIELDS[e.name]
                return Place(lambda: par(base.get()) + '.' + lf, ft,
                             lambda t: base.set('{ %s with %s := %s }' % (base.get(), lf, t)))
            if bt[0] == 'struct':
                fields = self.struct_fields(bt[1])
                names = [f for f, _ in fields]
                if e.name not in names: self.fail('unknown field %s of struct %s' % (e.name, bt[1]), e.line)
                j0, n = names.index(e.name), len(names)
                return Place(lambda: proj(base.get(), j0, n), fields[j0][1],
                             lambda t: base.set('(' + ', '.join(t if j == j0 else proj(base.get(), j, n) for j in range(n)) + ')'))
            self.fail('field `%s` on type %r' % (e.name, bt), e.line)
        if k == 'Index':
            base = self.try_place(e.obj)
            if base is None:
                return None
            bt = res(base.ty)
            if isinstance(bt, TVar):
                self.fail('cannot infer the type of an indexed value', e.line)
            if e.idx.kind == 'Range':
                return None
            memo = {}

            def idx_term():
                if 'i' not in memo:
                    t, ty = self.ex(e.idx)
                    memo['i'] = par(t)
                return memo['i']
            if bt[0] in ('vec', 'iter'):
                return Place(lambda: self.m('Rust.idx %s %s' % (par(base.get()), idx_term())), bt[1],
                             lambda t: base.set(self.m('Rust.setIdx %s %s %s' % (par(base.get()), idx_term(), par(t)))))
            if bt[0] == 'val':
                return Place(lambda: self.m('Rust.idx %s %s' % (par(base.get()), idx_term())), BOOL,
                             lambda t: base.set(self.m('Rust.setIdx %s %s %s' % (par(base.get()), idx_term(), par(t)))))
            if bt[0] == 'pval':
                return Place(lambda: 'Rust.pvalIndex %s %s' % (par(base.get()), idx_term()), ('opt', BOOL),
                             lambda t: base.set('Rust.pvalSet %s %s %s' % (par(base.get()), idx_term(), par(t))))
            self.fail('indexing a value of type %r' % (bt,), e.line)
        return None

    def assign_var(self, v, t, line=None):
        if getattr(v, 'alias_set', None) is not None:
            # v aliases a hash-map entry (`get_mut`): write through; the local copy must not be read afterwards
            v.alias_set(t)
            v.stale = True
            return
        if not v.mutable:
            self.fail('assignment to the immutable binding `%s`' % v.lean, line)
        if self.pure:
            if self.depth > 0:
                raise NotPure()
            self.emit('let %s := %s' % (v.lean, t))
        else:
            self.emit('%s := %s' % (v.lean, t))

    # ------------------------------------------------------------------------------------------ dispatch
    def ex(self, e, want=None):
        """returns (term, type); term is None for a diverging expression"""
        k = e.kind
        fn = getattr(self, 'ex_' + k, None)
        if fn is None:
            self.fail('expression kind `%s` is not supported' % k, e.line)
        return fn(e, want) if k in ('Closure', 'Path', 'Lit', 'Call', 'MethodCall', 'Array', 'Macro', 'Tuple', 'Paren', 'Unary', 'If', 'Match', 'Block', 'Cast') else fn(e)

    def ex_Paren(self, e, want=None):
        return self.ex(e.e, want)

    def ex_Lit(self, e, want=None):
        if e.lit == 'int':
            return str(e.val), INT(e.suffix)
        if e.lit == 'bool':
            return ('true' if e.val else 'false'), BOOL
        if e.lit == 'str':
            return lean_str(e.val), STR
        if e.lit == 'char':
            return lean_char(e.val), ('char',)
        self.fail('%s literal is not supported (f64 is out of scope)' % e.lit, e.line)

    def ex_Path(self, e, want=None):
        segs = e.segs
        if len(segs) == 1:
            name = segs[0][0]
            v = self.lookup(name)
            if v is not None:
                if getattr(v, 'stale', False):
                    self.fail('`%s` (a `get_mut` alias) is read after it was written through' % name, e.line)
                return v.lean, v.ty
            if name == 'None':
                return 'none', ('opt', TVar())
            if name == 'Some':
                a = TVar()
                return 'some', ('fn', (a,), ('opt', a))
            if name in NEWTYPES:
                return '(fun x => x)', ('fn', (NEWTYPE_INNER[NEWTYPES[name][0]],), NEWTYPES[name])
            if name in self.tr.crate.consts and not self.local_fns.get(name):
                return self.tr.const_sig(self.tr.crate.consts[name], self)
            var = self.resolve_variant([name])
            if var is not None:
                return self.variant_value(var, e.line)
            sig = self.resolve_free(name, e.line, must=False)
            if sig is not None:
                return self.fn_value(sig, e.line)
            self.fail('unknown name `%s`' % name, e.line)
        names = [s for s, _ in segs]
        var = self.resolve_variant(names)
        if var is not None:
            return self.variant_value(var, e.line)
        if len(names) == 2 and names[0] == 'ErrorKind' and names[1] in ('UnexpectedEof', 'Interrupted', 'WriteZero', 'Other'):
            return 'Rust.ErrorKind.' + names[1][0].lower() + names[1][1:], ('errkind',)
        if len(names) == 2 and names[0] == 'Ordering' and names[1] in ('Less', 'Equal', 'Greater'):
            return {'Less': 'Ordering.lt', 'Equal': 'Ordering.eq', 'Greater': 'Ordering.gt'}[names[1]], ('ordering',)
        if len(names) == 2 and names[0] in INT_MAX and names[1] == 'MAX':
            return str(INT_MAX[names[0]]), INT(names[0])
        if names[-2] == 'op_function' and names[-1] in ('and', 'or', 'imp', 'iff', 'xor', 'and_not'):
            # the six tables are regenerated from src/op_function.rs by tools/gen_lean.py (Gen/OpTables.lean)
            ob = ('opt', BOOL)
            return 'Gen.%s_' % names[-1], ('fn', (ob, ob), ob)
        sig = self.resolve_path_fn(names, e.line)
        if sig is None:
            self.fail('unknown path `%s`' % '::'.join(names), e.line)
        return self.fn_value(sig, e.line)

    def variant_value(self, var, line):
        key, vname, kind, fields = var
        ctor = '%s.%s' % (key, lean_ident(vname))
        if kind == 'unit':
            return ctor, ('enum', key)
        return ctor, ('fn', tuple(t for _, t in fields), ('enum', key))

    def fn_value(self, sig, line):
        if sig.monadic or sig.fuel or sig.mut_idx():
            self.fail('function `%s` used as a value must be pure' % sig.lean, line)
        return sig.lean, ('fn', tuple(p[1] for p in sig.params), sig.ret)

    def ex_Unary(self, e, want=None):
        if e.op in ('&', '&mut', '*'):
            return self.ex(e.e, want)
        t, ty = self.ex(e.e)
        ty = res(ty)
        if e.op == '!':
            if ty == BOOL:
                return '!' + par(t), BOOL
            self.fail('`!` on a non-bool (%r)' % (ty,), e.line)
        self.fail('unary `%s` is not supported (unsigned arithmetic only)' % e.op, e.line)

    def ex_Tuple(self, e, want=None):
        if not e.elems:
            return '()', UNIT
        wants = [None] * len(e.elems)
        w = res(want) if want is not None else None
        if w is not None and not isinstance(w, TVar) and w[0] == 'tuple' and len(w[1]) == len(e.elems):
            wants = list(w[1])
        parts = [self.ex(x, wants[j]) for j, x in enumerate(e.elems)]
        return '(' + ', '.join(p[0] for p in parts) + ')', ('tuple', tuple(p[1] for p in parts))

    def ex_Array(self, e, want=None):
        parts = [self.ex(x) for x in e.elems]
        el = TVar()
        for p in parts: unify(el, p[1])
        return '#[' + ', '.join(p[0] for p in parts) + ']', ('vec', el)

    def ex_Repeat(self, e):
        x, xt = self.ex(e.elem)
        n, _ = self.ex(e.len)
        return 'Rust.vecRepeat %s %s' % (par(x), par(n)), ('vec', xt)

    def ex_Field(self, e):
        pl = self.try_place(e)
        if pl is not None:
            return pl.get(), pl.ty
        t, ty = self.ex(e.obj)
        tmp = Place(lambda: t, ty, None)
        return self._field_of(tmp, e)

    def _field_of(self, base, e):
        bt = res(base.ty)
        if isinstance(bt, TVar): self.fail('cannot infer the type of the base of `.%s`' % e.name, e.line)
        if bt[0] == 'node':
            if e.name not in NODE_FIELDS: self.fail('unknown BddNode field ' + e.name, e.line)
            lf, ft = NODE_FIELDS[e.name]
            return par(base.get()) + '.' + lf, ft
        if bt[0] == 'struct':
            fields = self.struct_fields(bt[1])
            names = [f for f, _ in fields]
            if e.name not in names: self.fail('unknown field %s of struct %s' % (e.name, bt[1]), e.line)
            j0 = names.index(e.name)
            return proj(base.get(), j0, len(names)), fields[j0][1]
        self.fail('field `%s` on type %r' % (e.name, bt), e.line)

    def ex_TupleField(self, e):
        pl = self.try_place(e)
        if pl is not None:
            return pl.get(), pl.ty
        t, ty = self.ex(e.obj)
        bt = res(ty)
        if isinstance(bt, TVar): self.fail('cannot infer the type of the base of `.%d`' % e.idx, e.line)
        if bt[0] in NEWTYPE_INNER:
            return t, NEWTYPE_INNER[bt[0]]
        if bt[0] == 'tuple':
            return proj(t, e.idx, len(bt[1])), bt[1][e.idx]
        if bt[0] == 'struct':
            fields = self.struct_fields(bt[1])
            names = [f for f, _ in fields]
            if str(e.idx) in names:
                j0 = names.index(str(e.idx))
                return proj(t, j0, len(names)), fields[j0][1]
        self.fail('tuple field on type %r' % (bt,), e.line)

    def ex_Index(self, e):
        if e.idx.kind == 'Range':
            r = e.idx
            t, ty = self.ex(e.obj)
            bt = res(ty)
            if bt[0] not in ('vec', 'iter'): self.fail('range indexing on %r' % (bt,), e.line)
            if r.incl: self.fail('inclusive range indexing is not supported', e.line)
            if r.lo is not None and r.hi is None:
                lo, _ = self.ex(r.lo)
                return self.m('Rust.sliceFrom %s %s' % (par(t), par(lo))), ('vec', bt[1])
            if r.lo is None and r.hi is not None:
                hi, _ = self.ex(r.hi)
                return self.m('Rust.sliceTo %s %s' % (par(t), par(hi))), ('vec', bt[1])
            if r.lo is not None and r.hi is not None:
                lo, _ = self.ex(r.lo)
                hi, _ = self.ex(r.hi)
                return self.m('Rust.sliceRange %s %s %s' % (par(t), par(lo), par(hi))), ('vec', bt[1])
            return t, ('vec', bt[1])
        pl = self.try_place(e)
        if pl is not None:
            return pl.get(), pl.ty
        t, ty = self.ex(e.obj)
        bt = res(ty)
        if isinstance(bt, TVar): self.fail('cannot infer the type of an indexed value', e.line)
        i, _ = self.ex(e.idx)
        if bt[0] in ('vec', 'iter'):
            return self.m('Rust.idx %s %s' % (par(t), par(i))), bt[1]
        if bt[0] == 'val':
            return self.m('Rust.idx %s %s' % (par(t), par(i))), BOOL
        if bt[0] == 'pval':
            return 'Rust.pvalIndex %s %s' % (par(t), par(i)), ('opt', BOOL)
        self.fail('indexing a value of type %r' % (bt,), e.line)

    def ex_Cast(self, e, want=None):
        t, ty = self.ex(e.e)
        ty = res(ty)
        target = e.ty
        if target.kind != 'TPath' or len(target.segs) != 1 or target.segs[0][0] not in INT_RANK:
            self.fail('cast to a non-unsigned-integer type is not supported', e.line)
        k = target.segs[0][0]
        if isinstance(ty, TVar) or ty[0] != 'int':
            self.fail('cast of a non-integer value (%r)' % (ty,), e.line)
        src = ty[1]
        if src is None and t.isdigit() and int(t) <= INT_MAX[k]:
            return t, INT(k)
        if src is not None and INT_RANK[src] <= INT_RANK[k]:
            return t, INT(k)
        if INT_RANK[k] >= 4:
            return t, INT(k)   # usize/u64 from an unknown width: nothing in the subset is wider
        return 'Rust.as%s %s' % (k.upper(), par(t)), INT(k)

    def ex_Range(self, e):
        if e.lo is None or e.hi is None or e.incl:
            self.fail('only half-open ranges `a..b` are supported', e.line)
        lo, lt = self.ex(e.lo)
        hi, ht = self.ex(e.hi)
        unify(lt, ht)
        if lo == '0':
            return 'Array.range %s' % par(hi), ('iter', ht)
        return 'Rust.rangeArr %s %s' % (par(lo), par(hi)), ('iter', ht)

    def ex_Binary(self, e):
        op = e.op
        if op in ('&&', '||'):
            l, lt = self.ex(e.l)
            (r, rt), lines, eff = self.capture(lambda: self.ex(e.r))
            if not lines and not eff:
                return '%s %s %s' % (par(l), op, par(r)), BOOL
            if self.pure: raise NotPure()
            tmp = self.tmp('c')
            self.eff += 1
            if op == '&&':
                self.emit('let %s ← if %s then' % (tmp, l))
            else:
                self.emit('let %s ← if !%s then' % (tmp, par(l)))
            self.ind += 2
            self.splice(lines)
            self.emit('pure %s' % par(r))
            self.ind -= 2
            self.emit('  else pure %s' % ('false' if op == '&&' else 'true'))
            return tmp, BOOL
        l, lt = self.ex(e.l)
        r, rt = self.ex(e.r, want=lt)
        lt, rt = res(lt), res(rt)
        unify(lt, rt)
        lt, rt = res(lt), res(rt)
        if op in ('==', '!='):
            if (not isinstance(lt, TVar) and lt[0] == 'pval') or (not isinstance(rt, TVar) and rt[0] == 'pval'):
                s = 'Rust.pvalEq %s %s' % (par(l), par(r))
                return (s if op == '==' else '!(%s)' % s), BOOL
            return '%s %s %s' % (par(l), op, par(r)), BOOL
        if op in ('<', '<=', '>', '>=') and not isinstance(lt, TVar) and lt[0] == 'tuple':
            parts = [res(x) for x in lt[1]]
            if len(parts) == 2 and not isinstance(parts[0], TVar) and parts[0][0] == 'int' and parts[1] == BOOL:
                # derived lexicographic order on (integer, bool), false < true
                a, b = (par(l), par(r)) if op in ('<', '>=') else (par(r), par(l))
                t = 'Rust.ltNatBool %s %s' % (a, b)
                return (t if op in ('<', '>') else '!(%s)' % t), BOOL
            self.fail('ordering comparison on tuple type %r' % (deep(lt),), e.line)
        if op in ('<', '<=', '>', '>='):
            for t_ in (lt, rt):
                if isinstance(t_, TVar) or t_[0] not in ('int', 'ptr', 'var', 'big'):
                    self.fail('ordering comparison on type %r' % (t_,), e.line)
            lop = {'<': '<', '<=': '≤', '>': '>', '>=': '≥'}[op]
            return 'decide (%s %s %s)' % (par(l), lop, par(r)), BOOL
        isbool = (lt == BOOL)
        if isbool:
            if op == '^': return '%s ^^ %s' % (par(l), par(r)), BOOL
            if op == '&': return '%s && %s' % (par(l), par(r)), BOOL
            if op == '|': return '%s || %s' % (par(l), par(r)), BOOL
            self.fail('operator `%s` on bool' % op, e.line)
        for t_ in (lt, rt):
            if isinstance(t_, TVar) or t_[0] not in ('int', 'big'):
                self.fail('arithmetic `%s` on type %r' % (op, t_), e.line)
        rty = BIG if (lt[0] == 'big' or rt[0] == 'big') else INT(lt[1] or rt[1])
        if op in ('<<', '>>'):
            rty = lt
        if op == '-':
            if rty == BIG: self.fail('BigInt subtraction is not supported', e.line)
            return self.m('Rust.sub %s %s' % (par(l), par(r))), rty
        lop = {'+': '+', '*': '*', '/': '/', '%': '%', '<<': '<<<', '>>': '>>>', '^': '^^^', '&': '&&&', '|': '|||'}.get(op)
        if lop is None:
            self.fail('operator `%s`' % op, e.line)
        return '%s %s %s' % (par(l), lop, par(r)), rty

    def ex_StructLit(self, e):
        name = e.segs[-1][0]
        if e.base is not None:
            self.fail('struct update syntax `..base` is not supported', e.line)
        if name == 'Self': name = self.owner
        if name == 'BddNode':
            vals = {}
            for f, x in e.fields:
                if f not in NODE_FIELDS: self.fail('unknown BddNode field ' + f, e.line)
                vals[NODE_FIELDS[f][0]] = self.ex(x)[0]
            if set(vals) != {'var', 'low', 'high'}: self.fail('BddNode literal must give all three fields', e.line)
            return '({ var := %s, low := %s, high := %s } : Node)' % (vals['var'], vals['low'], vals['high']), NODE
        key = self.struct_key(name, e.line)
        fields = self.struct_fields(key)
        given = dict(e.fields)
        if set(given) != set(f for f, _ in fields):
            self.fail('struct literal for %s must give exactly its fields' % name, e.line)
        # evaluate in source order, place in declaration order
        terms = {}
        for f, x in e.fields:
            ft = dict(fields)[f]
            t, ty = self.ex(x, want=ft)
            unify(ty, ft)
            terms[f] = t
        if len(fields) == 1:
            return terms[fields[0][0]], ('struct', key)
        return '(' + ', '.join(terms[f] for f, _ in fields) + ')', ('struct', key)

    def ex_Closure(self, e, want=None, ptys=None):
        w = res(want) if want is not None else None
        if ptys is None and w is not None and not isinstance(w, TVar) and w[0] == 'fn':
            ptys = list(w[1])
        if ptys is None:
            ptys = [TVar() for _ in e.params]
        if len(ptys) != len(e.params):
            self.fail('closure arity mismatch', e.line)
        self.push()
        self.depth += 1
        try:
            pats = []
            for (p, ty), pt in zip(e.params, ptys):
                if ty is not None:
                    unify(pt, self.conv(ty))
                pats.append(self.pat(p, pt))
            (t, ty), lines, eff = self.capture(lambda: self.ex(e.body))
            if lines or eff:
                self.fail('closure body with side effects / panics cannot be translated (it would have to be monadic)', e.line)
        finally:
            self.depth -= 1
            self.pop()
        if t is None: self.fail('diverging closure body', e.line)
        head = ' '.join(pats) if pats else '_'
        return '(fun %s => %s)' % (head, t), ('fn', tuple(ptys), ty)

    def ex_Try(self, e):
        if self.pure: raise NotPure()
        t, ty = self.ex(e.e)
        ty = res(ty)
        tmp = self.tmp('q')
        if not isinstance(ty, TVar) and ty[0] == 'result':
            self.emit('let %s ← match %s with' % (tmp, t))
            self.emit('  | .ok v__ => pure v__')
            self.emit('  | .error e__ => return %s' % self.ret_term('(.error e__)'))
            self.eff += 1
            return tmp, ty[1]
        if not isinstance(ty, TVar) and ty[0] == 'opt':
            self.emit('let some %s := %s | return %s' % (tmp, t, self.ret_term('none')))
            self.eff += 1
            return tmp, ty[1]
        self.fail('`?` on type %r' % (ty,), e.line)

    def ex_Return(self, e):
        self.st_return(e)
        return None, NEVER

    def ex_Break(self, e):
        self.st_break(e)
        return None, NEVER

    def ex_Continue(self, e):
        self.st_continue(e)
        return None, NEVER

    def ex_Loop(self, e):
        self.st_loop(e)
        has_break = self.contains_break(e.body)
        return (None, NEVER) if not has_break else ('()', UNIT)

    def ex_While(self, e):
        self.st_while(e)
        return '()', UNIT

    def ex_For(self, e):
        self.st_for(e)
        return '()', UNIT

    def ex_Assign(self, e):
        self.st_assign(e)
        return '()', UNIT

    def ex_OpAssign(self, e):
        self.st_assign(e)
        return '()', UNIT

    # branch-valued expressions in a nested position: bind to a temporary unless pure
    def ex_If(self, e, want=None):
        return self.branchy_value(e, want)

    def ex_Match(self, e, want=None):
        return self.branchy_value(e, want)

    def ex_Block(self, e, want=None):
        return self.branchy_value(e, want)

    # ------------------------------------------------------------------------------------------ macros
    def ex_Macro(self, e, want=None):
        name = e.name
        if e.args is None:
            self.fail('macro `%s!` is not supported' % name, e.line)
        if name in ('panic', 'unreachable', 'todo', 'unimplemented'):
            if self.pure: raise NotPure()
            msg = name
            if e.args and e.args[0].kind == 'Lit' and e.args[0].lit == 'str':
                msg = e.args[0].val
            self.eff += 1
            self.emit('Outcome.panic %s' % lean_str(msg))
            return None, NEVER
        if name in ('assert', 'debug_assert', 'assert_eq', 'assert_ne', 'debug_assert_eq'):
            src = self.src(e.line)
            if name.startswith('debug_') and not self.tr.debug_assertions:
                self.emit('-- (release build: not compiled) ' + src)
                return '()', UNIT
            if self.pure: raise NotPure()
            if name in ('assert', 'debug_assert'):
                c, _ = self.ex(e.args[0])
                cond = '!' + par(c)
            else:
                a, at = self.ex(e.args[0])
                b, bt = self.ex(e.args[1], want=at)
                unify(at, bt)
                at = res(at)
                eq = ('Rust.pvalEq %s %s' % (par(a), par(b))) if (not isinstance(at, TVar) and at[0] == 'pval') else '%s == %s' % (par(a), par(b))
                cond = ('!(%s)' % eq) if 'eq' in name else eq
            self.eff += 1
            self.emit('if %s then Outcome.panic %s' % (cond, lean_str('assertion failed: ' + src)))
            return '()', UNIT
        if name == 'matches':
            s, sty = self.ex(e.args[0])
            self.push()
            try:
                p = self.pat(e.pat, sty, wild=True)
            finally:
                self.pop()
            return '(match %s with | %s => true | _ => false)' % (s, p), BOOL
        if name in ('write', 'writeln'):
            return self.write_macro(e)
        if name == 'vec':
            if e.repeat is not None:
                x, xt = self.ex(e.args[0])
                n, _ = self.ex(e.repeat)
                return 'Rust.vecRepeat %s %s' % (par(x), par(n)), ('vec', xt)
            return self.ex_Array(N('Array', e.line, elems=e.args))
        if name == 'format':
            if not e.args or e.args[0].kind != 'Lit' or e.args[0].lit != 'str':
                self.fail('format! needs a literal format string', e.line)
            # the arguments are evaluated for their panics in Rust only through Debug/Display, which the
            # subset treats as pure: the message text is never compared, only the template is kept
            tmpl = e.args[0].val
            pieces = tmpl.split('{}')
            if len(e.args) > 1 and '{' not in ''.join(pieces) and len(pieces) == len(e.args):
                # plain `{}` placeholders over integers / strings: the text is data (e.g. variable names `x_{}`)
                out = [lean_str(pieces[0])]
                for a, piece in zip(e.args[1:], pieces[1:]):
                    t, ty = self.ex(a)
                    ty = res(ty)
                    if not isinstance(ty, TVar) and ty[0] in ('enum', 'bdd'):
                        t, ty = self.display_to_string(t, ty, e.line), STR
                    if isinstance(ty, TVar) or ty[0] not in ('int', 'str', 'var', 'ptr'):
                        self.fail('format! argument of type %r' % (ty,), e.line)
                    out.append(t if ty[0] == 'str' else 'toString %s' % par(t))
                    out.append(lean_str(piece))
                return ' ++ '.join(par(x) for x in out), STR
            return lean_str(tmpl), STR
        self.fail('macro `%s!` is not supported' % name, e.line)

    # ------------------------------------------------------------------------------------------ write! / Display
    def display_sig(self, ty, line):
        """signature of `<T as Display>::fmt` for a crate type"""
        ty = res(ty)
        owner = OWNER_OF_TAG.get(ty[0]) or (ty[1] if ty[0] in ('enum', 'struct') else None)
        cands = [c for c in self.tr.crate.methods.get((owner, 'fmt'), []) if c.trait == 'Display']
        if len(cands) != 1:
            self.fail('no (unique) `impl Display` for %r' % (deep(ty),), line)
        return self.tr.sig_of(cands[0], self, line), cands[0]

    def newtype_displays_number(self, ty, line):
        """`impl Display for BddVariable/BddPointer` must be exactly `f.write_fmt(format_args!("{}", self.0))`"""
        owner = OWNER_OF_TAG[res(ty)[0]]
        cands = [c for c in self.tr.crate.methods.get((owner, 'fmt'), []) if c.trait == 'Display']
        if len(cands) != 1: self.fail('no `impl Display` for %s' % owner, line)
        c = cands[0]
        text = ' '.join(str(t.val[0]) if t.kind == 'int' else str(t.val) for t in c.toks[c.start:c.end])
        if '{ f . write_fmt ( format_args ! ( {} , self . 0 ) ) }' not in text:
            self.fail('`impl Display for %s` is not the plain decimal printer the translator assumes' % owner, line)

    def display_to_string(self, term, ty, line):
        """`x.to_string()` / `format!("{}", x)` for a crate type with a Display impl"""
        if self.pure: raise NotPure()
        sig, item = self.display_sig(ty, line)
        head = sig.lean
        if sig.fuel:
            self.uses_fuel = True
            head += ' fuel'
        r, out = self.tmp('res'), self.tmp('str')
        call = '%s %s ""' % (head, par(term))
        self.emit('let (%s, %s) := %s' % (r, out, self.m(call) if sig.monadic else call))
        self.eff += 1
        self.emit('if let .error _ := %s then Outcome.panic "a Display implementation returned an error unexpectedly"' % r)
        return out

    def fmt_pieces(self, e):
        tmpl = e.args[1]
        if tmpl.kind != 'Lit' or tmpl.lit != 'str':
            self.fail('%s! needs a literal format string' % e.name, e.line)
        text = tmpl.val + ('\n' if e.name == 'writeln' else '')
        pieces, cur, i, nargs = [], '', 0, 0
        while i < len(text):
            if text.startswith('{{', i): cur += '{'; i += 2
            elif text.startswith('}}', i): cur += '}'; i += 2
            elif text.startswith('{}', i):
                if cur: pieces.append(('lit', cur)); cur = ''
                pieces.append(('arg', nargs)); nargs += 1; i += 2
            elif text[i] in '{}':
                self.fail('only plain `{}` placeholders are supported in %s!' % e.name, e.line)
            else:
                cur += text[i]; i += 1
        if cur: pieces.append(('lit', cur))
        if nargs != len(e.args) - 2:
            self.fail('%s!: %d placeholder(s) but %d argument(s)' % (e.name, nargs, len(e.args) - 2), e.line)
        return pieces

    def write_macro(self, e):
        """`write!(sink, "…{}…", args)`: one `write_str` / `write_all` per literal piece and per argument (std's `write_fmt`)"""
        if self.pure: raise NotPure()
        pl = self.try_place(e.args[0])
        if pl is None: self.fail('%s! needs a place as its sink' % e.name, e.line)
        st = res(pl.ty)
        if st not in (('fmtr',), ('writer',)):
            self.fail('%s! into a sink of type %r' % (e.name, deep(st)), e.line)
        rty = res(self.sig.ret)
        errt = ('fmterr',) if st == ('fmtr',) else ('ioerr',)
        if isinstance(rty, TVar) or rty[0] != 'result' or res(rty[2]) != errt:
            self.fail('%s! is only supported in a function returning Result<_, %s> (its error is returned at once)' % (e.name, errt[0]), e.line)
        for kind, v in self.fmt_pieces(e):
            if kind == 'lit':
                text = lean_str(v)
            else:
                a = e.args[2 + v]
                t, ty = self.ex(a)
                ty = res(ty)
                if isinstance(ty, TVar): self.fail('cannot infer the type of a %s! argument' % e.name, e.line)
                if ty[0] == 'str': text = t
                elif ty[0] == 'int': text = 'toString %s' % par(t)
                elif ty[0] == 'bool': text = '(if %s then "true" else "false")' % t
                elif ty[0] in ('var', 'ptr'):
                    self.newtype_displays_number(ty, e.line)
                    text = 'toString %s' % par(t)
                elif ty[0] in ('enum', 'bdd', 'struct'):
                    if st != ('fmtr',): self.fail('Display of %r into an io sink' % (deep(ty),), e.line)
                    sig, item = self.display_sig(ty, e.line)
                    r, _ = self.call_sig(sig, [('done', t, ty), ('done', pl.get(), pl.ty, pl)], e.line)
                    pl._cache = None
                    self.emit('if let .error e__ := %s then return %s' % (r, self.ret_term('(.error e__)')))
                    continue
                else:
                    self.fail('%s! argument of type %r' % (e.name, deep(ty)), e.line)
            if st == ('fmtr',):
                pl._cache = None
                pl.set('%s ++ %s' % (par(pl.get()), par(text)))
            else:
                r, w = self.tmp('res'), self.tmp('wr')
                pl._cache = None
                self.emit('let (%s, %s) := Rust.writeAll %s (Rust.utf8Bytes %s)' % (r, w, par(pl.get()), par(text)))
                pl._cache = None
                pl.set(w)
                self.emit('if let .error e__ := %s then return %s' % (r, self.ret_term('(.error e__)')))
        self.eff += 1
        lt = lean_type(('result', UNIT, errt), self.tr.struct_fields)
        return '(Except.ok () : %s)' % lt, ('result', UNIT, errt)

    # ------------------------------------------------------------------------------------------ calls
    def ex_Call(self, e, want=None):
        f = e.fn
        if f.kind == 'Path':
            names = [s for s, _ in f.segs]
            if len(names) == 1:
                name = names[0]
                v = self.lookup(name)
                if v is not None:
                    vt = res(v.ty)
                    if isinstance(vt, TVar) or vt[0] != 'fn':
                        self.fail('call of the non-function value `%s`' % name, e.line)
                    if len(vt[1]) != len(e.args): self.fail('arity mismatch calling `%s`' % name, e.line)
                    args = []
                    for a, pt in zip(e.args, vt[1]):
                        t, ty = self.ex(a, want=pt)
                        unify(ty, pt)
                        args.append(par(t))
                    return ' '.join([v.lean] + (args or ['()'])), vt[2]
                if name == 'Some':
                    w = res(want) if want is not None else None
                    inner_want = w[1] if (w is not None and not isinstance(w, TVar) and w[0] == 'opt') else None
                    t, ty = self.ex(e.args[0], want=inner_want)
                    return 'some ' + par(t), ('opt', ty)
                if name in ('Ok', 'Err') and len(f.segs[0][1]) == 2:
                    # `Ok::<T, E>(x)`: both type arguments are explicit
                    tt, et = self.conv(f.segs[0][1][0]), self.conv(f.segs[0][1][1])
                    t, ty = self.ex(e.args[0], want=(tt if name == 'Ok' else et))
                    lt = lean_type(('result', tt, et), self.tr.struct_fields)
                    if lt is None: self.fail('unresolved type arguments of %s::<..>' % name, e.line)
                    return '(Except.%s %s : %s)' % ('ok' if name == 'Ok' else 'error', par(t), lt), ('result', tt, et)
                if name == 'Ok':
                    t, ty = self.ex(e.args[0])
                    return 'Except.ok ' + par(t), ('result', ty, TVar())
                if name == 'Err':
                    t, ty = self.ex(e.args[0])
                    return 'Except.error ' + par(t), ('result', TVar(), ty)
                if name in ('max', 'min'):
                    a, at = self.ex(e.args[0])
                    b, bt = self.ex(e.args[1])
                    unify(at, bt)
                    return '%s %s %s' % (name, par(a), par(b)), at
                if name == 'swap' and len(e.args) == 2 and self.resolve_free('swap', e.line, must=False) is None:
                    # std::mem::swap(&mut a, &mut b)
                    pa, pb = self.try_place(e.args[0]), self.try_place(e.args[1])
                    if pa is None or pb is None: self.fail('swap of non-place expressions', e.line)
                    if not unify(pa.ty, pb.ty): self.fail('swap of places of different types', e.line)
                    ta, tb = self.tmp('swap'), self.tmp('swap')
                    self.emit('let %s := %s' % (ta, pa.get()))
                    self.emit('let %s := %s' % (tb, pb.get()))
                    pa._cache = None; pb._cache = None
                    pa.set(tb)
                    pb.set(ta)
                    return '()', UNIT
                var = self.resolve_variant([name]) if self.lookup(name) is None else None
                if var is not None:
                    return self.variant_call(var, e)
                if self.lookup(name) is None and name in self.tr.crate.structs and self.tr.crate.structs[name].tuple_fields \
                        and name not in NEWTYPES and self.resolve_free(name, e.line, must=False) is None:
                    key = self.struct_key(name, e.line)
                    fields = self.struct_fields(key)
                    if len(fields) != len(e.args): self.fail('constructor %s applied to %d argument(s)' % (name, len(e.args)), e.line)
                    parts = []
                    for a, (_, ft) in zip(e.args, fields):
                        t, ty = self.ex(a, want=ft)
                        if not unify(ty, ft): self.fail('argument of %s: expected %r, found %r' % (name, deep(ft), deep(ty)), e.line)
                        parts.append(t)
                    return (parts[0] if len(parts) == 1 else '(' + ', '.join(parts) + ')'), ('struct', key)
                if name in NEWTYPES:
                    t, ty = self.ex(e.args[0])
                    if not unify(ty, NEWTYPE_INNER[NEWTYPES[name][0]]):
                        self.fail('constructor %s applied to %r' % (name, res(ty)), e.line)
                    return t, NEWTYPES[name]
                sig = self.resolve_free(name, e.line, must=True)
                return self.call_sig(sig, list(e.args), e.line)
            # multi-segment path
            if names[-1] in ('min', 'max') and names[-2] == 'cmp' and len(e.args) == 2:
                a_, at = self.ex(e.args[0])
                b_, bt = self.ex(e.args[1])
                unify(at, bt)
                return '%s %s %s' % (names[-1], par(a_), par(b_)), at
            var = self.resolve_variant(names)
            if var is not None:
                return self.variant_call(var, e)
            if names[-2] in ('super', 'crate', 'self') and names[-1] in self.tr.crate.structs and self.tr.crate.structs[names[-1]].tuple_fields \
                    and names[-1] not in NEWTYPES:
                name = names[-1]
                key = self.struct_key(name, e.line)
                fields = self.struct_fields(key)
                if len(fields) != len(e.args): self.fail('constructor %s applied to %d argument(s)' % (name, len(e.args)), e.line)
                parts = []
                for a_, (_, ft) in zip(e.args, fields):
                    t, ty = self.ex(a_, want=ft)
                    if not unify(ty, ft): self.fail('argument of %s: expected %r, found %r' % (name, deep(ft), deep(ty)), e.line)
                    parts.append(t)
                return (parts[0] if len(parts) == 1 else '(' + ', '.join(parts) + ')'), ('struct', key)
            b = self.builtin_static(names, f.segs, e, want)
            if b is not None:
                return b
            sig = self.resolve_path_fn(names, e.line)
            if sig is None:
                self.fail('unknown function `%s`' % '::'.join(names), e.line)
            return self.call_sig(sig, list(e.args), e.line)
        self.fail('call of a computed function value is not supported', e.line)

    def variant_call(self, var, e):
        key, vname, kind, fields = var
        if kind != 'tuple' or len(fields) != len(e.args):
            self.fail('constructor %s.%s applied to %d argument(s)' % (key, vname, len(e.args)), e.line)
        parts = []
        for a, (_, ft) in zip(e.args, fields):
            t, ty = self.ex(a, want=ft)
            if t is None: return None, NEVER
            if not unify(ty, ft):
                self.fail('argument of %s.%s: expected %r, found %r' % (key, vname, deep(ft), deep(ty)), e.line)
            parts.append(par(t))
        return ' '.join(['%s.%s' % (key, lean_ident(vname))] + parts), ('enum', key)

    def builtin_static(self, names, segs, e, want):
        head, fn = names[-2], names[-1]
        args = e.args
        if head == 'Box' and fn == 'new':
            return self.ex(args[0], want)
        if head == 'String' and fn == 'new':
            return '""', STR
        if head == 'String' and fn == 'from_utf8':
            t, ty = self.ex(args[0])
            return 'Rust.stringFromUtf8 %s' % par(t), ('result', STR, ('utf8err',))
        if head == 'Vec' and fn == 'new':
            return '#[]', ('vec', TVar())
        if head == 'Vec' and fn == 'with_capacity':
            n, _ = self.ex(args[0])
            return 'Rust.vecWithCapacity %s' % par(n), ('vec', TVar())
        if head == 'HashSet' and fn == 'from_iter':
            t, ty = self.ex(args[0])
            ty = res(ty)
            if isinstance(ty, TVar) or ty[0] not in ('vec', 'iter'):
                self.fail('HashSet::from_iter of %r' % (ty,), e.line)
            return 'Rust.hashSetFromArr %s' % par(t), ('set', ty[1])
        if head == 'Vec' and fn == 'from_iter':
            t, ty = self.ex(args[0])
            ty = res(ty)
            if not isinstance(ty, TVar) and ty[0] == 'set':
                # hash order: the result may only be measured or sorted (type `uvec`) until `.sort()` is called
                return '%s.toArray' % par(t), ('uvec', ty[1])
            if isinstance(ty, TVar) or ty[0] not in ('vec', 'iter'):
                self.fail('Vec::from_iter of %r (hash-ordered sources are not translated)' % (ty,), e.line)
            return t, ('vec', ty[1])
        if head in ('HashMap', 'HashSet') and fn in ('new', 'with_capacity_and_hasher', 'with_hasher', 'with_capacity', 'default'):
            cap = '8'
            if fn in ('with_capacity_and_hasher', 'with_capacity'):
                cap = par(self.ex(args[0])[0])
            if head == 'HashMap':
                return 'Rust.hashMapWithCapacity %s' % cap, ('map', TVar(), TVar())
            return 'Rust.hashSetWithCapacity %s' % cap, ('set', TVar())
        if head == 'i32' and fn == 'from':
            t, ty = self.ex(args[0])
            if res(ty) != BOOL: self.fail('i32::from is only supported on a bool (the value is 0 or 1)', e.line)
            return '(if %s then 1 else 0)' % t, INT('u8')
        if head in INT_RANK and fn == 'from':
            t, ty = self.ex(args[0])
            ty = res(ty)
            if ty == BOOL:
                return '(if %s then 1 else 0)' % t, INT(head)
            if isinstance(ty, TVar) or ty[0] != 'int':
                self.fail('%s::from of %r' % (head, ty), e.line)
            return t, INT(head)
        if head in ('u16', 'u32', 'u64') and fn == 'from_le_bytes':
            t, ty = self.ex(args[0])
            return 'Rust.fromLeBytes %s' % par(t), INT(head)
        if head == 'u16' and fn == 'try_from':
            t, ty = self.ex(args[0])
            if res(ty)[0] != 'int': return None
            return 'Rust.u16TryFrom %s' % par(t), ('result', INT('u16'), UNIT)
        if head == 'BigInt' and fn == 'from':
            t, ty = self.ex(args[0])
            return t, BIG
        if head == 'FxBuildHasher':
            self.fail('FxBuildHasher value outside a HashMap/HashSet constructor', e.line)
        return None

    def call_sig(self, sig, args, line):
        """args: list of AST nodes or ('done', term, type) aligned with sig.params"""
        if len(args) != len(sig.params):
            self.fail('arity mismatch calling %s (%d vs %d)' % (sig.lean, len(args), len(sig.params)), line)
        terms, places = [], {}
        for k, (pname, pty, mutref) in enumerate(sig.params):
            a = args[k]
            if isinstance(a, tuple) and a[0] == 'done':
                t, ty = a[1], a[2]
                if mutref: places[k] = a[3] if len(a) > 3 else None
            elif mutref:
                pl = self.try_place(a)
                places[k] = pl
                if pl is not None:
                    t, ty = pl.get(), pl.ty
                else:
                    t, ty = self.ex(self.strip(a), want=pty)
            else:
                t, ty = self.ex(a, want=pty)
            rp, ra = res(pty), res(ty)
            if mutref and not isinstance(rp, TVar) and rp[0] in ('writer', 'reader') and not isinstance(ra, TVar) and ra[0] == 'vec':
                # a `Vec<u8>` passed as `&mut dyn Write`, a `&[u8]` passed as `&mut dyn Read`
                unify(ra[1], INT('u8'))
                inner = places.get(k)
                if rp[0] == 'writer':
                    t = 'Rust.Writer.ofVec %s' % par(t)
                    back = (lambda m, inner=inner: inner.set('%s.out' % par(m))) if inner is not None else None
                else:
                    t = 'Rust.Reader.ofSlice %s' % par(t)
                    back = (lambda m, inner=inner: inner.set('%s.data.toArray' % par(m))) if inner is not None else None
                if back is not None:
                    places[k] = Place(lambda: None, pty, back)
                terms.append(par(t))
                continue
            if not unify(ty, pty):
                self.fail('argument %d of %s: expected %r, found %r' % (k + 1, sig.lean, deep(pty), deep(ty)), line)
            terms.append(par(t))
        head = sig.lean
        if sig.fuel:
            self.uses_fuel = True
            head += ' fuel'
        call = ' '.join([head] + terms)
        muts = sig.mut_idx()
        if not muts:
            return (self.m(call) if sig.monadic else call), sig.ret
        ret_unit = res(sig.ret) == UNIT
        val = self.m(call) if sig.monadic else call
        if ret_unit and len(muts) == 1:
            pl = places[muts[0]]
            if pl is not None:
                pl.set(val)
            else:
                self.emit('let _ := %s' % val)
            return '()', UNIT
        names = []
        r = None
        if not ret_unit:
            r = self.tmp('ret'); names.append(r)
        mnames = [self.tmp('mut') for _ in muts]
        names += mnames
        self.emit('let (%s) := %s' % (', '.join(names), val))
        for k, nm in zip(muts, mnames):
            if places[k] is not None:
                places[k].set(nm)
        return (r if r is not None else '()'), sig.ret
