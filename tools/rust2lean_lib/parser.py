"""Recursive-descent parser for the Rust subset handled by rust2lean.

Two levels: `scan_items` indexes the items of a file (fn / struct / impl / mod) without parsing function
bodies (so that unsupported constructs in functions nobody asked for do not matter); `FnItem.parse()` parses
one function completely and fails loudly on anything outside the subset.
"""
from .lexer import tokenize, R2LError, Tok


class N:
    """generic AST node"""

    def __init__(self, kind, line=None, **kw):
        self.kind = kind
        self.line = line
        self.__dict__.update(kw)

    def __repr__(self):
        return 'N(%s %s)' % (self.kind, {k: v for k, v in self.__dict__.items() if k not in ('kind', 'line')})


class FnItem:
    def __init__(self, file, name, toks, start, end, owner, trait, outer, line):
        self.file, self.name, self.toks, self.start, self.end = file, name, toks, start, end
        self.owner = owner      # impl type name or None
        self.trait = trait      # trait name for `impl Trait for X`
        self.outer = outer      # enclosing FnItem for inner fns
        self.line = line
        self.ast = None
        self.vis = 'private'
        self.deprecated = False
        self.assoc = {}         # associated types of the enclosing impl

    def qual(self):
        q = self.name
        if self.owner: q = self.owner + '::' + q
        if self.outer: q = self.outer.qual() + '::' + q
        return q

    def parse(self):
        if self.ast is None:
            toks = list(self.toks[self.start:self.end]) + [Tok('eof', None, self.toks[self.end - 1].line, 0)]
            p = Parser(toks, self.file, 0, fn=self.qual())
            self.ast = p.fn_item()
            self.ast.item = self
        return self.ast


class StructItem:
    def __init__(self, file, name, fields, tuple_fields, line):
        self.file, self.name, self.fields, self.tuple_fields, self.line = file, name, fields, tuple_fields, line


class EnumItem:
    """variants: list of (name, kind, fields) with kind in 'unit' | 'tuple' | 'struct'; fields = [(name or None, type)]"""

    def __init__(self, file, name, variants, derives, line):
        self.file, self.name, self.variants, self.derives, self.line = file, name, variants, derives, line


class ConstItem:
    def __init__(self, file, name, ty, expr, line):
        self.file, self.name, self.ty, self.expr, self.line = file, name, ty, expr, line


ASSIGN_OPS = ['=', '+=', '-=', '*=', '/=', '%=', '^=', '|=', '&=', '<<=', '>>=']
BINOP_PREC = [
    ['||'], ['&&'], ['==', '!=', '<', '>', '<=', '>='], ['|'], ['^'], ['&'], ['<<', '>>'], ['+', '-'], ['*', '/', '%'],
]


class Parser:
    def __init__(self, toks, file, pos=0, fn=None):
        self.toks, self.file, self.i, self.fn = toks, file, pos, fn
        self.enums, self.consts, self.glob_uses = [], [], []

    # -- token helpers ------------------------------------------------------------------------
    def err(self, msg, tok=None):
        tok = tok or self.toks[self.i]
        raise R2LError('parse: ' + msg + ' (at %r)' % (tok.val,), self.file, tok.line, self.fn)

    def peek(self, k=0):
        return self.toks[min(self.i + k, len(self.toks) - 1)]

    def at(self, val, k=0):
        t = self.peek(k)
        return t.kind == 'p' and t.val == val

    def at_kw(self, word, k=0):
        t = self.peek(k)
        return t.kind == 'id' and t.val == word

    def eat(self, val):
        if self.at(val):
            self.i += 1
            return True
        return False

    def eat_kw(self, word):
        if self.at_kw(word):
            self.i += 1
            return True
        return False

    def expect(self, val):
        if not self.eat(val):
            self.err('expected `%s`' % val)

    def expect_kw(self, w):
        if not self.eat_kw(w):
            self.err('expected `%s`' % w)

    def ident(self):
        t = self.peek()
        if t.kind != 'id':
            self.err('expected identifier')
        self.i += 1
        return t.val

    def split_shift(self):
        """when a `>` is expected and the token is `>>`/`>=`/`>>=`, split it"""
        t = self.peek()
        if t.kind == 'p' and t.val in ('>>', '>=', '>>='):
            rest = t.val[1:]
            self.toks[self.i] = Tok('p', '>', t.line, t.pos)
            self.toks.insert(self.i + 1, Tok('p', rest, t.line, t.pos + 1))

    def expect_gt(self):
        self.split_shift()
        self.expect('>')

    def skip_attrs(self):
        """skips `#[...]` / `#![...]`; returns the list of attribute texts"""
        attrs = []
        while self.at('#'):
            self.i += 1
            self.eat('!')
            if not self.at('['):
                self.err('expected `[` after `#`')
            start = self.i
            self.skip_balanced()
            attrs.append(' '.join(str(t.val) for t in self.toks[start:self.i]))
        return attrs

    def skip_balanced(self):
        """current token is an opening bracket: skip to after its partner"""
        opens = {'(': ')', '[': ']', '{': '}'}
        stack = []
        while True:
            t = self.peek()
            if t.kind == 'eof':
                self.err('unbalanced brackets')
            if t.kind == 'p' and t.val in opens:
                stack.append(opens[t.val])
            elif t.kind == 'p' and t.val in (')', ']', '}'):
                if not stack or stack[-1] != t.val:
                    self.err('unbalanced brackets')
                stack.pop()
                if not stack:
                    self.i += 1
                    return
            self.i += 1

    def skip_vis(self):
        self.last_vis = 'private'
        if self.eat_kw('pub'):
            self.last_vis = 'pub'
            if self.at('('):
                st = self.i
                self.skip_balanced()
                self.last_vis = 'pub' + ''.join(str(t.val) for t in self.toks[st:self.i])

    # -- item scanning --------------------------------------------------------------------------
    def scan_items(self, owner=None, trait=None, outer=None, until_brace=False):
        """returns (fns, structs); does not parse fn bodies"""
        fns, structs = [], []
        assoc = {}
        while True:
            t = self.peek()
            if t.kind == 'eof':
                if until_brace: self.err('unexpected end of file in item list')
                break
            if until_brace and self.at('}'):
                self.i += 1
                break
            attrs = self.skip_attrs()
            is_test = any('cfg ( test )' in a or a.strip() == '[ test ]' for a in attrs)
            self.skip_vis()
            item_vis = self.last_vis
            t = self.peek()
            if t.kind != 'id':
                self.err('expected an item')
            w = t.val
            if w in ('unsafe', 'default', 'async', 'extern') and self.peek(1).kind == 'id' and self.peek(1).val in ('fn', 'impl', 'unsafe', 'extern'):
                self.i += 1
                continue_word = self.peek().val
                w = continue_word
            if w == 'const' and self.at_kw('fn', 1):
                self.i += 1; w = 'fn'
            if w == 'fn':
                line = self.peek().line
                start = self.i
                self.i += 1
                name = self.ident()
                # skip to the body `{` at bracket depth 0 (or `;` for a declaration)
                depth = 0
                while True:
                    t = self.peek()
                    if t.kind == 'eof': self.err('unterminated fn header')
                    if t.kind == 'p' and t.val in ('(', '['): depth += 1
                    elif t.kind == 'p' and t.val in (')', ']'): depth -= 1
                    elif t.kind == 'p' and t.val == '{' and depth == 0: break
                    elif t.kind == 'p' and t.val == ';' and depth == 0: break
                    self.i += 1
                if self.at(';'):
                    self.i += 1
                    continue
                self.skip_balanced()
                if not is_test:
                    fns.append(FnItem(self.file, name, self.toks, start, self.i, owner, trait, outer, line))
                    fns[-1].assoc = assoc
                    fns[-1].vis = 'pub (trait method)' if trait else item_vis
                    fns[-1].deprecated = any('deprecated' in a for a in attrs)
            elif w == 'struct':
                line = self.peek().line
                self.i += 1
                name = self.ident()
                if self.at('<'):
                    self.skip_generics()
                fields, tfields = None, None
                if self.at('{'):
                    self.i += 1
                    fields = []
                    while not self.at('}'):
                        self.skip_attrs(); self.skip_vis()
                        fname = self.ident(); self.expect(':')
                        fields.append((fname, self.type_()))
                        if not self.eat(','): break
                    self.expect('}')
                elif self.at('('):
                    self.i += 1
                    tfields = []
                    while not self.at(')'):
                        self.skip_attrs(); self.skip_vis()
                        tfields.append(self.type_())
                        if not self.eat(','): break
                    self.expect(')')
                    if self.at_kw('where'): self.skip_to_semi()
                    else: self.expect(';')
                else:
                    self.expect(';')
                structs.append(StructItem(self.file, name, fields, tfields, line))
            elif w == 'impl':
                self.i += 1
                if self.at('<'):
                    self.skip_generics()
                ty1 = self.type_()
                tr = None
                if self.eat_kw('for'):
                    tr = type_head(ty1)
                    ty1 = self.type_()
                if self.at_kw('where'):
                    while not self.at('{'): self.i += 1
                self.expect('{')
                if is_test:
                    self.i -= 1; self.skip_balanced()
                    continue
                f2, s2 = self.scan_items(owner=type_head(ty1), trait=tr, outer=None, until_brace=True)
                fns += f2; structs += s2
            elif w == 'mod':
                self.i += 1
                self.ident()
                if self.eat(';'):
                    continue
                if not self.at('{'): self.err('expected `{` or `;` after mod name')
                self.skip_balanced()   # nested modules (tests) are not indexed
            elif w == 'type' and owner is not None and self.peek(1).kind == 'id' and self.at('=', 2):
                self.i += 1
                aname = self.ident()
                self.expect('=')
                assoc[aname] = self.type_()
                self.expect(';')
            elif w == 'enum' and owner is None:
                line = self.peek().line
                self.i += 1
                name = self.ident()
                if self.at('<'):
                    self.err('generic enums are not supported')
                self.expect('{')
                variants = []
                while not self.at('}'):
                    self.skip_attrs()
                    vname = self.ident()
                    if self.at('('):
                        self.i += 1
                        fs = []
                        while not self.at(')'):
                            self.skip_attrs(); self.skip_vis()
                            fs.append((None, self.type_()))
                            if not self.eat(','): break
                        self.expect(')')
                        variants.append((vname, 'tuple', fs))
                    elif self.at('{'):
                        self.i += 1
                        fs = []
                        while not self.at('}'):
                            self.skip_attrs(); self.skip_vis()
                            fname = self.ident(); self.expect(':')
                            fs.append((fname, self.type_()))
                            if not self.eat(','): break
                        self.expect('}')
                        variants.append((vname, 'struct', fs))
                    else:
                        if self.at('='):
                            self.err('enum discriminants are not supported')
                        variants.append((vname, 'unit', []))
                    if not self.eat(','): break
                self.expect('}')
                derives = [a for a in attrs if 'derive' in a]
                if not is_test:
                    self.enums.append(EnumItem(self.file, name, variants, ' '.join(derives), line))
            elif w == 'const' and owner is None and self.peek(1).kind == 'id' and self.at(':', 2):
                line = self.peek().line
                self.i += 1
                name = self.ident()
                self.expect(':')
                ty = self.type_()
                self.expect('=')
                ex = self.expr()
                self.expect(';')
                if not is_test:
                    self.consts.append(ConstItem(self.file, name, ty, ex, line))
            elif w == 'use':
                start = self.i
                self.skip_to_semi()
                for k in range(start, self.i - 2):
                    a, b, c = self.toks[k], self.toks[k + 1], self.toks[k + 2]
                    if a.kind == 'id' and b.kind == 'p' and b.val == '::' and c.kind == 'p' and c.val == '*' and a.val[0].isupper():
                        self.glob_uses.append(a.val)
                    if a.kind == 'id' and b.kind == 'p' and b.val == '::' and c.kind == 'id' and a.val[0].isupper() and c.val[0].isupper():
                        self.glob_uses.append(a.val + '::' + c.val)   # `use Enum::Variant;`
            elif w in ('use', 'type', 'const', 'static', 'extern'):
                self.skip_to_semi()
            elif w in ('enum', 'trait', 'union'):
                while not self.at('{'):
                    if self.peek().kind == 'eof': self.err('unterminated item')
                    self.i += 1
                self.skip_balanced()
            elif w != 'macro_rules' and self.at('!', 1):
                # an item-level macro invocation (`thread_local! { … }`, `lazy_static! { … }`): not a function; whatever it
                # defines is unknown to the translator, so a function that uses it fails loudly when it is translated
                self.i += 2
                if self.peek().kind == 'id':
                    self.i += 1
                if not (self.at('(') or self.at('[') or self.at('{')):
                    self.err('expected macro arguments')
                self.skip_balanced()
                self.eat(';')
            elif w == 'macro_rules':
                self.i += 1; self.expect('!'); self.ident()
                self.skip_balanced()
                self.eat(';')
            else:
                self.err('unsupported item `%s`' % w)
        return fns, structs

    def skip_to_semi(self):
        while not self.at(';'):
            t = self.peek()
            if t.kind == 'eof': self.err('expected `;`')
            if t.kind == 'p' and t.val in ('(', '[', '{'):
                self.skip_balanced()
            else:
                self.i += 1
        self.i += 1

    def skip_generics(self):
        depth = 0
        while True:
            self.split_shift() if depth > 0 and self.peek().kind == 'p' and self.peek().val in ('>>', '>=', '>>=') else None
            t = self.peek()
            if t.kind == 'eof': self.err('unterminated generics')
            if t.kind == 'p' and t.val == '<': depth += 1
            elif t.kind == 'p' and t.val == '>':
                depth -= 1
                if depth == 0:
                    self.i += 1
                    return
            elif t.kind == 'p' and t.val == '->':
                pass
            self.i += 1

    # -- types -------------------------------------------------------------------------------------
    def type_(self):
        t = self.peek()
        line = t.line
        if self.eat('&') or (self.at('&&') and self._split_andand()):
            if self.peek().kind == 'life': self.i += 1
            mut = self.eat_kw('mut')
            return N('TRef', line, mut=mut, inner=self.type_())
        if self.eat('*'):
            self.err('raw pointer types are not supported')
        if self.eat('('):
            elems = []
            while not self.at(')'):
                elems.append(self.type_())
                if not self.eat(','): break
            self.expect(')')
            if len(elems) == 1 and self.toks[self.i - 2].val != ',':
                return elems[0]
            return N('TTuple', line, elems=elems)
        if self.eat('['):
            inner = self.type_()
            if self.eat(';'):
                ln = self.expr()
                self.expect(']')
                return N('TArray', line, inner=inner, len=ln)
            self.expect(']')
            return N('TSlice', line, inner=inner)
        if self.eat('!'):
            return N('TNever', line)
        if self.at_kw('fn'):
            self.i += 1
            self.expect('(')
            args = []
            while not self.at(')'):
                args.append(self.type_())
                if not self.eat(','): break
            self.expect(')')
            ret = N('TTuple', line, elems=[])
            if self.eat('->'): ret = self.type_()
            return N('TFn', line, args=args, ret=ret)
        if self.at_kw('impl') or self.at_kw('dyn'):
            self.i += 1
            b = self.bounds()
            return N('TImpl', line, bounds=b)
        if t.kind == 'id':
            return self.type_path()
        self.err('expected a type')

    def _split_andand(self, consume=True):
        t = self.peek()
        self.toks[self.i] = Tok('p', '&', t.line, t.pos)
        self.toks.insert(self.i + 1, Tok('p', '&', t.line, t.pos + 1))
        if consume:
            self.i += 1
        return True

    def type_path(self):
        line = self.peek().line
        segs = []
        self.eat('::')
        while True:
            name = self.ident()
            args = []
            if name in ('Fn', 'FnMut', 'FnOnce') and self.at('('):
                self.i += 1
                fargs = []
                while not self.at(')'):
                    fargs.append(self.type_())
                    if not self.eat(','): break
                self.expect(')')
                ret = N('TTuple', line, elems=[])
                if self.eat('->'): ret = self.type_()
                return N('TFn', line, args=fargs, ret=ret)
            if self.at('<') or (self.at('::') and self.at('<', 1)):
                self.eat('::')
                self.expect('<')
                while True:
                    self.split_shift()
                    if self.at('>'): break
                    if self.peek().kind == 'life':
                        self.i += 1
                    elif self.peek().kind == 'id' and self.at('=', 1):
                        self.i += 2; args.append(self.type_())   # associated type binding
                    else:
                        args.append(self.type_())
                    if not self.eat(','): break
                self.expect_gt()
            segs.append((name, args))
            if self.at('::') and self.peek(1).kind == 'id':
                self.i += 1
                continue
            break
        return N('TPath', line, segs=segs)

    def bounds(self):
        bs = []
        while True:
            if self.peek().kind == 'life':
                self.i += 1
            else:
                self.eat('?')
                bs.append(self.type_())
            if not self.eat('+'): break
        return bs

    def generics(self):
        """`<T, 'a, U: Bound>` → list of (name, bounds)"""
        out = []
        if not self.eat('<'): return out
        while True:
            self.split_shift()
            if self.at('>'): break
            if self.peek().kind == 'life':
                self.i += 1
                if self.eat(':'):
                    while self.peek().kind == 'life':
                        self.i += 1
                        if not self.eat('+'): break
            elif self.at_kw('const'):
                self.err('const generics are not supported')
            else:
                name = self.ident()
                bs = []
                if self.eat(':'): bs = self.bounds()
                if self.eat('='): self.type_()
                out.append((name, bs))
            if not self.eat(','): break
        self.expect_gt()
        return out

    # -- fn ---------------------------------------------------------------------------------------------
    def fn_item(self):
        line = self.peek().line
        while self.peek().kind == 'id' and self.peek().val in ('unsafe', 'const', 'default', 'async', 'extern'):
            self.i += 1
        self.expect_kw('fn')
        name = self.ident()
        gens = self.generics()
        self.expect('(')
        params = []
        self_kind = None
        while not self.at(')'):
            self.skip_attrs()
            # self forms
            if self.at('&') and (self.at_kw('self', 1) or (self.at_kw('mut', 1) and self.at_kw('self', 2)) or
                                 (self.peek(1).kind == 'life' and (self.at_kw('self', 2) or self.at_kw('mut', 2)))):
                self.i += 1
                if self.peek().kind == 'life': self.i += 1
                mut = self.eat_kw('mut')
                self.expect_kw('self')
                self_kind = '&mut' if mut else '&'
            elif self.at_kw('self') or (self.at_kw('mut') and self.at_kw('self', 1)):
                mut = self.eat_kw('mut')
                self.expect_kw('self')
                if self.eat(':'):
                    self.err('typed self parameter not supported')
                self_kind = 'mutval' if mut else 'val'
            else:
                pat = self.pattern()
                self.expect(':')
                ty = self.type_()
                params.append((pat, ty))
            if not self.eat(','): break
        self.expect(')')
        ret = None
        if self.eat('->'):
            ret = self.type_()
        if self.eat_kw('where'):
            while not self.at('{'):
                if self.peek().kind == 'life':
                    self.i += 1; self.expect(':'); self.bounds()
                else:
                    ty = self.type_()
                    self.expect(':')
                    bs = self.bounds()
                    if ty.kind == 'TPath' and len(ty.segs) == 1 and not ty.segs[0][1]:
                        nm = ty.segs[0][0]
                        for k, (g, b0) in enumerate(gens):
                            if g == nm:
                                gens[k] = (g, b0 + bs)
                                break
                        else:
                            self.err('where clause on a non-parameter type')
                    else:
                        self.err('where clause on a compound type not supported')
                if not self.eat(','): break
        body = self.block()
        return N('Fn', line, name=name, generics=gens, params=params, self_kind=self_kind, ret=ret, body=body)

    # -- blocks and statements --------------------------------------------------------------------------
    def block(self):
        line = self.peek().line
        self.expect('{')
        stmts = []
        tail = None
        while True:
            if self.at('}'):
                self.i += 1
                break
            if self.eat(';'):
                continue
            start_tok = self.i
            attrs = self.skip_attrs()
            t = self.peek()
            if self.at_kw('let'):
                stmts.append(self.let_stmt())
                continue
            # inner items
            if t.kind == 'id' and t.val in ('fn', 'struct', 'pub', 'use', 'const', 'static', 'impl', 'enum', 'trait', 'type', 'mod'):
                if t.val in ('fn', 'struct', 'pub'):
                    sub = Parser(self.toks, self.file, self.i, self.fn)
                    # scan exactly one item
                    one_f, one_s = sub.scan_one_item()
                    self.i = sub.i
                    stmts.append(N('ItemStmt', t.line, fns=one_f, structs=one_s, attrs=attrs))
                    continue
                if t.val == 'use':
                    self.skip_to_semi()
                    continue
                self.err('inner item `%s` not supported' % t.val)
            e = self.expr(stmt=True)
            if self.eat(';'):
                stmts.append(N('ExprStmt', e.line, e=e, semi=True, end_line=self.toks[self.i - 1].line))
            elif self.at('}'):
                tail = e
            elif is_blocklike(e):
                stmts.append(N('ExprStmt', e.line, e=e, semi=False, end_line=self.toks[self.i - 1].line))
            else:
                self.err('expected `;` or `}` after expression')
        return N('Block', line, stmts=stmts, tail=tail, end_line=self.toks[self.i - 1].line)

    def scan_one_item(self):
        """used for items inside function bodies: scan a single fn/struct"""
        # reuse scan_items on a bounded view: parse one item by temporarily trimming
        save_len = None
        start = self.i
        fns, structs = [], []
        # emulate one iteration of scan_items
        self.skip_vis()
        t = self.peek()
        if t.val == 'fn':
            line = t.line
            s = self.i
            self.i += 1
            name = self.ident()
            depth = 0
            while True:
                t = self.peek()
                if t.kind == 'eof': self.err('unterminated fn header')
                if t.kind == 'p' and t.val in ('(', '['): depth += 1
                elif t.kind == 'p' and t.val in (')', ']'): depth -= 1
                elif t.kind == 'p' and t.val == '{' and depth == 0: break
                self.i += 1
            self.skip_balanced()
            fns.append(FnItem(self.file, name, self.toks, s, self.i, None, None, None, line))
        elif t.val == 'struct':
            line = t.line
            self.i += 1
            name = self.ident()
            if not self.at('{'): self.err('only brace structs are supported inside functions')
            self.i += 1
            fields = []
            while not self.at('}'):
                self.skip_attrs(); self.skip_vis()
                fname = self.ident(); self.expect(':')
                fields.append((fname, self.type_()))
                if not self.eat(','): break
            self.expect('}')
            structs.append(StructItem(self.file, name, fields, None, line))
        else:
            self.err('inner item `%s` not supported' % t.val)
        return fns, structs

    def let_stmt(self):
        line = self.peek().line
        self.expect_kw('let')
        pat = self.pattern()
        ty = None
        if self.eat(':'): ty = self.type_()
        init = None
        els = None
        if self.eat('='):
            init = self.expr()
            if self.eat_kw('else'):
                els = self.block()
        self.expect(';')
        return N('Let', line, pat=pat, ty=ty, init=init, els=els, end_line=self.toks[self.i - 1].line)

    # -- patterns ---------------------------------------------------------------------------------------
    def pattern(self):
        line = self.peek().line
        self.eat('|')
        alts = [self.pattern1()]
        while self.at('|') and not self.at('||'):
            self.i += 1
            alts.append(self.pattern1())
        if len(alts) == 1: return alts[0]
        return N('POr', line, alts=alts)

    def pattern1(self):
        t = self.peek()
        line = t.line
        if self.eat('&') :
            self.eat_kw('mut')
            return N('PRef', line, inner=self.pattern1())
        if self.at('&&'):
            self._split_andand(consume=False)
            return self.pattern1()
        if self.eat('('):
            elems = []
            while not self.at(')'):
                elems.append(self.pattern())
                if not self.eat(','): break
            trailing = self.toks[self.i - 1].val == ','
            self.expect(')')
            if len(elems) == 1 and not trailing: return elems[0]
            return N('PTuple', line, elems=elems)
        if t.kind == 'int':
            self.i += 1
            if self.at('..=') or self.at('..') or self.at('...'):
                self.err('range patterns are not supported')
            return N('PLit', line, lit='int', val=t.val[0])
        if t.kind == 'p' and t.val == '-' and self.peek(1).kind == 'int':
            self.err('negative literal patterns are not supported')
        if t.kind == 'str':
            self.i += 1
            return N('PLit', line, lit='str', val=t.val)
        if t.kind == 'char':
            self.i += 1
            return N('PLit', line, lit='char', val=t.val)
        if t.kind == 'id':
            if t.val == '_':
                self.i += 1
                return N('PWild', line)
            if t.val in ('true', 'false'):
                self.i += 1
                return N('PLit', line, lit='bool', val=(t.val == 'true'))
            if t.val in ('ref', 'mut'):
                by_ref = self.eat_kw('ref')
                mut = self.eat_kw('mut')
                name = self.ident()
                return N('PIdent', line, name=name, mut=mut, by_ref=by_ref)
            # path / ident / tuple struct / struct
            segs = [self.ident()]
            while self.at('::'):
                self.i += 1
                segs.append(self.ident())
            if self.eat('('):
                elems = []
                rest = False
                while not self.at(')'):
                    if self.eat('..'):
                        rest = True
                    else:
                        elems.append(self.pattern())
                    if not self.eat(','): break
                self.expect(')')
                return N('PTupleStruct', line, segs=segs, elems=elems, rest=rest)
            if self.at('{'):
                self.i += 1
                fields, rest = [], False
                while not self.at('}'):
                    if self.eat('..'):
                        rest = True
                        break
                    fname = self.ident()
                    if self.eat(':'):
                        fields.append((fname, self.pattern()))
                    else:
                        fields.append((fname, N('PIdent', line, name=fname, mut=False, by_ref=False)))
                    if not self.eat(','): break
                self.expect('}')
                return N('PStruct', line, segs=segs, fields=fields, rest=rest)
            if self.at('@'):
                self.err('`@` patterns are not supported')
            if len(segs) == 1 and (segs[0][0].islower() or segs[0][0] == '_'):
                return N('PIdent', line, name=segs[0], mut=False, by_ref=False)
            return N('PPath', line, segs=segs)
        self.err('unsupported pattern')

    # -- expressions ------------------------------------------------------------------------------------
    def expr(self, stmt=False, nostruct=False):
        return self.assign_expr(stmt, nostruct)

    def assign_expr(self, stmt, nostruct):
        line = self.peek().line
        lhs = self.range_expr(stmt, nostruct)
        if stmt and is_blocklike(lhs) and not self.at('.') and not self.at('?'):
            return lhs
        t = self.peek()
        if t.kind == 'p' and t.val in ASSIGN_OPS:
            self.i += 1
            rhs = self.assign_expr(False, nostruct)
            if t.val == '=':
                return N('Assign', line, lhs=lhs, rhs=rhs)
            return N('OpAssign', line, op=t.val[:-1], lhs=lhs, rhs=rhs)
        return lhs

    def range_expr(self, stmt, nostruct):
        line = self.peek().line
        if self.at('..') or self.at('..='):
            incl = self.peek().val == '..='
            self.i += 1
            hi = None
            if self.starts_expr(nostruct):
                hi = self.bin_expr(0, False, nostruct)
            return N('Range', line, lo=None, hi=hi, incl=incl)
        lo = self.bin_expr(0, stmt, nostruct)
        if stmt and is_blocklike(lo) and not self.at('.') and not self.at('?'):
            return lo
        if self.at('..') or self.at('..='):
            incl = self.peek().val == '..='
            self.i += 1
            hi = None
            if self.starts_expr(nostruct):
                hi = self.bin_expr(0, False, nostruct)
            return N('Range', line, lo=lo, hi=hi, incl=incl)
        return lo

    def starts_expr(self, nostruct):
        t = self.peek()
        if t.kind in ('int', 'float', 'str', 'char'): return True
        if t.kind == 'id': return t.val not in ('as',)
        if t.kind == 'p': return t.val in ('(', '[', '!', '-', '*', '&', '|', '||') or (t.val == '{' and not nostruct)
        return False

    def bin_expr(self, level, stmt, nostruct):
        if level == len(BINOP_PREC):
            return self.cast_expr(stmt, nostruct)
        line = self.peek().line
        lhs = self.bin_expr(level + 1, stmt, nostruct)
        if stmt and is_blocklike(lhs) and not self.at('.') and not self.at('?'):
            return lhs
        while True:
            t = self.peek()
            if t.kind == 'p' and t.val in BINOP_PREC[level]:
                # `|` at statement start after a blocklike expr is handled above; closures start with `|` only in prefix
                self.i += 1
                rhs = self.bin_expr(level + 1, False, nostruct)
                if level == 2 and lhs.kind == 'Binary' and lhs.op in BINOP_PREC[2] and not getattr(lhs, 'paren', False):
                    self.err('chained comparison operators')
                lhs = N('Binary', line, op=t.val, l=lhs, r=rhs)
            else:
                return lhs

    def cast_expr(self, stmt, nostruct):
        line = self.peek().line
        e = self.unary_expr(stmt, nostruct)
        while self.at_kw('as'):
            self.i += 1
            ty = self.type_()
            e = N('Cast', line, e=e, ty=ty)
        return e

    def unary_expr(self, stmt, nostruct):
        t = self.peek()
        line = t.line
        if t.kind == 'p' and t.val in ('-', '!', '*'):
            self.i += 1
            return N('Unary', line, op=t.val, e=self.unary_expr(False, nostruct))
        if t.kind == 'p' and t.val in ('&', '&&'):
            if t.val == '&&':
                self._split_andand(consume=False)
            self.i += 1
            mut = self.eat_kw('mut')
            return N('Unary', line, op='&mut' if mut else '&', e=self.unary_expr(False, nostruct))
        return self.postfix_expr(stmt, nostruct)

    def postfix_expr(self, stmt, nostruct):
        e = self.primary(nostruct)
        if stmt and is_blocklike(e) and not self.at('.') and not self.at('?'):
            return e
        while True:
            t = self.peek()
            line = t.line
            if self.at('?'):
                self.i += 1
                e = N('Try', line, e=e)
            elif self.at('.'):
                self.i += 1
                t2 = self.peek()
                if t2.kind == 'int':
                    self.i += 1
                    e = N('TupleField', line, obj=e, idx=t2.val[0])
                elif t2.kind == 'id':
                    if t2.val == 'await':
                        self.err('`.await` not supported')
                    self.i += 1
                    gens = []
                    if self.at('::'):
                        self.i += 1
                        self.expect('<')
                        while True:
                            self.split_shift()
                            if self.at('>'): break
                            gens.append(self.type_())
                            if not self.eat(','): break
                        self.expect_gt()
                    if self.at('('):
                        args = self.call_args()
                        e = N('MethodCall', line, recv=e, name=t2.val, generics=gens, args=args)
                    else:
                        e = N('Field', line, obj=e, name=t2.val)
                else:
                    self.err('expected field or method after `.`')
            elif self.at('('):
                args = self.call_args()
                e = N('Call', line, fn=e, args=args)
            elif self.at('['):
                self.i += 1
                idx = self.expr()
                self.expect(']')
                e = N('Index', line, obj=e, idx=idx)
            else:
                return e

    def call_args(self):
        self.expect('(')
        args = []
        while not self.at(')'):
            args.append(self.expr())
            if not self.eat(','): break
        self.expect(')')
        return args

    def primary(self, nostruct):
        t = self.peek()
        line = t.line
        if t.kind == 'int':
            self.i += 1
            return N('Lit', line, lit='int', val=t.val[0], suffix=t.val[1])
        if t.kind == 'float':
            self.i += 1
            return N('Lit', line, lit='float', val=t.val, suffix=None)
        if t.kind == 'str':
            self.i += 1
            return N('Lit', line, lit='str', val=t.val, suffix=None)
        if t.kind == 'char':
            self.i += 1
            return N('Lit', line, lit='char', val=t.val, suffix=None)
        if t.kind == 'life':
            self.err('loop labels are not supported')
        if t.kind == 'p':
            if t.val == '(':
                self.i += 1
                elems = []
                trailing = False
                while not self.at(')'):
                    elems.append(self.expr())
                    trailing = False
                    if not self.eat(','): break
                    trailing = True
                self.expect(')')
                if len(elems) == 1 and not trailing:
                    e = elems[0]
                    return N('Paren', line, e=e)
                return N('Tuple', line, elems=elems)
            if t.val == '[':
                self.i += 1
                elems = []
                if self.at(']'):
                    self.i += 1
                    return N('Array', line, elems=[])
                first = self.expr()
                if self.eat(';'):
                    ln = self.expr()
                    self.expect(']')
                    return N('Repeat', line, elem=first, len=ln)
                elems.append(first)
                while self.eat(','):
                    if self.at(']'): break
                    elems.append(self.expr())
                self.expect(']')
                return N('Array', line, elems=elems)
            if t.val == '{':
                return self.block()
            if t.val in ('|', '||'):
                return self.closure()
            self.err('unexpected token in expression')
        # identifiers / keywords
        w = t.val
        if w in ('true', 'false'):
            self.i += 1
            return N('Lit', line, lit='bool', val=(w == 'true'), suffix=None)
        if w == 'if':
            return self.if_expr()
        if w == 'match':
            self.i += 1
            scrut = self.expr(nostruct=True)
            self.expect('{')
            arms = []
            while not self.at('}'):
                self.skip_attrs()
                pat = self.pattern()
                guard = None
                if self.eat_kw('if'):
                    guard = self.expr()
                self.expect('=>')
                body = self.expr(stmt=True)
                if not self.eat(','):
                    if not self.at('}') and not is_blocklike(body):
                        self.err('expected `,` after match arm')
                arms.append((pat, guard, body))
            self.expect('}')
            return N('Match', line, scrut=scrut, arms=arms, end_line=self.toks[self.i - 1].line)
        if w == 'while':
            self.i += 1
            cond = self.cond_expr()
            body = self.block()
            return N('While', line, cond=cond, body=body, end_line=body.end_line)
        if w == 'loop':
            self.i += 1
            body = self.block()
            return N('Loop', line, body=body, end_line=body.end_line)
        if w == 'for':
            self.i += 1
            pat = self.pattern()
            self.expect_kw('in')
            it = self.expr(nostruct=True)
            body = self.block()
            return N('For', line, pat=pat, iter=it, body=body, end_line=body.end_line)
        if w == 'unsafe' and self.at('{', 1):
            self.i += 1
            b = self.block()
            b.unsafe = True
            return b
        if w == 'return':
            self.i += 1
            e = None
            if self.starts_expr(nostruct): e = self.expr(nostruct=nostruct)
            return N('Return', line, e=e)
        if w == 'break':
            self.i += 1
            if self.peek().kind == 'life': self.err('labelled break not supported')
            if self.starts_expr(nostruct): self.err('break with a value not supported')
            return N('Break', line)
        if w == 'continue':
            self.i += 1
            if self.peek().kind == 'life': self.err('labelled continue not supported')
            return N('Continue', line)
        if w == 'move':
            self.i += 1
            return self.closure()
        if w in ('async', 'await', 'yield', 'dyn', 'impl', 'let'):
            self.err('`%s` expression not supported' % w)
        # path
        segs = []
        self.i += 1
        cur = w
        while True:
            gens = []
            if self.at('::') and self.at('<', 1):
                self.i += 2
                while True:
                    self.split_shift()
                    if self.at('>'): break
                    gens.append(self.type_())
                    if not self.eat(','): break
                self.expect_gt()
            segs.append((cur, gens))
            if self.at('::') and self.peek(1).kind == 'id':
                self.i += 1
                cur = self.ident()
                continue
            break
        if self.at('!') and not self.at('!='):
            return self.macro_call(segs, line)
        if self.at('{') and not nostruct and (segs[-1][0][0].isupper()):
            # struct literal
            self.i += 1
            fields, base = [], None
            while not self.at('}'):
                if self.eat('..'):
                    base = self.expr()
                    break
                fname = self.ident()
                if self.eat(':'):
                    fields.append((fname, self.expr()))
                else:
                    fields.append((fname, N('Path', line, segs=[(fname, [])])))
                if not self.eat(','): break
            self.expect('}')
            return N('StructLit', line, segs=segs, fields=fields, base=base)
        return N('Path', line, segs=segs)

    def macro_call(self, segs, line):
        self.expect('!')
        name = '::'.join(s for s, _ in segs)
        t = self.peek()
        if not (t.kind == 'p' and t.val in ('(', '[', '{')):
            self.err('expected macro arguments')
        close = {'(': ')', '[': ']', '{': '}'}[t.val]
        if name == 'matches':
            self.i += 1
            scrut = self.expr()
            self.expect(',')
            pat = self.pattern()
            if self.at_kw('if'):
                self.err('matches! with a guard is not supported')
            self.eat(',')
            self.expect(close)
            return N('Macro', line, name=name, args=[scrut], repeat=None, pat=pat)
        if name in ('panic', 'assert', 'assert_eq', 'assert_ne', 'debug_assert', 'debug_assert_eq', 'unreachable', 'vec', 'format',
                    'todo', 'unimplemented', 'write', 'writeln', 'format_args'):
            self.i += 1
            args = []
            repeat = None
            while not self.at(close):
                args.append(self.expr())
                if name == 'vec' and len(args) == 1 and self.eat(';'):
                    repeat = self.expr()
                    break
                if not self.eat(','): break
            self.expect(close)
            return N('Macro', line, name=name, args=args, repeat=repeat)
        # unknown macro: keep it opaque, the translator rejects it
        self.skip_balanced()
        return N('Macro', line, name=name, args=None, repeat=None)

    def closure(self):
        line = self.peek().line
        params = []
        if self.eat('||'):
            pass
        else:
            self.expect('|')
            while not self.at('|'):
                pat = self.pattern1()
                ty = None
                if self.eat(':'): ty = self.type_()
                params.append((pat, ty))
                if not self.eat(','): break
            self.expect('|')
        ret = None
        if self.eat('->'):
            ret = self.type_()
            body = self.block()
        else:
            body = self.expr()
        return N('Closure', line, params=params, ret=ret, body=body)

    def cond_expr(self):
        line = self.peek().line
        if self.at_kw('let'):
            self.i += 1
            pat = self.pattern()
            self.expect('=')
            e = self.expr(nostruct=True)
            if self.at('&&'):
                self.err('let chains are not supported')
            return N('LetCond', line, pat=pat, e=e)
        return self.expr(nostruct=True)

    def if_expr(self):
        line = self.peek().line
        self.expect_kw('if')
        cond = self.cond_expr()
        then = self.block()
        els = None
        if self.eat_kw('else'):
            if self.at_kw('if'):
                els = self.if_expr()
            else:
                els = self.block()
        end_line = (els.end_line if els is not None else then.end_line)
        return N('If', line, cond=cond, then=then, els=els, end_line=end_line)


def is_blocklike(e):
    return e.kind in ('If', 'Match', 'While', 'Loop', 'For', 'Block')


def type_head(ty):
    """name of the outermost type constructor (for `impl X`)"""
    while ty.kind == 'TRef':
        ty = ty.inner
    if ty.kind == 'TPath':
        return ty.segs[-1][0]
    return '<%s>' % ty.kind


def parse_file(path, relname):
    src = open(path).read()
    toks = tokenize(src, relname)
    p = Parser(toks, relname)
    fns, structs = p.scan_items()
    for f in fns:
        f.glob_uses = p.glob_uses
    return src, fns, structs, p.enums, p.consts
