"""Tokenizer for the Rust subset handled by rust2lean (comments dropped, line numbers kept)."""


class R2LError(Exception):
    """Anything the translator cannot handle. Carries file / function / construct."""

    def __init__(self, msg, file=None, line=None, fn=None):
        self.msg, self.file, self.line, self.fn = msg, file, line, fn
        Exception.__init__(self, msg)

    def __str__(self):
        loc = ''
        if self.file:
            loc += self.file
        if self.line:
            loc += ':%d' % self.line
        if self.fn:
            loc += ' (fn %s)' % self.fn
        return ('%s: ' % loc if loc else '') + self.msg


class Tok:
    __slots__ = ('kind', 'val', 'line', 'pos')

    def __init__(self, kind, val, line, pos):
        self.kind, self.val, self.line, self.pos = kind, val, line, pos

    def __repr__(self):
        return '%s(%r)@%d' % (self.kind, self.val, self.line)


PUNCT3 = ['<<=', '>>=', '...', '..=']
PUNCT2 = ['::', '->', '=>', '==', '!=', '<=', '>=', '&&', '||', '+=', '-=', '*=', '/=', '%=', '^=', '|=', '&=',
          '<<', '>>', '..']
PUNCT1 = list('+-*/%^!&|=<>@.,;:#$?~()[]{}')


def tokenize(src, fname):
    toks = []
    i, n, line = 0, len(src), 1
    while i < n:
        c = src[i]
        if c == '\n':
            line += 1; i += 1; continue
        if c in ' \t\r':
            i += 1; continue
        if src.startswith('//', i):
            j = src.find('\n', i)
            i = n if j < 0 else j
            continue
        if src.startswith('/*', i):
            depth, j = 1, i + 2
            while j < n and depth:
                if src.startswith('/*', j):
                    depth += 1; j += 2
                elif src.startswith('*/', j):
                    depth -= 1; j += 2
                else:
                    if src[j] == '\n': line += 1
                    j += 1
            if depth:
                raise R2LError('unterminated block comment', fname, line)
            i = j
            continue
        if c.isalpha() or c == '_':
            j = i
            while j < n and (src[j].isalnum() or src[j] == '_'):
                j += 1
            word = src[i:j]
            # raw strings / byte strings are not in the subset
            if word in ('r', 'b', 'br') and j < n and src[j] in '"#\'':
                raise R2LError('raw/byte string literal not supported', fname, line)
            toks.append(Tok('id', word, line, i)); i = j
            continue
        if c.isdigit():
            j = i
            after_dot = bool(toks) and toks[-1].kind == 'p' and toks[-1].val == '.'
            if after_dot:  # tuple index: `x.0.1` must not lex `0.1` as a float
                while j < n and src[j].isdigit(): j += 1
                toks.append(Tok('int', (int(src[i:j]), None), line, i)); i = j
                continue
            if src.startswith('0x', i) or src.startswith('0b', i) or src.startswith('0o', i):
                j = i + 2
                while j < n and (src[j].isalnum() or src[j] == '_'): j += 1
                text = src[i:j].replace('_', '')
                suffix = None
                for s in ('u8', 'u16', 'u32', 'u64', 'usize', 'i32', 'i64'):
                    if text.endswith(s) and not (text.startswith('0x') and s in ('u8',) and False):
                        suffix = s; text = text[:-len(s)]
                        break
                toks.append(Tok('int', (int(text, 0), suffix), line, i)); i = j
                continue
            while j < n and (src[j].isdigit() or src[j] == '_'): j += 1
            is_float = False
            if j < n and src[j] == '.' and j + 1 < n and src[j + 1].isdigit():
                is_float = True
                j += 1
                while j < n and (src[j].isdigit() or src[j] == '_'): j += 1
            elif j < n and src[j] == '.' and not src.startswith('..', j) and not (j + 1 < n and (src[j + 1].isalpha() or src[j + 1] == '_')):
                is_float = True; j += 1
            if j < n and src[j] in 'eE' and is_float:
                k = j + 1
                if k < n and src[k] in '+-': k += 1
                if k < n and src[k].isdigit():
                    j = k
                    while j < n and src[j].isdigit(): j += 1
            digits = src[i:j].replace('_', '')
            k = j
            while k < n and (src[k].isalnum() or src[k] == '_'): k += 1
            suffix = src[j:k].lstrip('_') or None
            if is_float or (suffix and suffix.startswith('f')):
                toks.append(Tok('float', src[i:k], line, i))
            else:
                toks.append(Tok('int', (int(digits), suffix), line, i))
            i = k
            continue
        if c == '"':
            j = i + 1
            buf = []
            start_line = line
            while j < n and src[j] != '"':
                if src[j] == '\\':
                    e = src[j + 1]
                    if e == 'n': buf.append('\n')
                    elif e == 't': buf.append('\t')
                    elif e == 'r': buf.append('\r')
                    elif e == '0': buf.append('\0')
                    elif e in '\\"\'': buf.append(e)
                    elif e == '\n':
                        line += 1; j += 2
                        while j < n and src[j] in ' \t\n\r':
                            if src[j] == '\n': line += 1
                            j += 1
                        continue
                    else:
                        raise R2LError('string escape \\%s not supported' % e, fname, line)
                    j += 2
                    continue
                if src[j] == '\n': line += 1
                buf.append(src[j]); j += 1
            if j >= n:
                raise R2LError('unterminated string literal', fname, start_line)
            toks.append(Tok('str', ''.join(buf), start_line, i)); i = j + 1
            continue
        if c == "'":
            # char literal or lifetime
            if i + 2 < n and src[i + 1] == '\\':
                j = src.find("'", i + 2)
                toks.append(Tok('char', src[i + 1:j], line, i)); i = j + 1
                continue
            if i + 2 < n and src[i + 2] == "'":
                toks.append(Tok('char', src[i + 1], line, i)); i += 3
                continue
            j = i + 1
            while j < n and (src[j].isalnum() or src[j] == '_'): j += 1
            toks.append(Tok('life', src[i:j], line, i)); i = j
            continue
        for plist, ln in ((PUNCT3, 3), (PUNCT2, 2)):
            s = src[i:i + ln]
            if s in plist:
                toks.append(Tok('p', s, line, i)); i += ln
                break
        else:
            if c in PUNCT1:
                toks.append(Tok('p', c, line, i)); i += 1
            else:
                raise R2LError('unexpected character %r' % c, fname, line)
    toks.append(Tok('eof', None, line, n))
    return toks
