"""Per-function translation context and the crate-level translator."""
import os
from .lexer import R2LError
from .types import *
from .core import *
from .expr import ExprMixin
from .methods import MethodMixin
from .stmt import StmtMixin

# crate methods that are provided by the hand-written shim (they return `&mut` into self or implement operator traits)
SHIM_METHODS = {
    ('BddPartialValuation', 'set_value'): ('Rust.pvalSetValue', [('self_', PVAL, True), ('id', VAR, False), ('value', BOOL, False)], UNIT),
    ('BddPartialValuation', 'unset_value'): ('Rust.pvalUnsetValue', [('self_', PVAL, True), ('id', VAR, False)], UNIT),
}
SHIM_REJECT = {('BddPartialValuation', 'mut_cell'): 'returns a `&mut` into self (use set_value/unset_value/IndexMut, which are shimmed)'}


class FnTr(ExprMixin, MethodMixin, StmtMixin):
    def __init__(self, tr, item, pure):
        self.tr, self.item, self.pure = tr, item, pure
        self.ast = item.parse()
        self.owner = item.owner if item.owner else (item.outer.owner if item.outer else None)
        self.out, self.ind, self.eff = [], 0, 0
        self.scopes = [{}]
        self.loops = []
        self.local_fns = {}
        self.local_structs = {}
        self.generics = {}
        self.uses_fuel = False
        self.depth = 0
        self.ntmp = 0
        self.final = None
        self.last_comment = None
        self.sig = None
        self.param_vars = []
        self.tparams = []

    # -- errors / source
    def fail(self, msg, line=None):
        raise R2LError(msg, self.item.file, line or self.item.line, self.item.qual())

    def src(self, line):
        return self.tr.crate.src_line(self.item.file, line)

    # -- output
    def emit(self, text):
        self.out.append((self.ind, text))

    def capture(self, fn):
        saved = (self.out, self.ind, self.eff)
        self.out, self.ind, self.eff = [], 0, 0
        try:
            r = fn()
            lines, eff = self.out, self.eff
        finally:
            inner_eff = self.eff
            self.out, self.ind = saved[0], saved[1]
            self.eff = saved[2] + inner_eff
        return r, lines, eff > 0

    def splice(self, lines):
        for i, t in lines:
            self.out.append((self.ind + i, t))

    def tmp(self, stem):
        self.ntmp += 1
        return '%s%d__' % (stem, self.ntmp)

    # -- scopes
    def push(self):
        self.scopes.append({})

    def pop(self):
        self.scopes.pop()

    def declare(self, rust_name, var):
        self.scopes[-1][rust_name] = var

    def lookup(self, rust_name):
        for sc in reversed(self.scopes):
            if rust_name in sc:
                return sc[rust_name]
        return None

    # -- types
    def struct_key(self, name, line):
        if name in self.local_structs:
            return self.local_structs[name]
        if self.item.outer is not None:
            pass
        if name in self.tr.struct_fields_by_name:
            return self.tr.struct_fields_by_name[name]
        if name in self.tr.crate.structs:
            return self.tr.register_struct(self.tr.crate.structs[name], local_to=None, ctx=self)
        self.fail('unknown struct `%s`' % name, line)

    def conv(self, ty):
        k = ty.kind
        if k == 'TRef':
            return self.conv(ty.inner)
        if k in ('TSlice', 'TArray'):
            return ('vec', self.conv(ty.inner))
        if k == 'TTuple':
            if not ty.elems:
                return UNIT
            return ('tuple', tuple(self.conv(x) for x in ty.elems))
        if k == 'TFn':
            return ('fn', tuple(self.conv(x) for x in ty.args), self.conv(ty.ret))
        if k == 'TNever':
            return NEVER
        if k == 'TImpl':
            fns = [b for b in ty.bounds if b.kind == 'TFn']
            if len(fns) == 1:
                return self.conv(fns[0])
            if len(ty.bounds) == 1 and ty.bounds[0].kind == 'TPath' and ty.bounds[0].segs[-1][0] in ('Read', 'Write'):
                # `dyn Read` / `dyn Write`: an explicit scripted device (Gen/RustShimIO.lean)
                return ('reader',) if ty.bounds[0].segs[-1][0] == 'Read' else ('writer',)
            self.fail('`impl Trait` type other than a single Fn bound', ty.line)
        name, args = ty.segs[-1]
        if len(ty.segs) == 2 and ty.segs[0][0] == 'Self' and name in self.item.assoc:
            return self.conv(self.item.assoc[name])
        if name in INT_RANK_NAMES:
            return INT(name)
        if name in ('f32', 'f64', 'i8', 'i16', 'i32', 'i64', 'isize', 'i128'):
            self.fail('type `%s` is out of scope (floats / signed integers)' % name, ty.line)
        if name == 'bool': return BOOL
        if name in ('String', 'str'): return STR
        if name in NEWTYPES: return NEWTYPES[name]
        if name == 'BddNode': return NODE
        if name == 'BigInt': return BIG
        if name == 'Ordering': return ('ordering',)
        if name == 'char': return ('char',)
        if name == 'Chars': return ('chars',)
        if name == 'Peekable' and args and args[0].kind == 'TPath' and args[0].segs[-1][0] == 'Chars': return ('chars',)
        if name == 'Formatter': return ('fmtr',)
        if name == 'Error' and (any(sg[0] == 'fmt' for sg in ty.segs[:-1]) or (len(ty.segs) == 1 and self.item.trait == 'Display')):
            return ('fmterr',)
        if name == 'Error' and any(sg[0] == 'io' for sg in ty.segs[:-1]): return ('ioerr',)
        if name in self.tr.crate.enums: return ('enum', self.tr.register_enum(self.tr.crate.enums[name], self))
        if name == 'Error' and len(ty.segs) == 2 and ty.segs[0][0] == 'io': return ('ioerr',)
        if name == 'ErrorKind': return ('errkind',)
        if name == 'Self':
            if self.owner is None: self.fail('`Self` outside an impl', ty.line)
            return self.owner_type(self.owner, ty.line)
        if name == '_': return TVar()
        if name in self.generics: return self.generics[name]
        if name == 'Option': return ('opt', self.conv(args[0]))
        if name == 'Vec': return ('vec', self.conv(args[0]) if args else TVar())
        if name == 'HashMap': return ('map', self.conv(args[0]), self.conv(args[1])) if args else ('map', TVar(), TVar())
        if name == 'HashSet': return ('set', self.conv(args[0])) if args else ('set', TVar())
        if name == 'Result': return ('result', self.conv(args[0]), self.conv(args[1]) if len(args) > 1 else TVar())
        if name == 'Map' and len(args) == 2 and args[1].kind == 'TFn': return ('iter', self.conv(args[1].ret))
        if name in ('Iter', 'Range', 'IntoIter') and args: return ('iter', self.conv(args[0]))
        if name == 'Box' and args: return self.conv(args[0])
        return ('struct', self.struct_key(name, ty.line))

    def owner_type(self, owner, line):
        if owner in NEWTYPES: return NEWTYPES[owner]
        if owner == 'BddNode': return NODE
        if owner in self.tr.crate.enums: return ('enum', self.tr.register_enum(self.tr.crate.enums[owner], self))
        if owner in ('str', 'String'): return STR
        return ('struct', self.struct_key(owner, line))

    def resolve_variant(self, names):
        """(enum key, variant, kind, fields) for a path that names an enum variant, else None"""
        crate = self.tr.crate
        if len(names) >= 2:
            en = names[-2]
            if en == 'Self': en = self.owner
            if en in crate.enums and any(v[0] == names[-1] for v in crate.enums[en].variants):
                key = self.tr.register_enum(crate.enums[en], self)
                kind, fields = self.tr.enum_variants[key][names[-1]]
                return key, names[-1], kind, fields
            return None
        cands = [e for e in crate.enums.values() if any(v[0] == names[0] for v in e.variants)]
        globbed = [e for e in cands if e.name in getattr(self.item, 'glob_uses', []) or
                   (self.item.outer is not None and e.name in getattr(self.item.outer, 'glob_uses', []))]
        uses = list(getattr(self.item, 'glob_uses', [])) + (list(getattr(self.item.outer, 'glob_uses', [])) if self.item.outer is not None else [])
        single = [e for e in cands if (e.name + '::' + names[0]) in uses]
        if globbed:
            cands = globbed
        elif single:
            cands = single
        else:
            cands = []
        if len(cands) == 1:
            key = self.tr.register_enum(cands[0], self)
            kind, fields = self.tr.enum_variants[key][names[0]]
            return key, names[0], kind, fields
        return None

    # -- name resolution
    def resolve_free(self, name, line, must=True):
        # inner fns of this function (or of the enclosing one, for recursion)
        it = self
        if name in self.local_fns:
            return self.tr.sig_of(self.local_fns[name], self, line)
        if self.item.outer is None and False:
            pass
        if self.item.name == name and self.item.outer is not None:
            return self.tr.sig_of(self.item, self, line)
        cands = self.tr.crate.free.get(name, [])
        same = [c for c in cands if c.file == self.item.file]
        if same:
            cands = same
        if len(cands) == 1:
            return self.tr.sig_of(cands[0], self, line)
        if len(cands) > 1:
            self.fail('ambiguous free function `%s` (%s)' % (name, ', '.join(c.file for c in cands)), line)
        if must:
            self.fail('unknown function `%s`' % name, line)
        return None

    def resolve_path_fn(self, names, line):
        head, fn = names[-2], names[-1]
        if head == 'Self': head = self.owner
        if head in ('op_function',):
            self.fail('crate::op_function::%s as a value is not translated here (operator tables come from Gen/OpTables)' % fn, line)
        sig = self.tr.method_sig(head, fn, self, line)
        return sig

    # -- header
    def header(self, lean_name):
        a = self.ast
        # type parameters of the enclosing function are not visible in an inner fn (Rust), each fn declares its own
        for g, bounds in sorted(a.generics, key=lambda gb: 0 if not gb[1] else 1):
            fns = [b for b in bounds if b.kind == 'TFn']
            if len(fns) == 1:
                self.generics[g] = self.conv(fns[0])
            elif len(bounds) == 1 and bounds[0].kind == 'TPath' and bounds[0].segs[-1][0] == 'Rng':
                # a random number generator is the list of its recorded coin flips
                self.generics[g] = ('rng',)
            elif len(bounds) == 1 and bounds[0].kind == 'TPath' and bounds[0].segs[-1][0] == 'Hasher':
                # a hasher is the sequence of its writes: (width in bytes, value)
                self.generics[g] = ('vec', ('tuple', (INT('usize'), INT('usize'))))
                self.hashers = getattr(self, 'hashers', set()) | {g}
            elif not bounds:
                # an unconstrained type parameter becomes an implicit Lean type argument
                self.generics[g] = ('tparam', g)
                self.tparams.append(g)
            elif len(bounds) == 1 and bounds[0].kind == 'TPath' and bounds[0].segs[-1][0] == 'IntoIterator' and bounds[0].segs[-1][1]:
                # `T: IntoIterator<Item = X>`: a materialised sequence of X
                self.generics[g] = ('iter', self.conv(bounds[0].segs[-1][1][0]))
            elif len(bounds) == 1 and bounds[0].kind == 'TPath' and bounds[0].segs[-1][0] == 'ToString':
                self.generics[g] = ('tparam', g)
                self.tparams.append(g + '] [ToString ' + g)
        params = []
        if a.self_kind is not None:
            if self.owner is None: self.fail('self parameter outside an impl')
            params.append(('self', 'self_', self.owner_type(self.owner, a.line), a.self_kind == '&mut', a.self_kind == 'mutval'))
        for p, ty in a.params:
            if p.kind != 'PIdent':
                self.fail('only identifier parameters are supported', a.line)
            mutref = ty.kind == 'TRef' and ty.mut
            params.append((p.name, lean_ident(p.name), self.conv(ty), mutref, p.mut))
        ret = self.conv(a.ret) if a.ret is not None else UNIT
        sig = Sig(lean_name, [(ln, t, mr) for _, ln, t, mr, _ in params], ret, a.self_kind is not None, item=self.item)
        sig.tparams = list(self.tparams)
        self.sig = sig
        self.params_full = params
        return sig

    def run(self):
        """translate the body; returns the list of output lines (indent, text)"""
        a = self.ast
        self.param_vars = []
        for rn, ln, t, mr, pm in self.params_full:
            v = Var(ln, t, mutable=(mr or pm), mutref=mr)
            self.declare(rn, v)
            self.param_vars.append(v)
            if (mr or pm) and not self.pure:
                self.emit('let mut %s := %s' % (ln, ln))
        self.push()
        self.block_stmts(a.body, ('fntail',))
        self.pop()
        return self.out


INT_RANK_NAMES = ('u8', 'u16', 'u32', 'u64', 'u128', 'usize')


class Translator:
    def __init__(self, repo, debug_assertions=False):
        self.crate = Crate(repo)
        self.crate.load_all()
        self.debug_assertions = debug_assertions
        self.sigs = {}          # FnItem -> Sig
        self.inprog = {}
        self.output = []        # (lean name, text, item)
        self.used_names = {}
        self.struct_fields = {}           # key -> [(field, type)]
        self.struct_fields_by_name = {}   # global struct name -> key
        self.struct_owner = {}            # key -> rust name (for method lookup)
        self.stats = []
        self.stack = []         # FnItems being translated (outermost first)
        self.group_of = {}      # FnItem -> group id (mutual recursion)
        self.group_root = {}
        self.pending = {}       # group id -> finished members waiting for the root
        self.enum_variants = {}  # enum key -> {variant: (kind, [(field name or None, type)])}
        self.consts_done = {}
        self.phase = 1
        self.batch_of = {}      # FnItem -> batch in which it was translated

    # -- structs
    def register_struct(self, st, local_to=None, ctx=None):
        if st.fields is None:
            if not st.tuple_fields:
                raise R2LError('unit struct `%s` is not supported' % st.name, st.file, st.line)
            # a tuple struct is the product of its positional fields (field names "0", "1", …)
            st.fields = [(str(k), t) for k, t in enumerate(st.tuple_fields)]
        if local_to is not None:
            key = local_to.item.qual() + '::' + st.name
            local_to.local_structs[st.name] = key
            conv_ctx = local_to
        else:
            key = st.name
            self.struct_fields_by_name[st.name] = key
            conv_ctx = ctx
        self.struct_owner[key] = st.name
        self.struct_fields[key] = []   # allow self-reference errors to surface as unknown
        self.struct_fields[key] = [(f, conv_ctx.conv(t)) for f, t in st.fields]
        return key

    # -- enums and constants
    def register_enum(self, en, ctx):
        if en.name in self.enum_variants:
            return en.name
        key = en.name
        self.enum_variants[key] = {}      # (self-references resolve to the key while the fields are converted)
        if self.used_names.get(key, en) is not en:
            raise R2LError('the Lean name `%s` of enum %s is already taken' % (key, en.name), en.file, en.line)
        self.used_names[key] = en
        variants = {}
        lines = []
        for vname, kind, fields in en.variants:
            fts = [(fn_, ctx.conv(t)) for fn_, t in fields]
            variants[vname] = (kind, fts)
            args = []
            for k, (fn_, t) in enumerate(fts):
                lt = lean_type(t, self.struct_fields)
                if lt is None:
                    raise R2LError('unresolved field type in enum %s' % en.name, en.file, en.line)
                args.append('(%s : %s)' % (lean_ident(fn_) if fn_ else 'a%d' % k, lt))
            lines.append('  | %s%s' % (lean_ident(vname), (' ' + ' '.join(args)) if args else ''))
        self.enum_variants[key] = variants
        # a NESTED inductive (a field `Vec<Self>`): `deriving BEq` would produce an opaque `partial def`, about which
        # nothing can be proved; emit the structural equality (what `derive(PartialEq)` means) as a mutual definition
        lts = {vn: [lean_type(t, self.struct_fields) for _, t in fts] for vn, (_, fts) in variants.items()}
        nested = any(lt == 'Array %s' % key for l in lts.values() for lt in l)
        beq_text = ''
        if nested and 'PartialEq' in en.derives:
            arms = []
            for vname, _, _ in en.variants:
                l = lts[vname]
                pa, pb, conj = [], [], []
                for k, lt in enumerate(l):
                    if lt == 'Array %s' % key:
                        pa.append('⟨a%d⟩' % k); pb.append('⟨b%d⟩' % k); conj.append('%s.beqL a%d b%d' % (key, k, k))
                    elif lt == key:
                        pa.append('a%d' % k); pb.append('b%d' % k); conj.append('%s.beq a%d b%d' % (key, k, k))
                    elif key in lt.replace('(', ' ').replace(')', ' ').split():
                        raise R2LError('enum %s: unsupported nesting `%s` for structural equality' % (en.name, lt), en.file, en.line)
                    else:
                        pa.append('a%d' % k); pb.append('b%d' % k); conj.append('a%d == b%d' % (k, k))
                v = lean_ident(vname)
                arms.append('  | .%s%s, .%s%s => %s' % (v, ''.join(' ' + x for x in pa), v, ''.join(' ' + x for x in pb),
                                                        ' && '.join(conj) if conj else 'true'))
            beq_text = ('\nmutual\n/-- structural equality of `%s` (`derive(PartialEq)`) -/\ndef %s.beq : %s → %s → Bool\n%s\n  | _, _ => false\n'
                        'def %s.beqL : List %s → List %s → Bool\n  | [], [] => true\n  | x :: xs, y :: ys => %s.beq x y && %s.beqL xs ys\n  | _, _ => false\nend\n'
                        'instance : BEq %s := ⟨%s.beq⟩') % (en.name, key, key, key, '\n'.join(arms), key, key, key, key, key, key, key)
            derive = 'Repr, Inhabited'
        else:
            derive = 'BEq, Repr, Inhabited' if 'PartialEq' in en.derives else 'Repr, Inhabited'
        text = '/-- `enum %s` — %s:%d (`Box` erased, `Vec` = `Array`, `String` = `String`) -/\ninductive %s where\n%s\nderiving %s%s' % (
            en.name, en.file, en.line, key, '\n'.join(lines), derive, beq_text)
        self.output.append((key, text, None))
        self.stats.append(('enum ' + en.name, key, 'inductive', text.count('\n') + 1, en.file, en.line))
        return key

    def const_sig(self, c, ctx):
        """a crate-level `const`: a Lean definition without parameters"""
        if c.name in self.consts_done:
            return self.consts_done[c.name]
        name = lean_ident(c.name)
        if self.used_names.get(name, c) is not c:
            raise R2LError('the Lean name `%s` of const %s is already taken' % (name, c.name), c.file, c.line)
        self.used_names[name] = c
        ty = ctx.conv(c.ty)
        (t, ety), lines, eff = ctx.capture(lambda: ctx.ex(c.expr, want=ty))
        if lines or eff:
            raise R2LError('const initialiser with effects', c.file, c.line)
        unify(ty, ety)
        lt = lean_type(ty, self.struct_fields)
        text = '/-- `const %s` — %s:%d -/\ndef %s : %s :=\n  %s' % (c.name, c.file, c.line, name, lt, t)
        self.output.append((name, text, None))
        self.stats.append(('const ' + c.name, name, 'const', 3, c.file, c.line))
        self.consts_done[c.name] = (name, ty)
        return name, ty

    # -- names
    def lean_name(self, item):
        if item.outer is not None:
            base = self.lean_name(item.outer) + '__' + item.name
        elif item.owner:
            base = item.owner + '_' + item.name
        else:
            base = item.name
        base = lean_ident(base)
        prev = self.used_names.get(base)
        if base in ('and', 'or', 'xor', 'not', 'iff', 'imp', 'cond', 'id', 'max', 'min', 'compare', 'toString', 'ite', 'dite', 'bind') or \
                (base == 'and_not' and item.file.endswith('op_function.rs')):
            prev = 'a name of Lean core'      # never define these inside the generated namespace
        if prev is None or prev is item:
            self.used_names[base] = item
            return base
        stem = os.path.basename(item.file)[:-3].lstrip('_')
        if stem.startswith('impl_'): stem = stem[5:]
        alt = stem + '__' + base
        k = 1
        while self.used_names.get(alt, item) is not item:
            k += 1
            alt = '%s__%s_%d' % (stem, base, k)     # further impls of the same method for other receiver types
            if k > 9:
                raise R2LError('cannot find a unique Lean name for %s' % item.qual(), item.file, item.line)
        self.used_names[alt] = item
        return alt

    # -- signatures
    def method_sig(self, owner, name, caller, line):
        if (owner, name) in SHIM_REJECT:
            caller.fail('%s::%s cannot be translated: %s' % (owner, name, SHIM_REJECT[(owner, name)]), line)
        if (owner, name) in SHIM_METHODS:
            lean, params, ret = SHIM_METHODS[(owner, name)]
            s = Sig(lean, params, ret, True, monadic=False, fuel=False)
            return s
        cands = self.crate.methods.get((owner, name), [])
        inherent = [c for c in cands if c.trait is None]
        if inherent:
            cands = inherent
        if len(cands) == 1:
            return self.sig_of(cands[0], caller, line)
        if len(cands) > 1:
            caller.fail('ambiguous method %s::%s' % (owner, name), line)
        return None

    def sig_of(self, item, caller, line=None):
        if item in self.sigs:
            gid = self.group_of.get(item)
            if gid is not None and self.group_root.get(gid) in self.inprog:
                # a finished member of a `mutual` group whose root is still being translated: everything on the stack
                # from the root upwards reaches the group and is reachable from it, so it belongs to the group too
                k = self.stack.index(self.group_root[gid])
                for m in self.stack[k:]:
                    if self.group_of.get(m) is not gid:
                        if not self.inprog[m].monadic:
                            raise AbortPure(m)
                        self.group_of[m] = gid
                    self.inprog[m].recursive = True
            return self.sigs[item]
        if item in self.inprog:
            sig = self.inprog[item]
            if not sig.monadic:
                # the function is being tried as a PURE definition and is reached again (recursion): give that attempt up
                raise AbortPure(item)
            if caller is not None and caller.item is item:
                sig.recursive = True
                return sig
            # mutual recursion: everything on the translation stack from `item` upwards is one `mutual` group
            k = self.stack.index(item)
            members = self.stack[k:]
            gid = None
            for m in members:
                if m in self.group_of:
                    gid = self.group_of[m] if gid is None else gid
            if gid is None:
                gid = item
            for m in members:
                old = self.group_of.get(m)
                if old is not None and old is not gid:
                    for x, g in list(self.group_of.items()):
                        if g is old:
                            self.group_of[x] = gid
                self.group_of[m] = gid
                self.inprog[m].recursive = True
            # the root of a group is its member lowest on the stack
            roots = [m for m in self.stack if self.group_of.get(m) is gid]
            self.group_root[gid] = roots[0]
            return sig
        return self.translate(item)

    def translate(self, item):
        key = (item.owner, item.name)
        if key in SHIM_REJECT:
            raise R2LError('%s::%s cannot be translated: %s' % (key[0], key[1], SHIM_REJECT[key]), item.file, item.line, item.qual())
        name = self.lean_name(item)
        sig = None
        text = None
        ctx = None
        for pure in (True, False):
            ctx = FnTr(self, item, pure)
            sig = ctx.header(name)
            sig.monadic = not pure
            sig.fuel = False
            if not pure:
                sig.fuel = True      # provisional (needed for recursive calls); fixed below
            self.inprog[item] = sig
            self.stack.append(item)
            n_out, n_stats = len(self.output), len(self.stats)
            try:
                if pure and (ctx.ast.self_kind == 'mutval'):
                    raise NotPure()
                lines = ctx.run()
            except NotPure:
                if not pure:
                    raise R2LError('internal: NotPure in monadic mode', item.file, item.line, item.qual())
                continue
            except AbortPure as ab:
                if ab.item is item and pure:
                    # callees finished meanwhile stay valid unless they were waiting in a group with this attempt
                    self.drop_pending_groups()
                    continue
                raise
            finally:
                self.stack.pop()
                del self.inprog[item]
            if pure and ctx.final is None:
                # a pure function must end in a value
                continue
            sig.fuel = (not pure) and (ctx.uses_fuel or sig.recursive)
            text = self.render(ctx, sig, lines)
            break
        self.sigs[item] = sig
        self.batch_of[item] = self.phase
        row = (item.qual(), sig.lean, 'pure' if not sig.monadic else ('monadic+fuel' if sig.fuel else 'monadic'),
               text.count('\n') + 1, item.file, item.line)
        gid = self.group_of.get(item)
        if gid is None:
            self.output.append((sig.lean, text, item))
            self.stats.append(row)
        else:
            self.pending.setdefault(gid, []).append((sig.lean, text, item, row))
            if self.group_root[gid] is item:
                parts = self.pending.pop(gid)
                body = 'mutual\n' + '\n\n'.join(p[1] for p in parts) + '\nend'
                self.output.append((parts[-1][0], body, item))
                self.stats.append((' + '.join(p[3][0] for p in parts), ' '.join(p[0] for p in parts), 'mutual, monadic+fuel',
                                   body.count('\n') + 1, item.file, item.line))
        return sig

    def drop_pending_groups(self):
        """a pure attempt was abandoned: members of unfinished mutual groups were translated against the abandoned
        attempt and are translated again"""
        for gid, parts in list(self.pending.items()):
            for lean, text, it, row in parts:
                self.sigs.pop(it, None)
                self.group_of.pop(it, None)
            del self.pending[gid]
        for it in list(self.group_of):
            if it not in self.inprog:
                self.group_of.pop(it, None)

    def render(self, ctx, sig, lines):
        sf = self.struct_fields
        params = []
        for tp in getattr(sig, 'tparams', []):
            if '] [' in tp:
                nm, cls = tp.split('] [')
                params.append('{%s : Type} [%s]' % (nm, cls))
            else:
                params.append('{%s : Type}' % tp)
        if sig.fuel:
            params.append('(fuel : Nat)')
        for (ln, t, mr) in sig.params:
            lt = lean_type(t, sf)
            if lt is None:
                raise R2LError('parameter %s has an unresolved type' % ln, ctx.item.file, ctx.item.line, ctx.item.qual())
            params.append('(%s : %s)' % (ln, lt))
        rt = lean_type(sig.result_type(), sf)
        if rt is None:
            raise R2LError('unresolved return type', ctx.item.file, ctx.item.line, ctx.item.qual())
        doc = '/-- `%s` — %s:%d%s -/' % (ctx.item.qual(), ctx.item.file, ctx.item.line,
                                         '' if not sig.mut_idx() else ' (returns the updated `&mut` arguments: %s)' %
                                         ', '.join(sig.params[k][0] for k in sig.mut_idx()))
        body = []
        for ind, t in lines:
            s = t() if callable(t) else t
            body.append((ind, s))
        if not sig.monadic:
            head = 'def %s %s : %s :=' % (sig.lean, ' '.join(params), rt)
            out = [doc, head]
            for ind, s in body:
                out.append(' ' * (2 + ind) + s)
            out.append('  ' + ctx.final)
            return '\n'.join(out)
        rtt = 'Outcome %s' % (rt if ' ' not in rt else '(%s)' % rt)
        if sig.recursive:
            out = [doc, 'def %s %s : %s :=' % (sig.lean, ' '.join(params), rtt), '  match fuel with',
                   '  | 0 => Outcome.panic "fuel"', '  | fuel + 1 => do']
            off = 4
        else:
            out = [doc, 'def %s %s : %s := do' % (sig.lean, ' '.join(params), rtt)]
            off = 2
        for ind, s in body:
            out.append(' ' * (off + ind) + s)
        return '\n'.join(out)
