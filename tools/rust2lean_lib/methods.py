"""Method-call translation (mixin of FnTr): std methods by receiver type, crate methods via their signatures."""
from .types import *
from .core import *

ITER_IDENTITY = ('iter', 'into_iter', 'cloned', 'copied', 'clone', 'to_vec', 'to_owned', 'collect', 'into', 'as_slice', 'borrow')


class MethodMixin:
    def ex_MethodCall(self, e, want=None):
        name, args = e.name, e.args
        pl = self.try_place(e.recv)
        if pl is not None:
            rty = res(pl.ty)
            get = pl.get
        else:
            t0, ty0 = self.ex(e.recv)
            if t0 is None: self.fail('method call on a diverging expression', e.line)
            rty = res(ty0)
            get = lambda: t0
        if isinstance(rty, TVar):
            self.fail('cannot infer the receiver type of `.%s()`' % name, e.line)
        tag = rty[0]

        # ---- crate methods (translated or shimmed)
        owner = OWNER_OF_TAG.get(tag) or (self.tr.struct_owner.get(rty[1]) if tag == 'struct' else None)
        if owner is not None:
            sig = self.tr.method_sig(owner, name, self, e.line)
            if sig is not None:
                first = ('done', None, None)
                if sig.params and sig.params[0][2]:
                    if pl is None:
                        first = ('done', get(), rty, None)
                    else:
                        first = ('done', pl.get(), rty, pl)
                else:
                    first = ('done', get(), rty)
                return self.call_sig(sig, [first] + list(args), e.line)
        if name == 'clone' or (name in ('to_owned', 'borrow', 'as_ref', 'into') and not args):
            return get(), rty

        def arg(k, want=None):
            return self.ex(args[k], want)

        # ---- Option
        if tag == 'opt':
            el = rty[1]
            if name == 'is_some': return par(get()) + '.isSome', BOOL
            if name == 'is_none': return par(get()) + '.isNone', BOOL
            if name in ('cloned', 'copied'): return get(), rty
            if name == 'unwrap' or name == 'expect': return self.m('Rust.unwrap %s' % par(get())), el
            if name == 'flatten':
                inner = res(el)
                if isinstance(inner, TVar):
                    inner = ('opt', TVar()); unify(el, inner)
                if inner[0] != 'opt': self.fail('flatten on Option of non-Option', e.line)
                return par(get()) + '.join', inner
            if name == 'unwrap_or':
                d, dt = arg(0, el)
                return '%s.getD %s' % (par(get()), par(d)), el
            if name == 'map':
                f, ft = self.fn_arg(args[0], [el], e.line)
                return '%s.map %s' % (par(get()), par(f)), ('opt', ft[2])
            if name == 'or_else':
                c = args[0]
                if c.kind != 'Closure' or c.params: self.fail('or_else expects a `|| …` closure', e.line)
                f, ft = self.ex_Closure(c, ptys=[])
                unify(ft[2], rty)
                return '%s.orElse %s' % (par(get()), f), rty
            if name == 'or':
                d, dt = arg(0, rty)
                return '%s.orElse (fun _ => %s)' % (par(get()), d), rty
        # ---- Result
        if tag == 'result':
            if name == 'unwrap' or name == 'expect': return self.m('Rust.unwrapR %s' % par(get())), rty[1]
            if name == 'is_ok': return par(get()) + '.isOk', BOOL
            if name == 'is_err': return '!' + par(get()) + '.isOk', BOOL
        # ---- Vec / slice / materialised iterator
        if tag in ('vec', 'iter'):
            el = rty[1]
            if name in ITER_IDENTITY:
                if name == 'collect' and e.generics:
                    g = e.generics[0]
                    if not (g.kind == 'TPath' and g.segs[-1][0] == 'Vec'):
                        self.fail('collect into a non-Vec is not supported', e.line)
                return get(), ((tag if name not in ('collect', 'to_vec') else 'vec'), el)
            if name == 'len' or name == 'count': return par(get()) + '.size', INT('usize')
            if name == 'is_empty': return par(get()) + '.isEmpty', BOOL
            if name == 'last': return par(get()) + '.back?', ('opt', el)
            if name == 'first': return par(get()) + '[0]?', ('opt', el)
            if name == 'get':
                i, _ = arg(0)
                return '%s[%s]?' % (par(get()), i), ('opt', el)
            if name == 'contains':
                x, xt = arg(0, el); unify(xt, el)
                return '%s.contains %s' % (par(get()), par(x)), BOOL
            if name == 'split_last':
                return 'Rust.splitLast %s' % par(get()), ('opt', ('tuple', (el, ('vec', el))))
            if name == 'skip':
                n, _ = arg(0)
                return 'Rust.skip %s %s' % (par(get()), par(n)), ('iter', el)
            if name == 'rev': return par(get()) + '.reverse', ('iter', el)
            if name == 'enumerate': return 'Rust.enumerate %s' % par(get()), ('iter', ('tuple', (INT('usize'), el)))
            if name == 'flatten':
                inner = res(el)
                if not isinstance(inner, TVar) and inner[0] == 'opt':
                    return '%s.filterMap id' % par(get()), ('iter', inner[1])
                self.fail('flatten on an iterator of %r' % (inner,), e.line)
            if name in ('map', 'filter', 'filter_map', 'all', 'any'):
                f, ft = self.fn_arg(args[0], [el], e.line)
                r = res(ft[2])
                if name == 'map': return '%s.map %s' % (par(get()), par(f)), ('iter', ft[2])
                if name == 'filter': return '%s.filter %s' % (par(get()), par(f)), ('iter', el)
                if name == 'filter_map':
                    if isinstance(r, TVar) or r[0] != 'opt': self.fail('filter_map closure must return an Option', e.line)
                    return '%s.filterMap %s' % (par(get()), par(f)), ('iter', r[1])
                return '%s.%s %s' % (par(get()), name, par(f)), BOOL
            if tag == 'vec' and pl is not None:
                if name == 'push':
                    x, xt = arg(0, el)
                    if not unify(xt, el): self.fail('push of %r into Vec of %r' % (deep(xt), deep(el)), e.line)
                    pl.set('%s.push %s' % (par(pl.get()), par(x)))
                    return '()', UNIT
                if name == 'pop':
                    return self.vec_pop(pl, el, e)
                if name == 'sort':
                    r = res(el)
                    if isinstance(r, TVar) or r[0] not in ('int', 'ptr', 'var'): self.fail('sort of a Vec of %r' % (r,), e.line)
                    pl.set('Rust.sortNat %s' % par(pl.get()))
                    return '()', UNIT
                if name == 'dedup':
                    pl.set('Rust.dedup %s' % par(pl.get()))
                    return '()', UNIT
                if name == 'clear':
                    pl.set('#[]')
                    return '()', UNIT
        # ---- HashMap
        if tag == 'map':
            K, V = rty[1], rty[2]
            if name == 'get':
                k, kt = arg(0, K); unify(kt, K)
                return '%s[%s]?' % (par(get()), k), ('opt', V)
            if name == 'contains_key':
                k, kt = arg(0, K); unify(kt, K)
                return '%s.contains %s' % (par(get()), par(k)), BOOL
            if name == 'len': return par(get()) + '.size', INT('usize')
            if name == 'is_empty': return par(get()) + '.isEmpty', BOOL
            if name == 'insert' and pl is not None:
                k, kt = arg(0, K); unify(kt, K)
                v, vt = arg(1, V); unify(vt, V)
                self.unit_only(e, 'HashMap::insert')
                pl.set('%s.insert %s %s' % (par(pl.get()), par(k), par(v)))
                return '()', UNIT
            if name == 'remove' and pl is not None:
                k, kt = arg(0, K); unify(kt, K)
                old = self.tmp('old')
                self.emit('let %s := %s[%s]?' % (old, par(pl.get()), k))
                pl.set('%s.erase %s' % (par(pl.get()), par(k)))
                return old, ('opt', V)
        # ---- HashSet
        if tag == 'set':
            K = rty[1]
            if name == 'contains':
                k, kt = arg(0, K); unify(kt, K)
                return '%s.contains %s' % (par(get()), par(k)), BOOL
            if name == 'len': return par(get()) + '.size', INT('usize')
            if name == 'is_empty': return par(get()) + '.isEmpty', BOOL
            if name == 'insert' and pl is not None:
                k, kt = arg(0, K); unify(kt, K)
                self.unit_only(e, 'HashSet::insert')
                pl.set('%s.insert %s' % (par(pl.get()), par(k)))
                return '()', UNIT
        # ---- integers
        if tag == 'int':
            if name == 'checked_add':
                b, bt = arg(0)
                k = rty[1] or res(bt)[1]
                if k not in ('u16', 'u32'): self.fail('checked_add on integer kind %r' % (k,), e.line)
                return 'Rust.checkedAdd%s %s %s' % (k.upper(), par(get()), par(b)), ('opt', INT(k))
        if tag == 'big' and name in ('clone',):
            return get(), rty
        if tag == 'str' and name in ('to_string', 'to_owned', 'into'):
            return get(), STR
        self.fail('method `.%s()` on a value of type %r is not supported' % (name, deep(rty)), e.line)

    def unit_only(self, e, what):
        if not getattr(e, 'as_stmt', False):
            self.fail('the return value of %s is used (only statement use is supported)' % what, e.line)

    def vec_pop(self, pl, el, e):
        if getattr(e, 'as_stmt', False):
            pl.set('%s.pop' % par(pl.get()))
            return '()', UNIT
        tmp = self.tmp('popped')
        self.emit('let %s := %s.back?' % (tmp, par(pl.get())))
        pl.set('%s.pop' % par(pl.get()))
        return tmp, ('opt', el)

    def fn_arg(self, a, ptys, line):
        """a function-valued argument (closure or path to a pure function); returns (term, fn type)"""
        a = self.strip(a)
        if a.kind == 'Closure':
            t, ft = self.ex_Closure(a, ptys=list(ptys))
            return t, ft
        t, ft = self.ex(a)
        ft = res(ft)
        if isinstance(ft, TVar) or ft[0] != 'fn' or len(ft[1]) != len(ptys):
            self.fail('expected a function of %d argument(s)' % len(ptys), line)
        for x, y in zip(ft[1], ptys):
            if not unify(x, y): self.fail('function argument type mismatch: %r vs %r' % (deep(x), deep(y)), line)
        return t, ft
