"""Method-call translation (mixin of FnTr): std methods by receiver type, crate methods via their signatures."""
from .types import *
from .parser import N
from .core import *

ITER_IDENTITY = ('iter', 'into_iter', 'cloned', 'copied', 'clone', 'to_vec', 'to_owned', 'collect', 'into', 'as_slice', 'borrow')


class MethodMixin:
    def ex_MethodCall(self, e, want=None):
        name, args = e.name, e.args
        pl = self.try_place(e.recv)
        if pl is not None:
            rty = res(pl.ty)
            get = pl.get
        else:
            t0, ty0 = self.ex(e.recv)
            if t0 is None: self.fail('method call on a diverging expression', e.line)
            rty = res(ty0)
            get = lambda: t0
        if isinstance(rty, TVar):
            self.fail('cannot infer the receiver type of `.%s()`' % name, e.line)
        tag = rty[0]

        # ---- crate methods (translated or shimmed)
        owner = OWNER_OF_TAG.get(tag) or (self.tr.struct_owner.get(rty[1]) if tag == 'struct' else None)
        if owner is not None:
            sig = self.tr.method_sig(owner, name, self, e.line)
            if sig is not None:
                first = ('done', None, None)
                if sig.params and sig.params[0][2]:
                    if pl is None:
                        first = ('done', get(), rty, None)
                    else:
                        first = ('done', pl.get(), rty, pl)
                else:
                    first = ('done', get(), rty)
                return self.call_sig(sig, [first] + list(args), e.line)
        if name == 'into' and not args and tag in ('struct', 'enum', 'bdd', 'val', 'pval') and want is not None:
            # `x.into()`: the `impl From<typeof x> for <expected type>` of the crate
            w = res(want)
            wowner = None if isinstance(w, TVar) else (OWNER_OF_TAG.get(w[0]) or (self.tr.struct_owner.get(w[1]) if w[0] == 'struct' else (w[1] if w[0] == 'enum' else None)))
            if wowner is not None and deep(w) != deep(rty):
                hits = []
                for c in self.tr.crate.methods.get((wowner, 'from'), []):
                    if c.trait != 'From': continue
                    sg = self.tr.sig_of(c, self, e.line)
                    if len(sg.params) == 1 and deep(res(sg.params[0][1])) == deep(rty):
                        hits.append(sg)
                if len(hits) != 1:
                    self.fail('`.into()`: no unique `impl From<%r> for %s`' % (deep(rty), wowner), e.line)
                return self.call_sig(hits[0], [('done', get(), rty)], e.line)
        if tag == 'fmtr' and name == 'write_fmt' and len(args) == 1 and args[0].kind == 'Macro' and args[0].name == 'format_args' and pl is not None:
            m = args[0]
            return self.write_macro(N('Macro', e.line, name='write', args=[e.recv] + list(m.args), repeat=None))
        if name == 'clone' or (name in ('to_owned', 'borrow', 'as_ref', 'into') and not args):
            return get(), rty

        def arg(k, want=None):
            return self.ex(args[k], want)

        # ---- characters and strings (Lean `Char`, `String`; a `Chars`/`Peekable<Chars>` is the list of remaining characters)
        if tag == 'char':
            if name == 'is_whitespace': return 'Rust.charIsWhitespace %s' % par(get()), BOOL
            if name == 'is_ascii_digit': return '%s.isDigit' % par(get()), BOOL
        if tag == 'chars':
            if name in ('peekable', 'clone'): return get(), rty
            if name == 'peek': return '%s.head?' % par(get()), ('opt', ('char',))
            if name == 'next' and pl is not None:
                if getattr(e, 'as_stmt', False):
                    pl.set('%s.tail' % par(pl.get()))
                    return '()', UNIT
                c = self.tmp('ch')
                self.emit('let %s := %s.head?' % (c, par(pl.get())))
                pl._cache = None
                pl.set('%s.tail' % par(pl.get()))
                return c, ('opt', ('char',))
            if name in ('any', 'all'):
                f, ft = self.fn_arg(args[0], [('char',)], e.line)
                return '%s.%s %s' % (par(get()), name, par(f)), BOOL
            if name == 'collect':
                return 'String.ofList %s' % par(get()), STR
        if tag == 'str':
            if name == 'chars': return '%s.toList' % par(get()), ('chars',)
            if name == 'is_empty': return '%s.isEmpty' % par(get()), BOOL
            if name == 'len': return '%s.utf8ByteSize' % par(get()), INT('usize')
            if name == 'as_bytes': return 'Rust.utf8Bytes %s' % par(get()), ('vec', INT('u8'))
            if name == 'split' and len(args) == 1:
                c, ct = arg(0)
                if res(ct) != ('char',): self.fail('str::split is only supported with a char separator', e.line)
                return 'Rust.strSplit %s %s' % (par(get()), par(c)), ('iter', STR)
            if name == 'parse' and e.generics and e.generics[0].kind == 'TPath' and e.generics[0].segs[-1][0] in ('u16', 'u32'):
                k = e.generics[0].segs[-1][0]
                return 'Rust.parse%s %s' % (k.upper(), par(get())), ('result', INT(k), ('parseerr',))
            if name == 'retain' and pl is not None:
                f, ft = self.fn_arg(args[0], [('char',)], e.line)
                pl.set('Rust.strRetain %s %s' % (par(pl.get()), par(f)))
                return '()', UNIT
            if name == 'push' and pl is not None:
                c, _ = arg(0)
                pl.set('%s.push %s' % (par(pl.get()), par(c)))
                return '()', UNIT
            if name == 'push_str' and pl is not None:
                c, _ = arg(0)
                pl.set('%s ++ %s' % (par(pl.get()), par(c)))
                return '()', UNIT
            if name == 'contains' and len(args) == 1:
                c, ct = arg(0)
                if res(ct) == ('char',): return '%s.toList.contains %s' % (par(get()), par(c)), BOOL
            if name == 'starts_with' and len(args) == 1:
                c, ct = arg(0)
                if res(ct) == STR: return '%s.startsWith %s' % (par(get()), par(c)), BOOL
        if tag == 'fmtr' and name == 'write_str' and pl is not None:
            x, _ = arg(0)
            pl.set('%s ++ %s' % (par(pl.get()), par(x)))
            return '(Except.ok () : Except Unit Unit)', ('result', UNIT, ('fmterr',))
        if tag in ('ioerr', 'parseerr', 'utf8err', 'tparam') and name == 'to_string' and not args:
            return 'toString %s' % par(get()), STR
        if tag in ('enum', 'bdd') and name == 'to_string' and not args:
            return self.display_to_string(get(), rty, e.line), STR
        # ---- random number generator = list of recorded coin flips
        if tag == 'rng':
            if name == 'gen_bool' and pl is not None and len(args) == 1 and args[0].kind == 'Lit' and args[0].lit == 'float' \
                    and args[0].val in ('0.5', '0.5_f64', '0.5f64'):
                c, r = self.tmp('coin'), self.tmp('rng')
                self.emit('let (%s, %s) := Rust.genBool %s' % (c, r, par(pl.get())))
                pl._cache = None
                pl.set(r)
                return c, BOOL
            self.fail('only `rng.gen_bool(0.5)` on a `&mut R` parameter is supported', e.line)
        # ---- hash-ordered vector: may be measured or sorted, nothing else
        if tag == 'uvec':
            el = rty[1]
            if name == 'len': return par(get()) + '.size', INT('usize')
            if name == 'is_empty': return par(get()) + '.isEmpty', BOOL
            if name == 'sort' and pl is not None and getattr(pl, 'var', None) is not None:
                r = res(el)
                if isinstance(r, TVar) or r[0] not in ('int', 'ptr', 'var'): self.fail('sort of a Vec of %r' % (r,), e.line)
                pl.set('Rust.sortNat %s' % par(pl.get()))
                pl.var.ty = ('vec', el)      # from here on the order is determined
                return '()', UNIT
            self.fail('`.%s()` on a vector in hash order (only len / is_empty / sort are order-independent)' % name, e.line)
        if tag == 'uiter':
            el = rty[1]
            if name == 'map':
                f, ft = self.fn_arg(args[0], [el], e.line)
                return '%s.map %s' % (par(get()), par(f)), ('uiter', ft[2])
            if name in ('cloned', 'copied'):
                return get(), rty
            if name == 'collect':
                g = e.generics[0] if e.generics else None
                r = res(el)
                if g is not None and g.kind == 'TPath' and g.segs[-1][0] == 'HashMap' and not isinstance(r, TVar) and r[0] == 'tuple' and len(r[1]) == 2:
                    return 'Rust.hashMapFromArr %s' % par(get()), ('map', r[1][0], r[1][1])
                if g is not None and g.kind == 'TPath' and g.segs[-1][0] == 'HashSet':
                    return 'Rust.hashSetFromArr %s' % par(get()), ('set', el)
                if g is not None and g.kind == 'TPath' and g.segs[-1][0] == 'Vec':
                    return get(), ('uvec', el)
                self.fail('collect of a hash-ordered iterator needs an explicit `::<HashMap<_, _>>`, `::<HashSet<_>>` or `::<Vec<_>>`', e.line)
            if name == 'count': return par(get()) + '.size', INT('usize')
            self.fail('`.%s()` on an iterator in hash order' % name, e.line)
        # ---- Option
        if tag == 'opt':
            el = rty[1]
            if name == 'is_some': return par(get()) + '.isSome', BOOL
            if name == 'is_none': return par(get()) + '.isNone', BOOL
            if name in ('cloned', 'copied'): return get(), rty
            if name == 'unwrap' or name == 'expect': return self.m('Rust.unwrap %s' % par(get())), el
            if name == 'flatten':
                inner = res(el)
                if isinstance(inner, TVar):
                    inner = ('opt', TVar()); unify(el, inner)
                if inner[0] != 'opt': self.fail('flatten on Option of non-Option', e.line)
                return par(get()) + '.join', inner
            if name == 'unwrap_or':
                d, dt = arg(0, el)
                return '%s.getD %s' % (par(get()), par(d)), el
            if name == 'map' and self.strip(args[0]).kind == 'Closure' and self.closure_has_effects(self.strip(args[0]), [el]):
                # the closure can panic / needs statements: `match x with | some v => some <body> | none => none` as a do-element
                if self.pure: raise NotPure()
                c = self.strip(args[0])
                tmp = self.tmp('v')
                rt = TVar()
                self.eff += 1
                self.emit('let %s ← match %s with' % (tmp, get()))
                self.push()
                self.depth += 1
                try:
                    p = self.pat(c.params[0][0], el)
                    self.emit('  | some %s =>' % par(p))
                    self.ind += 4
                    t, ty = self.ex(c.body)
                    unify(rt, ty)
                    if t is not None:
                        self.emit('pure (some %s)' % par(t))
                    self.ind -= 4
                finally:
                    self.depth -= 1
                    self.pop()
                self.emit('  | none => pure none')
                return tmp, ('opt', rt)
            if name == 'map':
                f, ft = self.fn_arg(args[0], [el], e.line)
                return '%s.map %s' % (par(get()), par(f)), ('opt', ft[2])
            if name == 'or_else':
                c = args[0]
                if c.kind != 'Closure' or c.params: self.fail('or_else expects a `|| …` closure', e.line)
                f, ft = self.ex_Closure(c, ptys=[])
                unify(ft[2], rty)
                return '%s.orElse %s' % (par(get()), f), rty
            if name == 'unwrap_or_else':
                c = self.strip(args[0])
                if c.kind != 'Closure' or c.params: self.fail('unwrap_or_else expects a `|| …` closure', e.line)
                (bt, bty), lines, eff = self.capture(lambda: self.ex(c.body))
                if not lines and not eff and bt is not None:
                    return '(match %s with | some v__ => v__ | none => %s)' % (get(), bt), el
                if self.pure: raise NotPure()
                tmp = self.tmp('v')
                self.eff += 1
                self.emit('let %s ← match %s with' % (tmp, get()))
                self.emit('  | some v__ => pure v__')
                self.emit('  | none =>')
                self.ind += 4
                self.splice(lines)
                if bt is not None:
                    self.emit('pure %s' % par(bt))
                self.ind -= 4
                return tmp, el
            if name == 'or':
                d, dt = arg(0, rty)
                return '%s.orElse (fun _ => %s)' % (par(get()), d), rty
        # ---- Result
        if tag == 'result':
            if name == 'unwrap' or name == 'expect': return self.m('Rust.unwrapR %s' % par(get())), rty[1]
            if name == 'map_err':
                f, ft = self.fn_arg(args[0], [rty[2]], e.line)
                return 'Except.mapError %s %s' % (par(f), par(get())), ('result', rty[1], ft[2])
            if name == 'ok' and not args:
                return '%s.toOption' % par(get()), ('opt', rty[1])
            if name == 'is_ok': return par(get()) + '.isOk', BOOL
            if name == 'is_err': return '!' + par(get()) + '.isOk', BOOL
        # ---- Vec / slice / materialised iterator
        if tag in ('vec', 'iter'):
            el = rty[1]
            if name == 'zip':
                o, ot = arg(0)
                ot = res(ot)
                if isinstance(ot, TVar) or ot[0] not in ('vec', 'iter'): self.fail('zip with %r' % (ot,), e.line)
                return '%s.zip %s' % (par(get()), par(o)), ('iter', ('tuple', (el, ot[1])))
            if name == 'collect' and res(el) == ('char',) and ((want is not None and res(want) == STR) or
                                                                (e.generics and e.generics[0].kind == 'TPath' and e.generics[0].segs[-1][0] == 'String')):
                return 'String.ofList %s.toList' % par(get()), STR
            if name == 'collect':
                g = e.generics[0] if e.generics else None
                w = res(want) if want is not None else None
                target = g.segs[-1][0] if (g is not None and g.kind == 'TPath') else (
                    {'map': 'HashMap', 'set': 'HashSet'}.get(w[0]) if (w is not None and not isinstance(w, TVar)) else None)
                r = res(el)
                if target == 'HashMap':
                    if isinstance(r, TVar) or r[0] != 'tuple' or len(r[1]) != 2: self.fail('collect into a HashMap needs pairs', e.line)
                    return 'Rust.hashMapFromArr %s' % par(get()), ('map', r[1][0], r[1][1])
                if target == 'HashSet':
                    return 'Rust.hashSetFromArr %s' % par(get()), ('set', el)
            if name in ITER_IDENTITY:
                if name == 'collect' and e.generics:
                    g = e.generics[0]
                    if not (g.kind == 'TPath' and g.segs[-1][0] == 'Vec'):
                        self.fail('collect into a non-Vec is not supported', e.line)
                return get(), ((tag if name not in ('collect', 'to_vec') else 'vec'), el)
            if name == 'len' or name == 'count': return par(get()) + '.size', INT('usize')
            if name == 'is_empty': return par(get()) + '.isEmpty', BOOL
            if name == 'last': return par(get()) + '.back?', ('opt', el)
            if name == 'first': return par(get()) + '[0]?', ('opt', el)
            if name == 'position':
                f, ft = self.fn_arg(args[0], [el], e.line)
                return '%s.findIdx? %s' % (par(get()), par(f)), ('opt', INT('usize'))
            if name == 'collect' and res(el) == ('char',) and ((want is not None and res(want) == STR) or
                                                                (e.generics and e.generics[0].kind == 'TPath' and e.generics[0].segs[-1][0] == 'String')):
                return 'String.ofList %s.toList' % par(get()), STR
            if name == 'get':
                i, _ = arg(0)
                return '%s[%s]?' % (par(get()), i), ('opt', el)
            if name == 'contains':
                x, xt = arg(0, el); unify(xt, el)
                return '%s.contains %s' % (par(get()), par(x)), BOOL
            if name == 'split_last':
                return 'Rust.splitLast %s' % par(get()), ('opt', ('tuple', (el, ('vec', el))))
            if name == 'skip':
                n, _ = arg(0)
                return 'Rust.skip %s %s' % (par(get()), par(n)), ('iter', el)
            if name == 'rev': return par(get()) + '.reverse', ('iter', el)
            if name == 'enumerate': return 'Rust.enumerate %s' % par(get()), ('iter', ('tuple', (INT('usize'), el)))
            if name == 'flatten':
                inner = res(el)
                if not isinstance(inner, TVar) and inner[0] == 'opt':
                    return '%s.filterMap id' % par(get()), ('iter', inner[1])
                self.fail('flatten on an iterator of %r' % (inner,), e.line)
            if name in ('all', 'any') and self.strip(args[0]).kind == 'Closure' and self.closure_has_effects(self.strip(args[0]), [el]):
                return self.loop_all_any(name, get(), self.strip(args[0]), el, e.line)
            if name == 'map' and self.strip(args[0]).kind == 'Closure' and self.closure_has_effects(self.strip(args[0]), [el]):
                return self.loop_map(get(), self.strip(args[0]), el, e.line)
            if name in ('map', 'filter', 'filter_map', 'all', 'any'):
                f, ft = self.fn_arg(args[0], [el], e.line)
                r = res(ft[2])
                if name == 'map': return '%s.map %s' % (par(get()), par(f)), ('iter', ft[2])
                if name == 'filter': return '%s.filter %s' % (par(get()), par(f)), ('iter', el)
                if name == 'filter_map':
                    if isinstance(r, TVar) or r[0] != 'opt': self.fail('filter_map closure must return an Option', e.line)
                    return '%s.filterMap %s' % (par(get()), par(f)), ('iter', r[1])
                return '%s.%s %s' % (par(get()), name, par(f)), BOOL
            if tag == 'vec' and pl is not None:
                if name == 'push':
                    x, xt = arg(0, el)
                    if not unify(xt, el): self.fail('push of %r into Vec of %r' % (deep(xt), deep(el)), e.line)
                    pl.set('%s.push %s' % (par(pl.get()), par(x)))
                    return '()', UNIT
                if name == 'pop':
                    return self.vec_pop(pl, el, e)
                if name == 'sort':
                    r = res(el)
                    if isinstance(r, TVar) or r[0] not in ('int', 'ptr', 'var'): self.fail('sort of a Vec of %r' % (r,), e.line)
                    pl.set('Rust.sortNat %s' % par(pl.get()))
                    return '()', UNIT
                if name == 'dedup':
                    pl.set('Rust.dedup %s' % par(pl.get()))
                    return '()', UNIT
                if name == 'clear':
                    pl.set('#[]')
                    return '()', UNIT
        # ---- HashMap
        if tag == 'map':
            K, V = rty[1], rty[2]
            if name == 'get':
                k, kt = arg(0, K); unify(kt, K)
                return '%s[%s]?' % (par(get()), k), ('opt', V)
            if name == 'contains_key':
                k, kt = arg(0, K); unify(kt, K)
                return '%s.contains %s' % (par(get()), par(k)), BOOL
            if name == 'len': return par(get()) + '.size', INT('usize')
            if name == 'is_empty': return par(get()) + '.isEmpty', BOOL
            if name in ('iter', 'into_iter'):
                return '%s.toArray' % par(get()), ('uiter', ('tuple', (K, V)))
            if name == 'insert' and pl is not None:
                k, kt = arg(0, K); unify(kt, K)
                v, vt = arg(1, V); unify(vt, V)
                self.unit_only(e, 'HashMap::insert')
                pl.set('%s.insert %s %s' % (par(pl.get()), par(k), par(v)))
                return '()', UNIT
            if name == 'remove' and pl is not None:
                k, kt = arg(0, K); unify(kt, K)
                old = self.tmp('old')
                self.emit('let %s := %s[%s]?' % (old, par(pl.get()), k))
                pl.set('%s.erase %s' % (par(pl.get()), par(k)))
                return old, ('opt', V)
        # ---- HashSet
        if tag == 'set':
            K = rty[1]
            if name == 'contains':
                k, kt = arg(0, K); unify(kt, K)
                return '%s.contains %s' % (par(get()), par(k)), BOOL
            if name == 'len': return par(get()) + '.size', INT('usize')
            if name == 'is_empty': return par(get()) + '.isEmpty', BOOL
            if name in ('iter', 'into_iter'):
                return '%s.toArray' % par(get()), ('uiter', K)
            if name == 'insert' and pl is not None:
                k, kt = arg(0, K); unify(kt, K)
                self.unit_only(e, 'HashSet::insert')
                pl.set('%s.insert %s' % (par(pl.get()), par(k)))
                return '()', UNIT
        # ---- std::io through the scripted devices of Gen/RustShimIO.lean
        if tag == 'reader' and name == 'read_to_string' and pl is not None and len(args) == 1:
            bp = self.try_place(args[0])
            if bp is None or res(bp.ty) != STR: self.fail('read_to_string needs a `&mut String` place', e.line)
            r, rd, bf = self.tmp('res'), self.tmp('rd'), self.tmp('str')
            self.emit('let (%s, %s, %s) := Rust.readToString %s %s' % (r, rd, bf, par(pl.get()), par(bp.get())))
            pl._cache = None; bp._cache = None
            pl.set(rd)
            bp.set(bf)
            return r, ('result', INT('usize'), ('ioerr',))
        if tag == 'reader' and name == 'read_exact' and pl is not None and len(args) == 1:
            bp = self.try_place(args[0])
            if bp is None: self.fail('read_exact needs a `&mut buf` place', e.line)
            r, rd, bf = self.tmp('res'), self.tmp('rd'), self.tmp('buf')
            self.emit('let (%s, %s, %s) := Rust.readExact %s %s' % (r, rd, bf, par(pl.get()), par(bp.get())))
            pl._cache = None; bp._cache = None
            pl.set(rd)
            bp.set(bf)
            return r, ('result', UNIT, ('ioerr',))
        if tag == 'writer' and name == 'write_all' and pl is not None and len(args) == 1:
            b, bt = arg(0)
            r, w = self.tmp('res'), self.tmp('wr')
            self.emit('let (%s, %s) := Rust.writeAll %s %s' % (r, w, par(pl.get()), par(b)))
            pl._cache = None
            pl.set(w)
            return r, ('result', UNIT, ('ioerr',))
        if tag == 'ioerr' and name == 'kind' and not args:
            return par(get()) + '.kind', ('errkind',)
        if tag == 'int' and name == 'to_le_bytes' and not args:
            w = {'u8': 1, 'u16': 2, 'u32': 4, 'u64': 8, 'usize': 8}.get(rty[1])
            if w is None: self.fail('to_le_bytes on an integer of unknown width', e.line)
            return 'Rust.toLeBytes %d %s' % (w, par(get())), ('vec', INT('u8'))
        # ---- `Ord::cmp`
        if name == 'cmp' and len(args) == 1:
            o, ot = arg(0, rty)
            ot = res(ot)
            if tag in ('int', 'big', 'ptr', 'var'):
                return 'compare %s %s' % (par(get()), par(o)), ('ordering',)
            if tag in ('vec', 'iter'):
                el = res(rty[1])
                if not isinstance(el, TVar) and el[0] == 'tuple' and len(el[1]) == 3 and all(res(x)[0] in ('int', 'ptr', 'var') for x in el[1]):
                    return 'Rust.cmpArrNat3 %s %s' % (par(get()), par(o)), ('ordering',)
            self.fail('`.cmp()` on type %r' % (deep(rty),), e.line)
        # ---- hasher = list of writes
        if name in ('write_usize', 'write_u8', 'write_u16', 'write_u32', 'write_u64') and tag == 'vec' and pl is not None:
            w = {'write_usize': 8, 'write_u8': 1, 'write_u16': 2, 'write_u32': 4, 'write_u64': 8}[name]
            x, _ = arg(0)
            pl.set('%s.push (%d, %s)' % (par(pl.get()), w, x))
            return '()', UNIT
        # ---- integers
        if tag == 'int':
            if name == 'checked_add':
                b, bt = arg(0)
                k = rty[1] or res(bt)[1]
                if k not in ('u16', 'u32'): self.fail('checked_add on integer kind %r' % (k,), e.line)
                return 'Rust.checkedAdd%s %s %s' % (k.upper(), par(get()), par(b)), ('opt', INT(k))
        if tag == 'big' and name in ('clone',):
            return get(), rty
        if tag == 'str' and name in ('to_string', 'to_owned', 'into', 'as_str', 'clone'):
            return get(), STR
        self.fail('method `.%s()` on a value of type %r is not supported' % (name, deep(rty)), e.line)

    def closure_has_effects(self, c, ptys):
        """does the body of closure c need statements / can it panic? (trial translation, output discarded)"""
        self.push()
        self.depth += 1
        try:
            for (p, ty), pt in zip(c.params, ptys):
                self.pat(p, pt)
            try:
                (_, _), lines, eff = self.capture(lambda: self.ex(c.body))
            except NotPure:
                return True
            return bool(lines) or eff
        finally:
            self.depth -= 1
            self.pop()

    def loop_all_any(self, name, recv, c, el, line):
        """`iter.all(|x| body)` / `iter.any(..)` whose body can panic: an explicit short-circuiting loop"""
        if self.pure: raise NotPure()
        if len(c.params) != 1: self.fail('closure arity mismatch', line)
        r = self.tmp(name)
        self.emit('let mut %s := %s' % (r, 'true' if name == 'all' else 'false'))
        base = self.ind
        self.push()
        self.loops.append({'flag': None, 'for': True})
        try:
            p = self.pat(c.params[0][0], el)
            self.eff += 1
            self.emit('for %s in %s do' % (p, recv))
            self.ind = base + 2
            t, ty = self.ex(c.body)
            if name == 'all':
                self.emit('if !%s then' % par(t))
                self.emit('  %s := false' % r)
            else:
                self.emit('if %s then' % t)
                self.emit('  %s := true' % r)
            self.emit('  break')
        finally:
            self.loops.pop()
            self.pop()
            self.ind = base
        return r, BOOL

    def loop_map(self, recv, c, el, line):
        """`iter.map(|x| body)` whose body can panic, on a materialised iterator: an explicit loop
        (the iterator is consumed completely by every consumer the subset knows, so eager evaluation is faithful)"""
        if self.pure: raise NotPure()
        if len(c.params) != 1: self.fail('closure arity mismatch', line)
        r = self.tmp('map')
        self.emit('let mut %s := #[]' % r)
        base = self.ind
        rt = TVar()
        self.push()
        self.loops.append({'nobreak': True})
        try:
            p = self.pat(c.params[0][0], el)
            self.eff += 1
            self.emit('for %s in %s do' % (p, recv))
            self.ind = base + 2
            t, ty = self.ex(c.body)
            unify(rt, ty)
            if t is not None:
                self.emit('%s := %s.push %s' % (r, r, par(t)))
        finally:
            self.loops.pop()
            self.pop()
            self.ind = base
        return r, ('iter', rt)

    def unit_only(self, e, what):
        if not getattr(e, 'as_stmt', False):
            self.fail('the return value of %s is used (only statement use is supported)' % what, e.line)

    def vec_pop(self, pl, el, e):
        if getattr(e, 'as_stmt', False):
            pl.set('%s.pop' % par(pl.get()))
            return '()', UNIT
        tmp = self.tmp('popped')
        self.emit('let %s := %s.back?' % (tmp, par(pl.get())))
        pl.set('%s.pop' % par(pl.get()))
        return tmp, ('opt', el)

    def fn_arg(self, a, ptys, line):
        """a function-valued argument (closure or path to a pure function); returns (term, fn type)"""
        a = self.strip(a)
        if a.kind == 'Closure':
            t, ft = self.ex_Closure(a, ptys=list(ptys))
            return t, ft
        t, ft = self.ex(a)
        ft = res(ft)
        if isinstance(ft, TVar) or ft[0] != 'fn' or len(ft[1]) != len(ptys):
            self.fail('expected a function of %d argument(s)' % len(ptys), line)
        for x, y in zip(ft[1], ptys):
            if not unify(x, y): self.fail('function argument type mismatch: %r vs %r' % (deep(x), deep(y)), line)
        return t, ft
