"""Shared infrastructure of the translator: crate index, signatures, per-function context, type conversion."""
import os
import re
from .lexer import R2LError
from .parser import parse_file, N
from .types import *

LEAN_RESERVED = set('''at from to end show then fun open in do have local instance variable universe section namespace
private where with deriving structure class inductive theorem def axiom example abbrev macro syntax infix prefix postfix
notation attribute export import mutual if else match let return for unless try catch finally nomatch by calc Type Prop
Sort obtain suffices using initialize opaque partial unsafe protected noncomputable extends set_option exists forall
break continue mut rec termination_by decreasing_by macro_rules elab fuel self pure id'''.split())

NEWTYPES = {'BddPointer': PTR, 'BddVariable': VAR, 'Bdd': BDD, 'BddValuation': VAL, 'BddPartialValuation': PVAL}
NEWTYPE_INNER = {'ptr': INT('u32'), 'var': INT('u16'), 'bdd': ('vec', NODE), 'val': ('vec', BOOL),
                 'pval': ('vec', ('opt', BOOL))}
OWNER_OF_TAG = {'bdd': 'Bdd', 'ptr': 'BddPointer', 'var': 'BddVariable', 'node': 'BddNode', 'pval': 'BddPartialValuation',
                'val': 'BddValuation'}
NODE_FIELDS = {'var': ('var', VAR), 'low_link': ('low', PTR), 'high_link': ('high', PTR)}


class NotPure(Exception):
    """raised while attempting the pure (non-monadic) translation of a function"""


class AbortPure(Exception):
    """a function that is being tried as a pure definition turned out to be (mutually) recursive"""

    def __init__(self, item):
        self.item = item
        Exception.__init__(self, 'abort pure attempt')


def lean_ident(name):
    if name in LEAN_RESERVED:
        return name + '_'
    return name


def lean_char(raw):
    """Lean character literal for the raw text between the quotes of a Rust char literal"""
    if raw in ("\\'", "'"):
        return "'\\''"
    if raw.startswith('\\u'):
        return "(Char.ofNat 0x%s)" % raw[3:-1]
    return "'" + raw + "'"


def lean_str(s):
    out = []
    for ch in s:
        if ch == '\\': out.append('\\\\')
        elif ch == '"': out.append('\\"')
        elif ch == '\n': out.append('\\n')
        elif ch == '\t': out.append('\\t')
        elif ch == '\r': out.append('\\r')
        else: out.append(ch)
    return '"' + ''.join(out) + '"'


_ATOM = re.compile(r"^[A-Za-z_][\w.'!?]*$|^\d+$")


def par(s):
    """parenthesise a Lean term unless it is atomic"""
    if _ATOM.match(s):
        return s
    if s[0] in '("#' or s.startswith('{ '):
        # balanced and closing at the very end?
        close = {'(': ')', '"': '"', '#': ']', '{': '}'}[s[0]]
        if s[0] == '"':
            if s.count('"') - s.count('\\"') == 2 and s.endswith('"'):
                return s
        else:
            depth = 0
            opener = '[' if s[0] == '#' else s[0]
            ok = True
            for k, ch in enumerate(s):
                if ch == opener: depth += 1
                elif ch == close:
                    depth -= 1
                    if depth == 0 and k != len(s) - 1:
                        ok = False
                        break
            if ok and depth == 0 and '"' not in s:
                return s
    return '(' + s + ')'


class Sig:
    """signature of a translated (or shimmed) function"""

    def __init__(self, lean, params, ret, has_self, monadic=True, fuel=False, item=None):
        self.lean = lean            # Lean name
        self.params = params        # list of (name, type, is_mutref) — includes self first if has_self
        self.ret = ret
        self.has_self = has_self
        self.monadic = monadic
        self.fuel = fuel
        self.item = item
        self.recursive = False
        self.generic_fns = {}

    def mut_idx(self):
        return [k for k, p in enumerate(self.params) if p[2]]

    def result_type(self):
        """Rust-level type of what the Lean function returns (return value + updated `&mut` arguments)"""
        muts = [self.params[k][1] for k in self.mut_idx()]
        if not muts:
            return self.ret
        parts = ([] if res(self.ret) == UNIT else [self.ret]) + muts
        if len(parts) == 1:
            return parts[0]
        return ('tuple', tuple(parts))


class Var:
    def __init__(self, lean, ty, mutable=False, mutref=False):
        self.lean, self.ty, self.mutable, self.mutref = lean, ty, mutable, mutref


class Crate:
    """index of the crate's items"""

    def __init__(self, repo):
        self.repo = repo
        self.files = {}       # rel -> (src lines, fns, structs)
        self.methods = {}     # (Owner, name) -> [FnItem]
        self.free = {}        # name -> [FnItem]
        self.structs = {}     # name -> StructItem
        self.enums = {}       # name -> EnumItem
        self.consts = {}      # name -> ConstItem

    def load(self, rel):
        if rel in self.files:
            return
        path = os.path.join(self.repo, rel)
        if not os.path.exists(path):
            raise R2LError('source file not found', rel)
        src, fns, structs, enums, consts = parse_file(path, rel)
        self.files[rel] = (src.split('\n'), fns, structs)
        for en in enums:
            self.enums[en.name] = en
        for c in consts:
            self.consts[c.name] = c
        for f in fns:
            if f.owner:
                self.methods.setdefault((f.owner, f.name), []).append(f)
            else:
                self.free.setdefault(f.name, []).append(f)
        for s in structs:
            self.structs[s.name] = s

    def load_all(self):
        src = os.path.join(self.repo, 'src')
        rels = []
        for root, ds, fs in os.walk(src):
            ds.sort()
            if os.path.basename(root) in ('_test_bdd', 'tutorial'):
                continue
            for f in sorted(fs):
                if f.endswith('.rs') and not f.startswith('_test'):
                    rels.append(os.path.relpath(os.path.join(root, f), self.repo))
        for rel in sorted(rels):
            self.load(rel)

    def src_line(self, rel, line):
        lines = self.files[rel][0]
        if 1 <= line <= len(lines):
            return lines[line - 1].strip()
        return ''
