"""Statements, branch-valued expressions, loops and patterns (mixin of FnTr)."""
from .parser import N
from .types import *
from .core import *


class _NeedsDo(Exception):
    pass


def walk(node, fn, stop_kinds=()):
    """pre-order walk over AST nodes; does not descend into nodes whose kind is in stop_kinds"""
    if isinstance(node, N):
        if fn(node) is False:
            return
        if node.kind in stop_kinds:
            return
        for k, v in node.__dict__.items():
            if k in ('kind', 'line', 'item'):
                continue
            walk(v, fn, stop_kinds)
    elif isinstance(node, (list, tuple)):
        for x in node:
            walk(x, fn, stop_kinds)


class StmtMixin:
    # ------------------------------------------------------------------------------------------ sinks
    def sink_put(self, sink, term, ty, line=None):
        if term is None:
            return
        k = sink[0]
        if k == 'discard':
            if term == '()' or res(ty) == UNIT and term == '()':
                return
            if term.startswith('(← ') and term.endswith(')') and par(term) == term:
                self.emit(term[3:-1])
            elif res(ty) == UNIT:
                self.emit('let _ := %s' % term)
            else:
                self.emit('let _ := %s' % term)
        elif k == 'pure':
            unify(sink[1], ty)
            self.emit('pure %s' % par(term))
        elif k == 'fntail':
            if not unify(self.sig.ret, ty):
                self.fail('returned value of type %r where %r is expected' % (deep(ty), deep(self.sig.ret)), line)
            if self.pure:
                self.final = self.ret_term(term)
            else:
                self.emit('pure %s' % par(self.ret_term(term)))
        elif k == 'let':
            _, name, mut, tyv = sink
            unify(tyv, ty)
            self.emit_let(name, mut, tyv, term, ':=')
        elif k == 'assign':
            sink[1].set(term)
        elif k == 'return':
            if not unify(self.sig.ret, ty):
                self.fail('`return` of type %r where %r is expected' % (deep(ty), deep(self.sig.ret)), line)
            self.emit('return %s' % self.ret_term(term))
        else:
            raise AssertionError(k)

    def emit_let(self, name, mut, tyv, term, arrow):
        tr = self.tr

        def line():
            asc = ''
            t = res(tyv)
            if not isinstance(t, TVar) and t[0] in ('vec', 'map', 'set', 'opt', 'iter', 'bdd', 'pval', 'val'):
                lt = lean_type(t, tr.struct_fields)
                if lt is not None:
                    asc = ' : ' + lt
            return 'let %s%s%s %s %s' % ('mut ' if (mut and not self.pure) else '', name, asc, arrow, term)
        self.emit(line)

    def ret_term(self, term):
        muts = [self.param_vars[k].lean for k in self.sig.mut_idx()]
        if not muts:
            return term
        parts = ([] if res(self.sig.ret) == UNIT else [term]) + muts
        if len(parts) == 1:
            return parts[0]
        return '(' + ', '.join(parts) + ')'

    # ------------------------------------------------------------------------------------------ blocks
    def block_stmts(self, b, sink):
        """translate the statements of block b in a fresh scope; the tail value goes to sink"""
        self.push()
        n0 = len(self.out)
        try:
            for s in b.stmts:
                self.stmt(s)
            if b.tail is not None:
                self.comment(b.tail.line)
                self.into(b.tail, sink)
            else:
                last = b.stmts[-1] if b.stmts else None
                diverges = last is not None and last.kind == 'ExprStmt' and self.diverging(last.e)
                if not diverges:
                    self.sink_put(sink, '()', UNIT, b.line)
        finally:
            self.pop()
        if len(self.out) == n0 and not self.pure:
            self.emit('pure ()')

    def diverging(self, e):
        if e.kind in ('Return', 'Break', 'Continue'):
            return True
        if e.kind == 'Macro' and e.name in ('panic', 'unreachable', 'todo', 'unimplemented'):
            return True
        if e.kind == 'Loop' and not self.contains_break(e.body):
            return True
        if e.kind == 'If' and e.els is not None:
            return self._blk_div(e.then) and (self._blk_div(e.els) if e.els.kind == 'Block' else self.diverging(e.els))
        return False

    def _blk_div(self, b):
        if b.tail is not None:
            return self.diverging(b.tail)
        return bool(b.stmts) and b.stmts[-1].kind == 'ExprStmt' and self.diverging(b.stmts[-1].e)

    def comment(self, line, end_line=None):
        if self.pure:
            return
        src = self.src(line)
        if src and (self.last_comment != line):
            self.emit('-- L%d: %s' % (line, src))
            self.last_comment = line

    def stmt(self, s):
        if s.kind == 'Let':
            self.comment(s.line)
            self.st_let(s)
        elif s.kind == 'ExprStmt':
            self.comment(s.line)
            self.expr_stmt(s.e)
        elif s.kind == 'ItemStmt':
            for f in s.fns:
                f.outer = self.item
                self.local_fns[f.name] = f
            for st in s.structs:
                self.tr.register_struct(st, local_to=self)
        else:
            self.fail('statement kind %s' % s.kind, s.line)

    def expr_stmt(self, e):
        if e.kind == 'MethodCall':
            e.as_stmt = True
        self.into(e, ('discard',))

    # ------------------------------------------------------------------------------------------ into
    def into(self, e, sink, want=None):
        e0 = e
        while e0.kind == 'Paren':
            e0 = e0.e
        k = e0.kind
        if k in ('If', 'Match', 'Block'):
            if sink[0] in ('discard', 'pure', 'fntail', 'return') and not (self.pure and sink[0] == 'fntail'):
                if self.pure: raise NotPure()
                self.branch_stmt(e0, sink)
                return
            if sink[0] == 'let':
                t, ty = self.branchy_value(e0, want, bind=sink)
                if t is not None:
                    self.sink_put(sink, t, ty, e.line)
                return
            if sink[0] == 'assign':
                t, ty = self.branchy_value(e0, want)
                self.sink_put(sink, t, ty, e.line)
                return
            t, ty = self.branchy_value(e0, want)
            self.sink_put(sink, t, ty, e.line)
            return
        if k == 'Return':
            self.st_return(e0); return
        if k == 'Break':
            self.st_break(e0); return
        if k == 'Continue':
            self.st_continue(e0); return
        if k in ('While', 'Loop', 'For', 'Assign', 'OpAssign'):
            t, ty = self.ex(e0)
            self.sink_put(sink, t, ty, e.line)
            return
        if want is None and sink[0] == 'fntail':
            want = self.sig.ret
        if want is None and sink[0] == 'let':
            want = sink[3]
        t, ty = self.ex(e0, want)
        self.sink_put(sink, t, ty, e.line)

    # pure single-line rendering of a branch-valued expression (raises _NeedsDo if some branch has statements/effects)
    def pure_branch_term(self, e, want=None):
        k = e.kind
        if k == 'Paren':
            return self.pure_branch_term(e.e, want)
        if k == 'Block':
            if e.stmts:
                raise _NeedsDo()
            if e.tail is None:
                return '()', UNIT
            return self.pure_branch_term(e.tail, want)
        if k == 'If':
            if e.els is None:
                raise _NeedsDo()
            rt = TVar()
            if e.cond.kind == 'LetCond':
                s, sty = self.ex(e.cond.e)
                self.push()
                try:
                    p = self.pat(e.cond.pat, sty)
                    a, at = self.pure_branch_term(e.then, want)
                finally:
                    self.pop()
                b, bt = self.pure_branch_term(e.els, want)
                if a is None or b is None: raise _NeedsDo()
                unify(rt, at); unify(rt, bt)
                return '(match %s with | %s => %s | _ => %s)' % (s, p, a, b), rt
            c, _ = self.ex(e.cond)
            a, at = self.pure_branch_term(e.then, want)
            b, bt = self.pure_branch_term(e.els, want)
            if a is None or b is None: raise _NeedsDo()
            unify(rt, at); unify(rt, bt)
            return '(if %s then %s else %s)' % (c, a, b), rt
        if k == 'Match' and any(g is not None for _, g, _ in e.arms):
            return self.pure_branch_term(self.desugar_guard(e), want)
        if k == 'Match':
            s, sty = self.ex(e.scrut)
            rt = TVar()
            arms = []
            for p, g, body in e.arms:
                if g is not None: raise _NeedsDo()
                self.push()
                try:
                    ps = self.pat(p, sty)
                    a, at = self.pure_branch_term(body, want)
                finally:
                    self.pop()
                if a is None: raise _NeedsDo()
                unify(rt, at)
                arms.append('| %s => %s' % (ps, a))
            return '(match %s with %s)' % (s, ' '.join(arms)), rt
        t, ty = self.ex(e, want)
        return t, ty

    def branchy_value(self, e, want=None, bind=None):
        """value of an if/match/block expression; bind = a ('let', …) sink to bind directly to"""
        if e.kind == 'Block' and not e.stmts and e.tail is not None:
            return self.ex(e.tail, want)
        try:
            (t, ty), lines, eff = self.capture(lambda: self.pure_branch_term(e, want))
            if not lines and not eff:
                return t, ty
        except _NeedsDo:
            pass
        if self.pure:
            raise NotPure()
        tv = TVar()
        if want is not None: unify(tv, want)
        self.eff += 1
        if bind is not None:
            _, name, mut, tyv = bind
            unify(tyv, tv)
            holder = []
            self.emit_let(name, mut, tyv, '', '←')
            idx = len(self.out) - 1
            prefix_line = self.out[idx]
            self.out.pop()
            self.branch_stmt(e, ('pure', tv), prefix=prefix_line)
            return None, tv
        tmp = self.tmp('v')
        self.branch_stmt(e, ('pure', tv), prefix=(self.ind, 'let %s ← ' % tmp))
        return tmp, tv

    def branch_stmt(self, e, sink, prefix=None):
        """if / match / block as a do-element whose branches end in `sink`; prefix = (indent, text or callable)"""
        base = self.ind
        kw = base + (2 if prefix is not None else 0)
        body = kw + 2

        def head(text):
            if prefix is None:
                self.emit(text)
            else:
                p = prefix[1]
                if callable(p):
                    self.out.append((base, (lambda p=p, text=text: p().rstrip() + ' ' + text)))
                else:
                    self.out.append((base, p + text))
        k = e.kind
        if k == 'Block':
            head('do')
            self.ind = body
            self.block_stmts(e, sink)
            self.ind = base
            return
        if k == 'If':
            first = True
            cur = e
            while True:
                if cur.cond.kind == 'LetCond':
                    # `if let P = E { A } else { B }` → match
                    if not first:
                        # nested under an `else`
                        self.ind = kw
                        self.emit('else')
                        self.ind = body
                        self.branch_stmt(cur, sink)
                        self.ind = base
                        return
                    alias = self.get_mut_alias(cur.cond)
                    if alias is not None:
                        s, sty = alias[0], alias[1]
                    else:
                        s, sty = self.ex(cur.cond.e)
                    head('match %s with' % s)
                    self.ind = kw
                    self.push()
                    try:
                        p = self.pat(cur.cond.pat, sty)
                        if alias is not None:
                            v = self.lookup(alias[2])
                            v.mutable = True
                            v.alias_set = alias[3]
                        self.emit('| %s =>' % p)
                        self.ind = body
                        self.block_stmts(cur.then, sink)
                    finally:
                        self.pop()
                    self.ind = kw
                    self.emit('| _ =>')
                    self.ind = body
                    if cur.els is None:
                        if sink[0] == 'discard':
                            self.emit('pure ()')
                        else:
                            self.sink_put(sink, '()', UNIT, cur.line)
                    elif cur.els.kind == 'Block':
                        self.block_stmts(cur.els, sink)
                    else:
                        self.branch_stmt(cur.els, sink)
                    self.ind = base
                    return
                c, _ = self.ex(cur.cond)
                if first:
                    head('if %s then' % c)
                else:
                    self.ind = kw
                    self.emit('else if %s then' % c)
                self.ind = body
                self.block_stmts(cur.then, sink)
                first = False
                if cur.els is None:
                    if sink[0] != 'discard':
                        self.ind = kw
                        self.emit('else')
                        self.ind = body
                        self.sink_put(sink, '()', UNIT, cur.line)
                    break
                if cur.els.kind == 'Block':
                    self.ind = kw
                    self.emit('else')
                    self.ind = body
                    self.block_stmts(cur.els, sink)
                    break
                # else-if chain: the condition of the next `if` must not need statements of its own
                nxt = cur.els
                if nxt.cond.kind != 'LetCond':
                    (ctext, _), lines, _ = self.capture(lambda: self.ex(nxt.cond))
                    # under a `let x ← if …` head Lean lifts a nested action `(← …)` of an `else if` condition in front
                    # of the whole `let` (it would run even when an earlier branch is taken); Rust evaluates it only
                    # when the chain gets there: nest the rest of the chain in the `else` branch (its own `do` sequence)
                    if lines or (prefix is not None and '(←' in ctext):
                        self.ind = kw
                        self.emit('else')
                        self.ind = body
                        self.branch_stmt(nxt, sink)
                        break
                cur = nxt
            self.ind = base
            return
        if k == 'Match' and any(g is not None for _, g, _ in e.arms):
            self.ind = base
            return self.branch_stmt(self.desugar_guard(e), sink, prefix)
        if k == 'Match':
            s, sty = self.ex(e.scrut)
            head('match %s with' % s)
            for p, g, bodyx in e.arms:
                if g is not None:
                    self.fail('match guards are not supported', e.line)
                self.ind = kw
                self.push()
                try:
                    ps = self.pat(p, sty)
                    self.emit('| %s =>' % ps)
                    self.ind = body
                    n0 = len(self.out)
                    if bodyx.kind == 'Block':
                        self.block_stmts(bodyx, sink)
                    else:
                        if bodyx.kind == 'MethodCall': bodyx.as_stmt = (sink[0] == 'discard')
                        self.into(bodyx, sink)
                        if len(self.out) == n0:
                            self.emit('pure ()')
                finally:
                    self.pop()
            self.ind = base
            return
        raise AssertionError(k)

    # ------------------------------------------------------------------------------------------ let
    def st_let(self, s):
        if s.init is None:
            self.fail('`let` without an initialiser is not supported', s.line)
        dty = self.conv(s.ty) if s.ty is not None else TVar()
        p = s.pat
        while p.kind == 'PRef':
            p = p.inner
        if p.kind == 'PIdent' and s.els is None:
            name = self.fresh_if_shadowing_mut(p.name)
            tyv = dty
            self.into(s.init, ('let', name, p.mut, tyv), want=(dty if s.ty is not None else None))
            self.declare(p.name, Var(name, tyv, mutable=p.mut))
            return
        if p.kind == 'PWild' and s.els is None:
            self.into(s.init, ('discard',))
            return
        # destructuring (possibly refutable with `else`)
        init = s.init
        while init.kind == 'Paren':
            init = init.e
        t, ty = (self.branchy_value(init, dty) if init.kind in ('If', 'Match', 'Block') else self.ex(init, want=(dty if s.ty is not None else None)))
        if t is None:
            return
        unify(dty, ty)
        muts = []
        ps = self.pat(p, dty, collect_mut=muts)
        arrow = ':='
        if s.els is None:
            self.emit('let %s %s %s' % (ps, arrow, t))
        else:
            if self.pure: raise NotPure()
            self.emit('let %s %s %s | do' % (ps, arrow, t))
            self.ind += 4
            self.block_stmts(s.els, ('discard',))
            self.ind -= 4
        for nm in muts:
            if not self.pure:
                self.emit('let mut %s := %s' % (nm, nm))

    def get_mut_alias(self, cond):
        """`if let Some(r) = map.get_mut(&k) { *r = … }`: r aliases the entry; a write to `*r` is `map.insert k …`.
        Returns (scrutinee term, its type, rust name of r, setter) or None."""
        sc = self.strip(cond.e)
        if sc.kind != 'MethodCall' or sc.name != 'get_mut' or len(sc.args) != 1:
            return None
        pl = self.try_place(sc.recv)
        if pl is None: return None
        mt = res(pl.ty)
        if isinstance(mt, TVar) or mt[0] != 'map':
            return None
        p = cond.pat
        while p.kind == 'PRef': p = p.inner
        if not (p.kind == 'PTupleStruct' and p.segs[-1] == 'Some' and len(p.elems) == 1 and p.elems[0].kind == 'PIdent'):
            self.fail('`get_mut` is only supported as `if let Some(x) = map.get_mut(&k)`', cond.line)
        k, kt = self.ex(sc.args[0], want=mt[1])
        unify(kt, mt[1])
        key = par(k)

        def setter(t):
            pl._cache = None
            pl.set('%s.insert %s %s' % (par(pl.get()), key, par(t)))
        return '%s[%s]?' % (par(pl.get()), k), ('opt', mt[2]), p.elems[0].name, setter

    def desugar_guard(self, e):
        """`match s { x if g => A, rest… }` (first arm: a plain binding with a guard) is
        `{ let x = s; if g { A } else { match x { rest… } } }`; other uses of guards are rejected"""
        p, g, body = e.arms[0]
        while p.kind == 'PRef': p = p.inner
        if g is None or p.kind != 'PIdent' or any(g2 is not None for _, g2, _ in e.arms[1:]):
            self.fail('match guards are only supported on a leading `name if cond` arm', e.line)
        x = N('Path', e.line, segs=[(p.name, [])])
        mk_block = lambda b: b if b.kind == 'Block' else N('Block', b.line, stmts=[], tail=b, end_line=b.line)
        rest = N('Match', e.line, scrut=x, arms=e.arms[1:], end_line=getattr(e, 'end_line', e.line))
        iff = N('If', e.line, cond=g, then=mk_block(body), els=N('Block', e.line, stmts=[], tail=rest, end_line=e.line), end_line=e.line)
        let = N('Let', e.line, pat=N('PIdent', e.line, name=p.name, mut=False, by_ref=False), ty=None, init=e.scrut, els=None, end_line=e.line)
        return N('Block', e.line, stmts=[let], tail=iff, end_line=getattr(e, 'end_line', e.line))

    def fresh_if_shadowing_mut(self, rust_name):
        """Lean cannot shadow a `let mut` variable: a Rust re-declaration of such a name gets a numbered Lean name"""
        name = lean_ident(rust_name)
        old = self.lookup(rust_name)
        if old is not None and old.mutable and not self.pure:
            self.nshadow = getattr(self, 'nshadow', 0) + 1
            return '%s_%d' % (name, self.nshadow)
        return name

    # ------------------------------------------------------------------------------------------ patterns
    def pat(self, p, ty, wild=False, collect_mut=None):
        k = p.kind
        if k == 'PWild':
            return '_'
        if k == 'PRef':
            return self.pat(p.inner, ty, wild, collect_mut)
        if k == 'PIdent':
            if wild:
                return '_'
            name = self.fresh_if_shadowing_mut(p.name)
            self.declare(p.name, Var(name, ty, mutable=p.mut))
            if p.mut:
                if collect_mut is None:
                    self.fail('`mut` binding inside this pattern is not supported', p.line)
                collect_mut.append(name)
            return name
        if k == 'PLit':
            if p.lit == 'int': return str(p.val)
            if p.lit == 'bool': return 'true' if p.val else 'false'
            if p.lit == 'char':
                unify(ty, ('char',))
                return lean_char(p.val)
            self.fail('string literal patterns are not supported', p.line)
        if k == 'PTuple':
            t = res(ty)
            if isinstance(t, TVar):
                t = ('tuple', tuple(TVar() for _ in p.elems)); unify(ty, t)
            if t[0] == 'struct':
                fields = self.struct_fields(t[1])
                t = ('tuple', tuple(ft for _, ft in fields))
            if t[0] != 'tuple' or len(t[1]) != len(p.elems):
                self.fail('tuple pattern against type %r' % (deep(t),), p.line)
            return '(' + ', '.join(self.pat(x, et, wild, collect_mut) for x, et in zip(p.elems, t[1])) + ')'
        if k == 'PPath':
            if p.segs[-1] == 'None':
                unify(ty, ('opt', TVar()))
                return 'none'
            var = self.resolve_variant(list(p.segs))
            if var is not None and var[2] == 'unit':
                unify(ty, ('enum', var[0]))
                return '%s.%s' % (var[0], lean_ident(var[1]))
            self.fail('path pattern `%s` is not supported' % '::'.join(p.segs), p.line)
        if k == 'PTupleStruct':
            head = p.segs[-1]
            t = res(ty)
            if head == 'Some':
                if isinstance(t, TVar):
                    t = ('opt', TVar()); unify(ty, t)
                if t[0] != 'opt': self.fail('`Some` pattern against type %r' % (deep(t),), p.line)
                return 'some ' + par(self.pat(p.elems[0], t[1], wild, collect_mut))
            if head in ('Ok', 'Err'):
                if isinstance(t, TVar):
                    t = ('result', TVar(), TVar()); unify(ty, t)
                if t[0] != 'result': self.fail('`%s` pattern against type %r' % (head, deep(t)), p.line)
                if head == 'Ok': return '.ok ' + par(self.pat(p.elems[0], t[1], wild, collect_mut))
                return '.error ' + par(self.pat(p.elems[0], t[2], wild, collect_mut))
            if head in NEWTYPES:
                unify(ty, NEWTYPES[head])
                return self.pat(p.elems[0], NEWTYPE_INNER[NEWTYPES[head][0]], wild, collect_mut)
            var = self.resolve_variant(list(p.segs))
            if var is not None and var[2] == 'tuple':
                key, vname, kind, fields = var
                unify(ty, ('enum', key))
                if getattr(p, 'rest', False) and len(p.elems) < len(fields):
                    if p.elems: self.fail('`..` after leading sub-patterns is not supported', p.line)
                    subs = ['_'] * len(fields)
                else:
                    if len(p.elems) != len(fields): self.fail('pattern arity of %s.%s' % (key, vname), p.line)
                    subs = [par(self.pat(x, ft, wild, collect_mut)) for x, (_, ft) in zip(p.elems, fields)]
                return ' '.join(['%s.%s' % (key, lean_ident(vname))] + subs)
            self.fail('tuple-struct pattern `%s` is not supported' % head, p.line)
        if k == 'PStruct':
            head = p.segs[-1]
            if head == 'BddNode':
                unify(ty, NODE)
                given = dict(p.fields)
                parts = []
                for rf, (lf, ft) in NODE_FIELDS.items():
                    parts.append(self.pat(given[rf], ft, wild, collect_mut) if rf in given else '_')
                return '⟨' + ', '.join(parts) + '⟩'
            key = self.struct_key(head, p.line)
            unify(ty, ('struct', key))
            fields = self.struct_fields(key)
            given = dict(p.fields)
            if not p.rest and set(given) != set(f for f, _ in fields):
                self.fail('struct pattern must name all fields or use `..`', p.line)
            parts = [self.pat(given[f], ft, wild, collect_mut) if f in given else '_' for f, ft in fields]
            return '(' + ', '.join(parts) + ')' if len(parts) > 1 else parts[0]
        if k == 'POr':
            alts, bound_sets = [], []
            for a in p.alts:
                self.push()
                alts.append(self.pat(a, ty, wild, collect_mut))
                bound_sets.append(dict(self.scopes[-1]))
                self.pop()
            if any(bound_sets):
                # every alternative must bind the same names at the same types (Rust requires it too); Lean accepts
                # `| p1 | p2 => rhs` under exactly that condition
                names0 = sorted(bound_sets[0])
                for bs in bound_sets[1:]:
                    if sorted(bs) != names0 or any(deep(res(bs[n].ty)) != deep(res(bound_sets[0][n].ty)) for n in names0):
                        self.fail('or-pattern whose alternatives bind different variables', p.line)
                if collect_mut:
                    self.fail('`mut` bindings inside an or-pattern are not supported', p.line)
                for n in names0:
                    self.declare(n, bound_sets[0][n])
            return ' | '.join(alts)
        self.fail('pattern kind %s' % k, p.line)

    # ------------------------------------------------------------------------------------------ control
    def st_return(self, e):
        if self.pure: raise NotPure()
        self.eff += 1
        if e.e is None:
            self.emit('return %s' % self.ret_term('()'))
            return
        inner = e.e
        while inner.kind == 'Paren':
            inner = inner.e
        if inner.kind in ('If', 'Match'):
            self.branch_stmt(inner, ('return',))
            return
        t, ty = self.ex(inner, want=self.sig.ret)
        if t is None:
            return
        if not unify(self.sig.ret, ty):
            self.fail('`return` of type %r where %r is expected' % (deep(ty), deep(self.sig.ret)), e.line)
        self.emit('return %s' % self.ret_term(t))

    def st_break(self, e):
        if self.pure: raise NotPure()
        if not self.loops:
            self.fail('`break` outside of a loop', e.line)
        lp = self.loops[-1]
        if lp.get('nobreak'):
            self.fail('`break`/`continue` inside a write-back (`iter_mut`) loop is not supported', e.line)
        if lp.get('flag'):
            self.emit('%s := true' % lp['flag'])
        self.eff += 1
        self.emit('break')

    def st_continue(self, e):
        if self.pure: raise NotPure()
        if not self.loops:
            self.fail('`continue` outside of a loop', e.line)
        if self.loops[-1].get('nobreak'):
            self.fail('`break`/`continue` inside a write-back (`iter_mut`) loop is not supported', e.line)
        self.eff += 1
        self.emit('continue')

    def contains_break(self, body):
        found = []

        def f(n):
            if n.kind == 'Break':
                found.append(n)
            if n.kind in ('While', 'Loop', 'For', 'Closure'):
                return False
        for s in body.stmts:
            walk(s, f)
        if body.tail is not None:
            walk(body.tail, f)
        return bool(found)

    def st_assign(self, e):
        pl = self.try_place(e.lhs)
        if pl is None:
            self.fail('assignment target is not a place expression', e.line)
        if e.kind == 'OpAssign':
            t, ty = self.ex_Binary(N('Binary', e.line, op=e.op, l=e.lhs, r=e.rhs))
            pl.set(t)
            return
        rhs = e.rhs
        while rhs.kind == 'Paren':
            rhs = rhs.e
        if rhs.kind in ('If', 'Match', 'Block'):
            t, ty = self.branchy_value(rhs, pl.ty)
        else:
            t, ty = self.ex(rhs, want=pl.ty)
        if t is None:
            return
        if not unify(pl.ty, ty):
            self.fail('assignment of %r to a place of type %r' % (deep(ty), deep(pl.ty)), e.line)
        pl.set(t)

    # ------------------------------------------------------------------------------------------ loops
    def fuel_loop_head(self):
        if self.pure: raise NotPure()
        self.uses_fuel = True
        self.eff += 1
        self.emit('for _ in [0:fuel] do')

    def st_while(self, e):
        if self.pure: raise NotPure()
        flag = None
        if self.contains_break(e.body):
            flag = self.tmp('done')
            self.emit('let mut %s := false' % flag)
        base = self.ind
        self.fuel_loop_head()
        self.ind = base + 2
        self.loops.append({'flag': flag})
        cond = e.cond
        post = None
        try:
            if cond.kind == 'LetCond':
                scrut_e = self.strip(cond.e)
                pop_pl = None
                if scrut_e.kind == 'MethodCall' and scrut_e.name == 'pop' and not scrut_e.args:
                    pop_pl = self.try_place(scrut_e.recv)
                    if pop_pl is None: self.fail('`while let … = x.pop()` needs a place receiver', e.line)
                    pt = res(pop_pl.ty)
                    if isinstance(pt, TVar) or pt[0] != 'vec': self.fail('pop() on a non-Vec', e.line)
                    scrut = lambda: ('%s.back?' % par(pop_pl.get()), ('opt', pt[1]))
                    pop_op = '%s.pop'
                elif scrut_e.kind == 'MethodCall' and scrut_e.name == 'next' and not scrut_e.args and \
                        self.try_place(scrut_e.recv) is not None and res(self.try_place(scrut_e.recv).ty) == ('chars',):
                    # `while let Some(c) = chars.next()`: the character iterator is the list of remaining characters
                    pop_pl = self.try_place(scrut_e.recv)
                    scrut = lambda: ('%s.head?' % par(pop_pl.get()), ('opt', ('char',)))
                    pop_op = '%s.tail'
                else:
                    def scrut():
                        (t, ty), lines, eff = self.capture(lambda: self.ex(cond.e))
                        if lines: self.fail('`while let` scrutinee with side effects is not supported', e.line)
                        return t, ty
                s, sty = scrut()
                self.emit('match %s with' % s)
                self.push()
                try:
                    p = self.pat(cond.pat, sty)
                    self.emit('| %s =>' % p)
                    self.ind = base + 4
                    if pop_pl is not None:
                        pop_pl._cache = None
                        pop_pl.set(pop_op % par(pop_pl.get()))
                    self.block_stmts(e.body, ('discard',))
                finally:
                    self.pop()
                self.ind = base + 2
                self.emit('| _ =>')
                self.ind = base + 4
                if flag: self.emit('%s := true' % flag)
                self.emit('break')

                def post():
                    if pop_pl is not None: pop_pl._cache = None
                    s2, sty2 = scrut()
                    self.push()
                    p2 = self.pat(cond.pat, sty2, wild=True)
                    self.pop()
                    self.emit('match %s with' % s2)
                    self.emit('| %s => Outcome.panic "fuel"' % p2)
                    self.emit('| _ => pure ()')
            else:
                c, _ = self.ex(cond)
                if flag:
                    self.emit('if !%s then' % par(c))
                    self.emit('  %s := true' % flag)
                    self.emit('  break')
                else:
                    self.emit('if !%s then break' % par(c))
                self.block_stmts(e.body, ('discard',))

                def post():
                    c2, _ = self.ex(cond)
                    self.emit('if %s then Outcome.panic "fuel"' % c2)
        finally:
            self.loops.pop()
            self.ind = base
        self.emit('-- fuel exhausted while the loop of L%d could still run?' % e.line)
        if flag:
            self.emit('if !%s then Outcome.panic "fuel"' % flag)
        else:
            post()

    def st_loop(self, e):
        if self.pure: raise NotPure()
        flag = None
        if self.contains_break(e.body):
            flag = self.tmp('done')
            self.emit('let mut %s := false' % flag)
        base = self.ind
        self.fuel_loop_head()
        self.ind = base + 2
        self.loops.append({'flag': flag})
        try:
            self.block_stmts(e.body, ('discard',))
        finally:
            self.loops.pop()
            self.ind = base
        self.emit('-- fuel exhausted before the `loop` of L%d was left?' % e.line)
        if flag:
            self.emit('if !%s then Outcome.panic "fuel"' % flag)
        else:
            self.emit('Outcome.panic "fuel"')

    def st_for(self, e):
        if self.pure: raise NotPure()
        it = self.strip(e.iter)
        base = self.ind
        self.eff += 1
        # write-back loop: `for x in v.iter_mut()[.skip(k)]`
        chain = []
        cur = it
        while cur.kind == 'MethodCall':
            chain.append(cur)
            cur = self.strip(cur.recv)
        chain.reverse()
        if e.iter.kind == 'Unary' and e.iter.op == '&mut' and it.kind == 'Index' and it.idx.kind == 'Range':
            # `for x in &mut v[lo..hi] { *x = … }`: write-back loop over a sub-slice (the slice itself panics when out of range)
            rg = it.idx
            pl = self.try_place(it.obj)
            if pl is None: self.fail('`&mut v[a..b]` of a non-place', e.line)
            pt = res(pl.ty)
            if isinstance(pt, TVar) or pt[0] != 'vec': self.fail('`&mut v[a..b]` on %r' % (pt,), e.line)
            if rg.lo is None or rg.hi is None or rg.incl: self.fail('only `&mut v[a..b]` sub-slices are supported', e.line)
            lo = par(self.ex(rg.lo)[0]); hi = par(self.ex(rg.hi)[0])
            if e.pat.kind != 'PIdent': self.fail('write-back loop needs an identifier pattern', e.line)
            self.emit('if decide (%s > %s) || decide (%s > %s.size) then Outcome.panic "slice index out of range"' % (lo, hi, hi, par(pl.get())))
            i = self.tmp('i')
            self.emit('for %s in [%s:%s] do' % (i, lo, hi))
            self.ind = base + 2
            self.push()
            self.loops.append({'nobreak': True})
            try:
                name = lean_ident(e.pat.name)
                self.emit('let mut %s ← Rust.idx %s %s' % (name, par(pl.get()), i))
                self.declare(e.pat.name, Var(name, pt[1], mutable=True))
                self.block_stmts(e.body, ('discard',))
                pl._cache = None
                pl.set(self.m('Rust.setIdx %s %s %s' % (par(pl.get()), i, name)))
            finally:
                self.loops.pop()
                self.pop()
                self.ind = base
            return
        if any(c.name == 'iter_mut' for c in chain) or (e.iter.kind == 'Unary' and e.iter.op == '&mut'):
            pl = self.try_place(cur)
            if pl is None: self.fail('iter_mut() on a non-place', e.line)
            pt = res(pl.ty)
            if isinstance(pt, TVar) or pt[0] != 'vec': self.fail('iter_mut() on %r' % (pt,), e.line)
            start = '0'
            names = [c.name for c in chain]
            if names == ['iter_mut']:
                pass
            elif names == ['iter_mut', 'skip']:
                start = par(self.ex(chain[1].args[0])[0])
            elif names == []:
                pass
            else:
                self.fail('unsupported iterator chain over iter_mut(): %s' % '.'.join(names), e.line)
            if e.pat.kind != 'PIdent': self.fail('iter_mut loop needs an identifier pattern', e.line)
            i = self.tmp('i')
            self.emit('for %s in [%s:%s.size] do' % (i, start, par(pl.get())))
            self.ind = base + 2
            self.push()
            self.loops.append({'nobreak': True})
            try:
                name = lean_ident(e.pat.name)
                self.emit('let mut %s ← Rust.idx %s %s' % (name, par(pl.get()), i))
                self.declare(e.pat.name, Var(name, pt[1], mutable=True))
                self.block_stmts(e.body, ('discard',))
                pl._cache = None
                pl.set(self.m('Rust.setIdx %s %s %s' % (par(pl.get()), i, name)))
            finally:
                self.loops.pop()
                self.pop()
                self.ind = base
            return
        self.push()
        self.loops.append({'flag': None, 'for': True})
        try:
            if it.kind == 'Range':
                if it.lo is None or it.hi is None or it.incl:
                    self.fail('only `for x in a..b` ranges are supported', e.line)
                lo, lt = self.ex(it.lo)
                hi, ht = self.ex(it.hi)
                unify(lt, ht)
                p = self.pat(e.pat, ht)
                self.emit('for %s in [%s:%s] do' % (p, lo, hi))
            else:
                t, ty = self.ex(it)
                ty = res(ty)
                if isinstance(ty, TVar) or ty[0] not in ('vec', 'iter'):
                    self.fail('`for` over a value of type %r (hash-ordered iteration is not translated)' % (deep(ty),), e.line)
                p = self.pat(e.pat, ty[1])
                self.emit('for %s in %s do' % (p, t))
            self.ind = base + 2
            self.block_stmts(e.body, ('discard',))
        finally:
            self.loops.pop()
            self.pop()
            self.ind = base
