"""Type representation used by the translator (a light inference, just enough to resolve methods, `.0`, casts)."""
from .lexer import R2LError

INT_KINDS = ('u8', 'u16', 'u32', 'u64', 'u128', 'usize')


class TVar:
    """unification variable (element type of `Vec::new()`, `vec![None; n]`, closures …)"""
    _n = 0

    def __init__(self):
        TVar._n += 1
        self.id = TVar._n
        self.ref = None

    def __repr__(self):
        return '?%d' % self.id if self.ref is None else repr(self.ref)


def res(t):
    while isinstance(t, TVar) and t.ref is not None:
        t = t.ref
    return t


def deep(t):
    t = res(t)
    if isinstance(t, TVar):
        return t
    if t[0] in ('opt', 'vec', 'set', 'iter', 'uvec', 'uiter'):
        return (t[0], deep(t[1]))
    if t[0] == 'map':
        return ('map', deep(t[1]), deep(t[2]))
    if t[0] == 'result':
        return ('result', deep(t[1]), deep(t[2]))
    if t[0] == 'tuple':
        return ('tuple', tuple(deep(x) for x in t[1]))
    if t[0] == 'fn':
        return ('fn', tuple(deep(x) for x in t[1]), deep(t[2]))
    return t


def has_tvar(t):
    t = res(t)
    if isinstance(t, TVar):
        return True
    if t[0] in ('opt', 'vec', 'set', 'iter', 'uvec', 'uiter'):
        return has_tvar(t[1])
    if t[0] in ('map', 'result'):
        return has_tvar(t[1]) or has_tvar(t[2])
    if t[0] == 'tuple':
        return any(has_tvar(x) for x in t[1])
    if t[0] == 'fn':
        return any(has_tvar(x) for x in t[1]) or has_tvar(t[2])
    return False


def unify(a, b):
    """best-effort unification; returns False on a definite mismatch (callers decide whether that matters)"""
    a, b = res(a), res(b)
    if a is b:
        return True
    if isinstance(a, TVar):
        a.ref = b
        return True
    if isinstance(b, TVar):
        b.ref = a
        return True
    if a[0] == 'never' or b[0] == 'never':
        return True
    if a[0] == 'tparam' or b[0] == 'tparam':
        return True   # type parameters are instantiated by Lean's own inference
    if a[0] == 'int' and b[0] == 'int':
        return True
    # slices, vectors and materialised iterators share a representation
    if a[0] in ('vec', 'iter') and b[0] in ('vec', 'iter'):
        return unify(a[1], b[1])
    if a[0] != b[0]:
        return False
    if a[0] in ('opt', 'set', 'uvec', 'uiter'):
        return unify(a[1], b[1])
    if a[0] in ('map', 'result'):
        return unify(a[1], b[1]) and unify(a[2], b[2])
    if a[0] == 'tuple':
        return len(a[1]) == len(b[1]) and all(unify(x, y) for x, y in zip(a[1], b[1]))
    if a[0] == 'fn':
        return len(a[1]) == len(b[1]) and all(unify(x, y) for x, y in zip(a[1], b[1])) and unify(a[2], b[2])
    if a[0] in ('struct', 'enum'):
        return a[1] == b[1]
    return True


UNIT = ('unit',)
BOOL = ('bool',)
NEVER = ('never',)
STR = ('str',)
PTR = ('ptr',)
VAR = ('var',)
BIG = ('big',)
BDD = ('bdd',)
NODE = ('node',)
PVAL = ('pval',)
VAL = ('val',)


def INT(k=None):
    return ('int', k)


def lean_type(t, structs):
    """Lean rendering of a resolved type; None if it still contains an unresolved variable"""
    t = res(t)
    if isinstance(t, TVar):
        return None
    k = t[0]
    if k in ('int', 'ptr', 'var', 'big'):
        return 'Nat'
    if k == 'bool':
        return 'Bool'
    if k == 'unit':
        return 'Unit'
    if k == 'str':
        return 'String'
    if k == 'bdd':
        return 'Arr'
    if k == 'node':
        return 'Node'
    if k == 'pval':
        return 'Array (Option Bool)'
    if k == 'val':
        return 'Array Bool'
    if k == 'rng':
        return 'List Bool'
    if k == 'enum':
        return t[1]
    if k == 'char':
        return 'Char'
    if k == 'chars':
        return 'List Char'
    if k == 'fmtr':
        return 'String'
    if k == 'fmterr':
        return 'Unit'
    if k == 'parseerr':
        return 'Rust.ParseIntError'
    if k == 'utf8err':
        return 'Rust.Utf8Error'
    if k in ('reader', 'writer', 'ioerr', 'errkind'):
        return {'reader': 'Rust.Reader', 'writer': 'Rust.Writer', 'ioerr': 'Rust.IoError', 'errkind': 'Rust.ErrorKind'}[k]
    if k == 'ordering':
        return 'Ordering'
    if k == 'tparam':
        return t[1]
    if k in ('opt', 'vec', 'iter', 'set', 'uvec', 'uiter'):
        inner = lean_type(t[1], structs)
        if inner is None:
            return None
        head = {'opt': 'Option', 'vec': 'Array', 'iter': 'Array', 'set': 'Std.HashSet', 'uvec': 'Array', 'uiter': 'Array'}[k]
        return '%s %s' % (head, paren_ty(inner))
    if k == 'map':
        a, b = lean_type(t[1], structs), lean_type(t[2], structs)
        if a is None or b is None:
            return None
        return 'Std.HashMap %s %s' % (paren_ty(a), paren_ty(b))
    if k == 'result':
        a, b = lean_type(t[1], structs), lean_type(t[2], structs)
        if a is None or b is None:
            return None
        return 'Except %s %s' % (paren_ty(b), paren_ty(a))
    if k == 'tuple':
        parts = [lean_type(x, structs) for x in t[1]]
        if any(p is None for p in parts):
            return None
        return ' × '.join(paren_ty(p, prod=True) for p in parts)
    if k == 'fn':
        parts = [lean_type(x, structs) for x in t[1]] + [lean_type(t[2], structs)]
        if any(p is None for p in parts):
            return None
        if len(t[1]) == 0:
            parts = ['Unit'] + parts
        return ' → '.join(paren_ty(p, arrow=True) for p in parts)
    if k == 'struct':
        fields = structs[t[1]]
        parts = [lean_type(ft, structs) for _, ft in fields]
        if any(p is None for p in parts):
            return None
        return ' × '.join(paren_ty(p, prod=True) for p in parts)
    raise R2LError('type %r has no Lean counterpart' % (t,))


def paren_ty(s, prod=False, arrow=False):
    if ' → ' in s:
        return '(%s)' % s
    if ' × ' in s:
        return '(%s)' % s
    if ' ' in s and not prod and not arrow:
        return '(%s)' % s
    return s
