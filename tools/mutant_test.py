#!/usr/bin/env python3
"""Runs the registered checks against a seeded change (DESIGN.md, "seeded changes").

  mutant_test.py verify <dir>            confirm the change in a scratch worktree: compiles, suite passes,
                                         demo fails with it and passes without it
  mutant_test.py run <dir> [ids…]        apply <dir>/patch.diff to /repo, run ./check <id> quick for the
                                         given ids (default: the property named in meta.json), undo the patch
<dir> contains patch.diff, demo.rs, meta.json. Results are appended to <dir>/result.json.
NEVER leaves /repo modified: the patch is reverted in a finally block.
"""
import json, os, subprocess, sys, time, shutil

REPO = '/repo'
VERIF = os.path.dirname(os.path.dirname(os.path.abspath(__file__)))
ENV = dict(os.environ, CARGO_NET_OFFLINE='true')


def sh(cmd, cwd=None, timeout=3600):
    p = subprocess.run(cmd, cwd=cwd, env=ENV, stdout=subprocess.PIPE, stderr=subprocess.STDOUT, text=True, timeout=timeout)
    return p.returncode, p.stdout


def verify(d):
    d = os.path.abspath(d)
    wt = '/tmp/mutverify_%d' % os.getpid()
    res = {}
    try:
        rc, out = sh(['git', '-C', REPO, 'worktree', 'add', '--detach', wt, 'HEAD'])
        assert rc == 0, out
        os.makedirs(os.path.join(wt, 'tests'), exist_ok=True)
        shutil.copy(os.path.join(d, 'demo.rs'), os.path.join(wt, 'tests', 'demo.rs'))
        rc, out = sh(['cargo', 'test', '--offline', '--test', 'demo'], cwd=wt)
        res['demo_without_change_passes'] = rc == 0
        res['demo_without_tail'] = out[-600:]
        rc, out = sh(['git', 'apply', os.path.join(d, 'patch.diff')], cwd=wt)
        res['patch_applies'] = rc == 0
        if rc == 0:
            rc, out = sh(['cargo', 'test', '--offline', '--test', 'demo'], cwd=wt)
            res['demo_with_change_fails'] = rc != 0
            res['demo_with_tail'] = out[-800:]
            os.remove(os.path.join(wt, 'tests', 'demo.rs'))
            rc, out = sh(['cargo', 'test', '--offline'], cwd=wt)
            res['suite_passes_with_change'] = rc == 0
            res['suite_tail'] = '\n'.join(l for l in out.split('\n') if 'test result' in l or 'FAILED' in l or 'failed' in l)[-800:]
    finally:
        sh(['git', '-C', REPO, 'worktree', 'remove', '--force', wt])
        shutil.rmtree(wt, ignore_errors=True)
    res['confirmed'] = bool(res.get('demo_without_change_passes') and res.get('patch_applies') and
                            res.get('demo_with_change_fails') and res.get('suite_passes_with_change'))
    json.dump(res, open(os.path.join(d, 'verify.json'), 'w'), indent=1)
    print(json.dumps({k: v for k, v in res.items() if not k.endswith('tail')}))
    return 0 if res['confirmed'] else 1


def verify_harmless(d):
    """a change that must NOT be reported with a failing input: the property tests of its demo (everything except
    `observes_*`) pass with and without it, and the full suite passes with it"""
    d = os.path.abspath(d)
    wt = '/tmp/mutverify_%d' % os.getpid()
    res = {}
    try:
        rc, out = sh(['git', '-C', REPO, 'worktree', 'add', '--detach', wt, 'HEAD'])
        assert rc == 0, out
        os.makedirs(os.path.join(wt, 'tests'), exist_ok=True)
        shutil.copy(os.path.join(d, 'demo.rs'), os.path.join(wt, 'tests', 'demo.rs'))
        rc, out = sh(['cargo', 'test', '--offline', '--test', 'demo', '--', '--skip', 'observes_'], cwd=wt)
        res['property_tests_pass_without_change'] = rc == 0
        rc, out = sh(['git', 'apply', os.path.join(d, 'patch.diff')], cwd=wt)
        res['patch_applies'] = rc == 0
        if rc == 0:
            rc, out = sh(['cargo', 'test', '--offline', '--test', 'demo'], cwd=wt)
            res['all_demo_tests_pass_with_change'] = rc == 0
            res['demo_with_tail'] = out[-600:]
            os.remove(os.path.join(wt, 'tests', 'demo.rs'))
            rc, out = sh(['cargo', 'test', '--offline'], cwd=wt)
            if rc != 0 and 'bdd_new_performance' in out:   # wall-clock test, flaky under load
                rc, out = sh(['cargo', 'test', '--offline'], cwd=wt)
            res['suite_passes_with_change'] = rc == 0
            res['suite_tail'] = '\n'.join(l for l in out.split('\n') if 'test result' in l or 'FAILED' in l or 'failed' in l)[-800:]
    finally:
        sh(['git', '-C', REPO, 'worktree', 'remove', '--force', wt])
        shutil.rmtree(wt, ignore_errors=True)
    res['confirmed'] = bool(res.get('property_tests_pass_without_change') and res.get('patch_applies') and
                            res.get('all_demo_tests_pass_with_change') and res.get('suite_passes_with_change'))
    json.dump(res, open(os.path.join(d, 'verify.json'), 'w'), indent=1)
    print(json.dumps({k: v for k, v in res.items() if not k.endswith('tail')}))
    return 0 if res['confirmed'] else 1


def run(d, ids, tier='quick'):
    d = os.path.abspath(d)
    meta = json.load(open(os.path.join(d, 'meta.json')))
    if not ids:
        ids = [meta['property']]
    rc, out = sh(['git', '-C', REPO, 'status', '--porcelain', '--untracked-files=no'])
    assert out.strip() == '', '/repo is not clean: ' + out
    results = {}
    locks = os.path.join(VERIF, 'work', 'locks')
    os.makedirs(locks, exist_ok=True)
    mut = os.path.join(locks, 'mutation')
    # one mutation at a time; then wait for the checks other workers have in flight (see runner.courtesy_lock)
    while True:
        try:
            holder = int(open(mut).read().strip() or '0')
            os.kill(holder, 0)
            time.sleep(2)
        except Exception:
            break
    open(mut, 'w').write(str(os.getpid()))
    ENV['VERIF_MUTANT'] = '1'
    t0 = time.time()
    while time.time() - t0 < 3600:
        busy = False
        for f in os.listdir(locks):
            if f.startswith('check.'):
                try:
                    os.kill(int(f.split('.')[1]), 0)
                    busy = True
                except Exception:
                    try: os.remove(os.path.join(locks, f))
                    except OSError: pass
        if not busy:
            break
        time.sleep(2)
    try:
        rc, out = sh(['git', '-C', REPO, 'apply', os.path.join(d, 'patch.diff')])
        assert rc == 0, out
        for pid in ids:
            t0 = time.time()
            rc, out = sh([os.path.join(VERIF, 'check'), pid, tier], cwd=VERIF, timeout=14400)
            viol = [l for l in out.split('\n') if l.startswith('VIOLATION')]
            results[pid if tier == 'quick' else pid + ':' + tier] = {'exit': rc, 'violation_lines': viol, 'tail': out[-500:], 'wall_s': round(time.time() - t0, 1)}
            for v in viol:
                # keep a copy of the replay file next to the seeded change
                path = v.split('replay=')[1].split(' ')[0]
                if os.path.exists(path):
                    shutil.copy(path, os.path.join(d, 'replay-%s-%s' % (pid, os.path.basename(path))))
            print(pid, 'exit', rc, viol[:1])
    finally:
        sh(['git', '-C', REPO, 'checkout', '--', '.'])
        try: os.remove(mut)
        except OSError: pass
    rc, out = sh(['git', '-C', REPO, 'status', '--porcelain', '--untracked-files=no'])
    assert out.strip() == '', '/repo not restored: ' + out
    p = os.path.join(d, 'result.json')
    old = json.load(open(p)) if os.path.exists(p) else {}
    old.update(results)
    json.dump(old, open(p, 'w'), indent=1)
    return 0


if __name__ == '__main__':
    if sys.argv[1] == 'verify':
        sys.exit(verify(sys.argv[2]))
    if sys.argv[1] == 'verify-harmless':
        sys.exit(verify_harmless(sys.argv[2]))
    args = sys.argv[3:]
    tier = 'quick'
    if '--tier' in args:
        tier = args[args.index('--tier') + 1]; args = [a for a in args if a not in ('--tier', tier)]
    sys.exit(run(sys.argv[2], args, tier))
