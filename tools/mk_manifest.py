#!/usr/bin/env python3
"""Regenerates MANIFEST.json from lean/BddVerif/Props/index/*.json (one file per property)."""
import json, os
V = os.path.dirname(os.path.dirname(os.path.abspath(__file__)))
d = os.path.join(V, 'lean', 'BddVerif', 'Props', 'index')
props = [json.loads(l) for l in open(os.path.join(V, 'properties.jsonl'))]
checks, na = [], []
for p in props:
    pid = p['id']
    e = json.load(open(os.path.join(d, pid + '.json')))
    if not e.get('claimed'):
        na.append({'property_id': pid, 'reason': e.get('unclaimed_reason', 'check not built yet (work in progress); the technique applies, see DESIGN.md §7')})
        continue
    m = dict(e.get('manifest', {}))
    # theorems registered from the Lemmas/AlgoEq* files are about B.Gen.Algo/Algo2/Algo3 definitions, i.e. about Lean text
    # that tools/rust2lean.py regenerates from /repo's Rust source on every run
    tr = [t for t in e.get('theorems', []) if not t.startswith('B.Props.')]
    if tr:
        m['level_text'] = m.get('level_text', '') + (
            ' Tie to the source text, second route: %d of the %d registered theorems are about the Lean translation of the Rust '
            'functions themselves (lean/BddVerif/Gen/Algo*.lean, regenerated statement by statement from /repo by tools/rust2lean.py on '
            'every run: explicit stacks, caches and loops kept as they are, loops with fuel) and prove it equal to the hand-written '
            'model or directly to the specification, with explicit fuel bounds and the panic cases: %s.'
            % (len(tr), len(e['theorems']), ', '.join(t[2:] for t in tr)))
        note = m.get('level_note', '')
        for old in ('is tied to the code only by the differential correspondence on the generated inputs',
                    'are tied to the code only by the differential correspondence on the generated inputs',
                    'are tied to the code only by the differential correspondence',
                    'is tied to the code only by the differential correspondence',
                    'tied to the code only by differential correspondence',
                    'tied to /repo only by the differential correspondence',
                    'is tied to the code only by differential correspondence on the enumerated inputs',
                    'are tied to the code by the differential correspondence on the generated inputs, not by proof about the Rust text'):
            note = note.replace(old, old.replace(' only', '').replace(', not by proof about the Rust text', '') +
                                ' and by the equivalence theorems about the regenerated translation (for the functions named in the level text; translator tools/rust2lean.py and its shims Gen/RustShim*.lean trusted)')
        m['level_note'] = note
    checks.append({
        'property_id': pid,
        'quick_cmd': './check %s quick' % pid,
        'thorough_cmd': './check %s thorough' % pid,
        'evidence_file': '/verif/evidence/%s.json' % pid,
        'replay_cmd_template': './check %s --replay {path}' % pid,
        'engine': 'lean-proof+correspondence',
        'level_claimed': {'category': 'proof', 'text': m.get('level_text', ''), 'design_ref': m.get('design_ref', 'DESIGN.md §7 ' + pid)},
        'level_note': m.get('level_note', ''),
        'technique': m.get('technique', 'Lean 4 theorems about a hand-written executable model + differential correspondence with the Rust implementation'),
    })
man = {
    'version': 1,
    'setup_cmd': 'cd /verif && ./check setup',
    'hooks': {'guard': 'bdd_verif', 'enable': 'no source hook is needed: the harness (harness/, path dependency on /repo) uses the public API only; the guard name `--cfg bdd_verif` is reserved',
              'baseline_off_cmd': 'cd /repo && cargo test --workspace --no-fail-fast --offline', 'source_commits': [], 'add_only': True},
    'engines': [{'name': 'lean-proof+correspondence', 'path': '/verif/tools/runner.py',
                 'serves_properties': [c['property_id'] for c in checks],
                 'kind_free_text': 'Lean 4 (core+Std) theorems about an executable model (lean/BddVerif), translator tools/gen_lean.py for table-like sources, Rust harness harness/src/bin/cNN.rs driving the real library, compiled Lean drivers drv_cNN replaying every observation through the model and evaluating the property predicate on the observed output'}],
    'checks': checks,
    'notes': 'See DESIGN.md. Every check regenerates lean/BddVerif/Gen from /repo, rebuilds the property theorems and audits their axioms, rebuilds the harness against the current /repo working tree, and replays the observations through the model.',
    'not_applicable': na,
}
json.dump(man, open(os.path.join(V, 'MANIFEST.json'), 'w'), indent=1)
print('claimed', [c['property_id'] for c in checks], 'unclaimed', [x['property_id'] for x in na])
