#!/opt/veriftools/pyvenv/bin/python
"""Validates MANIFEST.json and every evidence file against the schemas in /root/.vp."""
import json, jsonschema, os, sys
V = os.path.dirname(os.path.dirname(os.path.abspath(__file__)))
ok = True
man = json.load(open(os.path.join(V, 'MANIFEST.json')))
try:
    jsonschema.validate(man, json.load(open('/root/.vp/MANIFEST.schema.json'))); print('MANIFEST ok:', len(man['checks']), 'checks')
except Exception as e:
    ok = False; print('MANIFEST INVALID', str(e)[:300])
es = json.load(open('/root/.vp/EVIDENCE.schema.json'))
for c in man['checks']:
    p = c['evidence_file']
    if not os.path.exists(p):
        print(c['property_id'], 'evidence missing'); ok = False; continue
    e = json.load(open(p))
    try:
        jsonschema.validate(e, es)
        cv = e['coverage']
        print(c['property_id'], 'ok', e['tier'], 'oblig %s/%s' % (cv.get('discharged'), cv.get('obligations')), 'cases', cv.get('evaluations'), 'nontrivial', cv.get('distinct_nontrivial'), 'viol', e.get('violations'), 'wall', e['wall_s'])
        if cv.get('discharged') != cv.get('obligations') or e.get('violations'): ok = False
    except Exception as ex:
        ok = False; print(c['property_id'], 'INVALID', str(ex)[:300])
sys.exit(0 if ok else 1)
