import Leanproto.Sim2
namespace B
open Std

structure St where
  res : Arr
  existing : HashMap Node Nat
  finished : HashMap (Nat × Nat) Nat
  nonEmpty : Bool

def findOrPush (s : St) (node : Node) : St × Nat :=
  match s.existing[node]? with
  | some i => (s, i)
  | none => ({ s with res := s.res.push node, existing := s.existing.insert node s.res.size }, s.res.size)

def solve (op : Op2) (rec : Nat → Nat → St → St × Nat) (a b : Nat) (s : St) : St × Nat :=
  match op (asBool a) (asBool b) with
  | some c => (s, ofBool c)
  | none => rec a b s

def finish (s : St) (l r d lo hi : Nat) (flipOut : Bool) : St × Nat :=
  let s1 : St := if lo = 1 ∨ hi = 1 then { s with nonEmpty := true } else s
  if lo = hi then ({ s1 with finished := s1.finished.insert (l, r) lo }, lo)
  else
    let node : Node := if flipOut then ⟨d, hi, lo⟩ else ⟨d, lo, hi⟩
    let fp := findOrPush s1 node
    ({ fp.1 with finished := fp.1.finished.insert (l, r) fp.2 }, fp.2)

def applyStep (Γ : Ctx) (rec : Nat → Nat → St → St × Nat) (l r : Nat) (s : St) : St × Nat :=
  match s.finished[(l, r)]? with
  | some p => (s, p)
  | none =>
    let d := min (nodeAt Γ.L l).var (nodeAt Γ.R r).var
    let kl := kids Γ.L l d Γ.fl
    let kr := kids Γ.R r d Γ.fr
    if Γ.fo = some d then
      let r1 := solve Γ.op rec kl.1 kr.1 s
      let r2 := solve Γ.op rec kl.2 kr.2 r1.1
      finish r2.1 l r d r1.2 r2.2 true
    else
      let r1 := solve Γ.op rec kl.2 kr.2 s
      let r2 := solve Γ.op rec kl.1 kr.1 r1.1
      finish r2.1 l r d r2.2 r1.2 false

def applyRec (Γ : Ctx) : Nat → Nat → Nat → St → St × Nat
  | 0 => fun _ _ s => (s, 0)
  | fuel + 1 => applyStep Γ (applyRec Γ fuel)

structure Inv (Γ : Ctx) (s : St) : Prop where
  red : Red s.res Γ.n
  ex : ∀ (nd : Node) (i : Nat), nd.var < Γ.n → (s.existing[nd]? = some i ↔ 2 ≤ i ∧ s.res[i]? = some nd)
  fin : ∀ (l r p : Nat), s.finished[(l, r)]? = some p →
      p < s.res.size ∧ min (varOf Γ.L Γ.n l) (varOf Γ.R Γ.n r) ≤ varOf s.res Γ.n p ∧
      ∀ v, ev s.res v p = Γ.G l r v
  ne : ∀ (l r p : Nat), s.finished[(l, r)]? = some p → p ≠ 0 → s.nonEmpty = true

/-- what a (sub-)computation on task (l, r), entered at level k from state s, must deliver -/
structure Out (Γ : Ctx) (s : St) (l r k : Nat) (out : St × Nat) : Prop where
  inv : Inv Γ out.1
  eq : (out.1.res, out.2) = ins Γ.n (Γ.n - k) k (Γ.G l r) s.res
  neFalse : (∀ v, Γ.G l r v = false) → out.1.nonEmpty = s.nonEmpty
  neTrue : 2 ≤ out.2 → out.1.nonEmpty = true
  mono : s.nonEmpty = true → out.1.nonEmpty = true

def Spec (Γ : Ctx) (rec : Nat → Nat → St → St × Nat) (k : Nat) : Prop :=
  ∀ l r s, Inv Γ s → l < Γ.L.size → r < Γ.R.size → k ≤ varOf Γ.L Γ.n l → k ≤ varOf Γ.R Γ.n r →
    Out Γ s l r k (rec l r s)

theorem asBool_some {L : Arr} {n : Nat} (p : Nat) (x : Bool) (h : asBool p = some x) (v) :
    evW L n v p = x := by
  unfold asBool at h
  split at h
  · rename_i h0; subst h0; cases h; exact evW_zero _ _ _
  · split at h
    · rename_i _ h1; subst h1; cases h; exact evW_one _ _ _
    · cases h

/-- a terminal look-up that answers determines the task function -/
theorem Ctx.G_const (Γ : Ctx) (ok : Γ.Ok) (a b : Nat) (c : Bool)
    (h : Γ.op (asBool a) (asBool b) = some c) (v) : Γ.G a b v = c := by
  unfold Ctx.G Ctx.F
  cases ha : asBool a with
  | some x =>
    cases hb : asBool b with
    | some y =>
      rw [ha, hb, ok.cons.total] at h; cases h
      rw [asBool_some a x ha, asBool_some b y hb]
    | none =>
      rw [ha, hb] at h
      rw [asBool_some a x ha]; exact ok.cons.left x c h _
  | none =>
    cases hb : asBool b with
    | some y =>
      rw [ha, hb] at h
      rw [asBool_some b y hb]; exact ok.cons.right y c h _
    | none =>
      rw [ha, hb] at h
      exact ok.cons.none_ c h _ _

theorem ofBool_lt {A : Arr} {n : Nat} (h : Red A n) (c : Bool) : ofBool c < A.size := by
  have := h.size2; cases c <;> simp [ofBool] <;> omega

theorem ev_ofBool (A : Arr) (v) (c : Bool) : ev A v (ofBool c) = c := by
  cases c <;> simp [ofBool, ev_zero, ev_one]

/-- `solve` meets the output contract at level k if `rec` does -/
theorem solve_out (Γ : Ctx) (ok : Γ.Ok) (rec) (k : Nat) (hk : k ≤ Γ.n) (hrec : Spec Γ rec k)
    (a b : Nat) (s : St) (hs : Inv Γ s) (ha : a < Γ.L.size) (hb : b < Γ.R.size)
    (hka : k ≤ varOf Γ.L Γ.n a) (hkb : k ≤ varOf Γ.R Γ.n b) :
    Out Γ s a b k (solve Γ.op rec a b s) := by
  unfold solve
  cases hop : Γ.op (asBool a) (asBool b) with
  | none => exact hrec a b s hs ha hb hka hkb
  | some c =>
    have hG := Γ.G_const ok a b c hop
    refine ⟨hs, ?_, fun _ => rfl, ?_, fun h => h⟩
    · have := ins_found hs.red (Γ.n - k) k (Γ.G a b) (ofBool c) (by omega) (ofBool_lt hs.red c)
        (by have : varOf s.res Γ.n (ofBool c) = Γ.n := by cases c <;> simp [varOf, ofBool]
            omega)
        (fun v => by rw [hG, ev_ofBool])
      exact this.symm
    · intro h2; cases c <;> simp [ofBool] at h2

end B
