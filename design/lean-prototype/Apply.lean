import Leanproto.Basic
import Std.Data.HashMap
namespace B
open Std

def zeroN (n : Nat) : Node := ⟨n, 0, 0⟩
def oneN (n : Nat) : Node := ⟨n, 1, 1⟩
def mkFalse (n : Nat) : Arr := #[zeroN n]
def mkTrue (n : Nat) : Arr := #[zeroN n, oneN n]
def numVars (A : Arr) : Nat := (A[0]?.getD default).var
def root (A : Arr) : Nat := A.size - 1
def asBool (p : Nat) : Option Bool := if p = 0 then some false else if p = 1 then some true else none
def ofBool (b : Bool) : Nat := if b then 1 else 0
def nodeAt (A : Arr) (p : Nat) : Node := A[p]?.getD default

abbrev Op2 := Option Bool → Option Bool → Option Bool

structure St where
  res : Arr
  existing : HashMap Node Nat
  finished : HashMap (Nat × Nat) Nat
  nonEmpty : Bool

/-- children of pointer p when expanding on decision variable d (with optional input flip) -/
def kids (A : Arr) (p d : Nat) (flip : Option Nat) : Nat × Nat :=
  let nd := nodeAt A p
  if nd.var ≠ d then (p, p)
  else if flip = some nd.var then (nd.high, nd.low) else (nd.low, nd.high)

def findOrPush (s : St) (node : Node) : St × Nat :=
  match s.existing[node]? with
  | some i => (s, i)
  | none =>
    let i := s.res.size
    ({ s with res := s.res.push node, existing := s.existing.insert node i }, i)

/-- recursive formulation of `apply_with_flip` (explicit stack replaced by recursion; fuel = levels) -/
def applyRec (L R : Arr) (op : Op2) (fl fr fo : Option Nat) : Nat → Nat → Nat → St → St × Nat
  | 0, _, _, s => (s, 0)   -- out of fuel (unreachable for well-formed operands)
  | fuel+1, l, r, s =>
    match s.finished[(l, r)]? with
    | some p => (s, p)
    | none =>
      let d := min (nodeAt L l).var (nodeAt R r).var
      let (lLow, lHigh) := kids L l d fl
      let (rLow, rHigh) := kids R r d fr
      let solve (s : St) (a b : Nat) : St × Nat :=
        match op (asBool a) (asBool b) with
        | some c => (s, ofBool c)
        | none => applyRec L R op fl fr fo fuel a b s
      -- order of sub-task evaluation: high first, unless output is flipped on d
      let (s, newLow, newHigh) :=
        if fo = some d then
          let (s, lo) := solve s lLow rLow
          let (s, hi) := solve s lHigh rHigh
          (s, lo, hi)
        else
          let (s, hi) := solve s lHigh rHigh
          let (s, lo) := solve s lLow rLow
          (s, lo, hi)
      let s := if newLow = 1 ∨ newHigh = 1 then { s with nonEmpty := true } else s
      if newLow = newHigh then
        ({ s with finished := s.finished.insert (l, r) newLow }, newLow)
      else
        let node : Node := if fo = some d then ⟨d, newHigh, newLow⟩ else ⟨d, newLow, newHigh⟩
        let (s, i) := findOrPush s node
        ({ s with finished := s.finished.insert (l, r) i }, i)

def applyWithFlip (L R : Arr) (op : Op2) (fl fr fo : Option Nat) : Arr :=
  let n := numVars L
  let s0 : St := { res := mkTrue n, existing := (HashMap.emptyWithCapacity 16).insert (zeroN n) 0 |>.insert (oneN n) 1,
                   finished := HashMap.emptyWithCapacity 16, nonEmpty := false }
  let (s, _) := applyRec L R op fl fr fo (n + 2) (root L) (root R) s0
  if s.nonEmpty then s.res else mkFalse n

def opAnd : Op2 | some true, some true => some true | some false, _ => some false | _, some false => some false | _, _ => none
def opOr : Op2 | some false, some false => some false | some true, _ => some true | _, some true => some true | _, _ => none
def opXor : Op2 | some a, some b => some (a != b) | _, _ => none

def mkVar (n x : Nat) : Arr := (mkTrue n).push ⟨x, 0, 1⟩
def show_ (A : Arr) : String := "|" ++ String.join (A.toList.map fun nd => s!"{nd.var},{nd.low},{nd.high}|")

#eval show_ (applyWithFlip (applyWithFlip (mkVar 4 0) (mkVar 4 1) opAnd none none none) (applyWithFlip (applyWithFlip (mkVar 4 0) (mkTrue 4) opXor none none none) (mkVar 4 2) opAnd none none none) opOr none none none)
end B
