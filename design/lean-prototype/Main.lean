import Leanproto.Apply
open B

def parseBdd (s : String) : Arr :=
  let segs := (s.splitOn "|").filter (· ≠ "")
  segs.foldl (init := #[]) fun acc seg =>
    match seg.splitOn "," with
    | [a, b, c] => acc.push ⟨a.toNat!, b.toNat!, c.toNat!⟩
    | _ => acc

def parseFlip (s : String) : Option Nat := if s == "-" then none else some s.toNat!

/-- eager table of connective c (4 bits, bit index a*2+b) -/
def eager (c : Nat) : Op2 := fun a b =>
  let f := fun (x y : Bool) => (c >>> ((if x then 2 else 0) + (if y then 1 else 0))) % 2 == 1
  let as := match a with | some x => [x] | none => [false, true]
  let bs := match b with | some x => [x] | none => [false, true]
  let rs := as.flatMap fun x => bs.map fun y => f x y
  if rs.all (· == true) then some true else if rs.all (· == false) then some false else none
def lazy (c : Nat) : Op2 := fun a b => match a, b with
  | some x, some y => some ((c >>> ((if x then 2 else 0) + (if y then 1 else 0))) % 2 == 1)
  | _, _ => none

partial def loop (h : IO.FS.Stream) (ok bad : Nat) : IO Unit := do
  let line ← h.getLine
  if line.isEmpty then IO.println s!"agree {ok} disagree {bad}"; return ()
  match line.trimAscii.toString.splitOn " " with
  | [kind, c, l, r, fl, fr, fo, res] =>
    let op := if kind == "E" then eager c.toNat! else lazy c.toNat!
    let m := show_ (applyWithFlip (parseBdd l) (parseBdd r) op (parseFlip fl) (parseFlip fr) (parseFlip fo))
    if m == res then loop h (ok+1) bad
    else
      if bad < 5 then IO.println s!"MISMATCH {line.trimAscii.toString} model={m}"
      loop h ok (bad+1)
  | _ => loop h ok (bad+1)
def main : IO Unit := do loop (← IO.getStdin) 0 0
