use biodivine_lib_bdd::*;
use rand::{Rng, SeedableRng}; use rand::rngs::StdRng;
type TT = u64;
fn val(idx: u64, n: usize) -> BddValuation { BddValuation::new((0..n).map(|i| (idx >> i) & 1 == 1).collect()) }
fn canon(tt: TT, n: usize, vars: &BddVariableSet) -> Bdd {
    let mut cl = Vec::new();
    for idx in 0..(1u64<<n) { if (tt>>idx)&1==1 { cl.push(BddPartialValuation::from(val(idx,n))); } }
    vars.mk_dnf(&cl).and(&vars.mk_true())
}
fn eager(c: u8) -> impl Fn(Option<bool>, Option<bool>) -> Option<bool> {
    move |a, b| { let f = |x: bool, y: bool| (c >> ((x as u8)*2 + (y as u8))) & 1 == 1;
        let avs: Vec<bool> = match a { Some(x) => vec![x], None => vec![false,true] };
        let bvs: Vec<bool> = match b { Some(x) => vec![x], None => vec![false,true] };
        let mut res: Option<bool> = None;
        for x in &avs { for y in &bvs { let r = f(*x,*y); match res { None => res = Some(r), Some(p) => if p != r { return None; } } } } res } }
fn lazy(c: u8) -> impl Fn(Option<bool>, Option<bool>) -> Option<bool> { move |a, b| match (a,b) { (Some(x),Some(y)) => Some((c >> ((x as u8)*2 + (y as u8))) & 1 == 1), _ => None } }
fn main() {
    let mut rng = StdRng::seed_from_u64(7);
    for n in [0usize, 1, 2, 3, 4, 5, 6] { let vars = BddVariableSet::new_anonymous(n as u16);
        let mask: TT = if n == 6 { u64::MAX } else { (1u64 << (1u64 << n)) - 1 };
        for _ in 0..3000 {
            let a = rng.gen::<u64>() & rng.gen::<u64>() & mask; let b = (rng.gen::<u64>() | rng.gen::<u64>()) & mask;
            let (ab, bb) = (canon(a, n, &vars), canon(b, n, &vars));
            let c: u8 = rng.gen_range(0..16);
            let mut pick = |rng: &mut StdRng| -> Option<usize> { if n == 0 || rng.gen_bool(0.4) { None } else { Some(rng.gen_range(0..n)) } };
            let (fl, fr, fo) = (pick(&mut rng), pick(&mut rng), pick(&mut rng));
            let v = |x: &Option<usize>| x.map(BddVariable::from_index);
            let s = |x: &Option<usize>| x.map(|i| i.to_string()).unwrap_or("-".to_string());
            let e = rng.gen_bool(0.5);
            let r = if e { Bdd::fused_binary_flip_op((&ab, v(&fl)), (&bb, v(&fr)), v(&fo), eager(c)) } else { Bdd::fused_binary_flip_op((&ab, v(&fl)), (&bb, v(&fr)), v(&fo), lazy(c)) };
            println!("{} {} {} {} {} {} {} {}", if e {"E"} else {"L"}, c, ab, bb, s(&fl), s(&fr), s(&fo), r);
        }
    }
}
