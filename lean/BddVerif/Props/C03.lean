import BddVerif.Lemmas.NestedSim
import BddVerif.Lemmas.CanonicalComplete
/-!
# C03 — quantification and nested apply equal operate-then-project

Property theorems about the executable model `Model/Nested.lean` (helper lemmas:
`Lemmas/NestedBasic.lean`, `Lemmas/NestedRealign.lean`, `Lemmas/NestedQ.lean`, `Lemmas/NestedSim.lean`).
The tables `Gen.or_`, `Gen.and_` are regenerated from `src/op_function.rs` on every run.
-/
namespace B.Props.C03
open B B.Gen

/-! ## 1. `var_exists` / `var_for_all` -/

/-- `var_exists(x)` returns exactly the canonical array of `v ↦ A(v[x:=1]) ∨ A(v[x:=0])`
    (operands only need to be well-formed by level; `x < n` is what `check_flip_bounds` enforces) -/
theorem var_exists_canon (A : Arr) (n x : Nat) (hA : WFo A n) (hx : x < n) :
    varExists A x =
      canon n (fun v => evW A n (upd v x true) (root A) || evW A n (upd v x false) (root A)) :=
  selfFlip_eq_canon A n x or_ (fun a b => a || b) hA hx or_consistent Bool.or_comm

/-- `var_for_all(x)` returns exactly the canonical array of `v ↦ A(v[x:=1]) ∧ A(v[x:=0])` -/
theorem var_for_all_canon (A : Arr) (n x : Nat) (hA : WFo A n) (hx : x < n) :
    varForAll A x =
      canon n (fun v => evW A n (upd v x true) (root A) && evW A n (upd v x false) (root A)) :=
  selfFlip_eq_canon A n x and_ (fun a b => a && b) hA hx and_consistent Bool.and_comm

/-- a valuation satisfies `var_exists(x)` iff some re-assignment of `x` satisfies the operand -/
theorem var_exists_spec (A : Arr) (n x : Nat) (hA : WFo A n) (hx : x < n) (v : Nat → Bool) :
    den (varExists A x) v = true ↔ ∃ b, evW A n (upd v x b) (root A) = true := by
  rw [var_exists_canon A n x hA hx,
    den_canon n _ (proj_dep A n x (fun a b => a || b) hA) v]
  constructor
  · intro h
    rcases Bool.or_eq_true _ _ |>.mp h with h | h
    · exact ⟨true, h⟩
    · exact ⟨false, h⟩
  · rintro ⟨b, h⟩
    cases b <;> simp [h]

/-- a valuation satisfies `var_for_all(x)` iff every re-assignment of `x` satisfies the operand -/
theorem var_for_all_spec (A : Arr) (n x : Nat) (hA : WFo A n) (hx : x < n) (v : Nat → Bool) :
    den (varForAll A x) v = true ↔ ∀ b, evW A n (upd v x b) (root A) = true := by
  rw [var_for_all_canon A n x hA hx,
    den_canon n _ (proj_dep A n x (fun a b => a && b) hA) v]
  constructor
  · intro h b
    have := Bool.and_eq_true _ _ |>.mp h
    cases b
    · exact this.2
    · exact this.1
  · intro h
    simp [h true, h false]

/-- the results of `var_exists(x)` / `var_for_all(x)` do not depend on `x` -/
theorem var_quant_indep (A : Arr) (n x : Nat) (hA : WFo A n) (hx : x < n) (v : Nat → Bool) (b : Bool) :
    den (varExists A x) (upd v x b) = den (varExists A x) v ∧
    den (varForAll A x) (upd v x b) = den (varForAll A x) v := by
  have hu : ∀ c, upd (upd v x b) x c = upd v x c := by
    intro c; funext j; by_cases h : j = x <;> simp [upd, h]
  rw [var_exists_canon A n x hA hx, var_for_all_canon A n x hA hx,
    den_canon n _ (proj_dep A n x (fun a b => a || b) hA),
    den_canon n _ (proj_dep A n x (fun a b => a || b) hA),
    den_canon n _ (proj_dep A n x (fun a b => a && b) hA),
    den_canon n _ (proj_dep A n x (fun a b => a && b) hA)]
  simp only [hu]
  exact ⟨trivial, trivial⟩

/-- non-vacuity: `∃ x0. (x0 ∧ x2)` over three variables is literally the array of `x2` -/
example : varExists exX0X2 0 = #[⟨3, 0, 0⟩, ⟨3, 1, 1⟩, ⟨2, 0, 1⟩] :=
  (var_exists_canon exX0X2 3 0 exX0X2_wf (by omega)).trans (by decide)

/-- ... and `∀ x0. (x0 ∧ x2)` is the one-node false array -/
example : varForAll exX0X2 0 = #[⟨3, 0, 0⟩] :=
  (var_for_all_canon exX0X2 3 0 exX0X2_wf (by omega)).trans (by decide)

/-! ## 2. `fix_bdd_alignment` (L5) -/

/-- re-alignment of a reduced post-order array (any amount of unreachable garbage) from pointer `r`
    is exactly the canonical array of the function denoted by `r` -/
theorem realign_canon (A : Arr) (n r : Nat) (hA : Red A n) (hn : numVars A = n) (hr : r < A.size) :
    realign A r = canon n (fun v => ev A v r) :=
  realign_sim hA hn r hr

/-- re-alignment from the last node leaves a canonical array unchanged, and conversely a reduced array
    that re-alignment leaves unchanged is canonical -/
theorem realign_fixpoint_iff_canonical (A : Arr) (n : Nat) (hA : Red A n) (hn : numVars A = n) :
    realign A (root A) = A ↔ A = canon n (den A) := by
  have h := realign_sim hA hn (root A) (by have := hA.size2; unfold root; omega)
  have hd : (fun v => ev A v (root A)) = den A := rfl
  rw [hd] at h
  rw [h]
  exact eq_comm

/-- garbage is dropped: the re-aligned array depends only on the function of the chosen root -/
theorem realign_unique (A A' : Arr) (n r r' : Nat) (hA : Red A n) (hA' : Red A' n)
    (hn : numVars A = n) (hn' : numVars A' = n) (hr : r < A.size) (hr' : r' < A'.size)
    (hsem : ∀ v, ev A v r = ev A' v r') : realign A r = realign A' r' := by
  rw [realign_sim hA hn r hr, realign_sim hA' hn' r' hr']
  exact canon_congr hsem

/-- a misaligned array in the spirit of the library's unit test `test_bdd_alignment_fix`: v1 ∧ ¬v2 ∧ v3
    with an unreachable extra node (index 4) before the real root -/
def exMisaligned : Arr := #[⟨3, 0, 0⟩, ⟨3, 1, 1⟩, ⟨2, 0, 1⟩, ⟨1, 2, 0⟩, ⟨0, 1, 0⟩, ⟨0, 0, 3⟩]

/-- executable `Red` check used for the example below -/
def redB (A : Arr) (n : Nat) : Bool :=
  decide (2 ≤ A.size) &&
  (List.range A.size).all (fun p => decide (p < 2) ||
    (match A[p]? with
     | none => true
     | some nd => decide (nd.var < n) && decide (nd.low < p) && decide (nd.high < p) &&
        decide (nd.low ≠ nd.high) && decide (nd.var < varOf A n nd.low) && decide (nd.var < varOf A n nd.high)) &&
    (List.range A.size).all (fun q => decide (q < 2) || decide (p = q) || (A[p]? != A[q]?)))

theorem redB_sound {A : Arr} {n : Nat} (h : redB A n = true) : Red A n := by
  unfold redB at h
  simp only [Bool.and_eq_true, Bool.or_eq_true, decide_eq_true_eq, List.all_eq_true, List.mem_range] at h
  obtain ⟨hs, hin⟩ := h
  have lt_of_some : ∀ p nd, A[p]? = some nd → p < A.size := by
    intro p nd hnd
    rcases Nat.lt_or_ge p A.size with h' | h'
    · exact h'
    · simp [Array.getElem?_eq_none h'] at hnd
  refine ⟨hs, ?_, ?_⟩
  · intro p nd hp hnd
    rcases hin p (lt_of_some p nd hnd) with h' | ⟨h', _⟩
    · omega
    · rw [hnd] at h'
      simp only [Bool.and_eq_true, decide_eq_true_eq] at h'
      obtain ⟨⟨⟨⟨⟨a, b⟩, c⟩, d⟩, e⟩, f⟩ := h'
      exact ⟨a, b, c, d, e, f⟩
  · intro p q nd hp hq hnp hnq
    rcases hin p (lt_of_some p nd hnp) with h' | ⟨_, h'⟩
    · omega
    · rcases h' q (lt_of_some q nd hnq) with h'' | h''
      · rcases h'' with h'' | h''
        · omega
        · exact h''
      · rw [hnp, hnq] at h''; simp at h''

/-- non-vacuity of `realign_canon` on an array with an unreachable node in a non-canonical order:
    the result is the canonical 5-node array of v1 ∧ ¬v2 ∧ v3 -/
example : realign exMisaligned 5 = #[⟨3, 0, 0⟩, ⟨3, 1, 1⟩, ⟨2, 0, 1⟩, ⟨1, 2, 0⟩, ⟨0, 0, 3⟩] :=
  (realign_canon exMisaligned 3 5 (redB_sound (by decide)) rfl (by decide)).trans (by decide)

/-! ## 3./4. `nested_apply`: semantics and canonical form (L6) -/

/-- the function of the first `n` variables that a pair of operands and a connective denote -/
def outerFn (L R : Arr) (n : Nat) (c : Bool → Bool → Bool) : (Nat → Bool) → Bool :=
  fun v => c (evW L n v (root L)) (evW R n v (root R))

theorem outerFn_dep (L R : Arr) (n : Nat) (c : Bool → Bool → Bool) (hL : WFo L n) (hR : WFo R n) :
    DepOn 0 n (outerFn L R n c) := by
  intro v w hvw
  unfold outerFn
  congr 1
  · exact evW_indep hL n _ (root_lt hL) (by omega) v w (fun i _ hin => hvw i (Nat.zero_le _) hin)
  · exact evW_indep hR n _ (root_lt hR) (by omega) v w (fun i _ hin => hvw i (Nat.zero_le _) hin)

theorem proj_dep' (trig : Nat → Bool) (d : Bool → Bool → Bool) (n : Nat) (f : (Nat → Bool) → Bool)
    (hf : DepOn 0 n f) (v w : Nat → Bool) (h : ∀ i, i < n → v i = w i) :
    Qn trig d n f v = Qn trig d n f w :=
  Qn_dep trig d 0 n f hf v w (fun i _ hin => h i hin)

/-- **`nested_canon`**: for operands well-formed by level, an outer table consistent with `c`, an inner
    table consistent with an idempotent connective `d` (`or`, `and`), `binary_op_nested` returns exactly
    the canonical array of the projection `Qn trig d n` (fold of `d` over both values of every triggered
    variable) of the outer connective of the operands -/
theorem nested_canon (L R : Arr) (n : Nat) (trig : Nat → Bool) (outer inner : Op2) (c d : Bool → Bool → Bool)
    (hL : WFo L n) (hR : WFo R n) (hc : Consistent outer c) (hd : Consistent inner d) (hid : ∀ a, d a a = a) :
    nestedApply L R trig outer inner = canon n (Qn trig d n (outerFn L R n c)) :=
  nestedApply_eq_canon L R n trig outer inner c d hL hR hc hd hid

/-- `nested_den`: the denotation of the result is the projection of the outer result -/
theorem nested_den (L R : Arr) (n : Nat) (trig : Nat → Bool) (outer inner : Op2) (c d : Bool → Bool → Bool)
    (hL : WFo L n) (hR : WFo R n) (hc : Consistent outer c) (hd : Consistent inner d) (hid : ∀ a, d a a = a)
    (v : Nat → Bool) :
    den (nestedApply L R trig outer inner) v = Qn trig d n (outerFn L R n c) v := by
  rw [nested_canon L R n trig outer inner c d hL hR hc hd hid]
  exact den_canon n _ (proj_dep' trig d n _ (outerFn_dep L R n c hL hR)) v

/-- the result does not depend on a triggered variable -/
theorem nested_indep (L R : Arr) (n : Nat) (trig : Nat → Bool) (outer inner : Op2) (c d : Bool → Bool → Bool)
    (hL : WFo L n) (hR : WFo R n) (hc : Consistent outer c) (hd : Consistent inner d) (hid : ∀ a, d a a = a)
    (x : Nat) (hx : trig x = true) (hxn : x < n) (v : Nat → Bool) (b : Bool) :
    den (nestedApply L R trig outer inner) (upd v x b) = den (nestedApply L R trig outer inner) v := by
  rw [nested_den L R n trig outer inner c d hL hR hc hd hid, nested_den L R n trig outer inner c d hL hR hc hd hid]
  exact Qn_indep trig d n x hx hxn _ v b

/-- two tables consistent with the same connectives (e.g. the library's `or` and a fully lazy `or`
    table) and two trigger predicates that agree below `n` give the identical array -/
theorem nested_tables_irrelevant (L R : Arr) (n : Nat) (trig : Nat → Bool)
    (outer outer' inner inner' : Op2) (c d : Bool → Bool → Bool)
    (hL : WFo L n) (hR : WFo R n) (hc : Consistent outer c) (hc' : Consistent outer' c)
    (hd : Consistent inner d) (hd' : Consistent inner' d) (hid : ∀ a, d a a = a) :
    nestedApply L R trig outer inner = nestedApply L R trig outer' inner' := by
  rw [nested_canon L R n trig outer inner c d hL hR hc hd hid,
    nested_canon L R n trig outer' inner' c d hL hR hc' hd' hid]

/-- nested application with an arbitrary trigger predicate and an inner table consistent with `or`
    projects existentially exactly the triggered variables: a valuation satisfies the result iff SOME
    re-assignment of the triggered variables (below `n`) satisfies the outer result -/
theorem nested_or_spec (L R : Arr) (n : Nat) (trig : Nat → Bool) (outer inner : Op2) (c : Bool → Bool → Bool)
    (hL : WFo L n) (hR : WFo R n) (hc : Consistent outer c) (hd : Consistent inner (fun a b => a || b))
    (v : Nat → Bool) :
    den (nestedApply L R trig outer inner) v = true ↔
      ∃ w : Nat → Bool, (∀ i, ¬ (i < n ∧ trig i = true) → w i = v i) ∧
        c (evW L n w (root L)) (evW R n w (root R)) = true := by
  rw [nested_den L R n trig outer inner c _ hL hR hc hd Bool.or_self, Qn_or_iff]
  rfl

/-- ... and with an inner table consistent with `and`, universally -/
theorem nested_and_spec (L R : Arr) (n : Nat) (trig : Nat → Bool) (outer inner : Op2) (c : Bool → Bool → Bool)
    (hL : WFo L n) (hR : WFo R n) (hc : Consistent outer c) (hd : Consistent inner (fun a b => a && b))
    (v : Nat → Bool) :
    den (nestedApply L R trig outer inner) v = true ↔
      ∀ w : Nat → Bool, (∀ i, ¬ (i < n ∧ trig i = true) → w i = v i) →
        c (evW L n w (root L)) (evW R n w (root R)) = true := by
  rw [nested_den L R n trig outer inner c _ hL hR hc hd Bool.and_self, Qn_and_iff]
  rfl

/-- the modelled panics: `nested_apply` panics exactly on a variable-count mismatch, `var_exists` /
    `var_for_all` exactly on a variable outside the Bdd (`check_flip_bounds`) -/
theorem panic_conditions (L R : Arr) (trig : Nat → Bool) (outer inner : Op2) (x : Nat) :
    (nestedApplyO L R trig outer inner = none ↔ numVars L ≠ numVars R) ∧
    (varExistsO L x = none ↔ numVars L ≤ x) ∧ (varForAllO L x = none ↔ numVars L ≤ x) := by
  unfold nestedApplyO varExistsO varForAllO
  refine ⟨?_, ?_, ?_⟩
  · by_cases h : numVars L = numVars R <;> simp [h]
  · by_cases h : x < numVars L
    · simp [h]
    · simp [h]; omega
  · by_cases h : x < numVars L
    · simp [h]
    · simp [h]; omega

/-- `binary_op_with_exists` -/
theorem binary_op_with_exists_canon (L R : Arr) (n : Nat) (op : Op2) (c : Bool → Bool → Bool) (vars : List Nat)
    (hL : WFo L n) (hR : WFo R n) (hc : Consistent op c) :
    binaryOpWithExists L R op vars =
      canon n (Qn (trigOfList vars) (fun a b => a || b) n (outerFn L R n c)) :=
  nested_canon L R n _ op or_ c _ hL hR hc or_consistent Bool.or_self

/-- `binary_op_with_for_all` -/
theorem binary_op_with_for_all_canon (L R : Arr) (n : Nat) (op : Op2) (c : Bool → Bool → Bool) (vars : List Nat)
    (hL : WFo L n) (hR : WFo R n) (hc : Consistent op c) :
    binaryOpWithForAll L R op vars =
      canon n (Qn (trigOfList vars) (fun a b => a && b) n (outerFn L R n c)) :=
  nested_canon L R n _ op and_ c _ hL hR hc and_consistent Bool.and_self

theorem trigOfList_iff (vars : List Nat) (i : Nat) : trigOfList vars i = true ↔ i ∈ vars := by
  simp [trigOfList]

/-- **`exists_spec`**: a valuation satisfies `binary_op_with_exists(L, R, op, vars)` iff SOME re-assignment
    of the listed variables satisfies the outer result -/
theorem binary_op_with_exists_spec (L R : Arr) (n : Nat) (op : Op2) (c : Bool → Bool → Bool) (vars : List Nat)
    (hL : WFo L n) (hR : WFo R n) (hc : Consistent op c) (v : Nat → Bool) :
    den (binaryOpWithExists L R op vars) v = true ↔
      ∃ w : Nat → Bool, (∀ i, ¬ (i < n ∧ i ∈ vars) → w i = v i) ∧
        c (evW L n w (root L)) (evW R n w (root R)) = true := by
  rw [binary_op_with_exists_canon L R n op c vars hL hR hc,
    den_canon n _ (proj_dep' _ _ n _ (outerFn_dep L R n c hL hR)) v, Qn_or_iff]
  simp only [trigOfList_iff]
  rfl

/-- **`for_all_spec`**: a valuation satisfies `binary_op_with_for_all(L, R, op, vars)` iff EVERY
    re-assignment of the listed variables satisfies the outer result -/
theorem binary_op_with_for_all_spec (L R : Arr) (n : Nat) (op : Op2) (c : Bool → Bool → Bool) (vars : List Nat)
    (hL : WFo L n) (hR : WFo R n) (hc : Consistent op c) (v : Nat → Bool) :
    den (binaryOpWithForAll L R op vars) v = true ↔
      ∀ w : Nat → Bool, (∀ i, ¬ (i < n ∧ i ∈ vars) → w i = v i) →
        c (evW L n w (root L)) (evW R n w (root R)) = true := by
  rw [binary_op_with_for_all_canon L R n op c vars hL hR hc,
    den_canon n _ (proj_dep' _ _ n _ (outerFn_dep L R n c hL hR)) v, Qn_and_iff]
  simp only [trigOfList_iff]
  rfl

/-- `Bdd::exists` (= `project`): existential projection of the operand itself -/
theorem exists_spec (A : Arr) (n : Nat) (vars : List Nat) (hA : WFo A n) (v : Nat → Bool) :
    den (bddExists A vars) v = true ↔
      ∃ w : Nat → Bool, (∀ i, ¬ (i < n ∧ i ∈ vars) → w i = v i) ∧ evW A n w (root A) = true := by
  unfold bddExists
  rw [binary_op_with_exists_spec A A n and_ (fun a b => a && b) vars hA hA and_consistent v]
  simp only [Bool.and_self]

/-- `Bdd::for_all`: universal projection of the operand itself -/
theorem for_all_spec (A : Arr) (n : Nat) (vars : List Nat) (hA : WFo A n) (v : Nat → Bool) :
    den (bddForAll A vars) v = true ↔
      ∀ w : Nat → Bool, (∀ i, ¬ (i < n ∧ i ∈ vars) → w i = v i) → evW A n w (root A) = true := by
  unfold bddForAll
  rw [binary_op_with_for_all_spec A A n and_ (fun a b => a && b) vars hA hA and_consistent v]
  simp only [Bool.and_self]

/-- `Bdd::exists` / `Bdd::for_all` return the canonical array of the projection of the operand -/
theorem exists_for_all_canon (A : Arr) (n : Nat) (vars : List Nat) (hA : WFo A n) :
    bddExists A vars = canon n (Qn (trigOfList vars) (fun a b => a || b) n (fun v => evW A n v (root A))) ∧
    bddForAll A vars = canon n (Qn (trigOfList vars) (fun a b => a && b) n (fun v => evW A n v (root A))) := by
  have e : outerFn A A n (fun a b => a && b) = fun v => evW A n v (root A) := by
    funext v; simp [outerFn]
  unfold bddExists bddForAll
  rw [binary_op_with_exists_canon A A n and_ (fun a b => a && b) vars hA hA and_consistent,
    binary_op_with_for_all_canon A A n and_ (fun a b => a && b) vars hA hA and_consistent, e]
  exact ⟨rfl, rfl⟩

/-- the quantified results do not depend on a listed variable -/
theorem quant_indep (L R : Arr) (n : Nat) (op : Op2) (c : Bool → Bool → Bool) (vars : List Nat)
    (hL : WFo L n) (hR : WFo R n) (hc : Consistent op c) (x : Nat) (hx : x ∈ vars) (hxn : x < n)
    (v : Nat → Bool) (b : Bool) :
    den (binaryOpWithExists L R op vars) (upd v x b) = den (binaryOpWithExists L R op vars) v ∧
    den (binaryOpWithForAll L R op vars) (upd v x b) = den (binaryOpWithForAll L R op vars) v :=
  ⟨nested_indep L R n _ op or_ c _ hL hR hc or_consistent Bool.or_self x ((trigOfList_iff vars x).2 hx) hxn v b,
   nested_indep L R n _ op and_ c _ hL hR hc and_consistent Bool.and_self x ((trigOfList_iff vars x).2 hx) hxn v b⟩

/-- order and repetition of the variable list are irrelevant: two lists with the same elements give the
    identical array (no hypothesis on the operands is needed: the list is only used through membership) -/
theorem quant_list_invariant (L R : Arr) (op : Op2) (vs1 vs2 : List Nat) (h : ∀ x, x ∈ vs1 ↔ x ∈ vs2) :
    binaryOpWithExists L R op vs1 = binaryOpWithExists L R op vs2 ∧
    binaryOpWithForAll L R op vs1 = binaryOpWithForAll L R op vs2 ∧
    bddExists L vs1 = bddExists L vs2 ∧ bddForAll L vs1 = bddForAll L vs2 := by
  have : trigOfList vs1 = trigOfList vs2 := by
    funext x
    rw [Bool.eq_iff_iff, trigOfList_iff, trigOfList_iff]; exact h x
  unfold bddExists bddForAll binaryOpWithExists binaryOpWithForAll
  rw [this]
  exact ⟨rfl, rfl, rfl, rfl⟩

/-- two routes to the same function: `exists([x])` and `var_exists(x)` return the identical array, and so do
    `for_all([x])` and `var_for_all(x)` -/
theorem exists_singleton_eq_var_exists (A : Arr) (n x : Nat) (hA : WFo A n) (hx : x < n) :
    bddExists A [x] = varExists A x ∧ bddForAll A [x] = varForAll A x := by
  have ht : ∀ i, trigOfList [x] i = true ↔ i = x := by
    intro i; rw [trigOfList_iff]; simp
  have hf := outerFn_dep A A n (fun a b => a && b) hA hA
  constructor
  · unfold bddExists
    rw [binary_op_with_exists_canon A A n and_ (fun a b => a && b) [x] hA hA and_consistent,
      var_exists_canon A n x hA hx]
    apply canon_congr
    intro v
    rw [Qn_single _ n x hx _ ht _ hf v]
    simp only [outerFn, Bool.and_self]
    exact Bool.or_comm _ _
  · unfold bddForAll
    rw [binary_op_with_for_all_canon A A n and_ (fun a b => a && b) [x] hA hA and_consistent,
      var_for_all_canon A n x hA hx]
    apply canon_congr
    intro v
    rw [Qn_single _ n x hx _ ht _ hf v]
    simp only [outerFn, Bool.and_self]
    exact Bool.and_comm _ _

/-! ## 5. every result is in the library-wide canonical form

`Canonical A` is `A = canon (numVars A) (den A)`; `Drive.isCanon` (the executable test the driver runs on
the implementation's outputs) decides it (`isCanon_iff`, `Lemmas/CanonicalComplete.lean`). -/

/-- results of `binary_op_nested` (hence of `binary_op_with_exists/for_all`, `exists`, `for_all`,
    `project`), of `var_exists`/`var_for_all` and of `fix_bdd_alignment` on a reduced array are canonical,
    and the executable canonicity test accepts them -/
theorem results_canonical (L R : Arr) (n : Nat) (trig : Nat → Bool) (outer inner : Op2) (c d : Bool → Bool → Bool)
    (hL : WFo L n) (hR : WFo R n) (hc : Consistent outer c) (hd : Consistent inner d) (hid : ∀ a, d a a = a)
    (x : Nat) (hx : x < n) (A : Arr) (r : Nat) (hA : Red A n) (hn : numVars A = n) (hr : r < A.size) :
    Canonical (nestedApply L R trig outer inner) ∧ Drive.isCanon (nestedApply L R trig outer inner) = true ∧
    Canonical (varExists L x) ∧ Canonical (varForAll L x) ∧ Canonical (realign A r) := by
  have h1 : Canonical (nestedApply L R trig outer inner) := by
    rw [nested_canon L R n trig outer inner c d hL hR hc hd hid]; exact canon_canonical' n _
  refine ⟨h1, (isCanon_iff _).2 h1, ?_, ?_, ?_⟩
  · rw [var_exists_canon L n x hL hx]; exact canon_canonical' n _
  · rw [var_for_all_canon L n x hL hx]; exact canon_canonical' n _
  · rw [realign_sim hA hn r hr]; exact canon_canonical' n _

/-! ### non-vacuity -/

/-- all hypotheses of `nested_canon` are satisfiable on non-trivial operands (level-skipping left operand,
    lazy outer table, the regenerated `or` as inner table, trigger on variable 1); the theorem pins the
    model's concrete output: `∃ x1. (x0 ∧ x2) ∧ x1` = `x0 ∧ x2` -/
example : nestedApply exX0X2 exX1 (fun x => x == 1) andLazy or_ =
    #[⟨3, 0, 0⟩, ⟨3, 1, 1⟩, ⟨2, 0, 1⟩, ⟨0, 0, 2⟩] :=
  (nested_canon exX0X2 exX1 3 _ andLazy or_ (fun a b => a && b) (fun a b => a || b)
    exX0X2_wf exX1_wf andLazy_consistent or_consistent Bool.or_self).trans (by decide)

/-- `∀ x1. (x0 ∧ x2) ∧ x1` is the one-node false array -/
example : binaryOpWithForAll exX0X2 exX1 andLazy [1, 1] = #[⟨3, 0, 0⟩] :=
  (binary_op_with_for_all_canon exX0X2 exX1 3 andLazy (fun a b => a && b) [1, 1]
    exX0X2_wf exX1_wf andLazy_consistent).trans (by decide)

/-- `exists` over all variables of a satisfiable function is the two-node true array -/
example : bddExists exX0X2 [2, 0, 1, 0] = #[⟨3, 0, 0⟩, ⟨3, 1, 1⟩] :=
  (binary_op_with_exists_canon exX0X2 exX0X2 3 and_ (fun a b => a && b) [2, 0, 1, 0]
    exX0X2_wf exX0X2_wf and_consistent).trans (by decide)

example : ∃ w : Nat → Bool, (∀ i, ¬ (i < 3 ∧ i ∈ [0]) → w i = (fun j => j == 2) i) ∧
    evW exX0X2 3 w (root exX0X2) = true :=
  ⟨fun j => j == 2 || j == 0, by intro i hi; by_cases h : i = 0 <;> simp_all, by decide⟩

end B.Props.C03
