/-! # C03 — property theorems (to be written) -/
namespace B.Props.C03
end B.Props.C03
