import BddVerif.Props.C09
import BddVerif.Lemmas.F64Card
/-!
# C09 — the floating-point clause: `cardinality()` equals the exact count up to rounding

Theorems about the executable binary64 model of `Bdd::cardinality` (`Model/F64.lean`: `cardF64O`,
`cardF64`, `cardF64Bits`; the model is compared bit for bit with `cardinality().to_bits()` of the real
library by the driver).

Numbers: a finite binary64 value is `F64.fin s`, value `s / 2^1074`; `c = exactCard A` is the exact count
(`exact_card_spec`: the number of satisfying assignments of the `n` variables); `P = 2^53`;
`d` is any number that is at least `pathDepth A`, the number of decision nodes on the longest path from
the root to a terminal (one rounding per decision node, the scalings by powers of two being exact);
`pathDepth A ≤ n − (variable of the root node) ≤ n` (`pathDepth_le`), so `d = n` always works. Every
inequality is between naturals, cross-multiplied:
`|v − c| ≤ c·((1+2^-53)^d − 1)` is written `|v − c|·P^d ≤ c·((P+1)^d − P^d)`.

**Finding (reported, not hidden).** The final product `cache[root] * 2.0.powi(root variable)` is not
guarded against a zero entry. A *valid but non-canonical* diagram that is unsatisfiable and has at least
three nodes (e.g. `|1025,0,0|1025,1,1|1024,0,0|`: one decision node on variable 1024 with both links
to the `0` terminal) whose root variable is at least 1024 therefore makes `cardinality()` return `+inf`
(`0.0 * inf = NaN ↦ INFINITY`) although the exact count is `0` (`cardinality_f64_unsat_noncanonical_inf`).
For canonical diagrams the case cannot occur (`cardinality_f64_zero_iff_canonical`).
-/
set_option exponentiation.threshold 2200
namespace B.Props.C09
open B B.Count B.F64

/-! ## (a) the rounding lemmas of the arithmetic model -/

/-- rounding to 53 significant bits (nearest, ties to even) has relative error at most `2^-53`, for every
    exact scaled value `s` (subnormal range included: there the rounding is exact) -/
theorem f64_round_rel (s : Nat) :
    2 ^ 53 * (round53 s - s) ≤ s ∧ 2 ^ 53 * (s - round53 s) ≤ s ∧
    (round53 s) % 2 ^ ((round53 s).log2 - 52) = 0 := ⟨(round53_rel s).1, (round53_rel s).2, round53_sig s⟩

/-- `add` of two finite values with exact sum `t = a + b`: below the threshold `2^1024·(1 − 2^-54)` the
    result is a binary64 value `r` with `2^53·|r − t| ≤ t`; from the threshold on it is `+inf` -/
theorem f64_add_rounding (a b : Nat) :
    (a + b < (2 ^ 1024 - 2 ^ 970) * 2 ^ 1074 → ∃ r, F64.add (.fin a) (.fin b) = .fin r ∧ Rep r ∧
        2 ^ 53 * (r - (a + b)) ≤ a + b ∧ 2 ^ 53 * ((a + b) - r) ≤ a + b) ∧
    ((2 ^ 1024 - 2 ^ 970) * 2 ^ 1074 ≤ a + b → F64.add (.fin a) (.fin b) = .inf) := by
  have := add_fin a b
  rw [Thr_eq_U] at this
  exact this

/-- `mulPow2 x k` (`x * 2.0.powi(k)`) is exact (no rounding at all) while the power and the product stay
    below `2^1024`; it is `+inf` when `x ≠ 0` and the power or the product reaches `2^1024`; it is NaN
    exactly for `x = 0`, `k ≥ 1024` -/
theorem f64_mulPow2_exact (s k : Nat) :
    (k < 1024 → s * 2 ^ k < 2 ^ 1024 * 2 ^ 1074 → mulPow2 (.fin s) k = .fin (s * 2 ^ k)) ∧
    (k < 1024 → 2 ^ 1024 * 2 ^ 1074 ≤ s * 2 ^ k → mulPow2 (.fin s) k = .inf) ∧
    (1024 ≤ k → s ≠ 0 → mulPow2 (.fin s) k = .inf) ∧
    (1024 ≤ k → mulPow2 (.fin 0) k = .nan) := by
  have := mulPow2_fin s k
  rw [Top_eq_U] at this
  exact this

/-- the model's values are exactly the bit patterns: decoding the pattern of a binary64 value returns it,
    patterns have sign bit 0, distinct values have distinct patterns -/
theorem f64_bits_roundtrip (x : F64) (hx : Valid x) :
    ofBits (toBits x) = x ∧ toBits x < 2 ^ 63 ∧ ∀ y, Valid y → toBits x = toBits y → x = y :=
  ⟨ofBits_toBits x hx, toBits_lt x hx, fun y hy h => toBits_inj x y hx hy h⟩

/-! ## (b) the main theorems -/

/-- the exact count the float is compared with is the number of satisfying assignments -/
theorem exactCard_is_count {A : Arr} {n : Nat} (h : WFo A n) :
    exactCardO A = .ok (exactCard A) ∧ exactCard A = cnt n (fun v => evW A n v (root A)) := by
  have e := exact_card_spec h
  exact ⟨by rw [exactCard_wfo h]; exact e, exactCard_wfo h⟩

/-- number of decision nodes on the longest path from the root to a terminal -/
def pathDepth (A : Arr) : Nat := depthF A (numVars A + 1) (root A)

/-- at most one decision node per level -/
theorem pathDepth_le {A : Arr} {n : Nat} (h : WFo A n) :
    pathDepth A ≤ n - varAt A (root A) ∧ pathDepth A ≤ n := by
  have hr := root_lt_size (wfo_size_pos h)
  have := depthF_le h (n + 1) (root A) hr
  rw [← varAt_eq_varOf h _ hr] at this
  unfold pathDepth
  rw [numVars_of_wf h]
  omega

/-- the shape of the result: the invariant at the root, or the `0 · inf` case -/
theorem cardF64_shape {A : Arr} {n : Nat} (h : WFo A n) :
    (A.size = 1 ∧ cardF64O A = .ok F64.zero ∧ exactCard A = 0) ∨
    (2 ≤ A.size ∧ exactCard A = 0 ∧ 3 ≤ A.size ∧ 1024 ≤ varAt A (root A) ∧ cardF64O A = .ok F64.inf) ∨
    (2 ≤ A.size ∧ ∃ x, cardF64O A = .ok x ∧ Good (pathDepth A) (exactCard A) x) := by
  have hs := wfo_size_pos h
  by_cases h1 : A.size = 1
  · left; exact ⟨h1, cardF64O_size_one h1, exactCard_size_one h1⟩
  · right
    have h2 : 2 ≤ A.size := by omega
    have hr := root_lt_size hs
    have hle := varOf_le_wfo h (root A)
    have hg := cardFF_good_depth h (n + 1) (root A) hr (by omega)
    have hpd : depthF A (n + 1) (root A) = pathDepth A := by unfold pathDepth; rw [numVars_of_wf h]
    rw [hpd] at hg
    rw [cardF64O_eq h h2, exactCard_eq_cardF h h2]
    rcases good_final hg (varAt A (root A)) with ⟨hx, hv, hc, hn⟩ | ⟨_, hgood⟩
    · left
      refine ⟨h2, by rw [hc, Nat.zero_mul], ?_, hv, ?_⟩
      · -- the root is a decision node: a terminal root has the entry 1.0
        rcases Nat.lt_or_ge A.size 3 with h3 | h3
        · exfalso
          have hroot : root A = 1 := by unfold root; omega
          rw [hroot, cardFF_one] at hx
          have : U = 0 := by injection hx
          exact absurd this (Nat.ne_of_gt U_pos)
        · exact h3
      · simp only [hn]; rfl
    · right
      refine ⟨h2, _, rfl, ?_⟩
      simp only
      have hne := hgood.ne_nan
      generalize mulPow2 (cardFF A (n + 1) (root A)) (varAt A (root A)) = r at *
      cases r with
      | nan => exact absurd rfl hne
      | inf => exact hgood
      | fin s => exact hgood

/-- **totality**: on a level-well-formed diagram `cardinality()` never panics, never returns NaN, and
    returns a genuine binary64 value (at most 53 significant bits, below `2^1024`, or `+inf`) whose bit
    pattern `cardF64Bits A` decodes back to it -/
theorem cardinality_f64_total {A : Arr} {n : Nat} (h : WFo A n) :
    ∃ x, cardF64O A = .ok x ∧ cardF64 A = x ∧ x ≠ .nan ∧ Valid x ∧
      ofBits (cardF64Bits A) = x ∧ cardF64Bits A < 2 ^ 63 := by
  have key : ∀ x, cardF64O A = .ok x → x ≠ .nan → Valid x →
      ∃ x, cardF64O A = .ok x ∧ cardF64 A = x ∧ x ≠ .nan ∧ Valid x ∧
        ofBits (cardF64Bits A) = x ∧ cardF64Bits A < 2 ^ 63 := by
    intro x hx hn hv
    have e : cardF64 A = x := by unfold cardF64; rw [hx]
    refine ⟨x, hx, e, hn, hv, ?_, ?_⟩
    · unfold cardF64Bits; rw [e]; exact ofBits_toBits x hv
    · unfold cardF64Bits; rw [e]; exact toBits_lt x hv
  rcases cardF64_shape h with ⟨_, e, _⟩ | ⟨_, _, _, _, e⟩ | ⟨_, x, e, hg⟩
  · exact key _ e (by simp [F64.zero]) rep_zero
  · exact key _ e (by simp) trivial
  · exact key _ e hg.ne_nan hg.valid

/-- **finite results**: if `cardinality()` returns the finite value `s·2^-1074` then that value is an
    integer `v` (never subnormal, never fractional) with
    `c·(1−2^-53)^d ≤ v ≤ c·(1+2^-53)^d` and hence `|v − c| ≤ c·((1+2^-53)^d − 1)`,
    for every `d ≥ pathDepth A` -/
theorem cardinality_f64_fin {A : Arr} {n : Nat} (h : WFo A n) (d : Nat) (hd : pathDepth A ≤ d)
    (s : Nat) (hs : cardF64 A = .fin s) :
    ∃ v, s = v * 2 ^ 1074 ∧
      exactCard A * (2 ^ 53 - 1) ^ d ≤ v * (2 ^ 53) ^ d ∧
      v * (2 ^ 53) ^ d ≤ exactCard A * (2 ^ 53 + 1) ^ d ∧
      (v - exactCard A) * (2 ^ 53) ^ d ≤ exactCard A * ((2 ^ 53 + 1) ^ d - (2 ^ 53) ^ d) ∧
      (exactCard A - v) * (2 ^ 53) ^ d ≤ exactCard A * ((2 ^ 53 + 1) ^ d - (2 ^ 53) ^ d) := by
  have fromNear : ∀ d c v, Near d (c * U) (v * U) → Near d c v := by
    intro d c v hn
    obtain ⟨h1, h2⟩ := hn
    rw [Nat.mul_right_comm c U, Nat.mul_right_comm v U] at h1 h2
    exact ⟨Nat.le_of_mul_le_mul_right h1 U_pos, Nat.le_of_mul_le_mul_right h2 U_pos⟩
  rcases cardF64_shape h with ⟨_, e, hc⟩ | ⟨_, _, _, _, e⟩ | ⟨_, x, e, hg⟩
  · have : cardF64 A = F64.zero := by unfold cardF64; rw [e]
    rw [this] at hs
    have : s = 0 := by injection hs with hs; exact hs.symm
    subst this
    exact ⟨0, by simp, by rw [hc]; simp, by rw [hc]; simp, by rw [hc]; simp, by rw [hc]; simp⟩
  · have : cardF64 A = F64.inf := by unfold cardF64; rw [e]
    rw [this] at hs; cases hs
  · have : cardF64 A = x := by unfold cardF64; rw [e]
    rw [this] at hs; subst hs
    have hg' := hg.mono hd
    obtain ⟨v, hv⟩ := hg'.int
    subst hv
    have hn := fromNear _ _ _ hg'.2.2
    exact ⟨v, rfl, hn.1, hn.2, hn.abs.1, hn.abs.2⟩

/-- **infinite results**: `cardinality()` returns `+inf` only when the count, inflated by the accumulated
    rounding factor, reaches the overflow threshold `2^1024·(1 − 2^-54) = 2^1024 − 2^970` — i.e. when the
    count is (up to rounding) not representable — or in the unguarded `0 · inf` case of an unsatisfiable
    non-canonical diagram with at least three nodes whose root variable is at least 1024 -/
theorem cardinality_f64_inf {A : Arr} {n : Nat} (h : WFo A n) (d : Nat) (hd : pathDepth A ≤ d)
    (hi : cardF64 A = .inf) :
    (exactCard A = 0 ∧ 3 ≤ A.size ∧ 1024 ≤ varAt A (root A)) ∨
    (2 ^ 1024 - 2 ^ 970) * (2 ^ 53) ^ d ≤ exactCard A * (2 ^ 53 + 1) ^ d := by
  rcases cardF64_shape h with ⟨_, e, hc⟩ | ⟨_, hc, h3, hv, _⟩ | ⟨_, x, e, hg⟩
  · have : cardF64 A = F64.zero := by unfold cardF64; rw [e]
    rw [this] at hi; cases hi
  · left; exact ⟨hc, h3, hv⟩
  · right
    have : cardF64 A = x := by unfold cardF64; rw [e]
    rw [this] at hi; subst hi
    have hb : Thr * P ^ d ≤ exactCard A * U * (P + 1) ^ d := hg.mono hd
    rw [Thr_eq_U, Nat.mul_right_comm _ U, Nat.mul_right_comm _ U] at hb
    exact Nat.le_of_mul_le_mul_right hb U_pos

/-- **the floating-point clause of C09**, all cases at once, with `c = exactCard A` and any
    `d ≥ pathDepth A` (one rounding per decision node on a path): the result is
    * finite: an integer `v` with `|v − c|·P^d ≤ c·((P+1)^d − P^d)`, i.e. `|v − c| ≤ c·((1+2^-53)^d − 1)`;
    * `+inf`: `c·(P+1)^d ≥ (2^1024 − 2^970)·P^d` (the count is not representable up to rounding), or the
      defect case `c = 0`, at least three nodes, root variable `≥ 1024`;
    * never NaN. -/
theorem cardinality_f64_spec {A : Arr} {n : Nat} (h : WFo A n) (d : Nat) (hd : pathDepth A ≤ d) :
    match cardF64 A with
    | .fin s => ∃ v, s = v * 2 ^ 1074 ∧
        (v - exactCard A) * (2 ^ 53) ^ d ≤ exactCard A * ((2 ^ 53 + 1) ^ d - (2 ^ 53) ^ d) ∧
        (exactCard A - v) * (2 ^ 53) ^ d ≤ exactCard A * ((2 ^ 53 + 1) ^ d - (2 ^ 53) ^ d)
    | .inf => (exactCard A = 0 ∧ 3 ≤ A.size ∧ 1024 ≤ varAt A (root A)) ∨
        (2 ^ 1024 - 2 ^ 970) * (2 ^ 53) ^ d ≤ exactCard A * (2 ^ 53 + 1) ^ d
    | .nan => False := by
  rcases hx : cardF64 A with s | _ | _
  · obtain ⟨v, hv, _, _, h1, h2⟩ := cardinality_f64_fin h d hd s hx
    exact ⟨v, hv, h1, h2⟩
  · exact cardinality_f64_inf h d hd hx
  · obtain ⟨x, _, e, hn, _⟩ := cardinality_f64_total h
    rw [hx] at e; exact hn e.symm

/-- the same with the uniform exponent `d = n` (number of variables), and with the sharper lower bound
    `c·(1−2^-53)^n ≤ v` -/
theorem cardinality_f64_spec_n {A : Arr} {n : Nat} (h : WFo A n) :
    match cardF64 A with
    | .fin s => ∃ v, s = v * 2 ^ 1074 ∧
        exactCard A * (2 ^ 53 - 1) ^ n ≤ v * (2 ^ 53) ^ n ∧ v * (2 ^ 53) ^ n ≤ exactCard A * (2 ^ 53 + 1) ^ n ∧
        (v - exactCard A) * (2 ^ 53) ^ n ≤ exactCard A * ((2 ^ 53 + 1) ^ n - (2 ^ 53) ^ n) ∧
        (exactCard A - v) * (2 ^ 53) ^ n ≤ exactCard A * ((2 ^ 53 + 1) ^ n - (2 ^ 53) ^ n)
    | .inf => (exactCard A = 0 ∧ 3 ≤ A.size ∧ 1024 ≤ varAt A (root A)) ∨
        (2 ^ 1024 - 2 ^ 970) * (2 ^ 53) ^ n ≤ exactCard A * (2 ^ 53 + 1) ^ n
    | .nan => False := by
  have hd := (pathDepth_le h).2
  rcases hx : cardF64 A with s | _ | _
  · exact cardinality_f64_fin h n hd s hx
  · exact cardinality_f64_inf h n hd hx
  · obtain ⟨x, _, e, hn, _⟩ := cardinality_f64_total h
    rw [hx] at e; exact hn e.symm

/-- **completeness of the overflow**: a count that exceeds `2^1024` even after deflation by the rounding
    factor does make `cardinality()` return `+inf` -/
theorem cardinality_f64_overflow {A : Arr} {n : Nat} (h : WFo A n) (d : Nat) (hd : pathDepth A ≤ d)
    (hbig : 2 ^ 1024 * (2 ^ 53) ^ d ≤ exactCard A * (2 ^ 53 - 1) ^ d) :
    cardF64 A = .inf := by
  obtain ⟨x, _, e, hn, hv, _⟩ := cardinality_f64_total h
  rcases hx : cardF64 A with s | _ | _
  · exfalso
    obtain ⟨v, hsv, h1, _⟩ := cardinality_f64_fin h d hd s hx
    rw [hx] at e; subst e
    have hT : s < Top := hv.1
    rw [hsv, Top_eq_U] at hT
    have hv' : v < 2 ^ 1024 := (Nat.mul_lt_mul_right U_pos).1 hT
    have : v * (2 ^ 53) ^ d < 2 ^ 1024 * (2 ^ 53) ^ d :=
      (Nat.mul_lt_mul_right (Nat.pow_pos (by decide))).2 hv'
    omega
  · rfl
  · rw [hx] at e; exact absurd e.symm hn

/-! ## zero -/

/-- `cardinality() == 0.0` only for unsatisfiable diagrams -/
theorem cardinality_f64_zero_sound {A : Arr} {n : Nat} (h : WFo A n) (hz : cardF64 A = F64.zero) :
    exactCard A = 0 := by
  obtain ⟨v, hv, h1, _⟩ := cardinality_f64_fin h _ (Nat.le_refl _) 0 hz
  have hv0 : v = 0 := by
    rcases Nat.mul_eq_zero.1 hv.symm with h' | h'
    · exact h'
    · exact absurd h' (Nat.ne_of_gt (Nat.two_pow_pos _))
  rw [hv0, Nat.zero_mul] at h1
  rcases Nat.mul_eq_zero.1 (Nat.le_zero.1 h1) with h' | h'
  · exact h'
  · exact absurd h' (Nat.ne_of_gt (Nat.pow_pos (by decide)))

/-- an unsatisfiable diagram has `cardinality() == 0.0` when it is the one-node constant or its root
    variable is below 1024 -/
theorem cardinality_f64_zero_complete {A : Arr} {n : Nat} (h : WFo A n) (hc : exactCard A = 0)
    (hv : A.size = 1 ∨ varAt A (root A) < 1024) : cardF64 A = F64.zero := by
  rcases cardF64_shape h with ⟨_, e, _⟩ | ⟨h2, _, _, hv', _⟩ | ⟨_, x, e, hg⟩
  · unfold cardF64; rw [e]
  · omega
  · have ex : cardF64 A = x := by unfold cardF64; rw [e]
    rw [ex]
    rw [hc] at hg
    cases x with
    | nan => exact hg.elim
    | fin s =>
      have := (hg.2.2.eq_zero_iff).2 (Nat.zero_mul _)
      rw [this]; rfl
    | inf =>
      exfalso
      have hb : Thr * P ^ (pathDepth A) ≤ 0 * U * (P + 1) ^ (pathDepth A) := hg
      rw [Nat.zero_mul, Nat.zero_mul] at hb
      rcases Nat.mul_eq_zero.1 (Nat.le_zero.1 hb) with h' | h'
      · have : 0 < Thr := by decide
        omega
      · exact absurd h' (Nat.ne_of_gt (Nat.pow_pos P_pos))

/-- **the defect**: an unsatisfiable level-well-formed diagram with at least three nodes (necessarily
    non-canonical) whose root variable is at least 1024 makes `cardinality()` return `+inf`
    (`0.0 * 2.0.powi(v) = 0.0 * inf = NaN ↦ INFINITY` in the last line of the function) -/
theorem cardinality_f64_unsat_noncanonical_inf {A : Arr} {n : Nat} (h : WFo A n) (hc : exactCard A = 0)
    (h3 : 3 ≤ A.size) (hv : 1024 ≤ varAt A (root A)) : cardF64 A = .inf := by
  rcases cardF64_shape h with ⟨h1, _, _⟩ | ⟨_, _, _, _, e⟩ | ⟨_, x, e, hg⟩
  · omega
  · unfold cardF64; rw [e]
  · -- the invariant would give 0; but the final product of a zero entry with `inf` is not `scale`: redo it
    have hs := wfo_size_pos h
    have h2 : 2 ≤ A.size := by omega
    have hr := root_lt_size hs
    have hle := varOf_le_wfo h (root A)
    have hvar := varAt_eq_varOf h _ hr
    have hg' := cardFF_good h (n + 1) (root A) hr (by omega)
    rw [exactCard_eq_cardF h h2] at hc
    have hc0 : cardF A true (n + 1) (root A) = 0 := by
      rcases Nat.mul_eq_zero.1 hc with h' | h'
      · exact h'
      · exact absurd h' (Nat.ne_of_gt (Nat.two_pow_pos _))
    rw [hc0] at hg'
    have hx0 : cardFF A (n + 1) (root A) = .fin 0 := by
      generalize cardFF A (n + 1) (root A) = y at *
      cases y with
      | nan => exact hg'.elim
      | fin s => rw [(hg'.2.2.eq_zero_iff).2 (Nat.zero_mul _)]
      | inf =>
        exfalso
        have hb : Thr * P ^ (n - varOf A n (root A)) ≤ 0 * U * (P + 1) ^ (n - varOf A n (root A)) := hg'
        rw [Nat.zero_mul, Nat.zero_mul] at hb
        rcases Nat.mul_eq_zero.1 (Nat.le_zero.1 hb) with h' | h'
        · have : 0 < Thr := by decide
          omega
        · exact absurd h' (Nat.ne_of_gt (Nat.pow_pos P_pos))
    unfold cardF64
    rw [cardF64O_eq h h2, hx0, (mulPow2_fin 0 _).2.2.2 hv]
    rfl

/-- on canonical diagrams `cardinality() == 0.0` exactly for the unsatisfiable ones -/
theorem cardinality_f64_zero_iff_canonical {A : Arr} (h : Canonical A) :
    cardF64 A = F64.zero ↔ exactCard A = 0 := by
  have hw := B.C02.Canonical.wfo h
  constructor
  · exact cardinality_f64_zero_sound hw
  · intro hc
    apply cardinality_f64_zero_complete hw hc
    left
    rw [h.size_one_iff]
    -- count 0 ⇒ no satisfying valuation
    rw [(exact_card_canonical h).2, B.Count.cnt_eq_filter_length] at hc
    intro v
    obtain ⟨u, hu, hue⟩ := B.Count.allVals_complete (numVars A) v
    have hfu : den A u = den A v := h.depBelow u v hue
    rcases hd : den A v with _ | _
    · rfl
    · exfalso
      rw [hd] at hfu
      have : u ∈ (B.Count.allVals (numVars A)).filter (den A) := List.mem_filter.2 ⟨hu, hfu⟩
      have hl := List.length_pos_of_mem this
      omega

/-! ## (c) small counts are exact -/

/-- `ofNat c` is the binary64 value of the integer `c < 2^53` -/
theorem f64_ofNat_small (c : Nat) (hc : c < 2 ^ 53) : F64.ofNat c = .fin (c * 2 ^ 1074) ∧ Rep (c * 2 ^ 1074) := by
  have hr : round53 (c * 2 ^ 1074) = c * 2 ^ 1074 := round53_int c 1074 hc
  have hT : c * 2 ^ 1074 < Top := by
    rw [Top_eq_U]; exact (Nat.mul_lt_mul_right U_pos).2 (Nat.lt_trans hc (by decide))
  refine ⟨?_, hT, mod_of_mul_pow c 1074 hc⟩
  show ofExact (c * U) = _
  unfold ofExact
  simp only
  show (if round53 (c * 2 ^ 1074) < Top then F64.fin (round53 (c * 2 ^ 1074)) else F64.inf) = _
  rw [hr, if_pos hT]

/-- **exactness below `2^53`**: a non-zero count below `2^53` is returned exactly (no rounding happens
    anywhere in the traversal); so is the count `0` outside the defect case -/
theorem cardinality_f64_exact_small {A : Arr} {n : Nat} (h : WFo A n) (hc : exactCard A < 2 ^ 53)
    (hv : exactCard A ≠ 0 ∨ A.size ≤ 2 ∨ varAt A (root A) < 1024) :
    cardF64 A = F64.ofNat (exactCard A) ∧ cardF64 A = .fin (exactCard A * 2 ^ 1074) := by
  rw [(f64_ofNat_small _ hc).1]
  refine ⟨?_, ?_⟩ <;>
  · have hs := wfo_size_pos h
    by_cases h1 : A.size = 1
    · rw [exactCard_size_one h1, Nat.zero_mul]
      unfold cardF64; rw [cardF64O_size_one h1]; rfl
    · have h2 : 2 ≤ A.size := by omega
      have hr := root_lt_size hs
      have hle := varOf_le_wfo h (root A)
      rw [exactCard_eq_cardF h h2] at hc hv ⊢
      have hcr : cardF A true (n + 1) (root A) < 2 ^ 53 :=
        Nat.lt_of_le_of_lt (Nat.le_mul_of_pos_right _ (Nat.two_pow_pos _)) hc
      have hx := cardFF_exact h (n + 1) (root A) hr (by omega) hcr
      unfold cardF64
      rw [cardF64O_eq h h2, hx]
      generalize cardF A true (n + 1) (root A) = cr at *
      generalize varAt A (root A) = v at *
      -- v < 1024 in every admitted case
      have hv' : v < 1024 := by
        by_cases hc0 : cr = 0
        · subst hc0
          rcases hv with hv | hv | hv
          · rw [Nat.zero_mul] at hv; exact absurd rfl hv
          · exfalso
            -- two nodes: the root is the terminal 1 with entry 1
            have hroot : root A = 1 := by unfold root; omega
            rw [hroot, cardFF_one] at hx
            have : U = 0 * U := by injection hx
            rw [Nat.zero_mul] at this
            exact absurd this (Nat.ne_of_gt U_pos)
          · exact hv
        · rcases Nat.lt_or_ge v 53 with hlt | hge
          · omega
          · exfalso
            have : (2 : Nat) ^ 53 ≤ 2 ^ v := Nat.pow_le_pow_right (by decide) hge
            have : 1 * 2 ^ v ≤ cr * 2 ^ v := Nat.mul_le_mul_right _ (by omega)
            omega
      have hlt : cr * U * 2 ^ v < Top := by
        rw [Nat.mul_right_comm, Top_eq_U]
        exact (Nat.mul_lt_mul_right U_pos).2 (Nat.lt_trans hc (by decide))
      simp only
      rw [(mulPow2_fin _ _).1 hv' hlt, Nat.mul_right_comm]
      rfl

/-- every diagram over at most 52 variables gets its exact count -/
theorem cardinality_f64_exact_le52 {A : Arr} {n : Nat} (h : WFo A n) (hn : n ≤ 52) :
    cardF64 A = F64.ofNat (exactCard A) ∧ cardF64 A = .fin (exactCard A * 2 ^ 1074) := by
  have hle := exact_card_le h
  have : (2 : Nat) ^ n ≤ 2 ^ 52 := Nat.pow_le_pow_right (by decide) hn
  apply cardinality_f64_exact_small h (Nat.lt_of_le_of_lt (Nat.le_trans hle this) (by decide))
  right; right
  have := varAt_root_le h
  omega

/-! ## non-vacuity: concrete diagrams -/

/-- `x0 ∧ ¬x2` over three variables (two satisfying valuations) -/
def f64ExSmall : Arr := #[⟨3, 0, 0⟩, ⟨3, 1, 1⟩, ⟨2, 1, 0⟩, ⟨0, 0, 2⟩]
example : WFo f64ExSmall 3 := wfoB_sound (by decide)
example : exactCard f64ExSmall = 2 := by decide +kernel
example : cardF64 f64ExSmall = .fin (2 * 2 ^ 1074) := by decide +kernel
example : cardF64Bits f64ExSmall = 0x4000000000000000 := by decide +kernel

/-- `x0 ∨ (x1 ∧ … ∧ x53)` over 54 variables: exact count `2^53 + 1`, a tie, rounded to even `2^53`:
    a genuinely inexact result (the bound of `cardinality_f64_spec` is not vacuous) -/
def f64ExTie : Arr :=
  #[⟨54, 0, 0⟩, ⟨54, 1, 1⟩] ++ ((List.range 53).map fun i => (⟨53 - i, 0, i + 1⟩ : Node)).toArray ++ #[⟨0, 54, 1⟩]
example : WFo f64ExTie 54 := wfoB_sound (by decide)
example : exactCard f64ExTie = (2 ^ 53 + 1) := by decide +kernel
example : cardF64 f64ExTie = .fin (2 ^ 53 * 2 ^ 1074) := by decide +kernel
example : cardF64Bits f64ExTie = 0x4340000000000000 := by decide +kernel

/-- the literal `x0` over 1025 variables: count `2^1024`, not representable: `+inf` (legitimately) -/
def f64ExOverflow : Arr := #[⟨1025, 0, 0⟩, ⟨1025, 1, 1⟩, ⟨0, 0, 1⟩]
example : WFo f64ExOverflow 1025 := wfoB_sound (by decide)
example : exactCard f64ExOverflow = (2 ^ 1024) := by decide +kernel
example : cardF64 f64ExOverflow = .inf := by decide +kernel

/-- the literal `x0` over 1024 variables: count `2^1023`, the largest power of two: finite -/
def f64ExLargest : Arr := #[⟨1024, 0, 0⟩, ⟨1024, 1, 1⟩, ⟨0, 0, 1⟩]
example : WFo f64ExLargest 1024 := wfoB_sound (by decide)
example : cardF64 f64ExLargest = .fin (2 ^ 1023 * 2 ^ 1074) := by decide +kernel
example : cardF64Bits f64ExLargest = 0x7FE0000000000000 := by decide +kernel

/-- the single valuation over 2000 variables reached through a gap of 1999 levels (the case of the
    earlier fix "cardinality zero-scaling"): count `2^0·…`; here `x1999` alone below `x0`:
    `x0 ∧ x1999`, count `2^1998`: `+inf`; and its unsatisfiable sibling is `0.0` -/
def f64ExGap : Arr := #[⟨2000, 0, 0⟩, ⟨2000, 1, 1⟩, ⟨1999, 0, 1⟩, ⟨0, 0, 2⟩]
example : WFo f64ExGap 2000 := wfoB_sound (by decide)
example : cardF64 f64ExGap = .inf := by decide +kernel

/-- **the defect witness**: valid, unsatisfiable, non-canonical, root variable 1024: exact count `0`,
    `cardinality()` = `+inf` -/
def f64ExDefect : Arr := #[⟨1025, 0, 0⟩, ⟨1025, 1, 1⟩, ⟨1024, 0, 0⟩]
example : WFo f64ExDefect 1025 := wfoB_sound (by decide)
example : exactCard f64ExDefect = 0 := by decide +kernel
example : cardF64 f64ExDefect = .inf := by decide +kernel
example : cardF64Bits f64ExDefect = 0x7FF0000000000000 := by decide +kernel
/-- the same shape with root variable 1023 is fine -/
example : cardF64 (#[⟨1025, 0, 0⟩, ⟨1025, 1, 1⟩, ⟨1023, 0, 0⟩] : Arr) = F64.zero := by decide +kernel

end B.Props.C09
