import BddVerif.Props.C09
import BddVerif.Lemmas.F64Card
/-!
# C09 — the floating-point clause: `cardinality()` equals the exact count up to rounding

Theorems about the executable binary64 model of `Bdd::cardinality` (`Model/F64.lean`: `cardF64O`,
`cardF64`, `cardF64Bits`; the model is compared bit for bit with `cardinality().to_bits()` of the real
library by the driver).

Numbers: a finite binary64 value is `F64.fin s`, value `s / 2^1074`; `c = exactCard A` is the exact count
(`exact_card_spec`: the number of satisfying assignments of the `n` variables); `P = 2^53`;
`d` is any number that is at least `pathDepth A`, the number of decision nodes on the longest path from
the root to a terminal (one rounding per decision node, the scalings by powers of two being exact);
`pathDepth A ≤ n − (variable of the root node) ≤ n` and `pathDepth A ≤ A.size − 2` (`pathDepth_le`), so
`d = n` and `d = A.size − 2` always work. Every
inequality is between naturals, cross-multiplied:
`|v − c| ≤ c·((1+2^-53)^d − 1)` is written `|v − c|·P^d ≤ c·((P+1)^d − P^d)`.

**History.** Before commit 316b6bb the final product `cache[root] * 2.0.powi(root variable)` was not
guarded against a zero entry: a *valid but non-canonical* unsatisfiable diagram with at least three nodes
(e.g. `|1025,0,0|1025,1,1|1024,0,0|`) whose root variable is at least 1024 made `cardinality()` return `+inf`
(`0.0 * inf = NaN ↦ INFINITY`) although the exact count is `0`. This was found by the proof below, is
repaired in the code, and is kept on record as a theorem about the OLD end of the function
(`cardF64_unguarded`, `cardinality_f64_unguarded_defect`). The model `cardF64` follows the code as it is
now, and `cardinality() == 0.0 ↔ count = 0` holds for every valid diagram (`cardinality_f64_zero_iff`).
-/
set_option exponentiation.threshold 2200
namespace B.Props.C09
open B B.Count B.F64

/-! ## (a) the rounding lemmas of the arithmetic model -/

/-- rounding to 53 significant bits (nearest, ties to even) has relative error at most `2^-53`, for every
    exact scaled value `s` (subnormal range included: there the rounding is exact) -/
theorem f64_round_rel (s : Nat) :
    2 ^ 53 * (round53 s - s) ≤ s ∧ 2 ^ 53 * (s - round53 s) ≤ s ∧
    (round53 s) % 2 ^ ((round53 s).log2 - 52) = 0 := ⟨(round53_rel s).1, (round53_rel s).2, round53_sig s⟩

/-- `add` of two finite values with exact sum `t = a + b`: below the threshold `2^1024·(1 − 2^-54)` the
    result is a binary64 value `r` with `2^53·|r − t| ≤ t`; from the threshold on it is `+inf` -/
theorem f64_add_rounding (a b : Nat) :
    (a + b < (2 ^ 1024 - 2 ^ 970) * 2 ^ 1074 → ∃ r, F64.add (.fin a) (.fin b) = .fin r ∧ Rep r ∧
        2 ^ 53 * (r - (a + b)) ≤ a + b ∧ 2 ^ 53 * ((a + b) - r) ≤ a + b) ∧
    ((2 ^ 1024 - 2 ^ 970) * 2 ^ 1074 ≤ a + b → F64.add (.fin a) (.fin b) = .inf) := by
  have := add_fin a b
  rw [Thr_eq_U] at this
  exact this

/-- `mulPow2 x k` (`x * 2.0.powi(k)`) is exact (no rounding at all) while the power and the product stay
    below `2^1024`; it is `+inf` when `x ≠ 0` and the power or the product reaches `2^1024`; it is NaN
    exactly for `x = 0`, `k ≥ 1024` -/
theorem f64_mulPow2_exact (s k : Nat) :
    (k < 1024 → s * 2 ^ k < 2 ^ 1024 * 2 ^ 1074 → mulPow2 (.fin s) k = .fin (s * 2 ^ k)) ∧
    (k < 1024 → 2 ^ 1024 * 2 ^ 1074 ≤ s * 2 ^ k → mulPow2 (.fin s) k = .inf) ∧
    (1024 ≤ k → s ≠ 0 → mulPow2 (.fin s) k = .inf) ∧
    (1024 ≤ k → mulPow2 (.fin 0) k = .nan) := by
  have := mulPow2_fin s k
  rw [Top_eq_U] at this
  exact this

/-- the model's values are exactly the bit patterns: decoding the pattern of a binary64 value returns it,
    patterns have sign bit 0, distinct values have distinct patterns -/
theorem f64_bits_roundtrip (x : F64) (hx : Valid x) :
    ofBits (toBits x) = x ∧ toBits x < 2 ^ 63 ∧ ∀ y, Valid y → toBits x = toBits y → x = y :=
  ⟨ofBits_toBits x hx, toBits_lt x hx, fun y hy h => toBits_inj x y hx hy h⟩

/-! ## (b) the main theorems -/

/-- the exact count the float is compared with is the number of satisfying assignments -/
theorem exactCard_is_count {A : Arr} {n : Nat} (h : WFo A n) :
    exactCardO A = .ok (exactCard A) ∧ exactCard A = cnt n (fun v => evW A n v (root A)) := by
  have e := exact_card_spec h
  exact ⟨by rw [exactCard_wfo h]; exact e, exactCard_wfo h⟩

/-- number of decision nodes on the longest path from the root to a terminal -/
def pathDepth (A : Arr) : Nat := depthF A (numVars A + 1) (root A)

/-- at most one decision node per level, and no decision node twice on a path -/
theorem pathDepth_le {A : Arr} {n : Nat} (h : WFo A n) :
    pathDepth A ≤ n - varAt A (root A) ∧ pathDepth A ≤ n ∧ pathDepth A ≤ A.size - 2 := by
  have hr := root_lt_size (wfo_size_pos h)
  have := depthF_le h (n + 1) (root A) hr
  have h3 := depthF_le_size h (n + 1) (root A) hr
  rw [← varAt_eq_varOf h _ hr] at this
  unfold pathDepth
  rw [numVars_of_wf h]
  omega

/-- the shape of the result: the one-node constant, or the invariant at the root -/
theorem cardF64_shape {A : Arr} {n : Nat} (h : WFo A n) :
    (A.size = 1 ∧ cardF64O A = .ok F64.zero ∧ exactCard A = 0) ∨
    (2 ≤ A.size ∧ ∃ x, cardF64O A = .ok x ∧ Good (pathDepth A) (exactCard A) x) := by
  have hs := wfo_size_pos h
  by_cases h1 : A.size = 1
  · left; exact ⟨h1, cardF64O_size_one h1, exactCard_size_one h1⟩
  · right
    have h2 : 2 ≤ A.size := by omega
    have hr := root_lt_size hs
    have hle := varOf_le_wfo h (root A)
    have hg := cardFF_good_depth h (n + 1) (root A) hr (by omega)
    have hpd : depthF A (n + 1) (root A) = pathDepth A := by unfold pathDepth; rw [numVars_of_wf h]
    rw [hpd] at hg
    rw [cardF64O_eq h h2, exactCard_eq_cardF h h2]
    exact ⟨h2, _, rfl, (good_finalF hg (varAt A (root A))).2⟩

/-- the invariant in every case (the one-node constant included) -/
theorem cardF64_good {A : Arr} {n : Nat} (h : WFo A n) :
    ∃ x, cardF64O A = .ok x ∧ cardF64 A = x ∧ Good (pathDepth A) (exactCard A) x := by
  rcases cardF64_shape h with ⟨_, e, hc⟩ | ⟨_, x, e, hg⟩
  · exact ⟨_, e, by unfold cardF64; rw [e], by rw [hc]; exact good_zero _⟩
  · exact ⟨x, e, by unfold cardF64; rw [e], hg⟩

/-- **totality**: on a level-well-formed diagram `cardinality()` never panics, never returns NaN, and
    returns a genuine binary64 value (at most 53 significant bits, below `2^1024`, or `+inf`) whose bit
    pattern `cardF64Bits A` decodes back to it -/
theorem cardinality_f64_total {A : Arr} {n : Nat} (h : WFo A n) :
    ∃ x, cardF64O A = .ok x ∧ cardF64 A = x ∧ x ≠ .nan ∧ Valid x ∧
      ofBits (cardF64Bits A) = x ∧ cardF64Bits A < 2 ^ 63 := by
  obtain ⟨x, hx, e, hg⟩ := cardF64_good h
  refine ⟨x, hx, e, hg.ne_nan, hg.valid, ?_, ?_⟩
  · unfold cardF64Bits; rw [e]; exact ofBits_toBits x hg.valid
  · unfold cardF64Bits; rw [e]; exact toBits_lt x hg.valid

/-- **finite results**: if `cardinality()` returns the finite value `s·2^-1074` then that value is an
    integer `v` (never subnormal, never fractional) with
    `c·(1−2^-53)^d ≤ v ≤ c·(1+2^-53)^d` and hence `|v − c| ≤ c·((1+2^-53)^d − 1)`,
    for every `d ≥ pathDepth A` -/
theorem cardinality_f64_fin {A : Arr} {n : Nat} (h : WFo A n) (d : Nat) (hd : pathDepth A ≤ d)
    (s : Nat) (hs : cardF64 A = .fin s) :
    ∃ v, s = v * 2 ^ 1074 ∧
      exactCard A * (2 ^ 53 - 1) ^ d ≤ v * (2 ^ 53) ^ d ∧
      v * (2 ^ 53) ^ d ≤ exactCard A * (2 ^ 53 + 1) ^ d ∧
      (v - exactCard A) * (2 ^ 53) ^ d ≤ exactCard A * ((2 ^ 53 + 1) ^ d - (2 ^ 53) ^ d) ∧
      (exactCard A - v) * (2 ^ 53) ^ d ≤ exactCard A * ((2 ^ 53 + 1) ^ d - (2 ^ 53) ^ d) := by
  have fromNear : ∀ d c v, Near d (c * U) (v * U) → Near d c v := by
    intro d c v hn
    obtain ⟨h1, h2⟩ := hn
    rw [Nat.mul_right_comm c U, Nat.mul_right_comm v U] at h1 h2
    exact ⟨Nat.le_of_mul_le_mul_right h1 U_pos, Nat.le_of_mul_le_mul_right h2 U_pos⟩
  obtain ⟨x, _, e, hg⟩ := cardF64_good h
  rw [e] at hs; subst hs
  have hg' := hg.mono hd
  obtain ⟨v, hv⟩ := hg'.int
  subst hv
  have hn := fromNear _ _ _ hg'.2.2
  exact ⟨v, rfl, hn.1, hn.2, hn.abs.1, hn.abs.2⟩

/-- **infinite results**: `cardinality()` returns `+inf` only when the count, inflated by the accumulated
    rounding factor, reaches the overflow threshold `2^1024·(1 − 2^-54) = 2^1024 − 2^970` — i.e. only when
    the count is (up to rounding) not representable -/
theorem cardinality_f64_inf {A : Arr} {n : Nat} (h : WFo A n) (d : Nat) (hd : pathDepth A ≤ d)
    (hi : cardF64 A = .inf) :
    (2 ^ 1024 - 2 ^ 970) * (2 ^ 53) ^ d ≤ exactCard A * (2 ^ 53 + 1) ^ d := by
  obtain ⟨x, _, e, hg⟩ := cardF64_good h
  rw [e] at hi; subst hi
  have hb : Thr * P ^ d ≤ exactCard A * U * (P + 1) ^ d := hg.mono hd
  rw [Thr_eq_U, Nat.mul_right_comm _ U, Nat.mul_right_comm _ U] at hb
  exact Nat.le_of_mul_le_mul_right hb U_pos

/-- **the floating-point clause of C09**, all cases at once, with `c = exactCard A` and any
    `d ≥ pathDepth A` (one rounding per decision node on a path): the result is
    * finite: an integer `v` with `|v − c|·P^d ≤ c·((P+1)^d − P^d)`, i.e. `|v − c| ≤ c·((1+2^-53)^d − 1)`;
    * `+inf` only if `c·(P+1)^d ≥ (2^1024 − 2^970)·P^d` (the count is not representable up to rounding);
    * never NaN. -/
theorem cardinality_f64_spec {A : Arr} {n : Nat} (h : WFo A n) (d : Nat) (hd : pathDepth A ≤ d) :
    match cardF64 A with
    | .fin s => ∃ v, s = v * 2 ^ 1074 ∧
        (v - exactCard A) * (2 ^ 53) ^ d ≤ exactCard A * ((2 ^ 53 + 1) ^ d - (2 ^ 53) ^ d) ∧
        (exactCard A - v) * (2 ^ 53) ^ d ≤ exactCard A * ((2 ^ 53 + 1) ^ d - (2 ^ 53) ^ d)
    | .inf => (2 ^ 1024 - 2 ^ 970) * (2 ^ 53) ^ d ≤ exactCard A * (2 ^ 53 + 1) ^ d
    | .nan => False := by
  rcases hx : cardF64 A with s | _ | _
  · obtain ⟨v, hv, _, _, h1, h2⟩ := cardinality_f64_fin h d hd s hx
    exact ⟨v, hv, h1, h2⟩
  · exact cardinality_f64_inf h d hd hx
  · obtain ⟨x, _, e, hn, _⟩ := cardinality_f64_total h
    rw [hx] at e; exact hn e.symm

/-- the same with the uniform exponent `d = n` (number of variables), and with the sharper lower bound
    `c·(1−2^-53)^n ≤ v` -/
theorem cardinality_f64_spec_n {A : Arr} {n : Nat} (h : WFo A n) :
    match cardF64 A with
    | .fin s => ∃ v, s = v * 2 ^ 1074 ∧
        exactCard A * (2 ^ 53 - 1) ^ n ≤ v * (2 ^ 53) ^ n ∧ v * (2 ^ 53) ^ n ≤ exactCard A * (2 ^ 53 + 1) ^ n ∧
        (v - exactCard A) * (2 ^ 53) ^ n ≤ exactCard A * ((2 ^ 53 + 1) ^ n - (2 ^ 53) ^ n) ∧
        (exactCard A - v) * (2 ^ 53) ^ n ≤ exactCard A * ((2 ^ 53 + 1) ^ n - (2 ^ 53) ^ n)
    | .inf => (2 ^ 1024 - 2 ^ 970) * (2 ^ 53) ^ n ≤ exactCard A * (2 ^ 53 + 1) ^ n
    | .nan => False := by
  have hd := (pathDepth_le h).2.1
  rcases hx : cardF64 A with s | _ | _
  · exact cardinality_f64_fin h n hd s hx
  · exact cardinality_f64_inf h n hd hx
  · obtain ⟨x, _, e, hn, _⟩ := cardinality_f64_total h
    rw [hx] at e; exact hn e.symm

/-- the same with `d = A.size − 2` (the number of stored decision nodes) -/
theorem cardinality_f64_spec_size {A : Arr} {n : Nat} (h : WFo A n) :
    match cardF64 A with
    | .fin s => ∃ v, s = v * 2 ^ 1074 ∧
        (v - exactCard A) * (2 ^ 53) ^ (A.size - 2) ≤
          exactCard A * ((2 ^ 53 + 1) ^ (A.size - 2) - (2 ^ 53) ^ (A.size - 2)) ∧
        (exactCard A - v) * (2 ^ 53) ^ (A.size - 2) ≤
          exactCard A * ((2 ^ 53 + 1) ^ (A.size - 2) - (2 ^ 53) ^ (A.size - 2))
    | .inf => (2 ^ 1024 - 2 ^ 970) * (2 ^ 53) ^ (A.size - 2) ≤ exactCard A * (2 ^ 53 + 1) ^ (A.size - 2)
    | .nan => False :=
  cardinality_f64_spec h _ (pathDepth_le h).2.2

/-- **completeness of the overflow**: a count that exceeds `2^1024` even after deflation by the rounding
    factor does make `cardinality()` return `+inf` -/
theorem cardinality_f64_overflow {A : Arr} {n : Nat} (h : WFo A n) (d : Nat) (hd : pathDepth A ≤ d)
    (hbig : 2 ^ 1024 * (2 ^ 53) ^ d ≤ exactCard A * (2 ^ 53 - 1) ^ d) :
    cardF64 A = .inf := by
  obtain ⟨x, _, e, hn, hv, _⟩ := cardinality_f64_total h
  rcases hx : cardF64 A with s | _ | _
  · exfalso
    obtain ⟨v, hsv, h1, _⟩ := cardinality_f64_fin h d hd s hx
    rw [hx] at e; subst e
    have hT : s < Top := hv.1
    rw [hsv, Top_eq_U] at hT
    have hv' : v < 2 ^ 1024 := (Nat.mul_lt_mul_right U_pos).1 hT
    have : v * (2 ^ 53) ^ d < 2 ^ 1024 * (2 ^ 53) ^ d :=
      (Nat.mul_lt_mul_right (Nat.pow_pos (by decide))).2 hv'
    omega
  · rfl
  · rw [hx] at e; exact absurd e.symm hn

/-! ## zero -/

/-- **`cardinality() == 0.0` exactly for the unsatisfiable diagrams**, for every valid diagram (canonical
    or not, any number of variables) -/
theorem cardinality_f64_zero_iff {A : Arr} {n : Nat} (h : WFo A n) :
    cardF64 A = F64.zero ↔ exactCard A = 0 := by
  obtain ⟨x, _, e, hg⟩ := cardF64_good h
  rw [e]
  have hU : ∀ c, c * U = 0 ↔ c = 0 := fun c =>
    ⟨fun hc => (Nat.mul_eq_zero.1 hc).resolve_right (Nat.ne_of_gt U_pos), fun hc => by rw [hc, Nat.zero_mul]⟩
  constructor
  · intro hz
    subst hz
    exact (hU _).1 ((hg.2.2.eq_zero_iff).1 rfl)
  · intro hc
    cases x with
    | nan => exact hg.elim
    | fin s => rw [(hg.2.2.eq_zero_iff).2 ((hU _).2 hc)]; rfl
    | inf =>
      exfalso
      have hb : Thr * P ^ (pathDepth A) ≤ exactCard A * U * (P + 1) ^ (pathDepth A) := hg
      rw [hc, Nat.zero_mul, Nat.zero_mul] at hb
      rcases Nat.mul_eq_zero.1 (Nat.le_zero.1 hb) with h' | h'
      · have : 0 < Thr := by decide
        omega
      · exact absurd h' (Nat.ne_of_gt (Nat.pow_pos P_pos))

/-- for the record: the end of the function BEFORE commit 316b6bb (`cardF64_unguarded`) agreed with the
    current one except in exactly one situation, where it returned `+inf` for the count `0`: an
    unsatisfiable level-well-formed diagram with at least three nodes (necessarily non-canonical) whose
    root variable is at least 1024 (`0.0 * 2.0.powi(v) = 0.0 * inf = NaN ↦ INFINITY`) -/
theorem cardinality_f64_unguarded_defect {A : Arr} {n : Nat} (h : WFo A n) :
    (exactCard A = 0 ∧ 3 ≤ A.size ∧ 1024 ≤ varAt A (root A) →
        cardF64_unguarded A = .inf ∧ cardF64 A = F64.zero) ∧
    (¬ (exactCard A = 0 ∧ 3 ≤ A.size ∧ 1024 ≤ varAt A (root A)) → cardF64_unguarded A = cardF64 A) := by
  have hs := wfo_size_pos h
  by_cases h1 : A.size = 1
  · have e1 : cardF64_unguarded A = F64.zero := by
      unfold cardF64_unguarded; rw [cardF64With_size_one h1]
    have e2 : cardF64 A = F64.zero := by unfold cardF64; rw [cardF64O_size_one h1]
    exact ⟨fun hh => by omega, fun _ => by rw [e1, e2]⟩
  · have h2 : 2 ≤ A.size := by omega
    have hr := root_lt_size hs
    have hle := varOf_le_wfo h (root A)
    have hg := cardFF_good_depth h (n + 1) (root A) hr (by omega)
    have e1 : cardF64_unguarded A = finalUnguarded (cardFF A (n + 1) (root A)) (varAt A (root A)) := by
      unfold cardF64_unguarded; rw [cardF64With_eq h h2]
    have e2 : cardF64 A = finalF (cardFF A (n + 1) (root A)) (varAt A (root A)) := by
      unfold cardF64; rw [cardF64O_eq h h2]
    have hc := exactCard_eq_cardF h h2
    rcases good_finalUnguarded hg (varAt A (root A)) with ⟨hx, hv, hc0, hinf⟩ | heq
    · -- the defect situation
      have hex : exactCard A = 0 := by rw [hc, hc0, Nat.zero_mul]
      have h3 : 3 ≤ A.size := by
        rcases Nat.lt_or_ge A.size 3 with h3 | h3
        · exfalso
          have hroot : root A = 1 := by unfold root; omega
          rw [hroot, cardFF_one] at hx
          have : U = 0 := by injection hx
          exact absurd this (Nat.ne_of_gt U_pos)
        · exact h3
      refine ⟨fun _ => ⟨by rw [e1, hinf], (cardinality_f64_zero_iff h).2 hex⟩, fun hn => absurd ⟨hex, h3, hv⟩ hn⟩
    · refine ⟨fun ⟨hex, h3, hv⟩ => ?_, fun _ => by rw [e1, e2, heq]⟩
      -- the situation forces the zero entry and the overflowing power: not the equal case
      exfalso
      rw [hc] at hex
      have hc0 : cardF A true (n + 1) (root A) = 0 :=
        (Nat.mul_eq_zero.1 hex).resolve_right (Nat.ne_of_gt (Nat.two_pow_pos _))
      rw [hc0] at hg
      have hx0 : cardFF A (n + 1) (root A) = .fin 0 := by
        generalize cardFF A (n + 1) (root A) = y at *
        cases y with
        | nan => exact hg.elim
        | fin s => rw [(hg.2.2.eq_zero_iff).2 (Nat.zero_mul _)]
        | inf =>
          exfalso
          have hb : Thr * P ^ (depthF A (n + 1) (root A)) ≤ 0 * U * (P + 1) ^ (depthF A (n + 1) (root A)) := hg
          rw [Nat.zero_mul, Nat.zero_mul] at hb
          rcases Nat.mul_eq_zero.1 (Nat.le_zero.1 hb) with h' | h'
          · have : 0 < Thr := by decide
            omega
          · exact absurd h' (Nat.ne_of_gt (Nat.pow_pos P_pos))
      rw [hx0] at heq
      unfold finalUnguarded finalF at heq
      rw [(mulPow2_fin 0 _).2.2.2 hv] at heq
      exact absurd heq (by decide)

/-! ## (c) small counts are exact -/

/-- `ofNat c` is the binary64 value of the integer `c < 2^53` -/
theorem f64_ofNat_small (c : Nat) (hc : c < 2 ^ 53) : F64.ofNat c = .fin (c * 2 ^ 1074) ∧ Rep (c * 2 ^ 1074) := by
  have hr : round53 (c * 2 ^ 1074) = c * 2 ^ 1074 := round53_int c 1074 hc
  have hT : c * 2 ^ 1074 < Top := by
    rw [Top_eq_U]; exact (Nat.mul_lt_mul_right U_pos).2 (Nat.lt_trans hc (by decide))
  refine ⟨?_, hT, mod_of_mul_pow c 1074 hc⟩
  show ofExact (c * U) = _
  unfold ofExact
  simp only
  show (if round53 (c * 2 ^ 1074) < Top then F64.fin (round53 (c * 2 ^ 1074)) else F64.inf) = _
  rw [hr, if_pos hT]

/-- **exactness below `2^53`**: a count below `2^53` is returned exactly (no rounding happens anywhere in
    the traversal) -/
theorem cardinality_f64_exact_small {A : Arr} {n : Nat} (h : WFo A n) (hc : exactCard A < 2 ^ 53) :
    cardF64 A = F64.ofNat (exactCard A) ∧ cardF64 A = .fin (exactCard A * 2 ^ 1074) := by
  rw [(f64_ofNat_small _ hc).1]
  refine ⟨?_, ?_⟩ <;>
  · have hs := wfo_size_pos h
    by_cases h1 : A.size = 1
    · rw [exactCard_size_one h1, Nat.zero_mul]
      unfold cardF64; rw [cardF64O_size_one h1]; rfl
    · have h2 : 2 ≤ A.size := by omega
      have hr := root_lt_size hs
      have hle := varOf_le_wfo h (root A)
      have hg := cardFF_good_depth h (n + 1) (root A) hr (by omega)
      rw [exactCard_eq_cardF h h2] at hc ⊢
      have hcr : cardF A true (n + 1) (root A) < 2 ^ 53 :=
        Nat.lt_of_le_of_lt (Nat.le_mul_of_pos_right _ (Nat.two_pow_pos _)) hc
      have hx := cardFF_exact h (n + 1) (root A) hr (by omega) hcr
      unfold cardF64
      rw [cardF64O_eq h h2, (good_finalF hg _).1, hx]
      generalize cardF A true (n + 1) (root A) = cr at *
      generalize varAt A (root A) = v at *
      show scale (F64.fin (cr * U)) v = F64.fin (cr * 2 ^ v * 2 ^ 1074)
      by_cases hc0 : cr = 0
      · subst hc0; simp [scale, isZero, F64.zero]
      · have hne : cr * U ≠ 0 := Nat.mul_ne_zero hc0 (Nat.ne_of_gt U_pos)
        rw [scale_fin_pos _ _ hne]
        have hv' : v < 1024 := by
          rcases Nat.lt_or_ge v 53 with hlt | hge
          · omega
          · exfalso
            have : (2 : Nat) ^ 53 ≤ 2 ^ v := Nat.pow_le_pow_right (by decide) hge
            have : 1 * 2 ^ v ≤ cr * 2 ^ v := Nat.mul_le_mul_right _ (by omega)
            omega
        have hlt : cr * U * 2 ^ v < Top := by
          rw [Nat.mul_right_comm, Top_eq_U]
          exact (Nat.mul_lt_mul_right U_pos).2 (Nat.lt_trans hc (by decide))
        rw [(mulPow2_fin _ _).1 hv' hlt, Nat.mul_right_comm]
        rfl

/-- every diagram over at most 52 variables gets its exact count -/
theorem cardinality_f64_exact_le52 {A : Arr} {n : Nat} (h : WFo A n) (hn : n ≤ 52) :
    cardF64 A = F64.ofNat (exactCard A) ∧ cardF64 A = .fin (exactCard A * 2 ^ 1074) := by
  have hle := exact_card_le h
  have : (2 : Nat) ^ n ≤ 2 ^ 52 := Nat.pow_le_pow_right (by decide) hn
  exact cardinality_f64_exact_small h (Nat.lt_of_le_of_lt (Nat.le_trans hle this) (by decide))

/-! ## non-vacuity: concrete diagrams -/

/-- `x0 ∧ ¬x2` over three variables (two satisfying valuations) -/
def f64ExSmall : Arr := #[⟨3, 0, 0⟩, ⟨3, 1, 1⟩, ⟨2, 1, 0⟩, ⟨0, 0, 2⟩]
example : WFo f64ExSmall 3 := wfoB_sound (by decide)
example : exactCard f64ExSmall = 2 := by decide +kernel
example : cardF64 f64ExSmall = .fin (2 * 2 ^ 1074) := by decide +kernel
example : cardF64Bits f64ExSmall = 0x4000000000000000 := by decide +kernel

/-- `x0 ∨ (x1 ∧ … ∧ x53)` over 54 variables: exact count `2^53 + 1`, a tie, rounded to even `2^53`:
    a genuinely inexact result (the bound of `cardinality_f64_spec` is not vacuous) -/
def f64ExTie : Arr :=
  #[⟨54, 0, 0⟩, ⟨54, 1, 1⟩] ++ ((List.range 53).map fun i => (⟨53 - i, 0, i + 1⟩ : Node)).toArray ++ #[⟨0, 54, 1⟩]
example : WFo f64ExTie 54 := wfoB_sound (by decide)
example : exactCard f64ExTie = (2 ^ 53 + 1) := by decide +kernel
example : cardF64 f64ExTie = .fin (2 ^ 53 * 2 ^ 1074) := by decide +kernel
example : cardF64Bits f64ExTie = 0x4340000000000000 := by decide +kernel
example : pathDepth f64ExTie = 54 ∧ pathDepth f64ExSmall = 2 := by decide +kernel
/-- the bound of `cardinality_f64_fin` instantiated: `v = 2^53`, `c = 2^53 + 1`, `d = 54` -/
example : ∃ v, (2 ^ 53 * 2 ^ 1074 : Nat) = v * 2 ^ 1074 ∧
    (exactCard f64ExTie - v) * (2 ^ 53) ^ 54 ≤ exactCard f64ExTie * ((2 ^ 53 + 1) ^ 54 - (2 ^ 53) ^ 54) := by
  obtain ⟨v, hv, _, _, _, h2⟩ := cardinality_f64_fin (A := f64ExTie) (n := 54) (wfoB_sound (by decide +kernel)) 54
    (by decide +kernel) (2 ^ 53 * 2 ^ 1074) (by decide +kernel)
  exact ⟨v, hv, h2⟩

/-- the literal `x0` over 1025 variables: count `2^1024`, not representable: `+inf` (legitimately) -/
def f64ExOverflow : Arr := #[⟨1025, 0, 0⟩, ⟨1025, 1, 1⟩, ⟨0, 0, 1⟩]
example : WFo f64ExOverflow 1025 := wfoB_sound (by decide)
example : exactCard f64ExOverflow = (2 ^ 1024) := by decide +kernel
example : cardF64 f64ExOverflow = .inf := by decide +kernel

/-- the literal `x0` over 1024 variables: count `2^1023`, the largest power of two: finite -/
def f64ExLargest : Arr := #[⟨1024, 0, 0⟩, ⟨1024, 1, 1⟩, ⟨0, 0, 1⟩]
example : WFo f64ExLargest 1024 := wfoB_sound (by decide)
example : cardF64 f64ExLargest = .fin (2 ^ 1023 * 2 ^ 1074) := by decide +kernel
example : cardF64Bits f64ExLargest = 0x7FE0000000000000 := by decide +kernel

/-- the single valuation over 2000 variables reached through a gap of 1999 levels (the case of the
    earlier fix "cardinality zero-scaling"): count `2^0·…`; here `x1999` alone below `x0`:
    `x0 ∧ x1999`, count `2^1998`: `+inf`; and its unsatisfiable sibling is `0.0` -/
def f64ExGap : Arr := #[⟨2000, 0, 0⟩, ⟨2000, 1, 1⟩, ⟨1999, 0, 1⟩, ⟨0, 0, 2⟩]
example : WFo f64ExGap 2000 := wfoB_sound (by decide)
example : cardF64 f64ExGap = .inf := by decide +kernel

/-- **the witness of the repaired defect**: valid, unsatisfiable, non-canonical, root variable 1024: exact
    count `0`; the code before 316b6bb returned `+inf`, the current code `0.0` -/
def f64ExDefect : Arr := #[⟨1025, 0, 0⟩, ⟨1025, 1, 1⟩, ⟨1024, 0, 0⟩]
example : WFo f64ExDefect 1025 := wfoB_sound (by decide +kernel)
example : exactCard f64ExDefect = 0 := by decide +kernel
example : cardF64_unguarded f64ExDefect = .inf := by decide +kernel
example : cardF64 f64ExDefect = F64.zero := by decide +kernel
example : cardF64Bits f64ExDefect = 0 := by decide +kernel
/-- with root variable 1023 the old and the new code agree -/
example : cardF64_unguarded (#[⟨1025, 0, 0⟩, ⟨1025, 1, 1⟩, ⟨1023, 0, 0⟩] : Arr) = F64.zero := by decide +kernel
/-- a tautology-like non-canonical root on variable 1024 over 1025 variables: count `2^1025`, `+inf` -/
example : cardF64 (#[⟨1025, 0, 0⟩, ⟨1025, 1, 1⟩, ⟨1024, 1, 1⟩] : Arr) = .inf := by decide +kernel

end B.Props.C09
