/-! # C11 — property theorems (to be written) -/
namespace B.Props.C11
end B.Props.C11
