import BddVerif.Lemmas.SelectOrder
import BddVerif.Lemmas.SelectCheck
import BddVerif.Lemmas.SelectIs
import BddVerif.Lemmas.SelectMostC
import BddVerif.Lemmas.SelectNec3
/-!
# C11 — witness and clause selectors return real, extremal members

Property theorems about the executable model `Model/Select.lean` of
`src/_impl_bdd/_impl_valuation_utils.rs` and `sat_witness` / `is_valuation` / `is_clause` of
`src/_impl_bdd/_impl_util.rs`. Helper lemmas live in `Lemmas/Select*.lean`.

Hypothesis of every theorem: `Can A n` — `A` is a reduced, post-ordered node array over `n` variables
(`Red A n`: children stored before parents, strictly increasing variables along edges, no node with equal
children, no duplicate node) of at least two nodes (so it is not the contradiction) whose terminal entries are
`(n,0,0)` and `(n,1,1)`. `sat_witness` additionally needs `NoOrphan A` (no unreachable node), which every
canonical array has and `Red` alone does not imply. Both hypotheses are decidable (`canB`, `noOrphanB`).

Vocabulary: `fn v` is the valuation function of the list `v`; `den A w` is the value of the diagram under `w`;
the order on valuations is core Lean's lexicographic `≤` on `List Bool` with `false < true`, variable 0 first —
the derived `Ord` of `BddValuation(Vec<bool>)` (the doc comments in the Rust file say "greatest variable id most
significant"; the code and the derived order say the opposite, and that is what is proved);
`IsPath A p ds q` — `ds` are the decisions `(variable, branch)` of a path of the diagram from pointer `p` to
pointer `q`; a clause `c` "is" the path `ds` when `getC c k = ds.lookup k` for every variable `k`.
-/
namespace B.Props.C11
open B B.Select

/-- number of variables below `n` that have the value `b` under `w` -/
abbrev count (b : Bool) (w : Nat → Bool) (n : Nat) : Nat := cnt b w 0 n

/-- all selectors return `None` on the contradiction (the one-node array), for every variable count and every
    list of coin flips; `is_clause` and `is_valuation` answer `false` -/
theorem none_on_false (n : Nat) (fl : List Bool) :
    satWitness (mkFalse n) = Sel.none ∧ firstValuation (mkFalse n) = Sel.none ∧
    lastValuation (mkFalse n) = Sel.none ∧ mostPositiveValuation (mkFalse n) = Sel.none ∧
    mostNegativeValuation (mkFalse n) = Sel.none ∧ firstClause (mkFalse n) = Sel.none ∧
    lastClause (mkFalse n) = Sel.none ∧ mostFixedClause (mkFalse n) = Sel.none ∧
    mostFreeClause (mkFalse n) = Sel.none ∧ randomValuation (mkFalse n) fl = Sel.none ∧
    randomClause (mkFalse n) fl = Sel.none ∧ necessaryClause (mkFalse n) = Sel.none ∧
    isClause (mkFalse n) = some false ∧ isValuation (mkFalse n) = some false := by
  refine ⟨rfl, rfl, rfl, rfl, rfl, rfl, rfl, rfl, rfl, rfl, rfl, rfl, rfl, rfl⟩

/-- `sat_witness` returns a satisfying valuation -/
theorem witness_sat {A : Arr} {n : Nat} (h : Can A n) (hno : NoOrphan A) :
    ∃ v, satWitness A = Sel.some v ∧ v.length = n ∧ den A (fn v) = true :=
  sat_witness_spec h hno

/-- `first_valuation` returns the least satisfying valuation -/
theorem first_valuation_least {A : Arr} {n : Nat} (h : Can A n) :
    ∃ v, firstValuation A = Sel.some v ∧ v.length = n ∧ den A (fn v) = true ∧
      ∀ w : List Bool, w.length = n → den A (fn w) = true → v ≤ w := by
  obtain ⟨v, hv, hlen, hden, hle⟩ := first_valuation_spec h
  refine ⟨v, hv, hlen, hden, ?_⟩
  intro w hwl hw
  exact le_of_LexLe (by omega) (by rw [hlen]; exact hle (fn w) hw)

/-- `last_valuation` returns the greatest satisfying valuation -/
theorem last_valuation_greatest {A : Arr} {n : Nat} (h : Can A n) :
    ∃ v, lastValuation A = Sel.some v ∧ v.length = n ∧ den A (fn v) = true ∧
      ∀ w : List Bool, w.length = n → den A (fn w) = true → w ≤ v := by
  obtain ⟨v, hv, hlen, hden, hle⟩ := last_valuation_spec h
  refine ⟨v, hv, hlen, hden, ?_⟩
  intro w hwl hw
  exact le_of_LexLe (by omega) (by rw [hwl]; exact hle (fn w) hw)

/-- `first_clause` returns a path of the diagram that takes the `false` branch wherever it diverges from
    another path -/
theorem first_clause_path {A : Arr} {n : Nat} (h : Can A n) :
    ∃ c ds, firstClause A = Sel.some c ∧ IsPath A (root A) ds 1 ∧ (∀ k, getC c k = ds.lookup k) ∧
      ∀ ds', IsPath A (root A) ds' 1 → ds' = ds ∨
        ∃ pre x r r', ds = pre ++ (x, false) :: r ∧ ds' = pre ++ (x, true) :: r' := by
  obtain ⟨c, ds, h1, h2, h3, h4⟩ := first_clause_spec h
  refine ⟨c, ds, h1, h2, h3, ?_⟩
  intro ds' hp
  rcases h4 ds' hp with e | ⟨pre, x, r, r', e1, e2⟩
  · exact Or.inl e
  · exact Or.inr ⟨pre, x, r, r', e1, by simpa using e2⟩

/-- `last_clause` returns a path of the diagram that takes the `true` branch wherever it diverges from
    another path -/
theorem last_clause_path {A : Arr} {n : Nat} (h : Can A n) :
    ∃ c ds, lastClause A = Sel.some c ∧ IsPath A (root A) ds 1 ∧ (∀ k, getC c k = ds.lookup k) ∧
      ∀ ds', IsPath A (root A) ds' 1 → ds' = ds ∨
        ∃ pre x r r', ds = pre ++ (x, true) :: r ∧ ds' = pre ++ (x, false) :: r' := by
  obtain ⟨c, ds, h1, h2, h3, h4⟩ := last_clause_spec h
  refine ⟨c, ds, h1, h2, h3, ?_⟩
  intro ds' hp
  rcases h4 ds' hp with e | ⟨pre, x, r, r', e1, e2⟩
  · exact Or.inl e
  · exact Or.inr ⟨pre, x, r, r', e1, by simpa using e2⟩

/-- `most_positive_valuation`: satisfying, maximal number of `true` variables, and the least such -/
theorem most_positive_spec {A : Arr} {n : Nat} (h : Can A n) :
    ∃ v, mostPositiveValuation A = Sel.some v ∧ v.length = n ∧ den A (fn v) = true ∧
      (∀ w : List Bool, w.length = n → den A (fn w) = true → count true (fn w) n ≤ count true (fn v) n) ∧
      (∀ w : List Bool, w.length = n → den A (fn w) = true → count true (fn w) n = count true (fn v) n → v ≤ w) := by
  obtain ⟨v, hv, hlen, hden, hmax, hle⟩ := most_positive_valuation_spec h
  refine ⟨v, hv, hlen, hden, fun w _ hw => hmax (fn w) hw, ?_⟩
  intro w hwl hw hc
  exact le_of_LexLe (by omega) (by rw [hlen]; exact hle (fn w) hw hc)

/-- `most_negative_valuation`: satisfying, maximal number of `false` variables, and the least such -/
theorem most_negative_spec {A : Arr} {n : Nat} (h : Can A n) :
    ∃ v, mostNegativeValuation A = Sel.some v ∧ v.length = n ∧ den A (fn v) = true ∧
      (∀ w : List Bool, w.length = n → den A (fn w) = true → count false (fn w) n ≤ count false (fn v) n) ∧
      (∀ w : List Bool, w.length = n → den A (fn w) = true → count false (fn w) n = count false (fn v) n → v ≤ w) := by
  obtain ⟨v, hv, hlen, hden, hmax, hle⟩ := most_negative_valuation_spec h
  refine ⟨v, hv, hlen, hden, fun w _ hw => hmax (fn w) hw, ?_⟩
  intro w hwl hw hc
  exact le_of_LexLe (by omega) (by rw [hlen]; exact hle (fn w) hw hc)

/-- `most_fixed_clause` returns a path of the diagram with the maximal number of fixed variables among all
    paths (`IsPathClause A c`: `c` is the clause of some root-to-one path; `numFixed`: number of `Some` entries) -/
theorem most_fixed_spec {A : Arr} {n : Nat} (h : Can A n) :
    ∃ c, mostFixedClause A = Sel.some c ∧ IsPathClause A c ∧
      ∀ c', IsPathClause A c' → numFixed c' ≤ numFixed c :=
  most_fixed_clause_max h

/-- `most_free_clause` returns a path of the diagram with the minimal number of fixed variables among all paths -/
theorem most_free_spec {A : Arr} {n : Nat} (h : Can A n) :
    ∃ c, mostFreeClause A = Sel.some c ∧ IsPathClause A c ∧
      ∀ c', IsPathClause A c' → numFixed c ≤ numFixed c' :=
  most_free_clause_min h

/-- `random_valuation` returns a satisfying valuation whatever the generator yields -/
theorem random_valuation_sat {A : Arr} {n : Nat} (h : Can A n) (flips : List Bool) :
    ∃ v, randomValuation A flips = Sel.some v ∧ v.length = n ∧ den A (fn v) = true :=
  random_valuation_spec h flips

/-- `random_clause` returns a path of the diagram whatever the generator yields -/
theorem random_clause_path {A : Arr} {n : Nat} (h : Can A n) (flips : List Bool) :
    ∃ c ds, randomClause A flips = Sel.some c ∧ IsPath A (root A) ds 1 ∧ ∀ k, getC c k = ds.lookup k := by
  obtain ⟨c, hc, ds, hp, hg⟩ := random_clause_spec h flips
  exact ⟨c, ds, hc, hp, hg⟩

/-- `necessary_clause` returns a clause (it does not reach its `unreachable!()`), and every literal of it is
    shared by all satisfying valuations (no reachability assumption) -/
theorem necessary_clause_sound {A : Arr} {n : Nat} (h : Can A n) :
    ∃ c, necessaryClause A = Sel.some c ∧
      ∀ k b, getC c k = some b → ∀ w : Nat → Bool, den A w = true → w k = b :=
  Select.necessary_clause_sound h

/-- `necessary_clause` is exactly the set of literals shared by all satisfying valuations (canonical diagram:
    no unreachable node) -/
theorem necessary_clause_exact {A : Arr} {n : Nat} (h : Can A n) (hno : NoOrphan A) :
    ∃ c, necessaryClause A = Sel.some c ∧
      ∀ k b, k < n → (getC c k = some b ↔ ∀ w : Nat → Bool, den A w = true → w k = b) :=
  Select.necessary_clause_exact h hno

/-- `is_clause` holds exactly when the function is a single cube -/
theorem is_clause_spec {A : Arr} {n : Nat} (h : Can A n) :
    ∃ b, isClause A = some b ∧
      (b = true ↔ ∃ c : Clause, ∀ w : Nat → Bool, den A w = true ↔ ∀ k v, getC c k = some v → w k = v) :=
  Select.is_clause_spec h

/-- `is_valuation` holds exactly when one valuation of the `n` variables satisfies the function -/
theorem is_valuation_spec {A : Arr} {n : Nat} (h : Can A n) :
    ∃ b, isValuation A = some b ∧
      (b = true ↔ ∃ u : List Bool, u.length = n ∧
        ∀ w : Nat → Bool, den A w = true ↔ ∀ k, k < n → w k = fn u k) :=
  Select.is_valuation_spec h

/-! ### non-vacuity: the hypotheses hold on concrete non-trivial diagrams, and the selectors compute there -/

example : Can exGap 5 ∧ NoOrphan exGap := ⟨exGap_can, exGap_noOrphan⟩
example : Can exVal 3 := exVal_can
example : Can (mkTrue 4) 4 := canB_sound (by decide)

-- `(x0 ∧ x2) ∨ (¬x0 ∧ x3)` over five variables
example : firstValuation exGap = Sel.some [false, false, false, true, false] := by decide
example : lastValuation exGap = Sel.some [true, true, true, true, true] := by decide
example : mostPositiveValuation exGap = Sel.some [true, true, true, true, true] := by decide
example : mostNegativeValuation exGap = Sel.some [false, false, false, true, false] := by decide
example : satWitness exGap = Sel.some [true, false, true, false, false] := by decide
example : firstClause exGap = Sel.some [some false, none, none, some true] := by decide
example : necessaryClause exGap = Sel.some [] := by decide
example : randomValuation exGap [true, false, true] = Sel.some [true, false, true, true, false] := by decide
example : isClause exGap = some false ∧ isValuation exVal = some true ∧ isClause exVal = some true := by decide
example : necessaryClause exVal = Sel.some [some true, some false, some true] := by decide
example : mostFixedClause exGap = Sel.some [some false, none, none, some true] ∧ numFixed [some false, none, none, some true] = 2 := by decide

end B.Props.C11
