/-! # C09 — property theorems (to be written) -/
namespace B.Props.C09
end B.Props.C09
