import BddVerif.Lemmas.CountSupport
import BddVerif.Lemmas.CountIter
import BddVerif.Lemmas.C02Built
import BddVerif.Lemmas.OpConsistent
/-!
# C09 — model counts and support sets are exact

Property theorems about the executable model of `src/_impl_bdd/_impl_util.rs`
(`Model/Count.lean`: `Count.exactCardO`, `Count.clauseCardO`, `supportSet`, `sizePerVariable`).

* A diagram is any array that is well-formed *by level* (`WFo A n`: terminals exact, links in range,
  variables strictly increasing along links — what `validate`/`from_nodes` guarantee; no assumption on
  the numbering of nodes, no assumption of reducedness); its function is `fun v => evW A n v (root A)`.
  For canonical arrays this is `den A`.
* `cnt n f` is the number of assignments of the variables `0 … n-1` that satisfy `f`, defined by
  recursion on `n` and tied to the filtered list of all `2ⁿ` valuations (`cnt_eq_filter_length`,
  `all_vals_enumeration`). All arithmetic is over unbounded `Nat`.
* `cardinality()` (f64) is outside the kernel: partial, checked by the driver in exact rational
  arithmetic against `exactCardO`.
-/
namespace B.Props.C09
open B B.Count B.C02

/-! ## the specification of "number of satisfying valuations" -/

/-- `cnt n f` is the length of the list of all `2ⁿ` valuations of the variables `0 … n-1`, filtered by `f` -/
theorem cnt_eq_filter_length (n : Nat) (f : (Nat → Bool) → Bool) :
    cnt n f = ((allVals n).filter f).length := B.Count.cnt_eq_filter_length n f

/-- … and that list really enumerates the valuations: `2ⁿ` entries, every assignment of the first `n`
    variables occurs, no two entries agree on all of them -/
theorem all_vals_enumeration (n : Nat) :
    (allVals n).length = 2 ^ n ∧
    (∀ w : Nat → Bool, ∃ u ∈ allVals n, ∀ i, i < n → u i = w i) ∧
    (allVals n).Pairwise (fun u w => ∃ i, i < n ∧ u i ≠ w i) :=
  ⟨allVals_length n, allVals_complete n, allVals_pairwise n⟩

/-! ## exact_cardinality -/

/-- `exact_cardinality` never panics on a level-well-formed diagram (any numbering of the nodes, any
    level gaps, any `n`) and returns exactly the number of satisfying valuations of its `n` variables -/
theorem exact_card_spec {A : Arr} {n : Nat} (h : WFo A n) :
    exactCardO A = .ok (cnt n (fun v => evW A n v (root A))) := exactCardO_wfo h

/-- the same for canonical arrays, in terms of `den` -/
theorem exact_card_canonical {A : Arr} (h : Canonical A) :
    exactCardO A = .ok (cnt (numVars A) (den A)) ∧ exactCard A = cnt (numVars A) (den A) := by
  have e := exactCardO_wfo (B.C02.Canonical.wfo h)
  have : (fun v => evW A (numVars A) v (root A)) = den A := funext (fun v => B.C02.Canonical.evW_root h v)
  rw [this] at e
  exact ⟨e, by unfold exactCard; rw [e]⟩

/-- the same for post-order reduced arrays (with the two terminals in place) -/
theorem exact_card_red {A : Arr} {n : Nat} (h : Red A n) (hp : Prefix (mkTrue n) A) :
    exactCardO A = .ok (cnt n (den A)) := by
  have hw := wfo_of_red h hp
  rw [exactCardO_wfo hw]
  congr 1
  apply cnt_congr
  intro v
  have hs := h.size2
  exact evW_eq_ev h hw v (root A) (root A) (by unfold root; omega) (Nat.le_refl _)

/-- the count never exceeds `2ⁿ` -/
theorem exact_card_le {A : Arr} {n : Nat} (h : WFo A n) : exactCard A ≤ 2 ^ n := by
  rw [exactCard_wfo h]; exact cntV_le _ n 0 _

/-! ## exact_clause_cardinality -/

/-- `exact_clause_cardinality` never panics on a level-well-formed diagram and returns the number of
    root-to-one paths (`pathsF`: the list of paths as lists of literals, low branch first) -/
theorem clause_card_spec {A : Arr} {n : Nat} (h : WFo A n) :
    clauseCardO A = .ok (pathsF A (n + 1) (root A)).length := by
  rw [clauseCardO_wfo h, cardF_false_eq_paths]

/-- `exact_clause_cardinality` equals the number of items the `sat_clauses` iterator yields: for a
    post-order reduced array (with its terminals in place), unfolding the model of `BddPathIterator::next`
    from `BddPathIterator::new` (C08's `Iter.pathList`, any fuel above the number of paths) returns
    without panic a list `items`, and `exactClauseCard = items.length` -/
theorem clause_card_eq_iterator_count {A : Arr} {n : Nat} (h : Red A n) (hp : Prefix (mkTrue n) A)
    (fuel : Nat) (hf : (B.Iter.pathsOf A).length < fuel) :
    ∃ items, B.Iter.pathList A fuel = .ok items ∧ clauseCardO A = .ok items.length ∧ clauseCard A = items.length := by
  have hw := wfo_of_red h hp
  have hn : numVars A = n := numVars_of_wf hw
  have hit := (B.Props.C08.path_iter_eq h hn fuel hf).1
  have hc := clauseCardO_eq_iterPaths h hw
  exact ⟨_, hit, hc, by unfold clauseCard; rw [hc]⟩

/-- the same for every canonical array (the constant false included: no item, count 0) -/
theorem clause_card_eq_iterator_count_canonical {A : Arr} (h : Canonical A)
    (fuel : Nat) (hf : (B.Iter.pathsOf A).length < fuel) :
    ∃ items, B.Iter.pathList A fuel = .ok items ∧ clauseCardO A = .ok items.length := by
  rcases h.cases with ⟨e, _⟩ | ⟨hred, hpre, _⟩
  · have hs : A.size = 1 := by rw [e]; rfl
    obtain ⟨f', rfl⟩ : ∃ f', fuel = f' + 1 := ⟨fuel - 1, by omega⟩
    refine ⟨[], (B.Props.C08.false_constant A hs f').1, ?_⟩
    unfold clauseCardO; simp [hs]
  · obtain ⟨items, h1, h2, _⟩ := clause_card_eq_iterator_count hred hpre fuel hf
    exact ⟨items, h1, h2⟩

/-! ## the counting laws, for every `n` -/

/-- `|f ∨ g| + |f ∧ g| = |f| + |g|` -/
theorem card_or_and (n : Nat) (f g : (Nat → Bool) → Bool) :
    cnt n (fun v => f v || g v) + cnt n (fun v => f v && g v) = cnt n f + cnt n g :=
  cntV_or_and f g n 0 _

/-- `|¬f| = 2ⁿ − |f|` -/
theorem card_not (n : Nat) (f : (Nat → Bool) → Bool) : cnt n (fun v => !f v) = 2 ^ n - cnt n f := by
  have := cntV_not f n 0 (fun _ => false)
  unfold cnt; omega

/-- count of the result of a modelled binary operator in terms of the operands' functions -/
theorem exact_card_apply {a b : Arr} {n : Nat} (ha : WFo a n) (hb : WFo b n) (op : Op2)
    (c : Bool → Bool → Bool) (hc : Consistent op c) :
    exactCard (applyWithFlip a b op none none none) =
      cnt n (fun v => c (evW a n v (root a)) (evW b n v (root b))) := by
  have hcan := applyWithFlip_is_canonical a b n op c none none none ha hb hc (by simp) (by simp) (by simp)
  have hn : numVars (applyWithFlip a b op none none none) = n := by
    rw [applyWithFlip_eq_canon a b n op c none none none ha hb (numVars_of_wf ha) hc (by simp) (by simp) (by simp)]
    exact numVars_canon n _ (specFn_dep a b n c none none none ha hb)
  rw [(exact_card_canonical hcan).2, hn]
  apply cnt_congr
  intro v
  exact applyWithFlip_den a b n op c none none none ha hb hc (by simp) (by simp) (by simp) v

/-- the law `|a ∨ b| + |a ∧ b| = |a| + |b|` for the modelled `or`/`and` (regenerated tables) on any two
    level-well-formed operands over the same `n` variables -/
theorem card_or_and_model {a b : Arr} {n : Nat} (ha : WFo a n) (hb : WFo b n) :
    exactCard (applyWithFlip a b Gen.or_ none none none) + exactCard (applyWithFlip a b Gen.and_ none none none) =
      exactCard a + exactCard b := by
  rw [exact_card_apply ha hb Gen.or_ _ or_consistent, exact_card_apply ha hb Gen.and_ _ and_consistent,
    exactCard_wfo ha, exactCard_wfo hb]
  exact card_or_and n _ _

/-- the law `|¬a| = 2ⁿ − |a|` for the modelled `not` on canonical arrays -/
theorem card_not_model {a : Arr} (h : Canonical a) :
    exactCard (bddNot a) = 2 ^ numVars a - exactCard a := by
  have hnot : bddNot a = canon (numVars a) (fun v => !den a v) := by
    conv => lhs; rw [h]
    exact bddNot_canon (numVars a) (den a) h.depBelow
  have hdep : DepBelow (numVars a) (fun v => !den a v) := by
    intro v w hvw; show (!den a v) = !den a w; rw [h.depBelow v w hvw]
  have hcan : Canonical (bddNot a) := by rw [hnot]; exact canon_canonical _ _ hdep
  have hn : numVars (bddNot a) = numVars a := by rw [hnot]; exact numVars_canon _ _ hdep
  rw [(exact_card_canonical hcan).2, (exact_card_canonical h).2, hn]
  have : cnt (numVars a) (den (bddNot a)) = cnt (numVars a) (fun v => !den a v) := by
    apply cnt_congr; intro v; rw [hnot]; exact den_canon _ _ hdep v
  rw [this]; exact card_not _ _

/-! ## support_set -/

/-- `support_set` collects exactly the variables stored in decision nodes, as a strictly increasing
    (duplicate-free) list — for every array -/
theorem support_set_nodes (A : Arr) :
    (∀ x, x ∈ supportSet A ↔ ∃ p nd, 2 ≤ p ∧ A[p]? = some nd ∧ nd.var = x) ∧
    (supportSet A).Pairwise (· < ·) :=
  ⟨mem_supportSet A, supportSet_sorted A⟩

/-- for a reduced array whose decision nodes are all reachable from the root, the support is exactly
    the set of variables whose value can change the function's value -/
theorem support_exact_reduced {A : Arr} {n : Nat} (h : Red A n)
    (hreach : ∀ q, 2 ≤ q → q < A.size → Reach A (root A) q) (x : Nat) :
    x ∈ supportSet A ↔ ∃ v : Nat → Bool, den A (upd v x true) ≠ den A (upd v x false) :=
  support_exact_red h hreach x

/-- for every canonical array (constants included) -/
theorem support_exact {A : Arr} (h : Canonical A) (x : Nat) :
    x ∈ supportSet A ↔ ∃ v : Nat → Bool, den A (upd v x true) ≠ den A (upd v x false) := by
  rcases Nat.lt_or_ge A.size 3 with hs | hs
  · -- a constant: no decision node, no dependence
    constructor
    · intro hx
      obtain ⟨p, nd, hp, hnd, _⟩ := (mem_supportSet A x).1 hx
      have : A[p]? = none := Array.getElem?_eq_none (by omega)
      rw [this] at hnd; cases hnd
    · rintro ⟨v, hv⟩
      exfalso; apply hv
      rcases h.cases with ⟨_, hf⟩ | ⟨hred, _, _⟩
      · rw [hf, hf]
      · have h2 : A.size = 2 := by have := hred.size2; omega
        have ht := h.size_two_iff.1 h2
        rw [ht, ht]
  · obtain ⟨hred, hr⟩ := h.reach hs
    exact support_exact_red hred hr x

/-! ## size_per_variable -/

/-- `size_per_variable` partitions the decision nodes over exactly the support: its keys are the
    support set (in increasing order), the entry of `x` is the number of decision nodes that test `x`
    (never zero), and the entries sum to `size − 2` — for every array -/
theorem size_per_variable_partition (A : Arr) :
    (sizePerVariable A).map (·.1) = supportSet A ∧
    (∀ x c, (x, c) ∈ sizePerVariable A → c = (decisionVars A).count x ∧ 0 < c) ∧
    ((sizePerVariable A).map (·.2)).sum = A.size - 2 := by
  have hkeys : (sizePerVariable A).map (·.1) = supportSet A := by
    unfold sizePerVariable supportSet; rw [foldl_bump_keys]; rfl
  refine ⟨hkeys, ?_, ?_⟩
  · intro x c hm
    have hsorted : ((sizePerVariable A).map (·.1)).Pairwise (· < ·) := by rw [hkeys]; exact supportSet_sorted A
    have hv := valOf_of_mem _ hsorted x c hm
    have hcount : valOf (sizePerVariable A) x = (decisionVars A).count x := by
      unfold sizePerVariable; rw [valOf_foldl]; simp [valOf]
    have hc : c = (decisionVars A).count x := by rw [← hv, hcount]
    refine ⟨hc, ?_⟩
    rw [hc]
    apply List.count_pos_iff.2
    have : x ∈ (sizePerVariable A).map (·.1) := List.mem_map.2 ⟨(x, c), hm, rfl⟩
    rw [hkeys] at this
    unfold supportSet at this
    rw [mem_foldl_ins] at this
    simpa using this
  · unfold sizePerVariable
    rw [sum_foldl_bump, decisionVars_length]; simp

/-! ## non-vacuity -/

/-- `x0 ∧ x2` over 3 variables (the root skips level 1): hypotheses of `exact_card_spec` hold, the
    model evaluates to 2 = |{101, 111}| -/
example : WFo exX0X2 3 ∧ exactCardO exX0X2 = .ok 2 ∧ clauseCardO exX0X2 = .ok 1 ∧
    supportSet exX0X2 = [0, 2] ∧ sizePerVariable exX0X2 = [(0, 1), (2, 1)] :=
  ⟨exX0X2_wf, by rfl, by rfl, by decide, by decide⟩

/-- … and the specification side gives the same number -/
example : cnt 3 (fun v => evW exX0X2 3 v (root exX0X2)) = 2 := by decide

/-- a non-post-order but level-well-formed array (the root is stored before its child): still covered -/
def exPermuted : Arr := #[⟨3, 0, 0⟩, ⟨3, 1, 1⟩, ⟨1, 0, 3⟩, ⟨2, 0, 1⟩, ⟨0, 2, 3⟩]
example : WFo exPermuted 3 := wfoB_sound (by decide)
example : exactCardO exPermuted = .ok 3 := by rfl

/-- iterator tie on a concrete diagram: one path, one item -/
example : ∃ items, B.Iter.pathList exX0X2 5 = .ok items ∧ clauseCardO exX0X2 = .ok items.length :=
  clause_card_eq_iterator_count_canonical exX0X2_canonical 5 (by decide)

/-- the laws on concrete operands -/
example : exactCard (applyWithFlip exX0X2 exX1 Gen.or_ none none none) +
    exactCard (applyWithFlip exX0X2 exX1 Gen.and_ none none none) = exactCard exX0X2 + exactCard exX1 :=
  card_or_and_model exX0X2_wf exX1_wf

end B.Props.C09
