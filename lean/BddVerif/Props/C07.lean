/-! # C07 — property theorems (to be written) -/
namespace B.Props.C07
end B.Props.C07
