import BddVerif.Props.C17
import BddVerif.Lemmas.Substitute
/-!
# C07 — substitution equals syntactic replacement of a variable by a function

About the executable model `Model/Substitute.lean` (tied to the Rust code by the stream `C07.sub`):
for all valid diagrams `f`, `g` over the same `n < 65535` variables and every variable `x`,
`f.substitute(x, g)` is `ok r` — never a panic — with `r` valid over `n` variables and
`r(v) = f(v[x := g(v)])`, also when `g` depends on `x` and on variables `f` does not mention.

The proof is unconditional: the nested `and`+`exists` step is `B.nestedApply_eq_canon`
(`Lemmas/NestedSim.lean`, property C03), the `iff` step is `applyWithFlip_eq_canon` (C01), the shifts
are `rename_variables_safe` / `set_num_vars_safe` (C17).
-/
namespace B.Props.C07
open B B.Drive B.Ren B.Ren.Subst B.Props.C17

theorem ok_bind {α β} (a : α) (k : α → Outcome β) : (Outcome.ok a >>= k) = k a := rfl

theorem applyMap_shiftUp (lo n y : Nat) :
    applyMap (shiftUp lo n) y = if lo ≤ y ∧ y < n then y + 1 else y := by
  unfold applyMap shiftUp; split <;> rfl

theorem applyMap_shiftDown (x n z : Nat) :
    applyMap (shiftDown x n) z = if x + 2 ≤ z ∧ z ≤ n then z - 1 else z := by
  unfold applyMap shiftDown; split <;> rfl

/-- the two shifting steps applied to an operand: `set_num_vars(n+1)` then `rename_variables(shift)` -/
theorem shift_operand (b : Arr) (n lo : Nat) (hb : WFo b n) :
    setNumVars b (n + 1) = .ok (setTerm (n + 1) b) ∧
    renameVariables (setTerm (n + 1) b) (shiftUp lo n) =
      .ok (mapVars (applyMap (shiftUp lo n)) (setTerm (n + 1) b)) ∧
    WFo (mapVars (applyMap (shiftUp lo n)) (setTerm (n + 1) b)) (n + 1) ∧
    (∀ v, evalArr (mapVars (applyMap (shiftUp lo n)) (setTerm (n + 1) b)) v =
      evalArr b (fun y => v (applyMap (shiftUp lo n) y))) := by
  have hnv : numVars b = n := numVars_of_wf hb
  have hb' : WFo b (numVars b) := by rw [hnv]; exact hb
  have hs := supportSet_lt hb
  obtain ⟨e1, k1⟩ := (set_num_vars_safe b (n + 1) hb').1 (fun y hy => by have := hs y hy; omega)
  have hadm : Admissible (setTerm (n + 1) b) (applyMap (shiftUp lo n)) := by
    rw [Admissible, supportSet_setTerm, k1.count]
    constructor
    · intro y hy; have := hs y hy; rw [applyMap_shiftUp]; split <;> omega
    · intro y hy z hz hyz
      have := hs y hy; have := hs z hz
      rw [applyMap_shiftUp, applyMap_shiftUp]; split <;> split <;> omega
  have hv1 : WFo (setTerm (n + 1) b) (numVars (setTerm (n + 1) b)) := by rw [k1.count]; exact k1.valid
  obtain ⟨e2, k2⟩ := (rename_variables_safe (setTerm (n + 1) b) (shiftUp lo n) hv1).1 hadm
  rw [k1.count] at k2
  refine ⟨e1, e2, k2.valid, ?_⟩
  intro v
  rw [k2.den v, k1.den]

/-- **C07.** `substitute` never panics (below the `u16` limit) and computes the composition. -/
theorem substitute_spec (f g : Arr) (n x : Nat) (hf : WFo f n) (hg : WFo g n) (hn : n + 1 < 65536) :
    ∃ r, substitute f x g = .ok r ∧ WFo r n ∧
      (∀ v, evalArr r v = evalArr f (upd v x (evalArr g v))) ∧
      (x ∈ supportSet f → 2 ≤ r.size → Red r n) := by
  have hnf : numVars f = n := numVars_of_wf hf
  have hng : numVars g = n := numVars_of_wf hg
  by_cases hxf : x ∉ supportSet f
  · -- the variable does not occur: `self.clone()`
    refine ⟨f, ?_, hf, fun v => (evalArr_upd_of_not_mem f x hxf v _).symm, fun h => absurd h hxf⟩
    have : (supportSet f).contains x = false := by simpa using hxf
    simp only [substitute, this, Bool.not_false, if_true]
  have hxf : x ∈ supportSet f := Decidable.not_not.mp hxf
  have hx : x < n := supportSet_lt hf x hxf
  have hcf : (supportSet f).contains x = true := by simpa using hxf
  by_cases hxg : x ∉ supportSet g
  · -- safe path
    have hcg : (supportSet g).contains x = false := by simpa using hxg
    obtain ⟨hiw, hiden⟩ := iff_var_spec g n x hg hx
    obtain ⟨hw, _, hred, hden⟩ := exists_and_spec f _ n x hf hiw hx
    refine ⟨_, ?_, hw, ?_, fun _ => hred⟩
    · simp only [substitute, hcf, hcg, Bool.not_true, Bool.not_false, Bool.false_eq_true, if_false, if_true,
        binaryOpWithExistsO, hnf, numVars_of_wf hiw, ne_eq, not_true_eq_false]
    · intro v
      rw [hden v, hiden, hiden]
      rw [evalArr_upd_of_not_mem g x hxg, evalArr_upd_of_not_mem g x hxg]
      have e : ∀ b, upd v x b x = b := by intro b; simp [upd]
      rw [e, e]
      exact subst_bool (fun b => evalArr f (upd v x b)) (evalArr g v)
  -- clash path
  have hxg : x ∈ supportSet g := Decidable.not_not.mp hxg
  have hcg : (supportSet g).contains x = true := by simpa using hxg
  obtain ⟨ef1, ef2, hf2, dfden⟩ := shift_operand f n x hf
  obtain ⟨eg1, eg2, hg2, dgden⟩ := shift_operand g n (x + 1) hg
  obtain ⟨hiw, hiden⟩ := iff_var_spec _ (n + 1) (x + 1) hg2 (by omega)
  obtain ⟨hsw, hsno, hsred, hsden⟩ := exists_and_spec _ _ (n + 1) (x + 1) hf2 hiw (by omega)
  -- names for the intermediate diagrams
  generalize hF2 : mapVars (applyMap (shiftUp x n)) (setTerm (n + 1) f) = F2 at ef2 hf2 dfden hiw hiden hsw hsno hsred hsden
  generalize hG2 : mapVars (applyMap (shiftUp (x + 1) n)) (setTerm (n + 1) g) = G2 at eg2 hg2 dgden hiw hiden hsw hsno hsred hsden
  generalize hI : applyWithFlip (mkVar (n + 1) (x + 1)) G2 Gen.iff_ none none none = I at hiw hiden hsw hsno hsred hsden
  generalize hS : binaryOpWithExists F2 I Gen.and_ [x + 1] = S at hsw hsno hsred hsden
  have hnS : numVars S = n + 1 := numVars_of_wf hsw
  have hsS := supportSet_lt hsw
  -- reverse renaming
  have hadm : Admissible S (applyMap (shiftDown x n)) := by
    rw [Admissible, hnS]
    constructor
    · intro y hy; have := hsS y hy; rw [applyMap_shiftDown]; split <;> omega
    · intro y hy z hz hyz
      have := hsS y hy; have := hsS z hz
      have : y ≠ x + 1 := fun h => hsno (h ▸ hy)
      have : z ≠ x + 1 := fun h => hsno (h ▸ hz)
      rw [applyMap_shiftDown, applyMap_shiftDown]; split <;> split <;> omega
  have hS' : WFo S (numVars S) := by rw [hnS]; exact hsw
  obtain ⟨er, kr⟩ := (rename_variables_safe S (shiftDown x n) hS').1 hadm
  rw [hnS] at kr
  generalize hS1 : mapVars (applyMap (shiftDown x n)) S = S1 at er kr
  have hnS1 : numVars S1 = n + 1 := kr.count
  have hS1' : WFo S1 (numVars S1) := by rw [hnS1]; exact kr.valid
  have hlt1 : ∀ y ∈ supportSet S1, y < n := by
    intro y hy
    rw [← hS1] at hy
    obtain ⟨z, hz, rfl⟩ := (supportSet_mapVars_mem _ S y).mp hy
    have := hsS z hz
    have : z ≠ x + 1 := fun h => hsno (h ▸ hz)
    rw [applyMap_shiftDown]; split <;> omega
  obtain ⟨e9, k9⟩ := (set_num_vars_safe S1 n hS1').1 hlt1
  refine ⟨setTerm n S1, ?_, k9.valid, ?_, ?_⟩
  · have hnF2 : numVars F2 = n + 1 := numVars_of_wf hf2
    have hnI : numVars I = n + 1 := numVars_of_wf hiw
    have h1 : ¬ 65536 ≤ n + 1 := by omega
    have h3 : ¬ n + 1 = 0 := by omega
    simp only [substitute, hcf, hcg, Bool.not_true, Bool.false_eq_true, if_false, hnf, hng, h1, ef1, ok_bind,
      ef2, hx, not_true_eq_false, eg1, eg2, hnF2, hI, binaryOpWithExistsO, hnI, ne_eq, hS, er, hnS1, h3,
      Nat.add_sub_cancel, e9]
  · intro v
    rw [k9.den v, kr.den, hsden]
    rw [hiden, hiden, dfden, dfden, dgden, dgden]
    -- the shifted valuations agree with `v[x := b]` resp. `v` on the first `n` variables
    have eF : ∀ b, evalArr f (fun y => upd (fun z => v (applyMap (shiftDown x n) z)) (x + 1) b
        (applyMap (shiftUp x n) y)) = evalArr f (upd v x b) := by
      intro b
      apply evalArr_congr hf
      intro y hy
      simp only [upd, applyMap_shiftUp, applyMap_shiftDown]
      by_cases h1 : y = x
      · subst h1; simp [hy]
      · by_cases h2 : x ≤ y
        · have c1 : x ≤ y ∧ y < n := ⟨h2, hy⟩
          have c3 : x + 2 ≤ y + 1 ∧ y + 1 ≤ n := by omega
          simp [c1, c3, h1]
        · have c1 : ¬ (x ≤ y ∧ y < n) := by omega
          have c2 : ¬ y = x + 1 := by omega
          have c3 : ¬ (x + 2 ≤ y ∧ y ≤ n) := by omega
          simp [c1, c2, c3, h1]
    have eG : ∀ b, evalArr g (fun y => upd (fun z => v (applyMap (shiftDown x n) z)) (x + 1) b
        (applyMap (shiftUp (x + 1) n) y)) = evalArr g v := by
      intro b
      apply evalArr_congr hg
      intro y hy
      simp only [upd, applyMap_shiftUp, applyMap_shiftDown]
      by_cases h2 : x + 1 ≤ y
      · have c1 : x + 1 ≤ y ∧ y < n := ⟨h2, hy⟩
        have c2 : ¬ y = x := by omega
        have c3 : x + 2 ≤ y + 1 ∧ y + 1 ≤ n := by omega
        simp [c1, c2, c3]
      · have c1 : ¬ (x + 1 ≤ y ∧ y < n) := by omega
        have c2 : ¬ y = x + 1 := by omega
        have c3 : ¬ (x + 2 ≤ y ∧ y ≤ n) := by omega
        simp [c1, c2, c3]
    rw [eF, eF, eG, eG]
    have e : ∀ b, upd (fun z => v (applyMap (shiftDown x n) z)) (x + 1) b (x + 1) = b := by
      intro b; simp [upd]
    rw [e, e]
    exact subst_bool (fun b => evalArr f (upd v x b)) (evalArr g v)
  · intro _ h2
    rw [size_setTerm, ← hS1, size_mapVars] at h2
    apply k9.red
    rw [hnS1]
    apply kr.red
    rw [hnS]
    exact hsred h2

/-- on the safe path (`x` occurs in `f` but not in `g`) the result is exactly the canonical array of the
    composition -/
theorem substitute_safe_canonical (f g : Arr) (n x : Nat) (hf : WFo f n) (hg : WFo g n)
    (hxf : x ∈ supportSet f) (hxg : x ∉ supportSet g) :
    substitute f x g = .ok (canon n (fun v => evalArr f (upd v x (evalArr g v)))) := by
  have hnf : numVars f = n := numVars_of_wf hf
  have hx : x < n := supportSet_lt hf x hxf
  have hcf : (supportSet f).contains x = true := by simpa using hxf
  have hcg : (supportSet g).contains x = false := by simpa using hxg
  obtain ⟨hiw, hiden⟩ := iff_var_spec g n x hg hx
  have hc := exists_and_canon f _ n x hf hiw hx
  simp only [substitute, hcf, hcg, Bool.not_true, Bool.not_false, Bool.false_eq_true, if_false, if_true,
    binaryOpWithExistsO, hnf, numVars_of_wf hiw, ne_eq, not_true_eq_false]
  rw [hc]
  congr 1
  apply canon_congr
  intro v
  rw [hiden, hiden, evalArr_upd_of_not_mem g x hxg, evalArr_upd_of_not_mem g x hxg]
  have e : ∀ b, upd v x b x = b := by intro b; simp [upd]
  rw [e, e]
  exact subst_bool (fun b => evalArr f (upd v x b)) (evalArr g v)

/-! ## Non-vacuity -/

/-- `f = ¬x0 ∧ ¬x2`, `g = ¬x0 ∧ ¬x1 ∧ ¬x2`, `x = x0` over 3 variables — the operands on which the code
    before commit 772e69f returned `x0 ∧ ¬x2` -/
def exF : Arr := #[⟨3, 0, 0⟩, ⟨3, 1, 1⟩, ⟨2, 1, 0⟩, ⟨0, 2, 0⟩]
def exG : Arr := #[⟨3, 0, 0⟩, ⟨3, 1, 1⟩, ⟨2, 1, 0⟩, ⟨1, 2, 0⟩, ⟨0, 3, 0⟩]
theorem exF_wf : WFo exF 3 := wfoB_sound (by decide)
theorem exG_wf : WFo exG 3 := wfoB_sound (by decide)

/-- the hypotheses of `substitute_spec` hold for the clash-path operands of the fixed defect, and the
    function it pins down there is `(x0 ∨ x1) ∧ ¬x2` -/
example : ∃ r, substitute exF 0 exG = .ok r ∧ WFo r 3 ∧
    (∀ v, evalArr r v = evalArr exF (upd v 0 (evalArr exG v))) ∧ (0 ∈ supportSet exF → 2 ≤ r.size → Red r 3) :=
  substitute_spec exF exG 3 0 exF_wf exG_wf (by omega)
example : 0 ∈ supportSet exF ∧ 0 ∈ supportSet exG := by decide
example : (List.range 8).map (fun i => evalArr exF (upd (valOfIndex 3 i) 0 (evalArr exG (valOfIndex 3 i)))) =
    [false, false, true, false, true, false, true, false] := by decide

/-- safe path: `g = x1` does not mention `x0` -/
def exG1 : Arr := #[⟨3, 0, 0⟩, ⟨3, 1, 1⟩, ⟨1, 0, 1⟩]
theorem exG1_wf : WFo exG1 3 := wfoB_sound (by decide)
example : substitute exF 0 exG1 = .ok (canon 3 (fun v => evalArr exF (upd v 0 (evalArr exG1 v)))) :=
  substitute_safe_canonical exF exG1 3 0 exF_wf exG1_wf (by decide) (by decide)

end B.Props.C07
