import BddVerif.Lemmas.Flip
import BddVerif.Lemmas.TernaryCanon
import BddVerif.Model.Limit
import BddVerif.Gen.OpTables
/-!
# C04 — fused variable flips act as input/output bit inversion

Property theorems about the model of `fused_binary_flip_op` (`Lim.fusedBinaryFlipOp`, whose `ok` value is
`applyWithFlip`) and of `fused_ternary_flip_op` (`Lim.fusedTernaryFlipOp`). Helper lemmas live in
`Lemmas/Flip.lean` and `Core/*`. `Gen.and_` (used by the separately performed flip) is regenerated from
`src/op_function.rs` on every run.

Reading guide: an operand `A` over `n` variables denotes the function `u ↦ evW A n u (root A)`; the result
array `X` denotes `den X`; `inv f v` is the valuation `v` with the variable `f` inverted (`inv none v = v`).
-/
namespace B.Props.C04
open B B.Lim

/-- `inv none` is the identity: an absent flip does nothing -/
theorem inv_none (v : Nat → Bool) : inv none v = v := rfl
/-- `inv (some x) v` is `v` with exactly the bit of variable `x` inverted -/
theorem inv_some (x : Nat) (v : Nat → Bool) (j : Nat) : inv (some x) v j = if j = x then !(v j) else v j := rfl

/-- **fused2_spec.** The fused binary operator returns the function `r` with `r(v) = g(v with the output-flip
    variable inverted)` where `g(u) = c (L(u with L's flip variable inverted)) (R(u with R's flip variable
    inverted))`; absent flips are the identity (`inv_none`). All well-formed operands (merely valid ones
    included), all consistent partial tables, all flip combinations (equal, distinct, on variables nobody
    mentions). -/
theorem fused2_spec (L R : Arr) (n : Nat) (op : Op2) (c : Bool → Bool → Bool) (fl fr fo : Option Nat)
    (hL : WFo L n) (hR : WFo R n) (hc : Consistent op c)
    (hfl : ∀ x, fl = some x → x < n) (hfr : ∀ x, fr = some x → x < n) (hfo : ∀ x, fo = some x → x < n) :
    let g : (Nat → Bool) → Bool := fun u => c (evW L n (inv fl u) (root L)) (evW R n (inv fr u) (root R))
    ∀ v, den (applyWithFlip L R op fl fr fo) v = g (inv fo v) := by
  intro g v
  exact applyWithFlip_den L R n op c fl fr fo hL hR hc hfl hfr hfo v

/-- the same statement for the result used as an operand of a later operation (`evW` instead of `den`),
    together with its well-formedness -/
theorem fused2_operand (L R : Arr) (n : Nat) (op : Op2) (c : Bool → Bool → Bool) (fl fr fo : Option Nat)
    (hL : WFo L n) (hR : WFo R n) (hc : Consistent op c)
    (hfl : ∀ x, fl = some x → x < n) (hfr : ∀ x, fr = some x → x < n) (hfo : ∀ x, fo = some x → x < n) :
    WFo (applyWithFlip L R op fl fr fo) n ∧
    ∀ v, evW (applyWithFlip L R op fl fr fo) n v (root (applyWithFlip L R op fl fr fo)) =
      c (evW L n (inv fl (inv fo v)) (root L)) (evW R n (inv fr (inv fo v)) (root R)) := by
  rw [applyWithFlip_eq_canon L R n op c fl fr fo hL hR (numVars_of_wf hL) hc hfl hfr hfo]
  exact ⟨canon_wfo n _ (specFn_dep L R n c fl fr fo hL hR),
    fun v => canon_evW n _ (specFn_dep L R n c fl fr fo hL hR) v⟩

/-! ### the separately performed steps -/

theorem and_consistent : Consistent Gen.and_ (fun a b => a && b) := by
  refine ⟨?_, ?_, ?_, ?_⟩
  · intro x y; cases x <;> cases y <;> rfl
  · intro x r h y; cases x <;> cases y <;> simp_all [Gen.and_]
  · intro y r h x; cases x <;> cases y <;> simp_all [Gen.and_]
  · intro r h; simp [Gen.and_] at h

/-- a single flip as its own library call: `fused_binary_flip_op((b, x), (true, None), None, and)`;
    an absent flip is no call at all -/
def flipB (b : Arr) : Option Nat → Arr
  | none => b
  | some x => applyWithFlip b (mkTrue (numVars b)) Gen.and_ (some x) none none

/-- flip the operands, apply the plain operator, flip the output — four separate library calls -/
def separate2 (L R : Arr) (op : Op2) (fl fr fo : Option Nat) : Arr :=
  flipB (applyWithFlip (flipB L fl) (flipB R fr) op none none none) fo

theorem flipB_some_eq (b : Arr) (n x : Nat) (hb : WFo b n) (hx : x < n) :
    flipB b (some x) = canon n (fun v => evW b n (inv (some x) v) (root b)) := by
  show applyWithFlip b (mkTrue (numVars b)) Gen.and_ (some x) none none = _
  rw [numVars_of_wf hb,
    applyWithFlip_eq_canon b (mkTrue n) n Gen.and_ (fun a b => a && b) (some x) none none hb (wfo_mkTrue n)
      (numVars_of_wf hb) and_consistent (fun y h => by cases h; exact hx) (by simp) (by simp)]
  apply canon_congr
  intro v
  have : evW (mkTrue n) n (inv none (inv none v)) (root (mkTrue n)) = true := by
    simp [root, mkTrue, evW_one]
  rw [this, Bool.and_true]; rfl

theorem flip_dep (b : Arr) (n : Nat) (f : Option Nat) (hb : WFo b n) :
    Dep n (fun v => evW b n (inv f v) (root b)) := by
  intro v w h
  apply evW_indep hb n _ (root_lt hb) (by omega)
  intro i _ hin
  exact inv_agree _ _ _ _ (h i hin)

/-- a separately performed flip yields a well-formed operand denoting the bit-inverted function -/
theorem flipB_spec (b : Arr) (n : Nat) (f : Option Nat) (hb : WFo b n) (hf : ∀ x, f = some x → x < n) :
    WFo (flipB b f) n ∧ ∀ v, evW (flipB b f) n v (root (flipB b f)) = evW b n (inv f v) (root b) := by
  cases f with
  | none => exact ⟨hb, fun v => rfl⟩
  | some x =>
    rw [flipB_some_eq b n x hb (hf x rfl)]
    exact ⟨canon_wfo n _ (flip_dep b n (some x) hb), fun v => canon_evW n _ (flip_dep b n (some x) hb) v⟩

/-- **fused_eq_separate.** The fused result is IDENTICAL (same nodes at the same indices) to the result of
    performing the flips and the operator as separate steps, for any combination of equal or different flip
    variables, including absent ones and variables the operands do not depend on. -/
theorem fused_eq_separate (L R : Arr) (n : Nat) (op : Op2) (c : Bool → Bool → Bool) (fl fr fo : Option Nat)
    (hL : WFo L n) (hR : WFo R n) (hc : Consistent op c)
    (hfl : ∀ x, fl = some x → x < n) (hfr : ∀ x, fr = some x → x < n) (hfo : ∀ x, fo = some x → x < n) :
    applyWithFlip L R op fl fr fo = separate2 L R op fl fr fo := by
  obtain ⟨hL', eL⟩ := flipB_spec L n fl hL hfl
  obtain ⟨hR', eR⟩ := flipB_spec R n fr hR hfr
  obtain ⟨hM, eM⟩ := fused2_operand (flipB L fl) (flipB R fr) n op c none none none hL' hR' hc (by simp) (by simp) (by simp)
  rw [applyWithFlip_eq_canon L R n op c fl fr fo hL hR (numVars_of_wf hL) hc hfl hfr hfo]
  unfold separate2
  cases fo with
  | none =>
    show _ = applyWithFlip (flipB L fl) (flipB R fr) op none none none
    rw [applyWithFlip_eq_canon (flipB L fl) (flipB R fr) n op c none none none hL' hR' (numVars_of_wf hL') hc
      (by simp) (by simp) (by simp)]
    apply canon_congr
    intro v
    rw [eL, eR]; rfl
  | some x =>
    rw [flipB_some_eq _ n x hM (hfo x rfl)]
    apply canon_congr
    intro v
    rw [eM, eL, eR]; rfl

/-- **flip_bounds.** In the model of the public function, the `panic` outcome occurs exactly when the variable
    counts differ or some flip variable is `≥ num_vars` (`check_flip_bounds`); otherwise the outcome is `ok`
    with the array of `applyWithFlip`. Nothing else panics. -/
theorem flip_bounds (L R : Arr) (op : Op2) (fl fr fo : Option Nat) :
    ((fusedBinaryFlipOp L R op fl fr fo).isPanic = true ↔
      (numVars R ≠ numVars L ∨ (∃ x, fl = some x ∧ numVars L ≤ x) ∨ (∃ x, fr = some x ∧ numVars L ≤ x) ∨
        (∃ x, fo = some x ∧ numVars L ≤ x))) ∧
    ((fusedBinaryFlipOp L R op fl fr fo).isPanic = false →
      fusedBinaryFlipOp L R op fl fr fo = .ok (applyWithFlip L R op fl fr fo)) := by
  have hflip : ∀ f : Option Nat, flipOk (numVars L) f = false ↔ ∃ x, f = some x ∧ numVars L ≤ x := by
    intro f
    cases f with
    | none => simp [flipOk]
    | some x => simp [flipOk]
  unfold fusedBinaryFlipOp
  by_cases hn : numVars R ≠ numVars L
  · simp [hn, Outcome.isPanic]
  · simp only [hn, if_false]
    by_cases hok : (flipOk (numVars L) fl && flipOk (numVars L) fr && flipOk (numVars L) fo) = true
    · have h1 : flipOk (numVars L) fl = true := by simp only [Bool.and_eq_true] at hok; exact hok.1.1
      have h2 : flipOk (numVars L) fr = true := by simp only [Bool.and_eq_true] at hok; exact hok.1.2
      have h3 : flipOk (numVars L) fo = true := by simp only [Bool.and_eq_true] at hok; exact hok.2
      have n1 : ¬ ∃ x, fl = some x ∧ numVars L ≤ x := fun h => by rw [← hflip, h1] at h; cases h
      have n2 : ¬ ∃ x, fr = some x ∧ numVars L ≤ x := fun h => by rw [← hflip, h2] at h; cases h
      have n3 : ¬ ∃ x, fo = some x ∧ numVars L ≤ x := fun h => by rw [← hflip, h3] at h; cases h
      simp [hok, Outcome.isPanic, n1, n2, n3]
    · have : (flipOk (numVars L) fl = false ∨ flipOk (numVars L) fr = false) ∨ flipOk (numVars L) fo = false := by
        cases h1 : flipOk (numVars L) fl <;> cases h2 : flipOk (numVars L) fr <;>
          cases h3 : flipOk (numVars L) fo <;> simp_all
      have hbad : (∃ x, fl = some x ∧ numVars L ≤ x) ∨ (∃ x, fr = some x ∧ numVars L ≤ x) ∨
          (∃ x, fo = some x ∧ numVars L ≤ x) := by
        rcases this with (h | h) | h
        · exact Or.inl ((hflip fl).1 h)
        · exact Or.inr (Or.inl ((hflip fr).1 h))
        · exact Or.inr (Or.inr ((hflip fo).1 h))
      simp only [hok]
      simp [Outcome.isPanic, hbad]

/-- the bound hypotheses of the theorems above are exactly "no panic" -/
theorem no_panic_of_bounds (L R : Arr) (n : Nat) (op : Op2) (fl fr fo : Option Nat)
    (hL : WFo L n) (hR : WFo R n)
    (hfl : ∀ x, fl = some x → x < n) (hfr : ∀ x, fr = some x → x < n) (hfo : ∀ x, fo = some x → x < n) :
    fusedBinaryFlipOp L R op fl fr fo = .ok (applyWithFlip L R op fl fr fo) := by
  apply (flip_bounds L R op fl fr fo).2
  have hn := numVars_of_wf hL
  have hn' := numVars_of_wf hR
  cases hp : (fusedBinaryFlipOp L R op fl fr fo).isPanic with
  | false => rfl
  | true =>
    exfalso
    rcases (flip_bounds L R op fl fr fo).1.1 hp with h | ⟨x, e, h⟩ | ⟨x, e, h⟩ | ⟨x, e, h⟩
    · exact h (by rw [hn, hn'])
    · have := hfl x e; omega
    · have := hfr x e; omega
    · have := hfo x e; omega

/-! ### three operands (simulation theorem `ternaryApply_eq_canon` from `Lemmas/TernaryCanon.lean`) -/

/-- **fused3_spec.** The fused ternary operator returns `r` with `r(v) = g(v with the output-flip variable
    inverted)`, `g(u) = c (A(u with A's flip inverted)) (B(u with B's flip inverted)) (C(u with C's flip
    inverted))`; absent flips are the identity. -/
theorem fused3_spec (A B C : Arr) (n : Nat) (op : Op3) (c : Bool → Bool → Bool → Bool) (fa fb fc fo : Option Nat)
    (hA : WFo A n) (hB : WFo B n) (hC : WFo C n) (hc : Consistent3 op c)
    (hfa : ∀ x, fa = some x → x < n) (hfb : ∀ x, fb = some x → x < n) (hfc : ∀ x, fc = some x → x < n)
    (_hfo : ∀ x, fo = some x → x < n) :
    let g : (Nat → Bool) → Bool := fun u =>
      c (evW A n (inv fa u) (root A)) (evW B n (inv fb u) (root B)) (evW C n (inv fc u) (root C))
    ∀ v, den (ternaryApply A B C op fa fb fc fo) v = g (inv fo v) := by
  intro g v
  exact ternaryApply_den A B C n op c fa fb fc fo hA hB hC hc hfa hfb hfc v

theorem fused3_operand (A B C : Arr) (n : Nat) (op : Op3) (c : Bool → Bool → Bool → Bool) (fa fb fc fo : Option Nat)
    (hA : WFo A n) (hB : WFo B n) (hC : WFo C n) (hc : Consistent3 op c)
    (hfa : ∀ x, fa = some x → x < n) (hfb : ∀ x, fb = some x → x < n) (hfc : ∀ x, fc = some x → x < n) :
    WFo (ternaryApply A B C op fa fb fc fo) n ∧
    ∀ v, evW (ternaryApply A B C op fa fb fc fo) n v (root (ternaryApply A B C op fa fb fc fo)) =
      c (evW A n (inv fa (inv fo v)) (root A)) (evW B n (inv fb (inv fo v)) (root B))
        (evW C n (inv fc (inv fo v)) (root C)) := by
  rw [ternaryApply_eq_canon A B C n op c fa fb fc fo hA hB hC hc hfa hfb hfc]
  exact ⟨canon_wfo n _ (specFn3_dep A B C n c fa fb fc fo hA hB hC),
    fun v => canon_evW n _ (specFn3_dep A B C n c fa fb fc fo hA hB hC) v⟩

/-- flip the three operands, apply the plain ternary operator, flip the output — five separate library calls -/
def separate3 (A B C : Arr) (op : Op3) (fa fb fc fo : Option Nat) : Arr :=
  flipB (ternaryApply (flipB A fa) (flipB B fb) (flipB C fc) op none none none none) fo

/-- **fused3_eq_separate.** The fused ternary result is identical, as an array, to the separately performed
    flips and operator, for any combination of equal or different flip variables. -/
theorem fused3_eq_separate (A B C : Arr) (n : Nat) (op : Op3) (c : Bool → Bool → Bool → Bool)
    (fa fb fc fo : Option Nat)
    (hA : WFo A n) (hB : WFo B n) (hC : WFo C n) (hc : Consistent3 op c)
    (hfa : ∀ x, fa = some x → x < n) (hfb : ∀ x, fb = some x → x < n) (hfc : ∀ x, fc = some x → x < n)
    (hfo : ∀ x, fo = some x → x < n) :
    ternaryApply A B C op fa fb fc fo = separate3 A B C op fa fb fc fo := by
  obtain ⟨hA', eA⟩ := flipB_spec A n fa hA hfa
  obtain ⟨hB', eB⟩ := flipB_spec B n fb hB hfb
  obtain ⟨hC', eC⟩ := flipB_spec C n fc hC hfc
  obtain ⟨hM, eM⟩ := fused3_operand (flipB A fa) (flipB B fb) (flipB C fc) n op c none none none none
    hA' hB' hC' hc (by simp) (by simp) (by simp)
  rw [ternaryApply_eq_canon A B C n op c fa fb fc fo hA hB hC hc hfa hfb hfc]
  unfold separate3
  cases fo with
  | none =>
    show _ = ternaryApply (flipB A fa) (flipB B fb) (flipB C fc) op none none none none
    rw [ternaryApply_eq_canon (flipB A fa) (flipB B fb) (flipB C fc) n op c none none none none hA' hB' hC' hc
      (by simp) (by simp) (by simp)]
    apply canon_congr
    intro v
    rw [eA, eB, eC]; rfl
  | some x =>
    rw [flipB_some_eq _ n x hM (hfo x rfl)]
    apply canon_congr
    intro v
    rw [eM, eA, eB, eC]; rfl

/-- the bound check of the ternary entry point (proved: it does not depend on the simulation) -/
theorem flip_bounds3 (A B C : Arr) (op : Op3) (fa fb fc fo : Option Nat)
    (hn : numVars A = numVars B ∧ numVars B = numVars C)
    (h1 : flipOk (numVars A) fa = true) (h2 : flipOk (numVars A) fb = true)
    (h3 : flipOk (numVars A) fc = true) (h4 : flipOk (numVars A) fo = true) :
    fusedTernaryFlipOp A B C op fa fb fc fo = .ok (ternaryApply A B C op fa fb fc fo) := by
  unfold fusedTernaryFlipOp
  have : ¬ (numVars A ≠ numVars B ∨ numVars B ≠ numVars C) := by
    intro h; rcases h with h | h
    · exact h hn.1
    · exact h hn.2
  simp [this, h1, h2, h3, h4]

theorem flip_bounds3_panic (A B C : Arr) (op : Op3) (fa fb fc fo : Option Nat)
    (h : numVars A ≠ numVars B ∨ numVars B ≠ numVars C ∨ flipOk (numVars A) fa = false ∨
      flipOk (numVars A) fb = false ∨ flipOk (numVars A) fc = false ∨ flipOk (numVars A) fo = false) :
    (fusedTernaryFlipOp A B C op fa fb fc fo).isPanic = true := by
  unfold fusedTernaryFlipOp
  by_cases hn : numVars A ≠ numVars B ∨ numVars B ≠ numVars C
  · simp [hn, Outcome.isPanic]
  · have hf : (flipOk (numVars A) fa && flipOk (numVars A) fb && flipOk (numVars A) fc && flipOk (numVars A) fo) = false := by
      rcases h with h | h | h | h | h | h
      · exact absurd (Or.inl h) hn
      · exact absurd (Or.inr h) hn
      · simp [h]
      · simp [h]
      · simp [h]
      · simp [h]
    simp [hn, hf, Outcome.isPanic]

/-! ### non-vacuity: the hypotheses are satisfiable on concrete non-trivial values -/

/-- all three flips present, one of them (`x1` for the left operand `x0 ∧ x2`) on a variable the operand does
    not mention -/
example : ∀ v, den (applyWithFlip exX0X2 exX1 andLazy (some 1) (some 1) (some 0)) v =
    (fun u => evW exX0X2 3 (inv (some 1) u) (root exX0X2) && evW exX1 3 (inv (some 1) u) (root exX1)) (inv (some 0) v) :=
  fused2_spec exX0X2 exX1 3 andLazy (fun x y => x && y) (some 1) (some 1) (some 0)
    exX0X2_wf exX1_wf andLazy_consistent (by simp) (by simp) (by simp)

example : applyWithFlip exX0X2 exX1 andLazy (some 2) (some 1) (some 0) =
    separate2 exX0X2 exX1 andLazy (some 2) (some 1) (some 0) :=
  fused_eq_separate exX0X2 exX1 3 andLazy (fun x y => x && y) (some 2) (some 1) (some 0)
    exX0X2_wf exX1_wf andLazy_consistent (by simp) (by simp) (by simp)

/-- ... and the common value is a concrete non-trivial array (see `Core/ApplyCanon.lean`) -/
example : separate2 exX0X2 exX1 andLazy (some 2) (some 1) (some 0) =
    #[⟨3, 0, 0⟩, ⟨3, 1, 1⟩, ⟨2, 1, 0⟩, ⟨1, 2, 0⟩, ⟨0, 3, 0⟩] := by
  rw [← fused_eq_separate exX0X2 exX1 3 andLazy (fun x y => x && y) (some 2) (some 1) (some 0)
    exX0X2_wf exX1_wf andLazy_consistent (by simp) (by simp) (by simp)]
  exact (applyWithFlip_eq_canon exX0X2 exX1 3 andLazy (fun x y => x && y) (some 2) (some 1) (some 0)
    exX0X2_wf exX1_wf rfl andLazy_consistent (by simp) (by simp) (by simp)).trans (by decide)

/-- ternary: `if_then_else` table, three level-skipping / single-variable operands, all four flips present -/
example : ternaryApply exX0X2 exX1 exX2 Gen.ite_ (some 2) (some 1) (some 0) (some 1) =
    separate3 exX0X2 exX1 exX2 Gen.ite_ (some 2) (some 1) (some 0) (some 1) :=
  fused3_eq_separate exX0X2 exX1 exX2 3 Gen.ite_ (fun a b c => if a then b else c) (some 2) (some 1) (some 0) (some 1)
    exX0X2_wf exX1_wf exX2_wf ite_consistent3 (by simp) (by simp) (by simp) (by simp)

/-- an out-of-range flip is the `panic` outcome -/
example : (fusedBinaryFlipOp exX0 exX1 andLazy none (some 3) none).isPanic = true :=
  (flip_bounds exX0 exX1 andLazy none (some 3) none).1.2 (Or.inr (Or.inr (Or.inl ⟨3, rfl, by decide⟩)))

end B.Props.C04
