/-! # C04 — property theorems (to be written) -/
namespace B.Props.C04
end B.Props.C04
