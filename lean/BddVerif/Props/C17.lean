/-! # C17 — property theorems (to be written) -/
namespace B.Props.C17
end B.Props.C17
