import BddVerif.Lemmas.Transfer
import BddVerif.Lemmas.RenameCanonical
/-!
# C17 — variable renaming and transfer keep the function or refuse

All statements are about the executable model `Model/Rename.lean` (tied to the Rust code by the
correspondence stream `C17.*`), for every valid diagram `b` (`WFo`: terminals exact, variables in range,
links in range, variables strictly increasing along links — index order NOT required), every map and
every pair of name lists. The denotation is `evalArr`, the evaluator the driver uses for truth tables.

Each operation either returns `ok r` where `r` is `Kept` (valid, the stated variable count, the original
function under the renaming, reduced if the input was, same layout), or refuses (`panic`, resp. `err` =
`None` for `transfer_from`); which of the two happens is characterised exactly.
-/
namespace B.Props.C17
open B B.Drive B.Ren

/-- `r` is a valid diagram over `m` variables that denotes `v ↦ b (v ∘ g)`; it is reduced if `b` was and
    has the very same links (so the post-order test of `isCanon` gives the same answer) -/
structure Kept (b r : Arr) (m : Nat) (g : Nat → Nat) : Prop where
  valid : WFo r m
  count : numVars r = m
  den : ∀ v, evalArr r v = evalArr b (fun x => v (g x))
  red : Red b (numVars b) → Red r m
  layout : SameLinks r b

theorem kept_of_retarget {b : Arr} (m : Nat) (g : Nat → Nat) (hb : WFo b (numVars b))
    (hlt : ∀ x ∈ supportSet b, g x < m)
    (hmono : ∀ x ∈ supportSet b, ∀ y ∈ supportSet b, x < y → g x < g y) :
    Kept b (mapVars g (setTerm m b)) m g := by
  obtain ⟨h1, h2, h3, h4, h5⟩ := retarget_spec m g hb hlt hmono
  exact ⟨h1, h2, h3, h4, h5⟩

/-- an order-preserving renaming of a canonical (reduced + high-first post-order) array is canonical:
    reducedness is kept and the post-order test sees the same links -/
theorem kept_canonical_structure {b r : Arr} {m : Nat} {g : Nat → Nat} (h : Kept b r m g)
    (hred : Red b (numVars b)) :
    Red r m ∧ ∀ fuel p st, postOrder r fuel p st = postOrder b fuel p st :=
  ⟨h.red hred, postOrder_sameLinks h.layout⟩

/-! ## `set_num_vars` -/

/-- `set_num_vars(m)` succeeds exactly when every used variable is below `m`; then the result is valid
    over `m` variables and denotes the same function; otherwise it panics. -/
theorem set_num_vars_safe (b : Arr) (m : Nat) (hb : WFo b (numVars b)) :
    ((∀ x ∈ supportSet b, x < m) →
      setNumVars b m = .ok (setTerm m b) ∧ Kept b (setTerm m b) m (fun x => x)) ∧
    (¬ (∀ x ∈ supportSet b, x < m) → ∃ msg, setNumVars b m = .panic msg) := by
  have hsz : b.size ≠ 0 := by have := hb.size_pos; omega
  have hany : (b.toList.drop 2).any (fun nd => decide (m ≤ nd.var)) = true ↔ ¬ ∀ x ∈ supportSet b, x < m := by
    rw [List.any_eq_true]
    constructor
    · rintro ⟨nd, hnd, hle⟩ hall
      have := hall nd.var ((mem_supportSet' b _).mpr ⟨nd, hnd, rfl⟩)
      simp at hle; omega
    · intro h
      apply Classical.byContradiction
      intro hno
      apply h
      intro x hx
      obtain ⟨nd, hnd, rfl⟩ := (mem_supportSet' b x).mp hx
      rcases Nat.lt_or_ge nd.var m with h' | h'
      · exact h'
      · exact absurd ⟨nd, hnd, by simpa using h'⟩ hno
  constructor
  · intro hall
    have : ¬ (b.toList.drop 2).any (fun nd => decide (m ≤ nd.var)) = true := fun h => hany.mp h hall
    refine ⟨by simp only [setNumVars, hsz, this, if_false, Bool.false_eq_true], ?_⟩
    have := kept_of_retarget m (fun x => x) hb hall (fun x _ y _ h => h)
    rwa [mapVars_id] at this
  · intro hnot
    exact ⟨_, by simp only [setNumVars, hsz, hany.mpr hnot, if_true, if_false] <;> rfl⟩

/-! ## `rename_variables` -/

/-- the renaming is admissible: on the support it stays in range and is strictly increasing -/
def Admissible (b : Arr) (g : Nat → Nat) : Prop :=
  (∀ x ∈ supportSet b, g x < numVars b) ∧ (∀ x ∈ supportSet b, ∀ y ∈ supportSet b, x < y → g x < g y)

/-- `rename_variables(π)`: if `π` (identity outside its keys) is admissible on the support the result is
    `ok r` with `r` valid and `r(v) = b(v ∘ π)`; otherwise the call panics. Keys outside the support —
    the key `num_vars` included — are irrelevant. In particular never `ok` with an invalid diagram. -/
theorem rename_variables_safe (b : Arr) (π : VarMap) (hb : WFo b (numVars b)) :
    (Admissible b (applyMap π) → renameVariables b π = .ok (mapVars (applyMap π) b) ∧
      Kept b (mapVars (applyMap π) b) (numVars b) (applyMap π)) ∧
    (¬ Admissible b (applyMap π) → ∃ msg, renameVariables b π = .panic msg) := by
  have hall : ((supportSet b).map (applyMap π)).all (fun x => decide (x < numVars b)) = true ↔
      ∀ x ∈ supportSet b, applyMap π x < numVars b := by
    simp [List.all_eq_true]
  have hchain : chainLt ((supportSet b).map (applyMap π)) = true ↔
      ∀ x ∈ supportSet b, ∀ y ∈ supportSet b, x < y → applyMap π x < applyMap π y := by
    rw [chainLt_iff]
    exact ⟨mono_of_sorted_map _ _ (sorted_supportSet b), sorted_map_of_mono _ _ (sorted_supportSet b)⟩
  constructor
  · rintro ⟨h1, h2⟩
    have hk := kept_of_retarget (numVars b) (applyMap π) hb h1 h2
    rw [setTerm_self hb] at hk
    by_cases hemp : (supportSet b).isEmpty = true
    · have : mapVars (applyMap π) b = b :=
        mapVars_small _ b ((supportSet_eq_nil b).mp (List.isEmpty_iff.mp hemp))
      refine ⟨?_, hk⟩
      rw [this]
      simp only [renameVariables, hemp, if_true]
    · refine ⟨?_, hk⟩
      simp only [renameVariables, hemp, hall.mpr h1, hchain.mpr h2]
      rfl
  · intro hnot
    have hemp : ¬ (supportSet b).isEmpty = true := by
      intro h
      apply hnot
      unfold Admissible
      rw [List.isEmpty_iff.mp h]
      exact ⟨fun x hx => (by cases hx), fun x hx => (by cases hx)⟩
    by_cases h1 : ∀ x ∈ supportSet b, applyMap π x < numVars b
    · have h2 : ¬ chainLt ((supportSet b).map (applyMap π)) = true := fun h => hnot ⟨h1, hchain.mp h⟩
      exact ⟨_, by simp only [renameVariables, hemp, hall.mpr h1, h2]; rfl⟩
    · have h1' : ¬ ((supportSet b).map (applyMap π)).all (fun x => decide (x < numVars b)) = true :=
        fun h => h1 (hall.mp h)
      exact ⟨_, by simp only [renameVariables, hemp, h1']; rfl⟩

/-! ## `rename_variable` -/

/-- `rename_variable(old, new)` is accepted exactly in this situation -/
def RenameOk (b : Arr) (old new : Nat) : Prop :=
  old < numVars b ∧ new < numVars b ∧
    (old = new ∨ (new ∉ supportSet b ∧ ∀ i ∈ supportSet b, ¬ (min old new < i ∧ i < max old new)))

theorem rename_variable_safe (b : Arr) (old new : Nat) (hb : WFo b (numVars b)) :
    (RenameOk b old new →
      renameVariable b old new = .ok (mapVars (fun x => if x = old then new else x) b) ∧
      Kept b (mapVars (fun x => if x = old then new else x) b) (numVars b) (fun x => if x = old then new else x)) ∧
    (¬ RenameOk b old new → ∃ msg, renameVariable b old new = .panic msg) := by
  have hany : (supportSet b).any (fun i => decide (min old new < i) && decide (i < max old new)) = true ↔
      ¬ ∀ i ∈ supportSet b, ¬ (min old new < i ∧ i < max old new) := by
    rw [List.any_eq_true]
    constructor
    · rintro ⟨i, hi, h⟩ hall
      simp only [Bool.and_eq_true, decide_eq_true_eq] at h
      exact hall i hi h
    · intro h
      apply Classical.byContradiction
      intro hno
      apply h
      intro i hi hbetween
      exact hno ⟨i, hi, by simpa using hbetween⟩
  have hcont : (supportSet b).contains new = true ↔ new ∈ supportSet b := by simp
  constructor
  · rintro ⟨ho, hn, hrest⟩
    -- the final loop visits the terminals too, but their variable is `num_vars ≠ old`
    have hmapeq : (b.map fun nd => if nd.var = old then { nd with var := new } else nd) =
        mapVars (fun x => if x = old then new else x) b := by
      apply Array.ext_getElem?
      intro i
      rw [Array.getElem?_map]
      by_cases hi : i < 2
      · rw [getElem?_mapVars_lt _ b i hi]
        match i, hi with
        | 0, _ =>
          rw [hb.zero]; simp only [Option.map_some]
          have : ¬ numVars b = old := by omega
          simp [this]
        | 1, _ =>
          rcases Nat.lt_or_ge 1 b.size with h | h
          · rw [hb.one (by omega)]; simp only [Option.map_some]
            have : ¬ numVars b = old := by omega
            simp [this]
          · rw [Array.getElem?_eq_none (by omega)]; rfl
      · rw [getElem?_mapVars_ge _ b i (by omega)]
        cases b[i]? with
        | none => rfl
        | some nd =>
          simp only [Option.map_some]
          by_cases hv : nd.var = old <;> simp [hv]
    have hlt0 := supportSet_lt hb
    by_cases heq : old = new
    · have hk := kept_of_retarget (numVars b) (fun x => if x = old then new else x) hb
        (fun x hx => by have := hlt0 x hx; split <;> omega)
        (fun x _ y _ hxy => by split <;> split <;> omega)
      rw [setTerm_self hb] at hk
      have : mapVars (fun x => if x = old then new else x) b = b := by
        rw [mapVars_congr _ (fun x => x) b (fun x _ => by split <;> omega), mapVars_id]
      refine ⟨?_, hk⟩
      rw [this]
      simp only [renameVariable, ho, hn, heq, not_true_eq_false, if_false, if_true]
    · rcases hrest with h | ⟨hnew, hbetween⟩
      · exact absurd h heq
      · have hk := kept_of_retarget (numVars b) (fun x => if x = old then new else x) hb
          (fun x hx => by have := hlt0 x hx; split <;> omega)
          (fun x hx y hy hxy => by
            have bx := hbetween x hx
            have by' := hbetween y hy
            have nx : x ≠ new := fun h => hnew (h ▸ hx)
            have ny : y ≠ new := fun h => hnew (h ▸ hy)
            split <;> split <;> omega)
        rw [setTerm_self hb] at hk
        refine ⟨?_, hk⟩
        have h1 : ¬ (supportSet b).any (fun i => decide (min old new < i) && decide (i < max old new)) = true :=
          fun h => hany.mp h hbetween
        have h2 : ¬ (supportSet b).contains new = true := fun h => hnew (hcont.mp h)
        simp only [renameVariable, ho, hn, heq, h1, h2, not_true_eq_false, if_false, Bool.false_eq_true]
        rw [hmapeq]
  · intro hnot
    by_cases ho : old < numVars b
    · by_cases hn : new < numVars b
      · by_cases heq : old = new
        · exact absurd ⟨ho, hn, Or.inl heq⟩ hnot
        · by_cases h1 : (supportSet b).any (fun i => decide (min old new < i) && decide (i < max old new)) = true
          · exact ⟨_, by simp only [renameVariable, ho, hn, heq, h1, not_true_eq_false, if_false, if_true] <;> rfl⟩
          · by_cases h2 : (supportSet b).contains new = true
            · exact ⟨_, by simp only [renameVariable, ho, hn, heq, h1, h2, not_true_eq_false, if_false, if_true, Bool.false_eq_true] <;> rfl⟩
            · exfalso
              apply hnot
              refine ⟨ho, hn, Or.inr ⟨fun h => h2 (hcont.mpr h), ?_⟩⟩
              apply Classical.byContradiction
              intro hno
              exact h1 (hany.mpr hno)
      · exact ⟨_, by simp only [renameVariable, ho, hn, not_true_eq_false, not_false_eq_true, if_false, if_true] <;> rfl⟩
    · exact ⟨_, by simp only [renameVariable, ho, not_false_eq_true, if_true] <;> rfl⟩

/-! ## `transfer_from` -/

/-- every support variable has a same-named variable in the target set and the name-induced map is
    strictly increasing on the support -/
def Transferable (tgt src : List String) (b : Arr) : Prop :=
  (∀ x ∈ supportSet b, (nameMap tgt src x).isSome) ∧
  (∀ x ∈ supportSet b, ∀ y ∈ supportSet b, x < y →
    (nameMap tgt src x).getD 0 < (nameMap tgt src y).getD 0)

/-- `target.transfer_from(b, source)` for a diagram valid in the source set: `Some r` (model: `ok r`)
    exactly when `Transferable`, and then `r` is valid in the target set and denotes the same function
    under the name correspondence; otherwise `None` (model: `err`) — never a panic. -/
theorem transfer_some_iff (tgt src : List String) (b : Arr) (hb : WFo b (numVars b))
    (hsrc : numVars b ≤ src.length) :
    (Transferable tgt src b →
      transferFrom tgt b src = .ok (mapVars (fun x => (nameMap tgt src x).getD 0) (setTerm tgt.length b)) ∧
      Kept b (mapVars (fun x => (nameMap tgt src x).getD 0) (setTerm tgt.length b)) tgt.length
        (fun x => (nameMap tgt src x).getD 0)) ∧
    (¬ Transferable tgt src b → ∃ msg, transferFrom tgt b src = .err msg) := by
  have hsz := hb.size_pos
  have hlt0 := supportSet_lt hb
  have hidx : ∀ x ∈ supportSet b, (nameMap tgt src x).isSome → (nameMap tgt src x).getD 0 < tgt.length := by
    intro x _ hs
    cases hx : nameMap tgt src x with
    | none => rw [hx] at hs; cases hs
    | some j =>
      unfold nameMap at hx
      cases hsx : src[x]? with
      | none => rw [hsx] at hx; cases hx
      | some nm =>
        rw [hsx] at hx; simp only [Option.bind_some] at hx
        obtain ⟨hj, _⟩ := List.idxOf?_eq_some_iff.mp hx
        exact hj
  have hchain : chainLt ((supportSet b).map fun x => (nameMap tgt src x).getD 0) = true ↔
      ∀ x ∈ supportSet b, ∀ y ∈ supportSet b, x < y →
        (nameMap tgt src x).getD 0 < (nameMap tgt src y).getD 0 := by
    rw [chainLt_iff]
    exact ⟨mono_of_sorted_map _ _ (sorted_supportSet b), sorted_map_of_mono _ _ (sorted_supportSet b)⟩
  constructor
  · rintro ⟨h1, h2⟩
    have hk := kept_of_retarget tgt.length (fun x => (nameMap tgt src x).getD 0) hb
      (fun x hx => hidx x hx (h1 x hx)) h2
    refine ⟨?_, hk⟩
    by_cases s1 : b.size = 1
    · unfold transferFrom; rw [if_pos s1, mkFalse_eq_retarget _ _ hb s1]
    · by_cases s2 : b.size = 2
      · unfold transferFrom; rw [if_neg s1, if_pos s2, mkTrue_eq_retarget _ _ hb s2]
      · simp only [transferFrom, s1, s2, if_false, translateSupport_ok tgt src _ h1, hchain.mpr h2]
        rw [copyNodes_ok _ _ _ (fun nd hnd => (mem_supportSet' b _).mpr ⟨nd, hnd, rfl⟩)]
        simp only [Bool.not_true, Bool.false_eq_true, if_false]
        rw [transfer_array_eq tgt.length (fun x => (nameMap tgt src x).getD 0) hb (by omega)]
  · intro hnot
    have s1 : ¬ b.size = 1 := by
      intro h; apply hnot
      have : supportSet b = [] := (supportSet_eq_nil b).mpr (by omega)
      rw [Transferable, this]; exact ⟨fun x hx => (by cases hx), fun x hx => (by cases hx)⟩
    have s2 : ¬ b.size = 2 := by
      intro h; apply hnot
      have : supportSet b = [] := (supportSet_eq_nil b).mpr (by omega)
      rw [Transferable, this]; exact ⟨fun x hx => (by cases hx), fun x hx => (by cases hx)⟩
    by_cases h1 : ∀ x ∈ supportSet b, (nameMap tgt src x).isSome
    · have h2 : ¬ chainLt ((supportSet b).map fun x => (nameMap tgt src x).getD 0) = true :=
        fun h => hnot ⟨h1, hchain.mp h⟩
      exact ⟨_, by simp only [transferFrom, s1, s2, if_false, translateSupport_ok tgt src _ h1, h2] <;> rfl⟩
    · obtain ⟨msg, hm⟩ := translateSupport_err tgt src (supportSet b)
        (fun x hx => by have := hlt0 x hx; omega) h1
      exact ⟨msg, by simp only [transferFrom, s1, s2, if_false, hm]⟩

/-- with distinct names in the target set the correspondence used above is the plain one:
    `x ↦ j` iff the `j`-th target name is the name of `x` -/
theorem transfer_name_correspondence (tgt src : List String) (htgt : tgt.Nodup) (x j : Nat) :
    nameMap tgt src x = some j ↔ ∃ nm, src[x]? = some nm ∧ tgt[j]? = some nm :=
  nameMap_eq_some_iff tgt src htgt x j

/-! ## The canonical-form clause

`Canonical A := A = canon (numVars A) (den A)` (`Lemmas/Canonical.lean`; decided by the drivers' `isCanon`,
`B.isCanon_iff`). Every accepted result of a canonical input is canonical, and it is literally the
canonical array of the renamed function. -/

/-- a `Kept` result of a canonical array is canonical and is the canonical array of `v ↦ b (v ∘ g)` -/
theorem kept_canon {b r : Arr} {m : Nat} {g : Nat → Nat} (hk : Kept b r m g) (hc : Canonical b) :
    Canonical r ∧ r = canon m (fun v => den b (fun x => v (g x))) := by
  have hcr : Canonical r := canonical_transport hc hk.valid hk.red hk.layout
  refine ⟨hcr, ?_⟩
  have h1 : r = canon (numVars r) (den r) := hcr
  rw [hk.count] at h1
  calc r = canon m (den r) := h1
    _ = canon m (fun v => den b (fun x => v (g x))) := by
      apply canon_congr
      intro v
      rw [canonical_den_eq_evalArr hcr, hk.den, canonical_den_eq_evalArr hc]

/-- `set_num_vars(m)` on a canonical diagram whose variables are all below `m`: the result is the
    canonical array of the same function over `m` variables -/
theorem set_num_vars_canonical (b : Arr) (m : Nat) (hc : Canonical b) (h : ∀ x ∈ supportSet b, x < m) :
    setNumVars b m = .ok (setTerm m b) ∧ Canonical (setTerm m b) ∧ setTerm m b = canon m (den b) := by
  obtain ⟨e, k⟩ := (set_num_vars_safe b m (canonical_wfo hc)).1 h
  obtain ⟨c1, c2⟩ := kept_canon k hc
  exact ⟨e, c1, c2⟩

/-- every renaming accepted by `rename_variables` maps a canonical diagram to the canonical array of
    the renamed function -/
theorem rename_variables_canonical (b : Arr) (π : VarMap) (hc : Canonical b)
    (h : Admissible b (applyMap π)) :
    renameVariables b π = .ok (mapVars (applyMap π) b) ∧ Canonical (mapVars (applyMap π) b) ∧
    mapVars (applyMap π) b = canon (numVars b) (fun v => den b (fun x => v (applyMap π x))) := by
  obtain ⟨e, k⟩ := (rename_variables_safe b π (canonical_wfo hc)).1 h
  obtain ⟨c1, c2⟩ := kept_canon k hc
  exact ⟨e, c1, c2⟩

/-- the same for `rename_variable(old, new)` -/
theorem rename_variable_canonical (b : Arr) (old new : Nat) (hc : Canonical b) (h : RenameOk b old new) :
    renameVariable b old new = .ok (mapVars (fun x => if x = old then new else x) b) ∧
    Canonical (mapVars (fun x => if x = old then new else x) b) ∧
    mapVars (fun x => if x = old then new else x) b =
      canon (numVars b) (fun v => den b (fun x => v (if x = old then new else x))) := by
  obtain ⟨e, k⟩ := (rename_variable_safe b old new (canonical_wfo hc)).1 h
  obtain ⟨c1, c2⟩ := kept_canon k hc
  exact ⟨e, c1, c2⟩

/-- `transfer_from` returning `Some`: the result is canonical in the target set and is the canonical
    array of the same function under the name correspondence -/
theorem transfer_canonical (tgt src : List String) (b : Arr) (hc : Canonical b)
    (hsrc : numVars b ≤ src.length) (h : Transferable tgt src b) :
    transferFrom tgt b src = .ok (mapVars (fun x => (nameMap tgt src x).getD 0) (setTerm tgt.length b)) ∧
    Canonical (mapVars (fun x => (nameMap tgt src x).getD 0) (setTerm tgt.length b)) ∧
    mapVars (fun x => (nameMap tgt src x).getD 0) (setTerm tgt.length b) =
      canon tgt.length (fun v => den b (fun x => v ((nameMap tgt src x).getD 0))) := by
  obtain ⟨e, k⟩ := (transfer_some_iff tgt src b (canonical_wfo hc) hsrc).1 h
  obtain ⟨c1, c2⟩ := kept_canon k hc
  exact ⟨e, c1, c2⟩

/-! ## Non-vacuity: the hypotheses are satisfiable on concrete, non-trivial values -/

/-- `x0 ∧ x2` over 3 variables (skips level 1) -/
def ex02 : Arr := #[⟨3, 0, 0⟩, ⟨3, 1, 1⟩, ⟨2, 0, 1⟩, ⟨0, 0, 2⟩]
theorem ex02_wf : WFo ex02 (numVars ex02) := wfoB_sound (by decide)

/-- renaming `x2 ↦ x1` is admissible and really renames -/
example : renameVariables ex02 (varMapOfList [(2, 1), (3, 0)]) =
    .ok #[⟨3, 0, 0⟩, ⟨3, 1, 1⟩, ⟨1, 0, 1⟩, ⟨0, 0, 2⟩] := rfl
example : Admissible ex02 (applyMap (varMapOfList [(2, 1), (3, 0)])) := by
  have : supportSet ex02 = [0, 2] := by decide
  unfold Admissible; rw [this]; decide
/-- swapping the two support variables is refused -/
example : ∃ msg, renameVariables ex02 (varMapOfList [(0, 2), (2, 0)]) = .panic msg := ⟨_, rfl⟩
example : RenameOk ex02 2 1 := by
  have : supportSet ex02 = [0, 2] := by decide
  unfold RenameOk; rw [this]; decide
example : ∃ msg, renameVariable ex02 0 2 = .panic msg := ⟨_, rfl⟩
example : setNumVars ex02 5 = .ok #[⟨5, 0, 0⟩, ⟨5, 1, 1⟩, ⟨2, 0, 1⟩, ⟨0, 0, 2⟩] := rfl
example : ∃ msg, setNumVars ex02 2 = .panic msg := ⟨_, rfl⟩
/-- transfer into a set that has the two names in the same order (and an extra one in front) -/
example : transferFrom ["q", "a", "c"] ex02 ["a", "b", "c"] =
    .ok #[⟨3, 0, 0⟩, ⟨3, 1, 1⟩, ⟨2, 0, 1⟩, ⟨1, 0, 2⟩] := rfl
example : Transferable ["q", "a", "c"] ["a", "b", "c"] ex02 := by
  have : supportSet ex02 = [0, 2] := by decide
  unfold Transferable; rw [this]; decide
/-- … refused when the order is reversed or a name is missing -/
example : ∃ msg, transferFrom ["c", "a"] ex02 ["a", "b", "c"] = .err msg := ⟨_, rfl⟩
example : ∃ msg, transferFrom ["a", "b"] ex02 ["a", "b", "c"] = .err msg := ⟨_, rfl⟩

/-- `ex02` is canonical, so the canonical-form clause applies to it -/
theorem ex02_canonical : Canonical ex02 := exX0X2_canonical
example : Canonical (mapVars (applyMap (varMapOfList [(2, 1), (3, 0)])) ex02) :=
  (rename_variables_canonical ex02 _ ex02_canonical (by
    have : supportSet ex02 = [0, 2] := by decide
    unfold Admissible; rw [this]; decide)).2.1

end B.Props.C17
