import BddVerif.Lemmas.DotGraph
import BddVerif.Lemmas.DotWrite
/-!
# C20 — the `.dot` export lists exactly the nodes and edges of the diagram

Property theorems about the model `Model/Dot.lean` (helper lemmas: `Lemmas/DotParse.lean`,
`Lemmas/DotGraph.lean`). `dotStmts A names pruned` is the sequence of statements written by
`write_bdd_as_dot`, `render` its exact text, `parseDot` the reader, `evalDot` the evaluation of the graph that was
read back (a missing edge or an undeclared vertex means 0).

`innerPtrs A` are the decision nodes `2 … size-1`; `nodeAt A p` is node `p`; `evW A n v (root A)` is the value of a
valid Bdd (`WFo A n`: what `validate()` accepts) under `v`, `den A v` the same for canonical arrays.
-/
namespace B.Props.C20
open B B.Dot

/-- an export that does not panic wrote `stmtsOf` -/
theorem dotStmts_eq {A : Arr} {names : List String} {pruned : Bool} {S : List Stmt}
    (h : dotStmts A names pruned = .ok S) : S = stmtsOf A names pruned := by
  unfold dotStmts at h
  split at h
  · cases h
  · split at h
    · cases h
    · split at h
      · cases h
      · cases h; rfl

/-- a valid Bdd with as many names as variables is exported without panic; a different number of names is the
    documented panic -/
theorem dot_outcome {A : Arr} {n : Nat} (hw : WFo A n) (names : List String) (pruned : Bool) :
    (names.length = n → dotStmts A names pruned = .ok (stmtsOf A names pruned)) ∧
    (names.length ≠ n → ∃ m, dotStmts A names pruned = .panic m) := by
  refine ⟨fun hn => dotStmts_ok hw names hn pruned, ?_⟩
  intro hn
  unfold dotStmts
  rw [if_neg (by have := hw.size_pos; omega), if_pos (by rw [numVars_of_wf hw]; exact hn)]
  exact ⟨_, rfl⟩

/-- the text starts with the header and ends with the footer, and these occur once -/
theorem dot_frame (A : Arr) (names : List String) (pruned : Bool) :
    ∃ body, stmtsOf A names pruned = Stmt.header :: Stmt.initNode :: body ++ [Stmt.footer] ∧
      Stmt.header ∉ body ∧ Stmt.footer ∉ body ∧ Stmt.initNode ∉ body := by
  refine ⟨[Stmt.initEdge (root A)] ++ (if pruned then [] else [Stmt.terminal false]) ++ [Stmt.terminal true] ++
    (innerPtrs A).flatMap (nodeStmts A names pruned), ?_, ?_, ?_, ?_⟩
  · unfold stmtsOf preamble; simp
  all_goals
    simp only [List.mem_append, List.mem_flatMap, not_or, not_exists, not_and]
    refine ⟨⟨⟨by simp, by cases pruned <;> simp⟩, by simp⟩, ?_⟩
    intro q _
    unfold nodeStmts
    by_cases h1 : (!pruned || (nodeAt A q).high != 0) = true <;>
    by_cases h2 : (!pruned || (nodeAt A q).low != 0) = true <;> simp [h1, h2]

/-- exactly one vertex per decision node, labelled with the name of the node's variable, in node order -/
theorem dot_vertices {A : Arr} {names : List String} {pruned : Bool} {S : List Stmt}
    (h : dotStmts A names pruned = .ok S) :
    S.filterMap vertexOf = (innerPtrs A).map fun p => (p, names[(nodeAt A p).var]?.getD "") := by
  rw [dotStmts_eq h]; exact stmts_vertices A names pruned

/-- exactly the edges of the diagram: per decision node one solid edge to its high child and one dotted edge to
    its low child (with zero-pruning: unless that child is 0); exactly one entry edge, to the root; the terminal
    vertices `0` and `1` (with zero-pruning: only `1`) -/
theorem dot_edges {A : Arr} {names : List String} {pruned : Bool} {S : List Stmt}
    (h : dotStmts A names pruned = .ok S) :
    S.filterMap edgeOf = (innerPtrs A).flatMap (nodeEdges A pruned) ∧
    S.filterMap entryEdgeOf = [root A] ∧
    S.filterMap terminalOf = (if pruned then [true] else [false, true]) := by
  rw [dotStmts_eq h]
  exact ⟨stmts_edges A names pruned, stmts_entry A names pruned, stmts_terminals A names pruned⟩

/-- the edges of one node, spelled out -/
theorem node_edges_spec (A : Arr) (p : Nat) :
    nodeEdges A false p = [(p, (nodeAt A p).high, Style.filled), (p, (nodeAt A p).low, Style.dotted)] ∧
    nodeEdges A true p = (nodeEdges A false p).filter (fun e => e.2.1 != 0) := by
  unfold nodeEdges
  by_cases h1 : (nodeAt A p).high = 0 <;> by_cases h2 : (nodeAt A p).low = 0 <;> simp [h1, h2]

/-- with zero-pruning exactly the `0` terminal and the edges of decision nodes into `0` are missing, nothing else
    changes (same outcome, same order). The entry edge is never pruned (for the constant false it points to the
    then undeclared vertex `0`). -/
theorem dot_pruned (A : Arr) (names : List String) :
    dotStmts A names true = (dotStmts A names false).map (List.filter keepPruned) := by
  unfold dotStmts
  split
  · rfl
  · split
    · rfl
    · split
      · rfl
      · simp [Outcome.map, stmts_pruned]

/-- `parse_render`, statement level: every statement is read back from its line (labels without `"`) -/
theorem parse_render (s : Stmt) (hs : SafeStmt s) : parseLine (renderStmt s) = some s :=
  parse_render_stmt s hs

/-- `parse_render`, text level: labels without `"` and without line feed -/
theorem parse_render_text (ss : List Stmt) (h1 : ∀ s ∈ ss, SafeStmt s) (h2 : ∀ s ∈ ss, LineStmt s) :
    parseDot (render ss) = some ss :=
  parseDot_render ss h1 h2

theorem stmts_safe (A : Arr) (names : List String) (pruned : Bool)
    (hnames : ∀ s ∈ names, SafeLabel s ∧ LineLabel s) :
    ∀ st ∈ stmtsOf A names pruned, SafeStmt st ∧ LineStmt st := by
  intro st hst
  unfold stmtsOf preamble at hst
  simp only [List.mem_append, List.mem_flatMap] at hst
  have hlabel : ∀ i : Nat, SafeLabel (names[i]?.getD "") ∧ LineLabel (names[i]?.getD "") := by
    intro i
    cases hg : names[i]? with
    | none => exact ⟨by simp [SafeLabel], by simp [LineLabel]⟩
    | some s => exact hnames s (List.mem_of_getElem? hg)
  have hnv : ∀ st : Stmt, (∀ p l, st ≠ .vertex p l) → SafeStmt st ∧ LineStmt st := by
    intro st h; cases st <;> first | exact ⟨trivial, trivial⟩ | exact absurd rfl (h _ _)
  rcases hst with (hs | ⟨q, _, hs⟩) | hs
  · apply hnv; intro p l e; subst e; cases pruned <;> simp at hs
  · unfold nodeStmts at hs
    simp only [List.mem_append, List.mem_singleton] at hs
    rcases hs with (hs | hs) | hs
    · subst hs; exact hlabel _
    · split at hs
      · simp at hs; subst hs; exact ⟨trivial, trivial⟩
      · cases hs
    · split at hs
      · simp at hs; subst hs; exact ⟨trivial, trivial⟩
      · cases hs
  · simp at hs; subst hs; exact ⟨trivial, trivial⟩

/-- `dot_eval`, on statements: the exported graph evaluates like the Bdd, for every valid Bdd, with and without
    zero-pruning; `val` gives the value of a variable by its NAME -/
theorem dot_eval {A : Arr} {n : Nat} (hw : WFo A n) (names : List String) (pruned : Bool) (val : String → Bool) :
    evalDot (stmtsOf A names pruned) val (n + 1) = evW A n (fun x => val (names[x]?.getD "")) (root A) := by
  unfold evalDot evW
  rw [entryOf_stmts]
  exact evalGraph_eq hw names pruned val (n + 1) (root A) (root_lt hw)

/-- `dot_eval`, on the text: for a valid Bdd and names without `"` / line feed, the text is produced, can be read
    back, and the graph read back evaluates like the Bdd -/
theorem dot_text_eval {A : Arr} {n : Nat} (hw : WFo A n) (names : List String) (hn : names.length = n)
    (hnames : ∀ s ∈ names, SafeLabel s ∧ LineLabel s) (pruned : Bool) :
    ∃ text S, toDotString A names pruned = .ok text ∧ parseDot text = some S ∧
      ∀ val, evalDot S val (n + 1) = evW A n (fun x => val (names[x]?.getD "")) (root A) := by
  refine ⟨render (stmtsOf A names pruned), stmtsOf A names pruned, ?_, ?_, fun val => dot_eval hw names pruned val⟩
  · unfold toDotString
    rw [dotStmts_ok hw names hn pruned]; rfl
  · exact parseDot_render _ (fun s hs => (stmts_safe A names pruned hnames s hs).1)
      (fun s hs => (stmts_safe A names pruned hnames s hs).2)

/-- with pairwise distinct names (what a `BddVariableSet` guarantees, C16) a valuation of the variables is a
    valuation of the names: the graph evaluates like the Bdd on every valuation `v` -/
theorem dot_eval_by_index {A : Arr} {n : Nat} (hw : WFo A n) (names : List String) (hn : names.length = n)
    (hnd : names.Nodup) (pruned : Bool) (v : Nat → Bool) :
    evalDot (stmtsOf A names pruned) (fun s => v (names.idxOf s)) (n + 1) = evW A n v (root A) := by
  rw [dot_eval hw names pruned]
  apply evW_indep hw n (root A) (root_lt hw) (by omega)
  intro i _ hi
  have hi' : i < names.length := by omega
  simp only [List.getElem?_eq_getElem hi', Option.getD_some]
  rw [hnd.idxOf_getElem i hi']

/-- for canonical (reduced, post-order) arrays `evW` is the denotation `den` -/
theorem dot_eval_den {A : Arr} {n : Nat} (hr : Red A n) (hw : WFo A n) (names : List String) (hn : names.length = n)
    (hnd : names.Nodup) (pruned : Bool) (v : Nat → Bool) :
    evalDot (stmtsOf A names pruned) (fun s => v (names.idxOf s)) (n + 1) = den A v := by
  rw [dot_eval_by_index hw names hn hnd pruned v]
  exact B.VS.evW_eq_ev hr hw v (root A) (root_lt hw)

/-! ## `write_as_dot_string` into an arbitrary sink -/

/-- the chunking of the sink is irrelevant: if the sink never reports a hard error and never accepts zero bytes
    (any chunk sizes, any number of `Interrupted`), the call returns `Ok` and exactly the text of `to_dot_string`
    reached the sink — whatever way `write_fmt` cuts the text into `write_all` pieces -/
theorem dot_write_chunking_irrelevant (A : Arr) (names : List String) (pruned : Bool) (script : List Serial.Ev)
    (h : Serial.ScriptOk script) :
    writeDotIO A names pruned script = (toDotString A names pruned).map (fun t => (true, textBytes t)) ∧
    ∀ pieces : List (List UInt8), writeDotPieces pieces script = (true, pieces.flatten) :=
  ⟨writeDotIO_ok A names pruned script h, fun pieces => writeDotPieces_ok pieces script h⟩

/-- any sink: what reached it is a prefix of the text, `Ok` is returned only if ALL of the text reached it (a short
    write is never swallowed), `Err` only if the sink reported a hard error or accepted zero bytes; a hard error of
    the first `write` call is returned -/
theorem dot_write_faithful (pieces : List (List UInt8)) (script : List Serial.Ev) :
    (writeDotPieces pieces script).2 <+: pieces.flatten ∧
    ((writeDotPieces pieces script).1 = true → (writeDotPieces pieces script).2 = pieces.flatten) ∧
    ((writeDotPieces pieces script).1 = false → ∃ e ∈ script, Serial.isFault e) ∧
    (∀ p ps s, pieces = p :: ps → p ≠ [] → script = .fail :: s → (writeDotPieces pieces script).1 = false) := by
  obtain ⟨a, b, c⟩ := writeDotPieces_any pieces script
  refine ⟨a, b, c, ?_⟩
  intro p ps s hp hne hs
  subst hp hs
  exact writeDotPieces_fail_first p ps s hne

/-- the model's sink export cuts the text into the `write_all` pieces of `format_args!` (`piecesOf`); they are a
    division of the bytes of the text, so everything above applies to it -/
theorem dot_write_pieces (ss : List Stmt) : (piecesOf ss).flatten = textBytes (render ss) :=
  piecesOf_flatten ss

/-- **order of the code on invalid Bdds.** Non-empty node vector, right number of names, but some decision node's
    variable has no name (`to_dot_string` panics). The export into a sink writes, piece by piece, everything up to
    the first such node (`namedPrefix`); a sink error met on the way is returned as `Err` (no panic) with exactly
    what was accepted before it; only if all these writes succeed does the export panic. In particular a hard error
    of the first `write` call is always returned with nothing written. -/
theorem dot_write_invalid_order (A : Arr) (names : List String) (pruned : Bool) (script : List Serial.Ev)
    (h0 : A.size ≠ 0) (hn : names.length = numVars A) :
    ((namedPrefix A names).length ≠ (innerPtrs A).length →
      writeDotIO A names pruned script =
        (let r := writeDotPieces (piecesOf (preamble A pruned ++
            (namedPrefix A names).flatMap (nodeStmts A names pruned))) script
         if r.1 then .panic "index out of bounds: var_names[var]" else .ok r)) ∧
    ((namedPrefix A names).length = (innerPtrs A).length →
      writeDotIO A names pruned script = .ok (writeDotPieces (piecesOf (stmtsOf A names pruned)) script)) ∧
    (∀ s, script = .fail :: s → writeDotIO A names pruned script = .ok (false, [])) :=
  ⟨writeDotIO_bad A names pruned script h0 hn, writeDotIO_good A names pruned script h0 hn,
    fun s hs => hs ▸ writeDotIO_fail_first A names pruned s h0 hn⟩

/-- a sink with a byte budget (accepts `b` bytes in total — a short write where the budget ends — then fails every
    call): whatever the division of the text into `write_all` pieces, the call returns `Ok` iff the budget covers the
    whole text, and otherwise `Err` with exactly the first `b` bytes in the sink. A sink error in the LAST chunk of a
    text of any size is therefore never swallowed. -/
theorem dot_write_budget (pieces : List (List UInt8)) (b : Nat) :
    budgetPieces b pieces =
      if b < pieces.flatten.length then (false, pieces.flatten.take b) else (true, pieces.flatten) :=
  budgetPieces_spec pieces b

/-! ## non-vacuity -/

/-- the invalid diagram of `B.AlgoEq3Dot.discrepancy_example`: one variable, node 2 decides on variable 5; the sink
    fails at once: `Err`, nothing written (the code's behaviour), although `to_dot_string` panics -/
example : writeDotIO #[⟨1, 0, 0⟩, ⟨1, 1, 1⟩, ⟨5, 0, 1⟩] ["x"] false [.fail] = .ok (false, []) ∧
    ∃ m, toDotString #[⟨1, 0, 0⟩, ⟨1, 1, 1⟩, ⟨5, 0, 1⟩] ["x"] false = .panic m :=
  ⟨writeDotIO_fail_first _ _ _ _ (by decide) (by decide), ⟨_, rfl⟩⟩

/-- a sink that accepts 7 bytes per call with interruptions satisfies the hypothesis -/
example : Serial.ScriptOk [.give 7, .interrupted, .give 1, .interrupted, .give 4096] := by
  intro e he; simp at he; rcases he with rfl | rfl | rfl | rfl | rfl <;> exact ⟨by simp, by simp⟩


/-- `x1 ∧ ¬x2` over 3 variables with a shared structure: a valid Bdd -/
def exA : Arr := #[⟨3, 0, 0⟩, ⟨3, 1, 1⟩, ⟨2, 1, 0⟩, ⟨1, 0, 2⟩]
theorem exA_wf : WFo exA 3 := wfoB_sound (by decide)

example : (∀ s ∈ ["a", "b b", "é"], SafeLabel s ∧ LineLabel s) := by simp [SafeLabel, LineLabel]
example : ["a", "b b", "é"].Nodup := by decide

/-- the statements of the pruned export of `exA` -/
example : stmtsOf exA ["a", "b", "c"] true =
    [.header, .initNode, .initEdge 3, .terminal true, .vertex 2 "c", .edge 2 1 .dotted,
     .vertex 3 "b", .edge 3 2 .filled, .footer] := by decide

/-- … and a line of its text -/
example : renderStmt (.edge 3 2 .filled) = "3 -> 2 [style=filled];".toList := by
  simp [renderStmt, digits_lt, tArrow, styleText, tFilled, digitChar]

end B.Props.C20
