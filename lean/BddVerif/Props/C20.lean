/-! # C20 — property theorems (to be written) -/
namespace B.Props.C20
end B.Props.C20
