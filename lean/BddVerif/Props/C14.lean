import BddVerif.Lemmas.ParserPrint
import BddVerif.Lemmas.ParserFlat
import BddVerif.Lemmas.ParserRefParse
/-!
# C14 — the expression parser is total and implements the documented grammar

Property theorems about the executable model `B.Parser` (Model/Parser.lean) of
`src/boolean_expression/_impl_parser.rs` and of `Display for BooleanExpression`.
Helper lemmas: `Lemmas/ParserTotal.lean`, `Lemmas/ParserGrammar.lean`, `Lemmas/ParserPrint.lean`.

Termination: `tokGroup` and the eight mutually recursive parsing functions are defined by well-founded
recursion (on the length of the unread input, resp. on (number of tokens in the tree, level)); Lean
accepts the definitions only with the termination proofs given in Model/Parser.lean. The two progress
checks inserted into `tokGroup` for that purpose are unreachable — that is part of `parse_total`.
-/
namespace B.Props.C14
open B B.Parser

/-- **Totality.** `BooleanExpression::try_from` returns `Ok` or `Err` for every input string: the model
    has no `panic` outcome on any `List Char` — neither the slice in `cond()`, nor a stray token in
    `terminal()`, nor the modelling artefacts of the tokenizer. -/
theorem parse_total (s : List Char) : (parse s).isPanic = false := parse_no_panic s

/-- the tokenizer alone, for nested (`top = false`) and top-level groups -/
theorem tokenize_total (s : List Char) (top : Bool) : (tokGroup s top).isPanic = false :=
  tokGroup_no_panic s top

/-- the unread rest returned by `tokenize_group` is never longer than its input (the recursion of the
    Rust function consumes the iterator) -/
theorem tokenize_consumes (s : List Char) (top : Bool) (ts : List Tok) (rest : List Char)
    (h : tokGroup s top = .ok (ts, rest)) : rest.length ≤ s.length := by
  have := tokGroup_good s top
  rw [h] at this
  exact this

/-- every parsing function is total on every token tree -/
theorem parse_tokens_total (ts : List Tok) :
    (parseFormula ts).isPanic = false ∧ (iffP ts).isPanic = false ∧ (impP ts).isPanic = false ∧
    (condP ts).isPanic = false ∧ (orP ts).isPanic = false ∧ (andP ts).isPanic = false ∧
    (xorP ts).isPanic = false ∧ (terminalP ts).isPanic = false :=
  ⟨parsers_no_panic.1 ts, parsers_no_panic.2.1 ts, parsers_no_panic.2.2.1 ts, parsers_no_panic.2.2.2.1 ts,
   parsers_no_panic.2.2.2.2.1 ts, parsers_no_panic.2.2.2.2.2.1 ts, parsers_no_panic.2.2.2.2.2.2.1 ts,
   parsers_no_panic.2.2.2.2.2.2.2 ts⟩

/-- **Grammar.** A token tree is accepted with tree `e` exactly when `e` is derived by the documented
    grammar (`Der 6`: `!` tightest, then `^`, `&`, `|`, the non-nesting `?:`, `=>`, `<=>`; right-associative
    binary operators; parentheses; `true`/`false`). -/
theorem parse_tokens_iff_grammar (ts : List Tok) (e : Expr) : parseFormula ts = .ok e ↔ Der 6 ts e :=
  parseFormula_iff_der ts e

/-- the same for strings: accepted ⇔ the tokenizer succeeds and the token tree is in the grammar -/
theorem parse_iff_grammar (s : List Char) (e : Expr) :
    parse s = .ok e ↔ ∃ ts rest, tokGroup s true = .ok (ts, rest) ∧ Der 6 ts e := by
  unfold parse
  constructor
  · intro h
    cases ht : tokGroup s true with
    | ok p =>
      obtain ⟨ts, rest⟩ := p
      rw [ht] at h
      exact ⟨ts, rest, rfl, (parseFormula_iff_der ts e).mp h⟩
    | err m => rw [ht] at h; cases h
    | panic m => rw [ht] at h; cases h
  · rintro ⟨ts, rest, ht, hd⟩
    rw [ht]
    exact (parseFormula_iff_der ts e).mpr hd

/-- the grammar is unambiguous: a token tree has at most one expression tree -/
theorem grammar_unambiguous (ts : List Tok) (e e' : Expr) (h : Der 6 ts e) (h' : Der 6 ts e') : e = e' := by
  have h1 := (parseFormula_iff_der ts e).mpr h
  have h2 := (parseFormula_iff_der ts e').mpr h'
  rw [h1] at h2
  cases h2
  rfl

/-- whatever is rejected is outside the grammar (the error outcomes are exactly the non-derivable trees) -/
theorem rejected_iff_not_grammar (ts : List Tok) : (parseFormula ts).isErr = true ↔ ¬ ∃ e, Der 6 ts e := by
  have hp := parsers_no_panic.1 ts
  constructor
  · rintro h ⟨e, he⟩
    rw [(parseFormula_iff_der ts e).mpr he] at h
    simp [Outcome.isErr] at h
  · intro h
    cases hr : parseFormula ts with
    | ok e => exact absurd ⟨e, (parseFormula_iff_der ts e).mp hr⟩ h
    | err m => rfl
    | panic m => rw [hr] at hp; simp [Outcome.isPanic] at hp

/-- **Round trip, token level.** -/
theorem print_parse_tokens (e : Expr) (h : NoKeywordNames e) : parseFormula (toks e) = .ok e :=
  parseFormula_toks e h

/-- the tokenizer reads the printed text back as the printed token tree -/
theorem tokenize_display (e : Expr) (h : SafeNames e) : tokGroup (display e) true = .ok (toks e, []) := by
  have := tokGroup_display e h [] true trivial
  rw [List.append_nil] at this
  rw [this, tokGroup.eq_def [] true]
  simp [pushAll_ok]

/-- **Round trip.** Printing any expression over parser-safe names (non-empty, no whitespace, no
    `NOT_IN_VAR_NAME` character, not `true`/`false`) and parsing the text returns the identical tree. -/
theorem print_parse (e : Expr) (h : SafeNames e) : parse (display e) = .ok e := parse_display e h

/-- the hypothesis cannot be dropped: a variable called `true` does not survive the round trip -/
theorem print_parse_needs_safe_names : parse (display (.var kwTrue)) = .ok (.const true) := by
  have := tokGroup_ident kwTrue [] true (by decide) safe_kw.1 trivial
  rw [List.append_nil] at this
  unfold parse
  simp only [display]
  rw [this, tokGroup.eq_def [] true]
  simp only [if_true, Parser.push]
  exact (parseFormula_iff_der _ _).mpr (Der.lift Der.tt (by omega) (by omega))

/-- tie to the regenerated constant: every character that has an arm of its own in `tokenize_group`
    (and the second/third characters of `=>`, `<=>`) belongs to `NOT_IN_VAR_NAME`, and no character of
    the keywords does -/
theorem special_chars_not_in_names :
    (∀ c ∈ ['!', '&', '|', '^', ':', '?', '=', '<', '>', ')', '('], Gen.notInVarName.contains c = true) ∧
    (∀ c ∈ kwTrue ++ kwFalse, Gen.notInVarName.contains c = false) := by decide

/-! ### the grammar over flat token strings (parentheses as tokens) -/

/-- `group` inverts `flatten` … -/
theorem group_flatten (ts : List Tok) : group (flattenL ts) = some ts := Parser.group_flatten ts

/-- … and `flatten` inverts `group` wherever `group` succeeds -/
theorem flatten_group (fl : List FT) (ts : List Tok) (h : group fl = some ts) : flattenL ts = fl :=
  flatten_of_group h

/-- `group` fails exactly on unbalanced parentheses (depth negative somewhere, or non-zero at the end) -/
theorem group_none_iff_unbalanced (fl : List FT) : group fl = none ↔ balanced fl = false := by
  have := group_isSome fl
  cases hg : group fl <;> simp_all

/-- **The tokenizer is flat lexing followed by grouping**, with the error messages of the code: a lexical
    error (`Expected '>' after '='.`, `Expected '=' after '<'.`, `Unexpected '>'.`) or, on unbalanced
    parentheses, `Unexpected ')'.` / `Expected ')'.` — whichever the left-to-right scan meets first. -/
theorem tokenize_eq_group_lex (s : List Char) :
    tokGroup s true =
      match groupM (lexFlat s).1 (lexFlat s).2 [] [] with
      | .ok ts => .ok (ts, [])
      | .err m => .err m
      | .panic m => .panic m := tokGroup_eq_groupM s

/-- accepted by the tokenizer ⇔ lexes without error into a balanced flat string; the result is its grouping -/
theorem tokenize_ok_iff (s : List Char) (ts : List Tok) (rest : List Char) :
    tokGroup s true = .ok (ts, rest) ↔ rest = [] ∧ ∃ fl, lexFlat s = (fl, none) ∧ group fl = some ts :=
  tokGroup_ok_iff s ts rest

/-- unbalanced ⇒ the tokenizer returns one of the two parenthesis errors of the code -/
theorem tokenize_unbalanced (s : List Char) (fl : List FT) (hl : lexFlat s = (fl, none))
    (hu : balanced fl = false) :
    tokGroup s true = .err "Unexpected ')'." ∨ tokGroup s true = .err "Expected ')'." := by
  rw [tokGroup_eq_groupM, hl]
  simp only
  cases hg : groupM fl none [] [] with
  | ok ts =>
    have := (group_none_iff_unbalanced fl).mpr hu
    rw [(groupM_none_eq fl ts).mp hg] at this; cases this
  | err m => rcases groupM_err fl [] [] m hg with rfl | rfl <;> simp
  | panic m =>
    have := groupM_no_panic fl none [] []
    rw [hg] at this; simp [Outcome.isPanic] at this

/-- a lexical error ⇒ the tokenizer returns that error, or `Unexpected ')'.` if an unmatched `)` comes first -/
theorem tokenize_lex_error (s : List Char) (fl : List FT) (m : String) (hl : lexFlat s = (fl, some m)) :
    tokGroup s true = .err m ∨ tokGroup s true = .err "Unexpected ')'." := by
  rw [tokGroup_eq_groupM, hl]
  simp only
  rcases groupM_tail fl m [] [] with h | h <;> rw [h] <;> simp

/-- **Flat grammar = tree grammar after grouping**, at every level -/
theorem flat_grammar_iff_tree_grammar (n : Nat) (fl : List FT) (e : Expr) :
    DerF n fl e ↔ ∃ ts, group fl = some ts ∧ Der n ts e := derF_iff_der n fl e

/-- **The parser implements the documented grammar over flat token strings**: for every string,
    `try_from` returns `Ok(e)` exactly when the string lexes without error into a flat token string that
    the grammar `DerF` (precedence `!` > `^` > `&` > `|` > non-nesting `?:` > `=>` > `<=>`, right
    associative, parentheses as atoms, `true`/`false`) derives with tree `e`. -/
theorem parse_iff_flat_grammar (s : List Char) (e : Expr) :
    parse s = .ok e ↔ ∃ fl, lexFlat s = (fl, none) ∧ DerF 6 fl e := by
  rw [parse_iff_grammar]
  constructor
  · rintro ⟨ts, rest, ht, hd⟩
    obtain ⟨_, fl, hl, hg⟩ := (tokGroup_ok_iff s ts rest).mp ht
    exact ⟨fl, hl, (derF_iff_der 6 fl e).mpr ⟨ts, hg, hd⟩⟩
  · rintro ⟨fl, hl, hd⟩
    obtain ⟨ts, hg, hd'⟩ := (derF_iff_der 6 fl e).mp hd
    exact ⟨ts, [], (tokGroup_ok_iff s ts []).mpr ⟨rfl, fl, hl, hg⟩, hd'⟩

/-- the flat grammar is unambiguous -/
theorem flat_grammar_unambiguous (fl : List FT) (e e' : Expr) (h : DerF 6 fl e) (h' : DerF 6 fl e') : e = e' := by
  obtain ⟨ts, hg, hd⟩ := (derF_iff_der 6 fl e).mp h
  obtain ⟨ts', hg', hd'⟩ := (derF_iff_der 6 fl e').mp h'
  rw [hg] at hg'; cases hg'
  exact grammar_unambiguous ts e e' hd hd'

/-- rejected ⇔ lexical error or no derivation in the flat grammar (never a panic: `parse_total`) -/
theorem rejected_iff_not_flat_grammar (s : List Char) :
    (parse s).isErr = true ↔ ¬ ∃ fl e, lexFlat s = (fl, none) ∧ DerF 6 fl e := by
  have hp := parse_total s
  constructor
  · rintro h ⟨fl, e, hl, hd⟩
    rw [(parse_iff_flat_grammar s e).mpr ⟨fl, hl, hd⟩] at h
    simp [Outcome.isErr] at h
  · intro h
    cases hr : parse s with
    | ok e =>
      obtain ⟨fl, hl, hd⟩ := (parse_iff_flat_grammar s e).mp hr
      exact absurd ⟨fl, e, hl, hd⟩ h
    | err m => rfl
    | panic m => rw [hr] at hp; simp [Outcome.isPanic] at hp

/-! ### the driver's reference parser is a proved decision procedure of the grammar clause -/

/-- the reference lexer (accumulator style, own whitespace and reserved-character tables) computes the flat
    lexing of the theorems and fails exactly on a lexical error -/
theorem reference_lexer_eq (s : List Char) :
    ParserRef.refLex s [] [] =
      match lexFlat s with
      | (fl, none) => some (fl.map ParserRef.conv)
      | (_, some _) => none := ParserRef.refLex_eq s

/-- soundness of the recursive descent at every fuel and level: a returned tree is a flat derivation of the
    consumed prefix -/
theorem reference_descent_sound (f n : Nat) (hn : n ≤ 6) (ts : List ParserRef.FTok) (e : Expr)
    (rest : List ParserRef.FTok) (h : ParserRef.refParse f n ts = some (e, rest)) :
    ∃ pre : List FT, ts = pre.map ParserRef.conv ++ rest ∧ DerF n pre e :=
  ParserRef.refParse_sound f n hn ts e rest h

/-- completeness with the explicit fuel bound: a level-`n` derivation of `pre`, followed by anything the
    level-`n` parser does not absorb, is found with fuel `8 * pre.length + n + 1` or more -/
theorem reference_descent_complete (n : Nat) (pre : List FT) (e : Expr) (h : DerF n pre e)
    (rest : List ParserRef.FTok) (f : Nat) (hfol : ParserRef.Follow n rest) (hf : 8 * pre.length + n + 1 ≤ f) :
    ParserRef.refParse f n (pre.map ParserRef.conv ++ rest) = some (e, rest) :=
  ParserRef.refParse_complete h rest f hfol hf

/-- on whole strings: with fuel at least `8 * length + 7` — the driver passes `8 * length + 16` — the descent
    returns `(e, [])` exactly for the derivations of the flat grammar -/
theorem reference_descent_iff (fl : List FT) (e : Expr) (f : Nat) (hf : 8 * fl.length + 7 ≤ f) :
    ParserRef.refParse f 6 (fl.map ParserRef.conv) = some (e, []) ↔ DerF 6 fl e :=
  ParserRef.refParse_iff fl e f hf

/-- **The reference parser decides the flat grammar**, for all strings -/
theorem reference_iff_flat_grammar (s : List Char) (e : Expr) :
    ParserRef.reference s = some e ↔ ∃ fl, lexFlat s = (fl, none) ∧ DerF 6 fl e :=
  ParserRef.reference_iff s e

/-- it rejects exactly what has a lexical error or no derivation -/
theorem reference_none_iff (s : List Char) :
    ParserRef.reference s = none ↔ ¬ ∃ fl e, lexFlat s = (fl, none) ∧ DerF 6 fl e := by
  constructor
  · rintro h ⟨fl, e, hl, hd⟩
    rw [(ParserRef.reference_iff s e).mpr ⟨fl, hl, hd⟩] at h; cases h
  · intro h
    cases hr : ParserRef.reference s with
    | none => rfl
    | some e =>
      obtain ⟨fl, hl, hd⟩ := (ParserRef.reference_iff s e).mp hr
      exact absurd ⟨fl, e, hl, hd⟩ h

/-- **The reference parser and the model of the real parser agree on every string**: the driver's
    predicate "observed parse result = reference parser's result" is a proved decision of the grammar clause. -/
theorem reference_eq_parse (s : List Char) : ParserRef.reference s = (parse s).toOption :=
  ParserRef.reference_eq_parse s

/-! ### non-vacuity -/

def exA : Expr := .var ['a']
def exX0 : Expr := .var ['x', '_', '0']
/-- `(a ? !x_0 : (a <=> (x_0 ^ true)))` -/
def exTree : Expr := .cond exA (.not exX0) (.iff exA (.xor exX0 (.const true)))

theorem exTree_safe : SafeNames exTree := by
  simp only [exTree, exA, exX0, SafeNames, and_true]
  decide

example : parse (display exTree) = .ok exTree := print_parse exTree exTree_safe

/-- precedence and associativity on a concrete token string: `a | b & !c ^ d & e` is `a | ((b & (!c ^ d)) … )` -/
example : parseFormula [.id ['a'], .or, .id ['b'], .and, .not, .id ['c'], .xor, .id ['d'], .and, .id ['e']] =
    .ok (.or (.var ['a']) (.and (.var ['b']) (.and (.xor (.not (.var ['c'])) (.var ['d'])) (.var ['e'])))) := by
  apply (parse_tokens_iff_grammar _ _).mpr
  have ha : Der 0 [.id ['a']] (.var ['a']) := Der.ident _ (by decide) (by decide)
  have hb : Der 0 [.id ['b']] (.var ['b']) := Der.ident _ (by decide) (by decide)
  have hc : Der 0 [.id ['c']] (.var ['c']) := Der.ident _ (by decide) (by decide)
  have hd : Der 0 [.id ['d']] (.var ['d']) := Der.ident _ (by decide) (by decide)
  have he : Der 0 [.id ['e']] (.var ['e']) := Der.ident _ (by decide) (by decide)
  have hx : Der 1 ([.not, .id ['c']] ++ .xor :: [.id ['d']]) _ := Der.xorS (Der.neg hc) (hd.lift (by omega) (by omega))
  have h2 : Der 2 (([.not, .id ['c']] ++ .xor :: [.id ['d']]) ++ .and :: [.id ['e']]) _ :=
    Der.andS hx (he.lift (by omega) (by omega))
  have h3 : Der 2 ([.id ['b']] ++ .and :: (([.not, .id ['c']] ++ .xor :: [.id ['d']]) ++ .and :: [.id ['e']])) _ :=
    Der.andS (hb.lift (by omega) (by omega)) h2
  have h4 := Der.orS (ha.lift (by omega) (by omega) : Der 2 _ _) (h3.lift (by omega) (by omega) : Der 3 _ _)
  exact h4.lift (by omega) (by omega)

/-- the conditional does not nest without parentheses: `a ? b : c ? d : e` has no derivation
    (first `?` at 1, first `:` at 3, the third part `c ? d : e` is not an `or`-level string) -/
example : (parseFormula [.id ['a'], .qmark, .id ['b'], .colon, .id ['c'], .qmark, .id ['d'], .colon, .id ['e']]).isErr = true := by
  rw [parseFormula_eq]
  simp only [isSingleGroup]
  rw [iffP_eq, impP_eq, condP_eq]
  simp only [indexOfFirst, Tok.eqK, Tok.tag]
  simp
  rw [orP_eq, andP_eq, xorP_eq, terminalP]
  simp only [indexOfFirst, Tok.eqK, Tok.tag]
  simp
  rw [orP_eq, andP_eq, xorP_eq, terminalP]
  simp only [indexOfFirst, Tok.eqK, Tok.tag]
  simp
  rw [orP_eq, andP_eq, xorP_eq, terminalP.eq_def]
  simp [indexOfFirst, Tok.eqK, Tok.tag, Outcome.bind, Outcome.isErr, kwTrue, kwFalse]

/-- flat derivation of `( a | b ) & ! c`: the `|` inside the parentheses is not a split point -/
example : DerF 6 [.lp, .id ['a'], .or, .id ['b'], .rp, .and, .not, .id ['c']]
    (.and (.or (.var ['a']) (.var ['b'])) (.not (.var ['c']))) := by
  have ha : DerF 0 [.id ['a']] (.var ['a']) := DerF.ident _ (by decide) (by decide)
  have hb : DerF 0 [.id ['b']] (.var ['b']) := DerF.ident _ (by decide) (by decide)
  have hc : DerF 0 [.id ['c']] (.var ['c']) := DerF.ident _ (by decide) (by decide)
  have hor : DerF 3 ([.id ['a']] ++ .or :: [.id ['b']]) _ :=
    DerF.orS (DerF.up (by omega) (DerF.up (by omega) ha)) (DerF.up (by omega) (DerF.up (by omega) (DerF.up (by omega) hb)))
  have hpar : DerF 0 (.lp :: (([.id ['a']] ++ .or :: [.id ['b']]) ++ [.rp])) _ :=
    DerF.par (DerF.up (by omega) (DerF.up (by omega) (DerF.up (by omega) hor)))
  have hand := DerF.andS (DerF.up (by omega) hpar) (DerF.up (by omega) (DerF.up (by omega) (DerF.neg hc)))
  exact DerF.up (by omega) (DerF.up (by omega) (DerF.up (by omega) (DerF.up (by omega) hand)))

/-- `group` on a concrete flat string, and an unbalanced one -/
example : group [.lp, .id ['a'], .rp, .and, .lp, .lp, .rp, .rp] =
    some [.group [.id ['a']], .and, .group [.group []]] := by rfl
example : group [.lp, .id ['a']] = none ∧ group [.rp] = none := ⟨by rfl, by rfl⟩

end B.Props.C14
