import BddVerif.Lemmas.ParserPrint
/-!
# C14 — the expression parser is total and implements the documented grammar

Property theorems about the executable model `B.Parser` (Model/Parser.lean) of
`src/boolean_expression/_impl_parser.rs` and of `Display for BooleanExpression`.
Helper lemmas: `Lemmas/ParserTotal.lean`, `Lemmas/ParserGrammar.lean`, `Lemmas/ParserPrint.lean`.

Termination: `tokGroup` and the eight mutually recursive parsing functions are defined by well-founded
recursion (on the length of the unread input, resp. on (number of tokens in the tree, level)); Lean
accepts the definitions only with the termination proofs given in Model/Parser.lean. The two progress
checks inserted into `tokGroup` for that purpose are unreachable — that is part of `parse_total`.
-/
namespace B.Props.C14
open B B.Parser

/-- **Totality.** `BooleanExpression::try_from` returns `Ok` or `Err` for every input string: the model
    has no `panic` outcome on any `List Char` — neither the slice in `cond()`, nor a stray token in
    `terminal()`, nor the modelling artefacts of the tokenizer. -/
theorem parse_total (s : List Char) : (parse s).isPanic = false := parse_no_panic s

/-- the tokenizer alone, for nested (`top = false`) and top-level groups -/
theorem tokenize_total (s : List Char) (top : Bool) : (tokGroup s top).isPanic = false :=
  tokGroup_no_panic s top

/-- the unread rest returned by `tokenize_group` is never longer than its input (the recursion of the
    Rust function consumes the iterator) -/
theorem tokenize_consumes (s : List Char) (top : Bool) (ts : List Tok) (rest : List Char)
    (h : tokGroup s top = .ok (ts, rest)) : rest.length ≤ s.length := by
  have := tokGroup_good s top
  rw [h] at this
  exact this

/-- every parsing function is total on every token tree -/
theorem parse_tokens_total (ts : List Tok) :
    (parseFormula ts).isPanic = false ∧ (iffP ts).isPanic = false ∧ (impP ts).isPanic = false ∧
    (condP ts).isPanic = false ∧ (orP ts).isPanic = false ∧ (andP ts).isPanic = false ∧
    (xorP ts).isPanic = false ∧ (terminalP ts).isPanic = false :=
  ⟨parsers_no_panic.1 ts, parsers_no_panic.2.1 ts, parsers_no_panic.2.2.1 ts, parsers_no_panic.2.2.2.1 ts,
   parsers_no_panic.2.2.2.2.1 ts, parsers_no_panic.2.2.2.2.2.1 ts, parsers_no_panic.2.2.2.2.2.2.1 ts,
   parsers_no_panic.2.2.2.2.2.2.2 ts⟩

/-- **Grammar.** A token tree is accepted with tree `e` exactly when `e` is derived by the documented
    grammar (`Der 6`: `!` tightest, then `^`, `&`, `|`, the non-nesting `?:`, `=>`, `<=>`; right-associative
    binary operators; parentheses; `true`/`false`). -/
theorem parse_tokens_iff_grammar (ts : List Tok) (e : Expr) : parseFormula ts = .ok e ↔ Der 6 ts e :=
  parseFormula_iff_der ts e

/-- the same for strings: accepted ⇔ the tokenizer succeeds and the token tree is in the grammar -/
theorem parse_iff_grammar (s : List Char) (e : Expr) :
    parse s = .ok e ↔ ∃ ts rest, tokGroup s true = .ok (ts, rest) ∧ Der 6 ts e := by
  unfold parse
  constructor
  · intro h
    cases ht : tokGroup s true with
    | ok p =>
      obtain ⟨ts, rest⟩ := p
      rw [ht] at h
      exact ⟨ts, rest, rfl, (parseFormula_iff_der ts e).mp h⟩
    | err m => rw [ht] at h; cases h
    | panic m => rw [ht] at h; cases h
  · rintro ⟨ts, rest, ht, hd⟩
    rw [ht]
    exact (parseFormula_iff_der ts e).mpr hd

/-- the grammar is unambiguous: a token tree has at most one expression tree -/
theorem grammar_unambiguous (ts : List Tok) (e e' : Expr) (h : Der 6 ts e) (h' : Der 6 ts e') : e = e' := by
  have h1 := (parseFormula_iff_der ts e).mpr h
  have h2 := (parseFormula_iff_der ts e').mpr h'
  rw [h1] at h2
  cases h2
  rfl

/-- whatever is rejected is outside the grammar (the error outcomes are exactly the non-derivable trees) -/
theorem rejected_iff_not_grammar (ts : List Tok) : (parseFormula ts).isErr = true ↔ ¬ ∃ e, Der 6 ts e := by
  have hp := parsers_no_panic.1 ts
  constructor
  · rintro h ⟨e, he⟩
    rw [(parseFormula_iff_der ts e).mpr he] at h
    simp [Outcome.isErr] at h
  · intro h
    cases hr : parseFormula ts with
    | ok e => exact absurd ⟨e, (parseFormula_iff_der ts e).mp hr⟩ h
    | err m => rfl
    | panic m => rw [hr] at hp; simp [Outcome.isPanic] at hp

/-- **Round trip, token level.** -/
theorem print_parse_tokens (e : Expr) (h : NoKeywordNames e) : parseFormula (toks e) = .ok e :=
  parseFormula_toks e h

/-- the tokenizer reads the printed text back as the printed token tree -/
theorem tokenize_display (e : Expr) (h : SafeNames e) : tokGroup (display e) true = .ok (toks e, []) := by
  have := tokGroup_display e h [] true trivial
  rw [List.append_nil] at this
  rw [this, tokGroup.eq_def [] true]
  simp [pushAll_ok]

/-- **Round trip.** Printing any expression over parser-safe names (non-empty, no whitespace, no
    `NOT_IN_VAR_NAME` character, not `true`/`false`) and parsing the text returns the identical tree. -/
theorem print_parse (e : Expr) (h : SafeNames e) : parse (display e) = .ok e := parse_display e h

/-- the hypothesis cannot be dropped: a variable called `true` does not survive the round trip -/
theorem print_parse_needs_safe_names : parse (display (.var kwTrue)) = .ok (.const true) := by
  have := tokGroup_ident kwTrue [] true (by decide) safe_kw.1 trivial
  rw [List.append_nil] at this
  unfold parse
  simp only [display]
  rw [this, tokGroup.eq_def [] true]
  simp only [if_true, Parser.push]
  exact (parseFormula_iff_der _ _).mpr (Der.lift Der.tt (by omega) (by omega))

/-- tie to the regenerated constant: every character that has an arm of its own in `tokenize_group`
    (and the second/third characters of `=>`, `<=>`) belongs to `NOT_IN_VAR_NAME`, and no character of
    the keywords does -/
theorem special_chars_not_in_names :
    (∀ c ∈ ['!', '&', '|', '^', ':', '?', '=', '<', '>', ')', '('], Gen.notInVarName.contains c = true) ∧
    (∀ c ∈ kwTrue ++ kwFalse, Gen.notInVarName.contains c = false) := by decide

/-! ### non-vacuity -/

def exA : Expr := .var ['a']
def exX0 : Expr := .var ['x', '_', '0']
/-- `(a ? !x_0 : (a <=> (x_0 ^ true)))` -/
def exTree : Expr := .cond exA (.not exX0) (.iff exA (.xor exX0 (.const true)))

theorem exTree_safe : SafeNames exTree := by
  simp only [exTree, exA, exX0, SafeNames, and_true]
  decide

example : parse (display exTree) = .ok exTree := print_parse exTree exTree_safe

/-- precedence and associativity on a concrete token string: `a | b & !c ^ d & e` is `a | ((b & (!c ^ d)) … )` -/
example : parseFormula [.id ['a'], .or, .id ['b'], .and, .not, .id ['c'], .xor, .id ['d'], .and, .id ['e']] =
    .ok (.or (.var ['a']) (.and (.var ['b']) (.and (.xor (.not (.var ['c'])) (.var ['d'])) (.var ['e'])))) := by
  apply (parse_tokens_iff_grammar _ _).mpr
  have ha : Der 0 [.id ['a']] (.var ['a']) := Der.ident _ (by decide) (by decide)
  have hb : Der 0 [.id ['b']] (.var ['b']) := Der.ident _ (by decide) (by decide)
  have hc : Der 0 [.id ['c']] (.var ['c']) := Der.ident _ (by decide) (by decide)
  have hd : Der 0 [.id ['d']] (.var ['d']) := Der.ident _ (by decide) (by decide)
  have he : Der 0 [.id ['e']] (.var ['e']) := Der.ident _ (by decide) (by decide)
  have hx : Der 1 ([.not, .id ['c']] ++ .xor :: [.id ['d']]) _ := Der.xorS (Der.neg hc) (hd.lift (by omega) (by omega))
  have h2 : Der 2 (([.not, .id ['c']] ++ .xor :: [.id ['d']]) ++ .and :: [.id ['e']]) _ :=
    Der.andS hx (he.lift (by omega) (by omega))
  have h3 : Der 2 ([.id ['b']] ++ .and :: (([.not, .id ['c']] ++ .xor :: [.id ['d']]) ++ .and :: [.id ['e']])) _ :=
    Der.andS (hb.lift (by omega) (by omega)) h2
  have h4 := Der.orS (ha.lift (by omega) (by omega) : Der 2 _ _) (h3.lift (by omega) (by omega) : Der 3 _ _)
  exact h4.lift (by omega) (by omega)

/-- the conditional does not nest without parentheses: `a ? b : c ? d : e` has no derivation
    (first `?` at 1, first `:` at 3, the third part `c ? d : e` is not an `or`-level string) -/
example : (parseFormula [.id ['a'], .qmark, .id ['b'], .colon, .id ['c'], .qmark, .id ['d'], .colon, .id ['e']]).isErr = true := by
  rw [parseFormula_eq]
  simp only [isSingleGroup]
  rw [iffP_eq, impP_eq, condP_eq]
  simp only [indexOfFirst, Tok.eqK, Tok.tag]
  simp
  rw [orP_eq, andP_eq, xorP_eq, terminalP]
  simp only [indexOfFirst, Tok.eqK, Tok.tag]
  simp
  rw [orP_eq, andP_eq, xorP_eq, terminalP]
  simp only [indexOfFirst, Tok.eqK, Tok.tag]
  simp
  rw [orP_eq, andP_eq, xorP_eq, terminalP.eq_def]
  simp [indexOfFirst, Tok.eqK, Tok.tag, Outcome.bind, Outcome.isErr, kwTrue, kwFalse]

end B.Props.C14
