/-! # C14 — property theorems (to be written) -/
namespace B.Props.C14
end B.Props.C14
