import BddVerif.Lemmas.NormalFormOpt
import BddVerif.Lemmas.NormalFormPanic
import BddVerif.Lemmas.NormalFormWfo
import BddVerif.Lemmas.NormalFormOptPanic
/-!
# C10 — normal-form construction and extraction preserve the function

Property theorems about the model `Model/NormalForm.lean` (helper lemmas: `Lemmas/NormalForm*.lean`).

Vocabulary
* `PVal` — the raw `Vec<Option<bool>>` of a `BddPartialValuation`; `c.get x` is `get_value`.
* `InRange n c` — every fixed variable of `c` is `< n` (what `mk_conjunctive_clause` asserts).
* `conjFn c` / `disjFn c` — the conjunctive / disjunctive reading of a clause; `dnfFn cs` / `cnfFn cs` — a list.
* `Sem n A f` — `A = canon n f` and `f` only looks at the first `n` variables: `A` IS the canonical array of `f`
  (hence `den A = f`, and any two arrays with `Sem n · f` are equal).
-/
namespace B.Props.C10
open B B.NF

/-! ### the readings, in words -/

theorem conjFn_iff (c : PVal) (v : Nat → Bool) :
    conjFn c v = true ↔ ∀ x b, c.get x = some b → v x = b := B.NF.conjFn_iff c v

theorem disjFn_iff (c : PVal) (v : Nat → Bool) :
    disjFn c v = true ↔ ∃ x b, c.get x = some b ∧ v x = b := B.NF.disjFn_iff c v

theorem dnfFn_iff (cs : List PVal) (v : Nat → Bool) :
    dnfFn cs v = true ↔ ∃ c ∈ cs, ∀ x b, c.get x = some b → v x = b := by
  unfold dnfFn
  rw [List.any_eq_true]
  constructor
  · rintro ⟨c, hc, h⟩; exact ⟨c, hc, (B.NF.conjFn_iff c v).1 h⟩
  · rintro ⟨c, hc, h⟩; exact ⟨c, hc, (B.NF.conjFn_iff c v).2 h⟩

theorem cnfFn_iff (cs : List PVal) (v : Nat → Bool) :
    cnfFn cs v = true ↔ ∀ c ∈ cs, ∃ x b, c.get x = some b ∧ v x = b := by
  unfold cnfFn
  rw [List.all_eq_true]
  constructor
  · intro h c hc; exact (B.NF.disjFn_iff c v).1 (h c hc)
  · intro h c hc; exact (B.NF.disjFn_iff c v).2 (h c hc)

/-! ### construction -/

/-- `mk_dnf` on ANY list of clauses over the variable set (empty list, empty clause, duplicates — also with
    vectors of different lengths —, overlapping and complementary clauses): no assertion fires, and the result
    is the canonical array of the disjunction of the conjunctive clauses. -/
theorem mk_dnf_spec (n : Nat) (cs : List PVal) (h : ∀ c ∈ cs, InRange n c) :
    ∃ r, mkDnf n cs = .ok r ∧ r = canon n (dnfFn cs) ∧ numVars r = n ∧ ∀ v, den r v = dnfFn cs v := by
  obtain ⟨r, e, s⟩ := mkDnfRec_spec n n cs (Nat.le_refl n) h
    (by intro c _ d _ i hi; omega)
  exact ⟨r, e, s.eq, s.numVars, s.den⟩

/-- `mk_cnf`, dually: the canonical array of the conjunction of the disjunctive clauses -/
theorem mk_cnf_spec (n : Nat) (cs : List PVal) (h : ∀ c ∈ cs, InRange n c) :
    ∃ r, mkCnf n cs = .ok r ∧ r = canon n (cnfFn cs) ∧ numVars r = n ∧ ∀ v, den r v = cnfFn cs v := by
  obtain ⟨r, e, s⟩ := mkCnfRec_spec n n cs (Nat.le_refl n) h
    (by intro c _ d _ i hi; omega)
  exact ⟨r, e, s.eq, s.numVars, s.den⟩

/-- the canonical form in the shape used by the other properties: equal functions give equal arrays -/
theorem mk_dnf_canon (n : Nat) (cs ds : List PVal) (hc : ∀ c ∈ cs, InRange n c) (hd : ∀ c ∈ ds, InRange n c)
    (hsem : ∀ v, dnfFn cs v = dnfFn ds v) : mkDnf n cs = mkDnf n ds := by
  obtain ⟨r, e, hr, _⟩ := mk_dnf_spec n cs hc
  obtain ⟨r', e', hr', _⟩ := mk_dnf_spec n ds hd
  rw [e, e', hr, hr', canon_congr hsem]

theorem mk_cnf_canon (n : Nat) (cs ds : List PVal) (hc : ∀ c ∈ cs, InRange n c) (hd : ∀ c ∈ ds, InRange n c)
    (hsem : ∀ v, cnfFn cs v = cnfFn ds v) : mkCnf n cs = mkCnf n ds := by
  obtain ⟨r, e, hr, _⟩ := mk_cnf_spec n cs hc
  obtain ⟨r', e', hr', _⟩ := mk_cnf_spec n ds hd
  rw [e, e', hr, hr', canon_congr hsem]

/-- `mk_conjunctive_clause` / `mk_disjunctive_clause`: the canonical array of the single clause when the
    clause is over the variable set, the documented panic otherwise -/
theorem clause_ctor_spec (n : Nat) (c : PVal) :
    (InRange n c →
      (∃ r, mkConjClause n c = .ok r ∧ r = canon n (conjFn c) ∧ numVars r = n ∧ ∀ v, den r v = conjFn c v) ∧
      (∃ r, mkDisjClause n c = .ok r ∧ r = canon n (disjFn c) ∧ numVars r = n ∧ ∀ v, den r v = disjFn c v)) ∧
    (¬ InRange n c → mkConjClause n c = .panic assertIndex ∧ mkDisjClause n c = .panic assertIndex) := by
  refine ⟨fun h => ⟨?_, ?_⟩, fun h => ⟨mkConjClause_foreign h, mkDisjClause_foreign h⟩⟩
  · have s := sem_mkPartialValuation h
    exact ⟨_, mkConjClause_inRange h, s.eq, s.numVars, s.den⟩
  · obtain ⟨r, e, s⟩ := mkDisjClause_inRange h
    exact ⟨r, e, s.eq, s.numVars, s.den⟩

/-- which inputs make `mk_cnf` panic, exactly: those with a clause that fixes a variable `≥ num_vars`
    (through `assert!(index < self.num_vars)` of `mk_disjunctive_clause`, or through the duplicate
    `assert_eq!` when such a clause shares its group with a different one); it never returns an `Err` -/
theorem mk_cnf_panics_iff (n : Nat) (cs : List PVal) :
    (mkCnf n cs).isErr = false ∧ ((mkCnf n cs).isPanic = true ↔ ∃ c ∈ cs, ¬ InRange n c) := by
  refine ⟨(mkCnfRec_total n n cs).1, ⟨?_, (mkCnfRec_total n n cs).2⟩⟩
  intro hp
  apply Classical.byContradiction
  intro hne
  have hall : ∀ c ∈ cs, InRange n c := by
    intro c hc
    apply Classical.byContradiction
    intro hnot
    exact hne ⟨c, hc, hnot⟩
  obtain ⟨r, e, _⟩ := mk_cnf_spec n cs hall
  rw [e] at hp
  cases hp

/-- `mk_dnf` has NO such range assertion (it goes through `mk_partial_valuation`, not through
    `mk_conjunctive_clause`): on a clause that fixes variable 0 over an empty variable set the model, like the
    code, silently returns an array with a decision node on a variable that does not exist. Outside the
    property (the clauses are not over the variable set); recorded because `mk_cnf` and both single-clause
    constructors panic on the same input. -/
example : mkDnf 0 [[some true]] = .ok #[⟨0, 0, 0⟩, ⟨0, 1, 1⟩, ⟨0, 0, 1⟩] := rfl
example : (mkCnf 0 [[some true]]).isPanic = true := by decide

/-! ### extraction -/

/-- `to_dnf` of a reduced array: the loop ends within the fuel (no `panic "fuel"`), every clause is over the
    variable set, and the clause list denotes the function of the array -/
theorem to_dnf_sem (A : Arr) (n : Nat) (h : Red A n) (hn : numVars A = n) :
    ∃ cs, toDnf A = .ok cs ∧ (∀ c ∈ cs, InRange n c) ∧ ∀ v, dnfFn cs v = den A v := toDnf_red h hn

/-- `to_cnf` of a reduced array -/
theorem to_cnf_sem (A : Arr) (n : Nat) (h : Red A n) (hn : numVars A = n) :
    ∃ cs, toCnf A = .ok cs ∧ (∀ c ∈ cs, InRange n c) ∧ ∀ v, cnfFn cs v = den A v := toCnf_red h hn

/-- the one-node `false` Bdd (not a `Red` array: it has no `one` terminal) -/
theorem to_dnf_false (n : Nat) : toDnf (mkFalse n) = .ok [] := toDnf_mkFalse n
theorem to_cnf_false (n : Nat) : toCnf (mkFalse n) = .ok [[]] := toCnf_mkFalse n

/-! ### round trips: for every canonical `b`, rebuilding from the extracted normal form returns `b` itself -/

theorem mkDnf_nil (n : Nat) : mkDnf n [] = .ok (mkFalse n) := by
  unfold mkDnf; cases n <;> rfl

/-- `mk_dnf(to_dnf(b)) == b` (structural equality of the arrays) -/
theorem dnf_roundtrip (n : Nat) (f : (Nat → Bool) → Bool) (b : Arr) (hb : b = canon n f) (hf : Dep n f) :
    ∃ cs, toDnf b = .ok cs ∧ mkDnf n cs = .ok b := by
  have s : Sem n b f := ⟨hb, hf⟩
  rcases s.cases with ⟨e, _⟩ | ⟨hred, _, _⟩
  · rw [e]; exact ⟨[], toDnf_mkFalse n, mkDnf_nil n⟩
  · obtain ⟨cs, e, hr, hsem⟩ := toDnf_red hred s.numVars
    obtain ⟨r, e', hrc, _⟩ := mk_dnf_spec n cs hr
    refine ⟨cs, e, ?_⟩
    rw [e', hrc, hb]
    congr 1
    exact canon_congr (fun v => by rw [hsem v, s.den v])

/-- `mk_cnf(to_cnf(b)) == b` -/
theorem cnf_roundtrip (n : Nat) (f : (Nat → Bool) → Bool) (b : Arr) (hb : b = canon n f) (hf : Dep n f) :
    ∃ cs, toCnf b = .ok cs ∧ mkCnf n cs = .ok b := by
  have s : Sem n b f := ⟨hb, hf⟩
  rcases s.cases with ⟨e, hfalse⟩ | ⟨hred, _, _⟩
  · rw [e]
    refine ⟨[[]], toCnf_mkFalse n, ?_⟩
    obtain ⟨r, e', hrc, _⟩ := mk_cnf_spec n [[]] (by
      intro c hc x bb hg
      rw [List.mem_singleton] at hc; subst hc
      rw [get_nil] at hg; cases hg)
    rw [e', hrc, (sem_mkFalse n).eq]
    congr 1
  · obtain ⟨cs, e, hr, hsem⟩ := toCnf_red hred s.numVars
    obtain ⟨r, e', hrc, _⟩ := mk_cnf_spec n cs hr
    refine ⟨cs, e, ?_⟩
    rw [e', hrc, hb]
    congr 1
    exact canon_congr (fun v => by rw [hsem v, s.den v])

/-- `to_optimized_dnf` on a canonical array, for ANY function `card` steering the choice of the common core
    (so in particular for the model of `exact_cardinality`): the recursion ends within the fuel `num_vars + 2`,
    neither `assert!(!support.is_empty())` nor `assert!(!remaining.is_false())` fires, every clause is over the
    variable set and is an implicant of the function, the clauses together denote the function, and
    `mk_dnf(to_optimized_dnf(b)) == b` -/
theorem opt_dnf_roundtrip (card : Arr → Nat) (n : Nat) (f : (Nat → Bool) → Bool) (b : Arr)
    (hb : b = canon n f) (hf : Dep n f) :
    ∃ cs, toOptimizedDnfWith card b = .ok cs ∧ (∀ c ∈ cs, InRange n c) ∧
      (∀ c ∈ cs, ∀ v, conjFn c v = true → den b v = true) ∧ (∀ v, dnfFn cs v = den b v) ∧
      mkDnf n cs = .ok b := by
  have s : Sem n b f := ⟨hb, hf⟩
  obtain ⟨cs, e, hr, hsem⟩ := toOptimizedDnfWith_sem card s
  have hden : ∀ v, dnfFn cs v = den b v := fun v => by rw [hsem v, s.den v]
  refine ⟨cs, e, hr, ?_, hden, ?_⟩
  · intro c hc v hv
    rw [← hden v]
    unfold dnfFn
    rw [List.any_eq_true]
    exact ⟨c, hc, hv⟩
  · obtain ⟨r, e', hrc, _⟩ := mk_dnf_spec n cs hr
    rw [e', hrc, hb]
    congr 1
    exact canon_congr hsem

/-- the instance the driver runs: `card` = the model of `Bdd::exact_cardinality` (`Model/Count.lean`) -/
theorem opt_dnf_roundtrip_exactCard (n : Nat) (f : (Nat → Bool) → Bool) (b : Arr)
    (hb : b = canon n f) (hf : Dep n f) :
    ∃ cs, toOptimizedDnf b = .ok cs ∧ (∀ c ∈ cs, InRange n c) ∧ (∀ v, dnfFn cs v = den b v) ∧
      mkDnf n cs = .ok b := by
  obtain ⟨cs, e, hr, _, hden, hmk⟩ := opt_dnf_roundtrip B.exactCard n f b hb hf
  exact ⟨cs, e, hr, hden, hmk⟩

/-! ### valid operands that are not canonical

`WFo A n` is what `validate()` guarantees and all the three extractions can rely on: exact terminals, variables
`< n`, links in range, variables strictly increasing along links. Redundant tests `(v, p, p)`, duplicated nodes,
unreachable nodes and any numbering of the nodes are allowed. The function of such an operand is its evaluation
by level, `fun v => evW A n v (root A)` — definitionally what `Drive.evalArr` computes (`eval_in`); on a `Red`
array it coincides with `den`. -/

/-- `to_dnf` needs nothing but `WFo`: it never panics (in particular not on a redundant test, on which
    `BddPathIterator` does), ends within the fuel, and its clause list denotes the operand -/
theorem to_dnf_wfo (A : Arr) (n : Nat) (h : WFo A n) :
    ∃ cs, toDnf A = .ok cs ∧ (∀ c ∈ cs, InRange n c) ∧ ∀ v, dnfFn cs v = evW A n v (root A) := toDnf_wfo h

/-- `to_cnf` needs nothing but `WFo` -/
theorem to_cnf_wfo (A : Arr) (n : Nat) (h : WFo A n) :
    ∃ cs, toCnf A = .ok cs ∧ (∀ c ∈ cs, InRange n c) ∧ ∀ v, cnfFn cs v = evW A n v (root A) := toCnf_wfo h

/-- rebuilding from `to_dnf` of a valid operand returns the canonical form of the same function -/
theorem mk_dnf_to_dnf_canon (b : Arr) (n : Nat) (h : WFo b n) :
    ∃ cs, toDnf b = .ok cs ∧ mkDnf n cs = .ok (canon n (fun v => evW b n v (root b))) := by
  obtain ⟨cs, e, hr, hsem⟩ := toDnf_wfo h
  obtain ⟨r, e', hrc, _⟩ := mk_dnf_spec n cs hr
  exact ⟨cs, e, by rw [e', hrc, canon_congr hsem]⟩

/-- rebuilding from `to_cnf` of a valid operand returns the canonical form of the same function -/
theorem mk_cnf_to_cnf_canon (b : Arr) (n : Nat) (h : WFo b n) :
    ∃ cs, toCnf b = .ok cs ∧ mkCnf n cs = .ok (canon n (fun v => evW b n v (root b))) := by
  obtain ⟨cs, e, hr, hsem⟩ := toCnf_wfo h
  obtain ⟨r, e', hrc, _⟩ := mk_cnf_spec n cs hr
  exact ⟨cs, e, by rw [e', hrc, canon_congr hsem]⟩

/-- `to_optimized_dnf` needs more than `WFo`: every decision node — reachable or not — must be labelled by a
    variable the function depends on (`support_set()` is syntactic). Under that hypothesis, for any cardinality
    function: no panic, fuel `num_vars + 2` suffices, the clauses are implicants over the variable set, denote
    the function, and the rebuild is the canonical form of the same function. -/
theorem mk_dnf_to_opt_dnf_canon (card : Arr → Nat) (b : Arr) (n : Nat) (h : WFo b n)
    (hsup : ∀ y ∈ supportSorted b, DependsOn (fun v => evW b n v (root b)) y) :
    ∃ cs, toOptimizedDnfWith card b = .ok cs ∧ (∀ c ∈ cs, InRange n c) ∧
      (∀ v, dnfFn cs v = evW b n v (root b)) ∧
      mkDnf n cs = .ok (canon n (fun v => evW b n v (root b))) := by
  obtain ⟨cs, e, hr, hsem⟩ := toOptimizedDnfWith_wfo card (f := fun v => evW b n v (root b)) ⟨h, fun _ => rfl⟩ hsup
  obtain ⟨r, e', hrc, _⟩ := mk_dnf_spec n cs hr
  exact ⟨cs, e, hr, hsem, by rw [e', hrc, canon_congr hsem]⟩

/-- … and otherwise the code REFUSES: on a valid operand with a decision node, a satisfiable function and some
    decision node (reachable or not) labelled by a variable the function ignores — a redundant test, a test above
    two copies of the same sub-diagram, an unreachable node — `to_optimized_dnf` panics with
    `assert!(!remaining.is_false())`. Together with `mk_dnf_to_opt_dnf_canon` this decides every valid operand
    with a satisfiable function. -/
theorem opt_dnf_refuses_spurious_support (b : Arr) (n : Nat) (h : WFo b n) (h3 : 3 ≤ b.size)
    (hsat : ∃ v, evW b n v (root b) = true)
    (hsp : ∃ x ∈ supportSorted b, Ind (fun v => evW b n v (root b)) x) :
    toOptimizedDnf b = .panic assertRemaining :=
  toOptimizedDnf_spurious_panics (f := fun v => evW b n v (root b)) ⟨h, fun _ => rfl⟩ h3 hsat hsp

/-- the remaining valid operands — an unsatisfiable function with decision nodes (a non-canonical `false`):
    `to_optimized_dnf` returns the empty list, whose rebuild is the canonical `false`. With
    `mk_dnf_to_opt_dnf_canon` and `opt_dnf_refuses_spurious_support` every valid operand is decided. -/
theorem opt_dnf_unsat (b : Arr) (n : Nat) (h : WFo b n) (hf : ∀ v, evW b n v (root b) = false) :
    toOptimizedDnf b = .ok [] ∧ mkDnf n [] = .ok (canon n (fun v => evW b n v (root b))) := by
  refine ⟨toOptimizedDnf_unsat (f := fun v => evW b n v (root b)) ⟨h, fun _ => rfl⟩ hf, ?_⟩
  rw [mkDnf_nil, (sem_mkFalse n).eq, canon_congr (fun v => (hf v).symm)]

/-! ### non-vacuity -/

/-- `x0 ∧ ¬x2` as a raw vector of length 3, `¬x1` as a vector of length 2 (shorter than `num_vars`), and the same
    clause again with a trailing `None` (equal under `PartialEq`, different as vectors) -/
def exC1 : PVal := [some true, none, some false]
def exC2 : PVal := [none, some false]
def exC2' : PVal := [none, some false, none]

theorem exC1_inRange : InRange 3 exC1 := by
  intro x b h
  match x with
  | 0 | 1 | 2 => omega
  | x + 3 => simp [exC1, PVal.get] at h
theorem exC2_inRange : InRange 3 exC2 := by
  intro x b h
  match x with
  | 0 | 1 => omega
  | x + 2 => simp [exC2, PVal.get] at h
theorem exC2'_inRange : InRange 3 exC2' := by
  intro x b h
  match x with
  | 0 | 1 | 2 => omega
  | x + 3 => simp [exC2', PVal.get] at h

/-- the hypotheses of `mk_dnf_spec` are satisfiable by a list with a duplicate of another vector length -/
example : ∃ r, mkDnf 3 [exC1, exC2, exC2'] = .ok r ∧ r = canon 3 (dnfFn [exC1, exC2, exC2']) ∧ numVars r = 3 ∧
    ∀ v, den r v = dnfFn [exC1, exC2, exC2'] v :=
  mk_dnf_spec 3 _ (by
    intro c hc
    simp only [List.mem_cons, List.not_mem_nil, or_false] at hc
    rcases hc with rfl | rfl | rfl
    · exact exC1_inRange
    · exact exC2_inRange
    · exact exC2'_inRange)

/-- … and the canonical array is a concrete non-trivial object: `¬x1 ∨ (x0 ∧ ¬x2)` -/
example : canon 3 (dnfFn [exC1, exC2, exC2']) =
    #[⟨3, 0, 0⟩, ⟨3, 1, 1⟩, ⟨2, 1, 0⟩, ⟨1, 1, 2⟩, ⟨1, 1, 0⟩, ⟨0, 4, 3⟩] := by decide

/-- a clause with a foreign variable: the constructors panic -/
example : mkConjClause 2 exC1 = .panic assertIndex ∧ mkDisjClause 2 exC1 = .panic assertIndex :=
  (clause_ctor_spec 2 exC1).2 (by
    intro h
    have := h 2 false (by simp [exC1, PVal.get])
    omega)

theorem exFn_dep : Dep 3 (dnfFn [exC1, exC2]) :=
  dnfFn_dep (by
    intro c hc
    simp only [List.mem_cons, List.not_mem_nil, or_false] at hc
    rcases hc with rfl | rfl
    · exact exC1_inRange
    · exact exC2_inRange)

/-- the round trips apply to a concrete non-constant canonical array -/
example : ∃ cs, toDnf (canon 3 (dnfFn [exC1, exC2])) = .ok cs ∧ mkDnf 3 cs = .ok (canon 3 (dnfFn [exC1, exC2])) :=
  dnf_roundtrip 3 _ _ rfl exFn_dep
example : ∃ cs, toCnf (canon 3 (dnfFn [exC1, exC2])) = .ok cs ∧ mkCnf 3 cs = .ok (canon 3 (dnfFn [exC1, exC2])) :=
  cnf_roundtrip 3 _ _ rfl exFn_dep
example : ∃ cs, toOptimizedDnf (canon 3 (dnfFn [exC1, exC2])) = .ok cs ∧ (∀ c ∈ cs, InRange 3 c) ∧
    (∀ v, dnfFn cs v = den (canon 3 (dnfFn [exC1, exC2])) v) ∧ mkDnf 3 cs = .ok (canon 3 (dnfFn [exC1, exC2])) :=
  opt_dnf_roundtrip_exactCard 3 _ _ rfl exFn_dep
/-- the operand of the three examples above is `(x0 ∧ ¬x2) ∨ ¬x1`, a 6-node diagram -/
example : canon 3 (dnfFn [exC1, exC2]) =
    #[⟨3, 0, 0⟩, ⟨3, 1, 1⟩, ⟨2, 1, 0⟩, ⟨1, 1, 2⟩, ⟨1, 1, 0⟩, ⟨0, 4, 3⟩] := by decide

/-- a valid operand that is not canonical: `x1` below a redundant test of `x0` -/
def exRedundant : Arr := #[⟨2, 0, 0⟩, ⟨2, 1, 1⟩, ⟨1, 0, 1⟩, ⟨0, 2, 2⟩]
theorem exRedundant_wfo : WFo exRedundant 2 := wfoB_sound (by decide)
theorem exRedundant_fn (v : Nat → Bool) : evW exRedundant 2 v (root exRedundant) = v 1 := by
  show evW exRedundant 2 v 3 = v 1
  rw [evW_node exRedundant_wfo v 3 (by omega) ⟨0, 2, 2⟩ rfl]
  have : evW exRedundant 2 v 2 = v 1 := by
    rw [evW_node exRedundant_wfo v 2 (by omega) ⟨1, 0, 1⟩ rfl, evW_one, evW_zero]
    cases v 1 <;> rfl
  show (if v 0 = true then evW exRedundant 2 v 2 else evW exRedundant 2 v 2) = v 1
  rw [this]; split <;> rfl

/-- `to_dnf` / `to_cnf` accept it and the rebuilds are the canonical form of `x1` -/
example : ∃ cs, toDnf exRedundant = .ok cs ∧
    mkDnf 2 cs = .ok (canon 2 (fun v => evW exRedundant 2 v (root exRedundant))) :=
  mk_dnf_to_dnf_canon exRedundant 2 exRedundant_wfo
example : ∃ cs, toCnf exRedundant = .ok cs ∧
    mkCnf 2 cs = .ok (canon 2 (fun v => evW exRedundant 2 v (root exRedundant))) :=
  mk_cnf_to_cnf_canon exRedundant 2 exRedundant_wfo
example : toDnf exRedundant = .ok [[some false, some true], [some true, some true]] := rfl

/-- … while `to_optimized_dnf` panics on it (observed on the real library as well) -/
example : toOptimizedDnf exRedundant = .panic assertRemaining :=
  opt_dnf_refuses_spurious_support exRedundant 2 exRedundant_wfo (by decide)
    ⟨fun _ => true, by rw [exRedundant_fn]⟩
    ⟨0, by decide, by intro v b; show evW exRedundant 2 (upd v 0 b) (root exRedundant) = evW exRedundant 2 v (root exRedundant)
                      rw [exRedundant_fn, exRedundant_fn]; simp [upd]⟩

/-- a non-canonical `false`: `x0 ? 0 : 0` -/
example : toOptimizedDnf #[⟨1, 0, 0⟩, ⟨1, 1, 1⟩, ⟨0, 0, 0⟩] = .ok [] :=
  (opt_dnf_unsat _ 1 (wfoB_sound (by decide)) (by
    intro v
    show evW #[⟨1, 0, 0⟩, ⟨1, 1, 1⟩, ⟨0, 0, 0⟩] 1 v 2 = false
    rw [evW_node (wfoB_sound (by decide) : WFo #[⟨1, 0, 0⟩, ⟨1, 1, 1⟩, ⟨0, 0, 0⟩] 1) v 2 (by omega) ⟨0, 0, 0⟩ rfl]
    simp [evW_zero])).1

/-- outside `WFo` (a link that does not climb: node 2 points to itself) the loop of `to_dnf` does not end:
    the model reports the exhausted fuel -/
example : toDnf #[⟨1, 0, 0⟩, ⟨1, 1, 1⟩, ⟨0, 2, 2⟩] = .panic "fuel" := rfl

end B.Props.C10
