/-! # C10 — property theorems (to be written) -/
namespace B.Props.C10
end B.Props.C10
