/-! # C19 — property theorems (to be written) -/
namespace B.Props.C19
end B.Props.C19
