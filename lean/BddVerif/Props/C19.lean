import BddVerif.Lemmas.Sched
import BddVerif.Lemmas.SchedTranslated
import BddVerif.Gen.SharedState
/-!
# C19 — operations are pure, deterministic and safe to run concurrently on shared Bdds (PARTIAL by nature)

Two kinds of statements.

**(A) About the scheduling model** (`Model/Sched.lean`): threads run operation sequences over a shared
pool; a step of thread `i` reads the pool and thread `i`'s locals and writes only thread `i`'s locals
and a *hidden shared state* `S` (which stands for any cache / `static mut` / `thread_local!` /
`RandomState` seed / interior mutability an implementation could hide behind the API).
MODELLING ASSUMPTION, explicit as the hypothesis `Transparent sem f`: the result of every operation is
a function `f` of the operation and of its operands' values, whatever the hidden state. Under it, every
complete interleaving gives every thread exactly the results of running its program alone
(`sched_irrelevant`), the pool is never changed (`pool_unchanged`), any two runs — different
interleavings, different initial hidden states, even different transparent implementations of the same
`f` — give identical results (`deterministic`), every intermediate state is a prefix of the sequential
results (`prefix_at_any_time`), and steps of different threads commute (`steps_commute`).
`hidden_state_matters` shows that the hypothesis is not decoration: with a hidden counter the model
does distinguish two interleavings.

That each library operation IS such a function is what the models of the other properties establish
(they are Lean functions of the operands' node arrays); it is tied to the Rust code by (B), by the
`Send + Sync` instantiations of the harness (a type losing them stops the harness from building) and
by the correspondence under real threads (`harness/src/bin/c19.rs`, `Drive/C19.lean`).

**(B) About the regenerated shared-state inventory** (`Gen/SharedState.lean`, rewritten from the
current sources on every run): every entry is in the justified table `allowed`
(`shared_state_inventory_allowed`) and there is no place where a randomly seeded hash container is
turned into an unsorted sequence (`no_unsorted_hash_iteration`). A new `static`, `thread_local!`,
lazy static, `Cell`/`RefCell`/`Mutex`/atomic, `unsafe impl`, `unsafe { … }` block (or a change inside
one of the three known blocks), raw pointer, FFI item, ambient input (environment, clock, thread id,
`thread_rng`, process id, file system), or unsorted hash iteration breaks these two `decide` proofs.

NOT covered (why the property is labelled partial): data races and memory-model effects of real
hardware. Rust's type system excludes them for safe code; the model has no memory and cannot exhibit
them.
-/
namespace B.Props.C19
open B.Sched

variable {Op Val S S' : Type}

/-! ## (A) the scheduling model -/

/-- **Every complete interleaving gives every thread the results of its sequential run.** -/
theorem sched_irrelevant (sem : Sem Op Val S) (f : Op → List Val → Val) (ht : Transparent sem f)
    (sched : Schedule) (progs : Nat → Prog Op) (pool : List Val) (s0 : S)
    (hc : Complete sched progs) :
    results (run sem sched progs pool s0) = fun i => runSeq f (progs i) pool := by
  funext i
  have hinv := inv_runFrom sem f ht progs pool sched _ (inv_init f progs pool s0)
  have hlen := runFrom_todo_length sem sched i (init progs pool s0)
  have h0 : ((runFrom sem (init progs pool s0) sched).threads i).todo = [] := by
    apply List.eq_nil_of_length_eq_zero
    rw [hlen]
    have := hc i
    simp only [init]
    omega
  have := hinv.thread i
  rw [h0] at this
  simpa [results, run, seqGo] using this

/-- **No schedule, complete or not, transparent semantics or not, changes the shared pool.** -/
theorem pool_unchanged (sem : Sem Op Val S) (sched : Schedule) (progs : Nat → Prog Op) (pool : List Val) (s0 : S) :
    (run sem sched progs pool s0).pool = pool := by
  simp [run, runFrom_pool, init]

/-- **Determinism**: two runs of the same programs on the same pool — under different complete
    interleavings, from different hidden states (e.g. `RandomState` seeds, cache contents), even with
    two different implementations that are transparent for the same function — give identical results. -/
theorem deterministic (sem : Sem Op Val S) (sem' : Sem Op Val S') (f : Op → List Val → Val)
    (ht : Transparent sem f) (ht' : Transparent sem' f)
    (sched sched' : Schedule) (progs : Nat → Prog Op) (pool : List Val) (s0 : S) (s0' : S')
    (hc : Complete sched progs) (hc' : Complete sched' progs) :
    results (run sem sched progs pool s0) = results (run sem' sched' progs pool s0') := by
  rw [sched_irrelevant sem f ht sched progs pool s0 hc, sched_irrelevant sem' f ht' sched' progs pool s0' hc']

/-- the special case of plain functions (no hidden state at all) -/
theorem sched_irrelevant_pure (f : Op → List Val → Val) (sched : Schedule) (progs : Nat → Prog Op)
    (pool : List Val) (hc : Complete sched progs) :
    results (run (Sem.pure f) sched progs pool ()) = fun i => runSeq f (progs i) pool :=
  sched_irrelevant (Sem.pure f) f (fun _ _ _ => rfl) sched progs pool () hc

/-- **At any time** (any schedule, also incomplete ones) every thread holds a prefix of its sequential
    results, of the length of the turns it used. -/
theorem prefix_at_any_time (sem : Sem Op Val S) (f : Op → List Val → Val) (ht : Transparent sem f)
    (sched : Schedule) (progs : Nat → Prog Op) (pool : List Val) (s0 : S) (i : Nat) :
    results (run sem sched progs pool s0) i
      = (runSeq f (progs i) pool).take (min (sched.count i) (progs i).length) := by
  have hinv := inv_runFrom sem f ht progs pool sched _ (inv_init f progs pool s0)
  have hlen := runFrom_todo_length sem sched i (init progs pool s0)
  have hpre := seqGo_prefix f pool ((runFrom sem (init progs pool s0) sched).threads i).todo
    ((runFrom sem (init progs pool s0) sched).threads i).locals
  have htot := seqGo_length f pool ((runFrom sem (init progs pool s0) sched).threads i).todo
    ((runFrom sem (init progs pool s0) sched).threads i).locals
  rw [hinv.thread i] at hpre htot
  have hinit : ((init progs pool s0 : World Op Val S).threads i).todo = progs i := rfl
  rw [runSeq_length, hlen, hinit] at htot
  have hl : ((runFrom sem (init progs pool s0) sched).threads i).locals.length
      = min (sched.count i) (progs i).length := by omega
  have := List.prefix_iff_eq_take.mp hpre
  rw [hl] at this
  simpa [results, run] using this

/-- **Steps of different threads commute** (on everything observable: pool and all threads' states;
    the hidden state may differ). -/
theorem steps_commute (sem : Sem Op Val S) (f : Op → List Val → Val) (ht : Transparent sem f)
    (w : World Op Val S) (i j : Nat) (hij : i ≠ j) :
    (step sem (step sem w i) j).pool = (step sem (step sem w j) i).pool ∧
    (step sem (step sem w i) j).threads = (step sem (step sem w j) i).threads := by
  refine ⟨by simp [step_pool], ?_⟩
  have hji : j ≠ i := fun h => hij h.symm
  -- the thread that steps second sees its own state and the pool unchanged by the first step
  have key : ∀ (a b : Nat), a ≠ b → ∀ w : World Op Val S,
      (step sem (step sem w a) b).threads b = (step sem w b).threads b := by
    intro a b hab w
    have hb : (step sem w a).threads b = w.threads b := step_other sem w a b (fun h => hab h.symm)
    cases htodo : (w.threads b).todo with
    | nil =>
      rw [step_done sem w b htodo, step_done sem (step sem w a) b (by rw [hb]; exact htodo), hb]
    | cons ins rest =>
      rw [step_self sem f ht w b ins rest htodo,
        step_self sem f ht (step sem w a) b ins rest (by rw [hb]; exact htodo), hb, step_pool]
  funext k
  by_cases hki : k = i
  · subst hki
    rw [step_other sem _ j k hij, key j k hji w]
  · by_cases hkj : k = j
    · subst hkj
      rw [key i k hij w, step_other sem _ i k hki]
    · rw [step_other sem _ j k hkj, step_other sem _ i k hki, step_other sem _ i k hki,
        step_other sem _ j k hkj]

/-! ### the hypothesis is necessary: a hidden counter makes interleavings observable -/

/-- an "operation" that returns a hidden call counter (a stand-in for any shared cache that leaks) -/
def leaky : Sem Unit Nat Nat := ⟨fun _ _ s => (s, s + 1)⟩

def oneCall : Nat → Prog Unit := fun i => if i < 2 then [⟨(), []⟩] else []

/-- with hidden shared state that reaches a result, two complete interleavings of the same programs
    differ: the model CAN express the failure that C19 excludes, so `Transparent` is a real hypothesis -/
theorem hidden_state_matters :
    results (run leaky [0, 1] oneCall [] 0) 0 ≠ results (run leaky [1, 0] oneCall [] 0) 0 := by
  decide

theorem leaky_not_transparent : ¬ ∃ f, Transparent leaky f := by
  intro ⟨f, h⟩
  have h0 := h () [] 0
  have h1 := h () [] 1
  simp [leaky] at h0 h1
  omega

/-! ### non-vacuity: the hypotheses are met by concrete non-trivial values -/

/-- a toy instance: values are numbers, `true` adds and `false` multiplies the operands -/
def toyF : Bool → List Nat → Nat := fun o vs => if o then vs.foldl (· + ·) 0 else vs.foldl (· * ·) 1

/-- a semantics with a hidden call counter that never reaches a result (a transparent cache) -/
def toySem : Sem Bool Nat Nat := ⟨fun o vs s => (toyF o vs, s + 1)⟩

theorem toySem_transparent : Transparent toySem toyF := fun _ _ _ => rfl

def toyProgs : Nat → Prog Bool := fun i =>
  if i = 0 then [⟨true, [.pool 0, .pool 1]⟩, ⟨false, [.loc 0, .pool 2]⟩]
  else if i = 1 then [⟨false, [.pool 1, .pool 2]⟩, ⟨true, [.loc 0, .loc 0]⟩, ⟨true, [.loc 7]⟩]
  else []

theorem toy_complete : Complete [1, 0, 1, 0, 1] toyProgs := by
  intro i
  by_cases h0 : i = 0
  · subst h0; decide
  · by_cases h1 : i = 1
    · subst h1; decide
    · simp [toyProgs, h0, h1]

example : results (run toySem [1, 0, 1, 0, 1] toyProgs [2, 3, 4] 0) 0 = [some 5, some 20] := by decide
example : results (run toySem [1, 0, 1, 0, 1] toyProgs [2, 3, 4] 0) 1 = [some 12, some 24, none] := by decide
example : results (run toySem [0, 0, 1, 1, 1] toyProgs [2, 3, 4] 0) 1 = [some 12, some 24, none] := by decide
example : runSeq toyF (toyProgs 1) [2, 3, 4] = [some 12, some 24, none] := by decide
example : (run toySem [1, 0, 1, 0, 1] toyProgs [2, 3, 4] 0).hidden = 4 := by decide
example : results (run toySem [1, 0, 1, 0, 1] toyProgs [2, 3, 4] 0)
    = fun i => runSeq toyF (toyProgs i) [2, 3, 4] :=
  sched_irrelevant toySem toyF toySem_transparent _ _ _ _ toy_complete

/-! ## (A') the same, about the operations TRANSLATED from the current Rust source

`Lemmas/SchedTranslated.lean` instantiates the model with `semT`, whose 86 operation forms (Boolean / fused / limited /
dry-run operators with the regenerated tables, `not`, `if_then_else`, quantifiers and nested operators, select /
restrict / pick (also random, with recorded coins), substitute, rename, counting and tests, comparators, selectors,
`to_dnf` / `to_cnf` / `to_optimized_dnf` / `mk_dnf` / `mk_cnf`, byte and text serialisers, dot export, the
expression parser, printer and evaluators, variable-set constructors, name lookup, `transfer_from`) are
implemented BY the functions of `Gen/Algo.lean`, `Gen/Algo2.lean`, `Gen/Algo3.lean`, regenerated from the Rust
text on every run. For them `Transparent` is not an assumption: the implementation IS a function
(`B.SchedT.semTr_transparent`, by `rfl`). Hence, for every fuel, every pool (Bdds, variable sets, anything),
every family of programs and every interleaving, the statements below are theorems about code regenerated from
the current source. The trusted step is the translator `tools/rust2lean.py` with its shims — which is exactly where
hidden state would have to be caught: it works from a whitelist and has no rule for statics, thread-locals,
interior mutability, `Rc`/`Arc`, raw pointers, FFI, ambient inputs, iteration over hash containers or impure
closures (a hard error = broken tie of the generated file; the list is in `Lemmas/SchedTranslated.lean`); a
`&mut` becomes a returned value, an RNG a list of coins, a `Read`/`Write` a scripted device, a loop a fuel-bounded
`for`, so every input of a translated function is visible in its type. Still assumed: translator and shim
fidelity (checked differentially by `drv_algo*` and, where a hand model exists, by the `AlgoEq*` proofs), the
dependencies (std, fxhash, num-bigint, a caller-supplied `rand` generator), and the hardware memory model. -/

open B.SchedT in
/-- **Every complete interleaving of translated library operations on a shared pool gives every thread
    exactly the results of its sequential run.** -/
theorem sched_irrelevant_translated (fuel : Nat) (sched : Schedule) (progs : Nat → Prog B.SchedT.Op)
    (pool : List (Outcome B.SchedT.V)) (hc : Complete sched progs) :
    results (run (semTr fuel) sched progs pool ()) = fun i => runSeq (opT fuel) (progs i) pool :=
  sched_irrelevant (semTr fuel) (opT fuel) (semTr_transparent fuel) sched progs pool () hc

open B.SchedT in
/-- … also when the implementation keeps any hidden state `S` that calls may modify but that does not reach a
    result, whatever its initial content -/
theorem sched_irrelevant_translated_hidden {S : Type} (fuel : Nat)
    (touch : B.SchedT.Op → List (Outcome B.SchedT.V) → S → S) (s0 : S) (sched : Schedule)
    (progs : Nat → Prog B.SchedT.Op) (pool : List (Outcome B.SchedT.V)) (hc : Complete sched progs) :
    results (run (semTrH fuel touch) sched progs pool s0) = fun i => runSeq (opT fuel) (progs i) pool :=
  sched_irrelevant (semTrH fuel touch) (opT fuel) (semTrH_transparent fuel touch) sched progs pool s0 hc

open B.SchedT in
/-- **Determinism of the translated operations**: two complete interleavings of the same programs on the same
    pool give identical results. -/
theorem deterministic_translated (fuel : Nat) (sched sched' : Schedule) (progs : Nat → Prog B.SchedT.Op)
    (pool : List (Outcome B.SchedT.V)) (hc : Complete sched progs) (hc' : Complete sched' progs) :
    results (run (semTr fuel) sched progs pool ()) = results (run (semTr fuel) sched' progs pool ()) :=
  deterministic (semTr fuel) (semTr fuel) (opT fuel) (semTr_transparent fuel) (semTr_transparent fuel)
    sched sched' progs pool () () hc hc'

open B.SchedT in
/-- **No interleaving of translated operations changes the shared pool.** -/
theorem pool_unchanged_translated (fuel : Nat) (sched : Schedule) (progs : Nat → Prog B.SchedT.Op)
    (pool : List (Outcome B.SchedT.V)) :
    (run (semTr fuel) sched progs pool ()).pool = pool :=
  pool_unchanged (semTr fuel) sched progs pool ()

open B.SchedT in
/-- at any time every thread holds a prefix of its sequential results -/
theorem prefix_at_any_time_translated (fuel : Nat) (sched : Schedule) (progs : Nat → Prog B.SchedT.Op)
    (pool : List (Outcome B.SchedT.V)) (i : Nat) :
    results (run (semTr fuel) sched progs pool ()) i
      = (runSeq (opT fuel) (progs i) pool).take (min (sched.count i) (progs i).length) :=
  prefix_at_any_time (semTr fuel) (opT fuel) (semTr_transparent fuel) sched progs pool () i

/-- non-vacuity: three threads running 14 translated operations (and, ∃, count, dry run; parse+eval, optimised DNF,
    mk_dnf, substitute, print; ite, to/from bytes, transfer, a dangling operand) over a pool of three Bdds and a
    variable set; `Lemmas/SchedTranslated.lean` also evaluates both sides at build time (`#guard`) -/
example : results (run (B.SchedT.semTr 10000) [2, 1, 0, 2, 1, 0, 2, 1, 0, 2, 1, 0, 2, 1] B.SchedT.demoProgs B.SchedT.demoPool ())
    = fun i => runSeq (B.SchedT.opT 10000) (B.SchedT.demoProgs i) B.SchedT.demoPool :=
  sched_irrelevant_translated 10000 _ _ _ B.SchedT.demo_complete

/-! ## (B) the regenerated shared-state inventory -/

/-- The justified occurrences: (file, kind, text as produced by the translator, reason).

All three are the `unsafe { … }` blocks of `Bdd::substitute`. The callees `set_num_vars` and
`rename_variables` are `unsafe fn` only in the API sense ("can change the Bdd in a non-semantic way",
see their `# Safety` sections): their bodies are plain safe Rust (bounds-checked indexing of the
receiver's own `Vec`, `assert!`s) — the scanner checks that no `unsafe fn` body calls another
`unsafe fn`, dereferences a raw pointer, or uses an unchecked primitive. Each block mutates a value
that the function has just created (`self.clone()`, `function.clone()`, the result of
`binary_op_with_exists`) and that no other thread can reach; `self` and `function` are only read. -/
def allowed : List (String × String × String × String) := [
  ("src/_impl_bdd/_impl_util.rs", "unsafe_block",
   "fn substitute: unsafe { self_copy.set_num_vars(self_copy.num_vars().checked_add(1).unwrap()); self_copy.rename_variables(&permutation); }",
   "mutates `self_copy`, a fresh local clone of `self`; callees are safe Rust marked unsafe for API reasons; no shared state"),
  ("src/_impl_bdd/_impl_util.rs", "unsafe_block",
   "fn substitute: unsafe { function_copy.set_num_vars(function_copy.num_vars().checked_add(1).unwrap()); function_copy.rename_variables(&permutation); }",
   "mutates `function_copy`, a fresh local clone of `function`; callees are safe Rust marked unsafe for API reasons; no shared state"),
  ("src/_impl_bdd/_impl_util.rs", "unsafe_block",
   "fn substitute: unsafe { substituted.rename_variables(&reverse_permutation); substituted.set_num_vars(substituted.num_vars() - 1); }",
   "mutates `substituted`, the fresh result of `binary_op_with_exists` owned by this call; no shared state")
]

def allowedKeys : List (String × String × String) := allowed.map fun a => (a.1, a.2.1, a.2.2.1)

set_option maxRecDepth 8192 in
/-- **Every occurrence of shared state / interior mutability / unsafe code / raw pointers / FFI /
    ambient input in the current non-test sources is one of the justified ones.** -/
theorem shared_state_inventory_allowed : ∀ e ∈ Gen.sharedStateInventory, e ∈ allowedKeys := by decide

/-- **No randomly seeded hash container is turned into a sequence that is neither sorted next nor
    consumed by an order-insensitive sink.** -/
theorem no_unsorted_hash_iteration : Gen.unsortedHashIteration = [] := by decide

/-- the scanner's own classification of the sites it saw uses nothing but `sorted` and `order_free` -/
theorem hash_iteration_sites_classified :
    ∀ e ∈ Gen.hashIterationSites, e.2.2.1 = "sorted" ∨ e.2.2.1 = "order_free" := by decide

/-- nothing but `unsafe { … }` blocks is allowed at all: no static, no thread-local, no interior
    mutability, no `unsafe impl`, no raw pointer, no FFI, no ambient input -/
theorem allowed_only_unsafe_blocks : ∀ a ∈ allowed, a.2.1 = "unsafe_block" := by decide

end B.Props.C19
