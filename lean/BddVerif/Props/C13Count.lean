import BddVerif.Props.C13
import BddVerif.Props.C09
/-!
# C13 (continued) — "model counting agrees with evaluation" for every accepted diagram

Anything `from_nodes` accepts, or on which `validate()` returns Ok, is well formed by level (`WFo`,
Props/C13.lean); for every such diagram — whatever its node numbering, reduced or not — the model of
`exact_cardinality` returns (without panicking) exactly the number of valuations of its `n`
variables on which the model of `eval_in` is true (C09's counting theorem, which needs `WFo` only).
-/
namespace B.Props.C13
open B B.Serial B.Count

theorem from_nodes_count_agrees (d b : Arr) (h : fromNodes d = .ok b) :
    exactCardO b = .ok (cnt (numVars b) (fun v => evW b (numVars b) v (root b))) := by
  obtain ⟨rfl, hw⟩ := (from_nodes_wf d b).1 h
  exact B.Props.C09.exact_card_spec hw

theorem validate_count_agrees (A : Arr) (h : validate A = some (.ok ())) :
    exactCardO A = .ok (cnt (numVars A) (fun v => evW A (numVars A) v (root A))) :=
  B.Props.C09.exact_card_spec (validate_wf A h).1

end B.Props.C13
