import BddVerif.Props.C13
import BddVerif.Props.C09
/-!
# C13 (continued) — "model counting agrees with evaluation" for every accepted diagram

Anything `from_nodes` accepts, or on which `validate()` returns Ok, is well formed by level (`WFo`,
Props/C13.lean); for every such diagram — whatever its node numbering, reduced or not — the model of
`exact_cardinality` returns (without panicking) exactly the number of valuations of its `n`
variables on which the model of `eval_in` is true (C09's counting theorem, which needs `WFo` only).
-/
namespace B.Props.C13
open B B.Serial B.Count

theorem from_nodes_count_agrees (d b : Arr) (h : fromNodes d = .ok b) :
    exactCardO b = .ok (cnt (numVars b) (fun v => evW b (numVars b) v (root b))) := by
  obtain ⟨rfl, hw⟩ := (from_nodes_wf d b).1 h
  exact B.Props.C09.exact_card_spec hw

theorem validate_count_agrees (A : Arr) (h : validate A = some (.ok ())) :
    exactCardO A = .ok (cnt (numVars A) (fun v => evW A (numVars A) v (root A))) :=
  B.Props.C09.exact_card_spec (validate_wf A h).1


/-! ### the same with the model of `eval_in` itself: count = |{v | eval_in(v)}| -/

/-- `eval_in` on the valuation whose first `n` entries are `v 0 … v (n-1)` returns `true` (a panic or a divergence
    counts as "not true"; on accepted diagrams neither happens, `wf_eval_terminates`) -/
def evalTrue (A : Arr) (n : Nat) (v : Nat → Bool) : Bool :=
  match evalIn A (Array.ofFn (n := n) fun i => v i.val) (n + 1) with
  | some (.ok true) => true
  | _ => false

theorem evalTrue_eq_evW {A : Arr} {n : Nat} (h : WFo A n) (v : Nat → Bool) :
    evalTrue A n v = evW A n v (root A) := by
  have hpos : 0 < A.size := by
    rcases Nat.eq_zero_or_pos A.size with h0 | h0
    · have := h.zero; rw [Array.getElem?_eq_none (by omega)] at this; simp at this
    · exact h0
  unfold evalTrue
  rw [wf_eval_terminates A n _ h (by simp)]
  have e : evW A n (fun i => (Array.ofFn (n := n) fun i => v i.val).getD i false) (root A) = evW A n v (root A) := by
    apply evW_indep h n (root A) (by unfold root; omega) (by omega)
    intro i _ hi
    simp [Array.getD, hi]
  rw [e]
  cases evW A n v (root A) <;> rfl

/-- **wf_count_agrees**: on every level-well-formed diagram `exact_cardinality` returns, without panicking, the number of
    valuations (among all `2ⁿ`, enumerated by `allVals`, see `C09.all_vals_enumeration`) on which `eval_in` is true -/
theorem wf_count_agrees {A : Arr} {n : Nat} (h : WFo A n) :
    exactCardO A = .ok ((allVals n).filter (evalTrue A n)).length := by
  rw [B.Props.C09.exact_card_spec h, B.Props.C09.cnt_eq_filter_length]
  congr 2
  apply List.filter_congr
  intro v _
  exact (evalTrue_eq_evW h v).symm

/-- "model counting agrees with evaluation" for everything `validate` passes … -/
theorem validate_count_eq_eval (A : Arr) (h : validate A = some (.ok ())) :
    exactCardO A = .ok ((allVals (numVars A)).filter (evalTrue A (numVars A))).length :=
  wf_count_agrees (validate_wf A h).1

/-- … and for everything `from_nodes` accepts -/
theorem from_nodes_count_eq_eval (d b : Arr) (h : fromNodes d = .ok b) :
    exactCardO b = .ok ((allVals (numVars b)).filter (evalTrue b (numVars b))).length := by
  obtain ⟨rfl, hw⟩ := (from_nodes_wf d b).1 h
  exact wf_count_agrees hw

example : exactCardO exOk = .ok 3 ∧ ((allVals 2).filter (evalTrue exOk 2)).length = 3 := by
  have := validate_count_eq_eval exOk exOk_valid
  have e : ((allVals (numVars exOk)).filter (evalTrue exOk (numVars exOk))).length = 3 := by decide +kernel
  rw [e] at this
  exact ⟨this, e⟩

end B.Props.C13
