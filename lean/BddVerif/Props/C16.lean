import BddVerif.Lemmas.VarSetNames
import BddVerif.Lemmas.VarSetSat
/-!
# C16 — variable sets, literals and threshold constructors are faithful

Property theorems about the model `Model/VarSet.lean` (helper lemmas: `Lemmas/VarSet*.lean`).
`Gen.notInVarName` is regenerated from `src/lib.rs` (`NOT_IN_VAR_NAME`) on every run; `Gen.and_`, `Gen.or_`
from `src/op_function.rs`.

Conventions: `den A v` is the value of the diagram `A` under the valuation `v`; `canon n f` is the canonical
array of the Boolean function `f` of the first `n` variables, so `A = canon n (den A)` says that `A` is
canonical; an `Outcome.panic` is a Rust panic (the documented rejection of the constructors).
-/
namespace B.Props.C16
open B B.VS

/-! ## names ↔ variables -/

/-- the forbidden characters are exactly those listed by `NOT_IN_VAR_NAME` … -/
theorem valid_name_iff (s : String) : validName s = true ↔ ∀ c ∈ s.toList, c ∉ Gen.notInVarName :=
  validName_iff s

/-- … which contain every operator character of the expression grammar (so an accepted name can never be
    confused with an operator by the expression parser) -/
theorem forbidden_covers_grammar :
    ∀ c ∈ ['!', '&', '|', '^', '=', '<', '>', '(', ')', '?', ':'], c ∈ Gen.notInVarName := by decide

/-- `BddVariableSet::new` and the builder protocol (`make_variable` for every name in order, then `build`):
    a list of names is accepted iff it is duplicate-free, every name is free of forbidden characters and it is
    not too long (`new`: at most 65 533 names, builder: at most 65 534); otherwise the constructor panics.
    An accepted set maps names to variables bijectively in declaration order (`Faithful`: `num_vars`,
    `variables()`, `variable_names()`, `var_by_name(names[j]) = Some(j)`, `var_by_name(unknown) = None`,
    `name_of(j) = names[j]`), and the builder returns the variables `0, 1, …` in order. -/
theorem name_index_bijection (names : List String) :
    (Acceptable 65533 names → ∃ vs, VS.new names = .ok vs ∧ Faithful vs names) ∧
    (¬ Acceptable 65533 names → ∃ m, VS.new names = .panic m) ∧
    (Acceptable 65534 names → ∃ vs, viaBuilder names = .ok (vs, List.range names.length) ∧ Faithful vs names) ∧
    (¬ Acceptable 65534 names → ∃ m, viaBuilder names = .panic m) :=
  ⟨new_ok names, new_panic names, viaBuilder_ok names, viaBuilder_panic names⟩

/-- the round trips, for any faithful set: `var_by_name(name_of(x)) = Some(x)` for every variable of the set,
    `name_of(var_by_name(s)) = s` for every name that is found, nothing is found for a name outside the list -/
theorem name_round_trips {vs : VarSet} {names : List String} (h : Faithful vs names) :
    (∀ x, x < vs.numVars → ∃ s, vs.nameOf x = .ok s ∧ vs.varByName s = some x) ∧
    (∀ s x, vs.varByName s = some x → x < vs.numVars ∧ vs.nameOf x = .ok s) ∧
    (∀ s, s ∉ names → vs.varByName s = none) := by
  refine ⟨?_, ?_, h.unknown⟩
  · intro x hx
    rw [h.numVars] at hx
    exact ⟨names[x], h.nameOf x hx, h.byName x hx⟩
  · intro s x hs
    obtain ⟨hx, e⟩ := h.byName_inv s x hs
    rw [h.numVars]
    exact ⟨hx, by rw [h.nameOf x hx, e]⟩

/-- `new_anonymous(k)`: the names `x_0 … x_{k-1}` are pairwise distinct, the set is faithful; 65 534 and more
    variables are refused -/
theorem anonymous_set (k : Nat) :
    (k ≤ 65533 → ∃ vs, newAnonymous k = .ok vs ∧ Faithful vs ((List.range k).map anonName)) ∧
    (65533 < k → ∃ m, newAnonymous k = .panic m) :=
  ⟨newAnonymous_ok k, newAnonymous_panic k⟩

/-! ## constants and literals -/

theorem Sem.canonical {n : Nat} {A : Arr} {f : (Nat → Bool) → Bool} (h : Sem n A f) : A = canon n (den A) := by
  have : den A = f := funext h.den
  rw [this]; exact h.eq

/-- `mk_true` / `mk_false` denote the constants and are canonical -/
theorem constant_spec (n : Nat) :
    (∀ v, den (mkTrue n) v = true) ∧ mkTrue n = canon n (fun _ => true) ∧
    (∀ v, den (mkFalse n) v = false) ∧ mkFalse n = canon n (fun _ => false) := by
  have ht : Sem n (mkTrue n) (fun _ => true) :=
    (sem_clauseArr n [] (Nat.zero_le n)).congr (fun _ => rfl)
  exact ⟨ht.den, ht.eq, (sem_mkFalse n).den, (sem_mkFalse n).eq⟩

/-- `mk_var`, `mk_not_var`, `mk_literal` for a variable of the set: the literal, in canonical form -/
theorem literal_spec (n x : Nat) (hx : x < n) :
    mkVar n x = canon n (fun v => v x) ∧ (∀ v, den (mkVar n x) v = v x) ∧
    mkNotVar n x = canon n (fun v => !v x) ∧ (∀ v, den (mkNotVar n x) v = !v x) ∧
    (∀ b, mkLiteral n x b = canon n (fun v => v x == b) ∧ ∀ v, den (mkLiteral n x b) v = (v x == b)) :=
  ⟨(sem_mkVar n x hx).eq, (sem_mkVar n x hx).den, (sem_mkNotVar n x hx).eq, (sem_mkNotVar n x hx).den,
    fun b => ⟨(sem_mkLiteral n x b hx).eq, (sem_mkLiteral n x b hx).den⟩⟩

/-- `mk_var_by_name` / `mk_not_var_by_name` on a faithful set: the literal of the named variable; an unknown
    name panics -/
theorem literal_by_name_spec {vs : VarSet} {names : List String} (h : Faithful vs names) :
    (∀ j (hj : j < names.length), vs.mkVarByName names[j] = .ok (mkVar names.length j) ∧
      vs.mkNotVarByName names[j] = .ok (mkNotVar names.length j)) ∧
    (∀ s, s ∉ names → (∃ m, vs.mkVarByName s = .panic m) ∧ ∃ m, vs.mkNotVarByName s = .panic m) := by
  constructor
  · intro j hj
    simp [VarSet.mkVarByName, VarSet.mkNotVarByName, h.byName j hj, VarSet.mkVar, VarSet.mkNotVar, h.numVars]
  · intro s hs
    simp [VarSet.mkVarByName, VarSet.mkNotVarByName, h.unknown s hs]

/-! ## single valuations -/

/-- `Bdd::from(valuation)` is satisfied by exactly that valuation (of the first `len` variables) and is
    canonical -/
theorem valuation_bdd_spec (bs : List Bool) :
    (∀ v, den (valuationBdd bs) v = true ↔ ∀ j (h : j < bs.length), v j = bs[j]) ∧
    valuationBdd bs = canon bs.length (den (valuationBdd bs)) ∧ numVars (valuationBdd bs) = bs.length := by
  have h := sem_valuationBdd bs
  refine ⟨?_, Sem.canonical h, h.numVars⟩
  intro v
  rw [h.den, litsFn_litsFrom]
  simp

/-! ## thresholds -/

/-- general form, for ANY list of variables of the set (unsorted, with repetitions): the result is the
    canonical array of "exactly `k` of the variables below `n` that occur in the list are true" -/
theorem sat_exactly_k_canon (n k : Nat) (vars : List Nat) (hv : ∀ x ∈ vars, x < n) :
    mkSatExactlyK n k vars = .ok (canon n (fun v => decide (cnt n vars v = k))) := by
  obtain ⟨r, hr, hs⟩ := sem_mkSatExactlyK n k vars hv
  rw [hr, hs.eq]

theorem sat_up_to_k_canon (n k : Nat) (vars : List Nat) (hv : ∀ x ∈ vars, x < n) :
    mkSatUpToK n k vars = .ok (canon n (fun v => decide (cnt n vars v ≤ k))) := by
  obtain ⟨r, hr, hs⟩ := sem_mkSatUpToK n k vars hv
  rw [hr, hs.eq]

/-- `mk_sat_exactly_k(k, vars)` for a duplicate-free list of variables of the set and every `k` (0 and values
    above the length included): satisfied exactly by the valuations with exactly `k` of the listed variables
    true; canonical -/
theorem sat_exactly_k_spec (n k : Nat) (vars : List Nat) (hv : ∀ x ∈ vars, x < n) (hnd : vars.Nodup) :
    ∃ r, mkSatExactlyK n k vars = .ok r ∧
      (∀ v, den r v = true ↔ (vars.filter v).length = k) ∧ r = canon n (den r) ∧ numVars r = n := by
  obtain ⟨r, hr, hs⟩ := sem_mkSatExactlyK n k vars hv
  refine ⟨r, hr, ?_, Sem.canonical hs, hs.numVars⟩
  intro v
  rw [hs.den, decide_eq_true_eq, cnt_eq_filter_length n vars hv hnd]

/-- `mk_sat_up_to_k(k, vars)`: at most `k` of the listed variables are true; canonical -/
theorem sat_up_to_k_spec (n k : Nat) (vars : List Nat) (hv : ∀ x ∈ vars, x < n) (hnd : vars.Nodup) :
    ∃ r, mkSatUpToK n k vars = .ok r ∧
      (∀ v, den r v = true ↔ (vars.filter v).length ≤ k) ∧ r = canon n (den r) ∧ numVars r = n := by
  obtain ⟨r, hr, hs⟩ := sem_mkSatUpToK n k vars hv
  refine ⟨r, hr, ?_, Sem.canonical hs, hs.numVars⟩
  intro v
  rw [hs.den, decide_eq_true_eq, cnt_eq_filter_length n vars hv hnd]

/-- repetitions and order in the list are irrelevant: two lists with the same members give the same array -/
theorem sat_list_as_set (n k : Nat) (vars vars' : List Nat) (hv : ∀ x ∈ vars, x < n)
    (hmem : ∀ x, x ∈ vars ↔ x ∈ vars') :
    mkSatExactlyK n k vars = mkSatExactlyK n k vars' ∧ mkSatUpToK n k vars = mkSatUpToK n k vars' := by
  have hv' : ∀ x ∈ vars', x < n := fun x hx => hv x ((hmem x).2 hx)
  have hc : ∀ v, cnt n vars v = cnt n vars' v := by
    intro v
    unfold cnt
    congr 1
    apply List.filter_congr
    intro x _
    have : vars.contains x = vars'.contains x := by
      rw [Bool.eq_iff_iff]; simp [hmem x]
    rw [this]
  rw [sat_exactly_k_canon n k vars hv, sat_exactly_k_canon n k vars' hv', sat_up_to_k_canon n k vars hv,
    sat_up_to_k_canon n k vars' hv']
  exact ⟨by congr 1; exact canon_congr (fun v => by rw [hc v]), by congr 1; exact canon_congr (fun v => by rw [hc v])⟩

/-- `k` is an unbounded natural in the model; every `k` beyond the length of the list gives the same result as
    `length + 1` rounds (the constant false for "exactly", the constant true for "at most" — see the `_canon`
    theorems): in particular nothing special happens at 2^8, 2^16, 2^32 or `usize::MAX`. The driver uses this to
    replay `k` rounds with `min k (length + 1)` rounds. -/
theorem sat_k_beyond_length (n k : Nat) (vars : List Nat) (hk : vars.length + 1 < k) :
    mkSatExactlyK n k vars = mkSatExactlyK n (vars.length + 1) vars ∧
    mkSatUpToK n k vars = mkSatUpToK n (vars.length + 1) vars := by
  obtain ⟨a, b⟩ := sat_beyond_length n k (vars.length + 1) vars (by omega) (by omega)
  exact ⟨a, b (by omega) (by omega)⟩

/-- a listed variable that is not in the set trips the assertion of `mk_conjunctive_clause` -/
theorem sat_out_of_range (n k : Nat) (vars : List Nat) (x : Nat) (hx : x ∈ vars) (hxn : n ≤ x) :
    (∃ m, mkSatExactlyK n k vars = .panic m) ∧ ∃ m, mkSatUpToK n k vars = .panic m := by
  obtain ⟨m, hm⟩ := clause_panic n vars x hx hxn
  exact ⟨⟨m, by simp [mkSatExactlyK, hm]⟩, ⟨m, by simp [mkSatUpToK, hm]⟩⟩

/-! ## non-vacuity -/

/-- 65 536 rounds over two of four variables: the constant false / the constant true -/
example : mkSatExactlyK 4 65536 [1, 3] = .ok #[⟨4, 0, 0⟩] ∧ mkSatUpToK 4 65536 [1, 3] = .ok #[⟨4, 0, 0⟩, ⟨4, 1, 1⟩] := by
  obtain ⟨a, b⟩ := sat_k_beyond_length 4 65536 [1, 3] (by decide)
  rw [a, b, sat_exactly_k_canon 4 _ [1, 3] (by decide), sat_up_to_k_canon 4 _ [1, 3] (by decide)]
  exact ⟨congrArg Outcome.ok (by decide), congrArg Outcome.ok (by decide)⟩


/-- an acceptable list (with an empty name and a non-ASCII one) -/
example : Acceptable 65533 ["a", "", "é b"] := ⟨by decide, by decide, by decide⟩
/-- rejected lists: a duplicate, a forbidden character -/
example : ¬ Acceptable 65533 ["a", "b", "a"] := fun h => absurd h.2.2 (by decide)
example : ¬ Acceptable 65533 ["a", "b?"] := fun h => absurd (h.2.1 "b?" (by simp)) (by decide)
/-- the statement about literals is about a concrete non-trivial array -/
example : mkVar 3 1 = #[⟨3, 0, 0⟩, ⟨3, 1, 1⟩, ⟨1, 0, 1⟩] := rfl
example : valuationBdd [true, false] = #[⟨2, 0, 0⟩, ⟨2, 1, 1⟩, ⟨1, 1, 0⟩, ⟨0, 0, 2⟩] := rfl
/-- the hypotheses of the threshold theorems hold for an unsorted proper subset of the variables -/
example : (∀ x ∈ [3, 0, 2], x < 4) ∧ [3, 0, 2].Nodup := ⟨by decide, by decide⟩
/-- … and the theorem pins the concrete result (the kernel evaluates `canon`, not the hash-map based model):
    exactly one of `x0`, `x2` over three variables -/
example : mkSatExactlyK 3 1 [2, 0] =
    .ok #[⟨3, 0, 0⟩, ⟨3, 1, 1⟩, ⟨2, 1, 0⟩, ⟨2, 0, 1⟩, ⟨0, 3, 2⟩] :=
  (sat_exactly_k_canon 3 1 [2, 0] (by decide)).trans (congrArg Outcome.ok (by decide))

end B.Props.C16
