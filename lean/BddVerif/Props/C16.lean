/-! # C16 — property theorems (to be written) -/
namespace B.Props.C16
end B.Props.C16
