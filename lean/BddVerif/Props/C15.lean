/-! # C15 — property theorems (to be written) -/
namespace B.Props.C15
end B.Props.C15
