import BddVerif.Lemmas.ExprExport
import BddVerif.Lemmas.ParserPrint
import BddVerif.Gen.MacroRules
/-!
# C15 — expressions, the `bdd!` macro and Bdd-to-expression export denote the same function

Property theorems about the executable model `B.ExprM` (Model/Expr.lean) of `safe_eval_expression`,
`eval_expression`, `eval_expression_string` and `to_boolean_expression`, and about the regenerated rule
table of the `bdd!` macro. Helper lemmas: `Lemmas/ExprEval.lean`, `Lemmas/ExprExport.lean`.
The operator tables `Gen.and_ … Gen.ite_`, `Gen.notInVarName` and `Gen.macroOps` are regenerated from the
source on every run.
-/
namespace B.Props.C15
open B B.Parser B.ExprM B.VS

/-- **Evaluation is pointwise.** If `safe_eval_expression` returns a Bdd, its function is the pointwise
    meaning of the tree, it has the variable count of the set, and it is the canonical array of that function. -/
theorem eval_expr_spec (vars : List Name) (e : Expr) (r : Arr) (h : evalExpr vars e = some r) :
    (∀ v, den r v = evalBool e (envOf vars v)) ∧ numVars r = vars.length ∧ Canonical r ∧
      r = canon vars.length (fun v => evalBool e (envOf vars v)) := by
  have hs := evalExpr_sem vars e r h
  refine ⟨hs.den, hs.numVars, ?_, hs.eq⟩
  rw [hs.eq]
  exact canon_canonical _ _ hs.dep

/-- two trees with the same meaning evaluate to the identical array -/
theorem eval_expr_canonical (vars : List Name) (e e' : Expr) (r r' : Arr)
    (h : evalExpr vars e = some r) (h' : evalExpr vars e' = some r')
    (hsem : ∀ v, evalBool e (envOf vars v) = evalBool e' (envOf vars v)) : r = r' :=
  (evalExpr_sem vars e r h).unique (evalExpr_sem vars e' r' h') hsem

/-- **`None` exactly for an unknown name.** -/
theorem eval_expr_none_iff (vars : List Name) (e : Expr) :
    evalExpr vars e = none ↔ ∃ s ∈ names e, s ∉ vars := evalExpr_none_iff vars e

/-- `eval_expression` panics exactly when a name is unknown, and otherwise returns what
    `safe_eval_expression` returns -/
theorem eval_expression_outcome (vars : List Name) (e : Expr) :
    ((evalExprO vars e).isPanic = true ↔ ∃ s ∈ names e, s ∉ vars) ∧
    (∀ r, evalExprO vars e = .ok r ↔ evalExpr vars e = some r) ∧ (evalExprO vars e).isErr = false := by
  unfold evalExprO
  cases h : evalExpr vars e with
  | none =>
    refine ⟨⟨fun _ => (evalExpr_none_iff vars e).mp h, fun _ => rfl⟩, fun r => by simp, rfl⟩
  | some r =>
    refine ⟨⟨fun hp => by simp [Outcome.isPanic] at hp, fun hx => ?_⟩, fun r' => by simp, rfl⟩
    have := (evalExpr_none_iff vars e).mpr hx
    rw [h] at this; cases this

/-- `eval_expression_string`: a string of the grammar over known names evaluates to the canonical array of
    the meaning of its tree; anything else panics (parse error or unknown name) -/
theorem eval_string_spec (vars : List Name) (s : List Char) (r : Arr) (h : evalStringO vars s = .ok r) :
    ∃ e, parse s = .ok e ∧ r = canon vars.length (fun v => evalBool e (envOf vars v)) := by
  unfold evalStringO at h
  cases hp : parse s with
  | ok e =>
    rw [hp] at h
    refine ⟨e, rfl, ?_⟩
    have := (eval_expression_outcome vars e).2.1 r
    exact (eval_expr_spec vars e r (this.mp h)).2.2.2
  | err m => rw [hp] at h; cases h
  | panic m => rw [hp] at h; cases h

/-- **Export is correct.** On a reduced array (children before parents, no redundant test, no duplicate
    node) over distinct names, `to_boolean_expression` reaches none of its panics, the tree denotes the
    function of the array, and it mentions only names of the set. -/
theorem to_expr_sem (vars : List Name) (A : Arr) (n : Nat) (hred : Red A n) (hn : vars.length = n)
    (hnd : vars.Nodup) :
    ∃ e, toExpr vars A = .ok e ∧ (∀ v, evalBool e (envOf vars v) = den A v) ∧ ∀ s ∈ names e, s ∈ vars :=
  toExpr_sem hred hn hnd

/-- **Export round trip.** For a canonical Bdd over distinct names, evaluating the exported expression
    returns the very same array. -/
theorem to_expr_roundtrip (vars : List Name) (A : Arr) (hc : Canonical A) (hn : vars.length = numVars A)
    (hnd : vars.Nodup) :
    ∃ e, toExpr vars A = .ok e ∧ evalExpr vars e = some A := by
  rcases hc.cases with ⟨hf, _⟩ | ⟨hred, _, _⟩
  · refine ⟨.const false, ?_, ?_⟩
    · rw [hf]; simp [toExpr, mkFalse]
    · conv => rhs; rw [hf]
      simp [evalExpr, hn]
  · obtain ⟨e, he, r, hr, hsem⟩ := evalExpr_toExpr hred hn hnd
    refine ⟨e, he, ?_⟩
    rw [hr, hsem.eq]
    exact congrArg some hc.symm

theorem safeNames_of_names {e : Expr} (h : ∀ s ∈ names e, SafeName s) : SafeNames e := by
  induction e with
  | const b => trivial
  | var s => exact h s (by simp [names])
  | not e ih => exact ih h
  | and l r ihl ihr | or l r ihl ihr | xor l r ihl ihr | imp l r ihl ihr | iff l r ihl ihr =>
    exact ⟨ihl (fun s hs => h s (by simp [names, hs])), ihr (fun s hs => h s (by simp [names, hs]))⟩
  | cond c t e ihc iht ihe =>
    exact ⟨ihc (fun s hs => h s (by simp [names, hs])), iht (fun s hs => h s (by simp [names, hs])),
      ihe (fun s hs => h s (by simp [names, hs]))⟩

/-- **Export round trip through text.** With parser-safe names, printing the export, parsing the text and
    evaluating it (`eval_expression_string(&format!("{}", b.to_boolean_expression(vars)))`) returns the
    very same array as well. -/
theorem to_expr_roundtrip_text (vars : List Name) (A : Arr) (hc : Canonical A) (hn : vars.length = numVars A)
    (hnd : vars.Nodup) (hsafe : ∀ s ∈ vars, SafeName s) :
    ∃ e, toExpr vars A = .ok e ∧ parse (display e) = .ok e ∧ evalStringO vars (display e) = .ok A := by
  obtain ⟨e, he, hev⟩ := to_expr_roundtrip vars A hc hn hnd
  have hnames : ∀ s ∈ names e, s ∈ vars := by
    intro s hs
    false_or_by_contra
    rename_i hnot
    have := (evalExpr_none_iff vars e).mpr ⟨s, hs, hnot⟩
    rw [hev] at this; cases this
  have hp := parse_display e (safeNames_of_names (fun s hs => hsafe s (hnames s hs)))
  refine ⟨e, he, hp, ?_⟩
  simp [evalStringO, hp, evalExprO, hev]

/-- the tables used by `and`/`or`/`xor`/`imp`/`iff` and `if_then_else` are consistent with the connectives
    by which `evalBool` interprets the tree (regenerated tables) -/
theorem connective_tables :
    Consistent Gen.and_ (fun a b => a && b) ∧ Consistent Gen.or_ (fun a b => a || b) ∧
    Consistent Gen.xor_ (fun a b => a != b) ∧ Consistent Gen.imp_ (fun a b => !a || b) ∧
    Consistent Gen.iff_ (fun a b => a == b) ∧ Consistent3 Gen.ite_ (fun a b c => if a then b else c) :=
  ⟨and_consistent, or_consistent, xor_consistent, imp_consistent, iff_consistent, ite_consistent3⟩

/-- **`bdd!` rules.** Every operator arm of the macro, with and without a variable set, calls the method of
    the same connective on the recursively expanded operands; the remaining arms are parenthesis
    elimination and atom resolution (regenerated from `src/_macro_bdd.rs`). -/
theorem macro_table_ok :
    Gen.macroOps =
      [(true, "un", "!", "not"), (true, "bin", "&", "and"), (true, "bin", "|", "or"), (true, "bin", "<=>", "iff"),
       (true, "bin", "=>", "imp"), (true, "bin", "^", "xor"),
       (false, "un", "!", "not"), (false, "bin", "&", "and"), (false, "bin", "|", "or"), (false, "bin", "<=>", "iff"),
       (false, "bin", "=>", "imp"), (false, "bin", "^", "xor")] ∧
    Gen.macroOther =
      [(true, "($($e:tt)*)"), (false, "( $($e:tt)* )"), (true, "$bdd:literal"), (true, "$bdd:ident"),
       (false, "$bdd:ident")] := by
  decide

/-- the operator → method table is the same in both forms and is the intended one -/
theorem macro_ops_intended :
    (Gen.macroOps.filter (·.1)).map (·.2) = (Gen.macroOps.filter (!·.1)).map (·.2) ∧
    (Gen.macroOps.filter (·.1)).map (fun r => (r.2.2.1, r.2.2.2)) =
      [("!", "not"), ("&", "and"), ("|", "or"), ("<=>", "iff"), ("=>", "imp"), ("^", "xor")] := by
  decide

/-! ### non-vacuity -/

def exVars : List Name := [['a'], ['b']]
/-- `a & b` over two variables -/
def exAnd : Arr := #[⟨2, 0, 0⟩, ⟨2, 1, 1⟩, ⟨1, 0, 1⟩, ⟨0, 0, 2⟩]

theorem exAnd_canonical : Canonical exAnd := by
  have h : exAnd = canon 2 (fun v => v 0 && v 1) := by decide
  rw [h]
  exact canon_canonical 2 _ (fun v w hvw => by simp [hvw 0 (by omega), hvw 1 (by omega)])

theorem exVars_safe : ∀ s ∈ exVars, SafeName s := by decide

example : ∃ e, toExpr exVars exAnd = .ok e ∧ parse (display e) = .ok e ∧ evalStringO exVars (display e) = .ok exAnd :=
  to_expr_roundtrip_text exVars exAnd exAnd_canonical rfl (by decide) exVars_safe

/-- the export of `exAnd` is the tree `a & b` (the loop, evaluated) -/
example : toExpr exVars exAnd = .ok (.and (.var ['a']) (.var ['b'])) := by rfl

/-- an unknown name gives `None` -/
example : evalExpr exVars (.and (.var ['a']) (.var ['z'])) = none :=
  (eval_expr_none_iff _ _).mpr ⟨['z'], by simp [names], by decide⟩

/-- the `panic!` arm of the export is reachable on a malformed (non-reduced) array only -/
example : (toExpr [['a']] #[⟨1, 0, 0⟩, ⟨1, 1, 1⟩, ⟨0, 1, 1⟩]).isPanic = true := by decide

end B.Props.C15
