/-! # C05 — property theorems (to be written) -/
namespace B.Props.C05
end B.Props.C05
