import BddVerif.Lemmas.Limit
import BddVerif.Lemmas.DryLimit
import BddVerif.Lemmas.DryFlag
import BddVerif.Lemmas.DryCount
/-!
# C05 — size-limited and dry-run operators agree with the unrestricted operator; `cmp_implies`

Property theorems about the models of `apply_with_flip_and_limit` (`Lim.applyLimit`),
`estimated_apply_complexity` (`Lim.dryRun`, and `Lim.dryFull` = the same traversal without a limit, i.e. "the
task count") and `cmp_implies` (`Lim.cmpImplies`), measured against the frozen model `applyWithFlip` of the
unrestricted operator. Helper lemmas: `Lemmas/Limit.lean`, `Lemmas/DryLimit.lean`, `Lemmas/DryFlag.lean`,
`Lemmas/DryCount.lean`, `Lemmas/Flip.lean`. `Gen.imp_` is regenerated from `src/op_function.rs` on every run.
-/
namespace B.Props.C05
open B B.Lim

/-- **limit_spec.** `Some(r)` exactly when the unrestricted result `r` has at most `limit` nodes, and then `r`
    is identical to it; otherwise `None`. Array level, for ALL operands (no well-formedness needed), all
    tables, all flips and all limits — including `limit = 0` (always `None`: every result has a node), the
    false result (one node, returned for every `limit ≥ 1`) and `limit = 1` with a two-node `true` result
    (`None` by the end-of-run test). -/
theorem limit_spec (lim : Nat) (L R : Arr) (op : Op2) (fl fr fo : Option Nat) :
    applyLimit lim L R op fl fr fo =
      if (applyWithFlip L R op fl fr fo).size ≤ lim then some (applyWithFlip L R op fl fr fo) else none :=
  applyLimit_eq lim L R op fl fr fo

/-- the same in the property's words, about the public entry points (`binary_op_with_limit` is the case of
    three absent flips): the limited call panics exactly when the unrestricted one does, and otherwise
    returns `Some` of the identical array iff that array has at most `limit` nodes -/
theorem limit_spec_public (lim : Nat) (L R : Arr) (op : Op2) (fl fr fo : Option Nat) :
    fusedBinaryFlipOpWithLimit lim L R op fl fr fo =
      match fusedBinaryFlipOp L R op fl fr fo with
      | .ok r => .ok (if r.size ≤ lim then some r else none)
      | .err m => .err m
      | .panic m => .panic m := by
  unfold fusedBinaryFlipOpWithLimit fusedBinaryFlipOp
  split
  · rfl
  · split
    · rfl
    · simp only [limit_spec]

theorem limit_some_iff (lim : Nat) (L R : Arr) (op : Op2) (fl fr fo : Option Nat) (r : Arr) :
    applyLimit lim L R op fl fr fo = some r ↔
      (r = applyWithFlip L R op fl fr fo ∧ (applyWithFlip L R op fl fr fo).size ≤ lim) := by
  rw [limit_spec]
  split
  · rename_i h
    constructor
    · intro e; cases e; exact ⟨rfl, h⟩
    · intro ⟨e, _⟩; rw [e]
  · rename_i h
    constructor
    · intro e; cases e
    · intro ⟨_, h'⟩; exact absurd h' h

theorem limit_none_iff (lim : Nat) (L R : Arr) (op : Op2) (fl fr fo : Option Nat) :
    applyLimit lim L R op fl fr fo = none ↔ lim < (applyWithFlip L R op fl fr fo).size := by
  rw [limit_spec]
  split
  · rename_i h; constructor
    · intro e; cases e
    · intro h'; omega
  · rename_i h; constructor
    · intro _; omega
    · intro _; rfl

/-- **dry_limit.** The limited dry run returns `None` exactly when the task count (of the unlimited
    traversal) exceeds the limit, and otherwise the very pair of the unlimited traversal. For ALL operands,
    tables, flips, limits. -/
theorem dry_limit (lim : Nat) (L R : Arr) (op : Op2) (fl fr fo : Option Nat) :
    dryRun lim L R op fl fr fo =
      if (dryFull L R op fl fr fo).2 ≤ lim then some (dryFull L R op fl fr fo) else none :=
  dryRun_eq lim L R op fl fr fo

theorem dry_none_iff (lim : Nat) (L R : Arr) (op : Op2) (fl fr fo : Option Nat) :
    dryRun lim L R op fl fr fo = none ↔ lim < (dryFull L R op fl fr fo).2 := by
  rw [dry_limit]
  split
  · rename_i h; constructor
    · intro e; cases e
    · intro h'; omega
  · rename_i h; constructor
    · intro _; omega
    · intro _; rfl

/-- **dry_nonempty.** The reported non-emptiness equals `!result.is_false()` (`is_false` = "has one node")
    of the unrestricted result. -/
theorem dry_nonempty (L R : Arr) (n : Nat) (op : Op2) (c : Bool → Bool → Bool) (fl fr fo : Option Nat)
    (hL : WFo L n) (hR : WFo R n) (hc : Consistent op c)
    (hfl : ∀ x, fl = some x → x < n) (hfr : ∀ x, fr = some x → x < n) (hfo : ∀ x, fo = some x → x < n) :
    (dryFull L R op fl fr fo).1 = !((applyWithFlip L R op fl fr fo).size == 1) := by
  have hflag := dryFull_flag L R n op c fl fr fo hL hR hc hfl hfr
  have hone := canon_size_one n (specFn L R n c fl fr fo) (specFn_dep L R n c fl fr fo hL hR)
  rw [applyWithFlip_eq_canon L R n op c fl fr fo hL hR (numVars_of_wf hL) hc hfl hfr hfo]
  have e : (fun v => c (evW L n (inv fl (inv fo v)) (root L)) (evW R n (inv fr (inv fo v)) (root R))) =
      specFn L R n c fl fr fo := rfl
  rw [e]
  cases hf : (dryFull L R op fl fr fo).1 with
  | true =>
    obtain ⟨v, hv⟩ := hflag.1 hf
    have : ¬ (canon n (specFn L R n c fl fr fo)).size = 1 := by
      intro h1; have := hone.1 h1 v; rw [hv] at this; cases this
    simp [this]
  | false =>
    have hall : ∀ v, specFn L R n c fl fr fo v = false := by
      intro v
      cases hv : specFn L R n c fl fr fo v with
      | false => rfl
      | true => have := hflag.2 ⟨v, hv⟩; rw [hf] at this; cases this
    simp [hone.2 hall]

/-- **dry_count_ge.** The task count is at least the number of decision nodes (`size − 2`; `0` for the
    constants) of the unrestricted result. -/
theorem dry_count_ge (L R : Arr) (n : Nat) (op : Op2) (c : Bool → Bool → Bool) (fl fr fo : Option Nat)
    (hL : WFo L n) (hR : WFo R n) (hc : Consistent op c)
    (hfl : ∀ x, fl = some x → x < n) (hfr : ∀ x, fr = some x → x < n) (hfo : ∀ x, fo = some x → x < n) :
    (applyWithFlip L R op fl fr fo).size - 2 ≤ (dryFull L R op fl fr fo).2 :=
  dryFull_count L R n op c fl fr fo hL hR hc hfl hfr hfo

/-- the three dry-run clauses for the limited call, in one statement -/
theorem dry_run_spec (lim : Nat) (L R : Arr) (n : Nat) (op : Op2) (c : Bool → Bool → Bool) (fl fr fo : Option Nat)
    (hL : WFo L n) (hR : WFo R n) (hc : Consistent op c)
    (hfl : ∀ x, fl = some x → x < n) (hfr : ∀ x, fr = some x → x < n) (hfo : ∀ x, fo = some x → x < n)
    (flag : Bool) (count : Nat) (h : dryRun lim L R op fl fr fo = some (flag, count)) :
    flag = !((applyWithFlip L R op fl fr fo).size == 1) ∧
    (applyWithFlip L R op fl fr fo).size - 2 ≤ count ∧ count ≤ lim := by
  rw [dry_limit] at h
  split at h
  · rename_i hle
    cases hd : dryFull L R op fl fr fo with
    | mk f k =>
      rw [hd] at h hle
      cases h
      have h1 := dry_nonempty L R n op c fl fr fo hL hR hc hfl hfr hfo
      have h2 := dry_count_ge L R n op c fl fr fo hL hR hc hfl hfr hfo
      rw [hd] at h1 h2
      exact ⟨h1, h2, hle⟩
  · cases h

/-! ### `cmp_implies` -/

theorem imp_consistent : Consistent Gen.imp_ (fun a b => !a || b) := by
  refine ⟨?_, ?_, ?_, ?_⟩
  · intro x y; cases x <;> cases y <;> rfl
  · intro x r h y; cases x <;> cases y <;> simp_all [Gen.imp_]
  · intro y r h x; cases x <;> cases y <;> simp_all [Gen.imp_]
  · intro r h; simp [Gen.imp_] at h

/-- pointwise implication between the functions of two operands over `n` variables -/
def Implies (a b : Arr) (n : Nat) : Prop := ∀ v, evW a n v (root a) = true → evW b n v (root b) = true

/-- one limited implication check of `cmp_implies` decides pointwise implication -/
theorem implies_check (a b : Arr) (n m : Nat) (ha : WFo a n) (hb : WFo b n) :
    isTrueB ((applyLimit 2 a b Gen.imp_ none none none).getD (mkFalse m)) = true ↔ Implies a b n := by
  have hsz : isTrueB ((applyLimit 2 a b Gen.imp_ none none none).getD (mkFalse m)) =
      ((applyWithFlip a b Gen.imp_ none none none).size == 2) := by
    rw [limit_spec]
    split
    · rfl
    · rename_i h
      have : ¬ (applyWithFlip a b Gen.imp_ none none none).size = 2 := by omega
      simp [isTrueB, mkFalse, this]
  rw [hsz, applyWithFlip_eq_canon a b n Gen.imp_ (fun a b => !a || b) none none none ha hb (numVars_of_wf ha)
    imp_consistent (by simp) (by simp) (by simp)]
  have hdep : Dep n (fun v => !(evW a n (inv none (inv none v)) (root a)) || evW b n (inv none (inv none v)) (root b)) :=
    specFn_dep a b n (fun a b => !a || b) none none none ha hb
  rw [beq_iff_eq, canon_size_two n _ hdep]
  unfold Implies
  constructor
  · intro h v hv
    have := h v
    simp only [inv] at this
    rw [hv] at this
    simpa using this
  · intro h v
    simp only [inv]
    cases hv : evW a n v (root a) with
    | false => rfl
    | true => rw [h v hv]; rfl

/-- **cmp_implies_spec.** For two valid Bdds over the same `n` variables (canonical ones in particular) the
    result is `Equal / Less / Greater / None` exactly by pointwise implication in the two directions. -/
theorem cmp_implies_spec (a b : Arr) (n : Nat) (ha : WFo a n) (hb : WFo b n) :
    (cmpImplies a b = some .eq ↔ (Implies a b n ∧ Implies b a n)) ∧
    (cmpImplies a b = some .lt ↔ (Implies a b n ∧ ¬ Implies b a n)) ∧
    (cmpImplies a b = some .gt ↔ (¬ Implies a b n ∧ Implies b a n)) ∧
    (cmpImplies a b = none ↔ (¬ Implies a b n ∧ ¬ Implies b a n)) := by
  have hab := implies_check a b n (numVars a) ha hb
  have hba := implies_check b a n (numVars a) hb ha
  have hn : numVars a = numVars b := by rw [numVars_of_wf ha, numVars_of_wf hb]
  unfold cmpImplies
  simp only [hn, if_true]
  rw [hn] at hab hba
  cases h1 : isTrueB ((applyLimit 2 a b Gen.imp_ none none none).getD (mkFalse (numVars b))) <;>
    cases h2 : isTrueB ((applyLimit 2 b a Gen.imp_ none none none).getD (mkFalse (numVars b))) <;>
    rw [h1] at hab <;> rw [h2] at hba <;> simp_all

/-- Bdds with different variable counts are incomparable (and nothing is computed) -/
theorem cmp_implies_vars (a b : Arr) (h : numVars a ≠ numVars b) : cmpImplies a b = none := by
  unfold cmpImplies; simp [h]

/-! ### non-vacuity -/

/-- a concrete non-trivial limited call: `x0 ∧ x2 ∧ x1` has 5 nodes; limit 5 returns it, limit 4 refuses -/
example : applyLimit 5 exX0X2 exX1 andLazy none none none =
    some #[⟨3, 0, 0⟩, ⟨3, 1, 1⟩, ⟨2, 0, 1⟩, ⟨1, 0, 2⟩, ⟨0, 0, 3⟩] := by
  have e : applyWithFlip exX0X2 exX1 andLazy none none none =
      #[⟨3, 0, 0⟩, ⟨3, 1, 1⟩, ⟨2, 0, 1⟩, ⟨1, 0, 2⟩, ⟨0, 0, 3⟩] :=
    (applyWithFlip_eq_canon exX0X2 exX1 3 andLazy (fun x y => x && y) none none none
      exX0X2_wf exX1_wf rfl andLazy_consistent (by simp) (by simp) (by simp)).trans (by decide)
  rw [limit_spec, e]; rfl

example : applyLimit 4 exX0X2 exX1 andLazy none none none = none := by
  have e : applyWithFlip exX0X2 exX1 andLazy none none none =
      #[⟨3, 0, 0⟩, ⟨3, 1, 1⟩, ⟨2, 0, 1⟩, ⟨1, 0, 2⟩, ⟨0, 0, 3⟩] :=
    (applyWithFlip_eq_canon exX0X2 exX1 3 andLazy (fun x y => x && y) none none none
      exX0X2_wf exX1_wf rfl andLazy_consistent (by simp) (by simp) (by simp)).trans (by decide)
  rw [limit_spec, e]; rfl

/-- the hypotheses of the dry-run theorems are satisfiable (level-skipping operand, all three flips) -/
example : (dryFull exX0X2 exX1 andLazy (some 2) (some 1) (some 0)).1 =
    !((applyWithFlip exX0X2 exX1 andLazy (some 2) (some 1) (some 0)).size == 1) :=
  dry_nonempty exX0X2 exX1 3 andLazy (fun x y => x && y) (some 2) (some 1) (some 0)
    exX0X2_wf exX1_wf andLazy_consistent (by simp) (by simp) (by simp)

theorem exX0_fn (v : Nat → Bool) : evW exX0 3 v (root exX0) = v 0 := by
  cases h0 : v 0 <;> simp [evW, root, exX0, evalF, h0]

theorem exX0X2_fn (v : Nat → Bool) : evW exX0X2 3 v (root exX0X2) = (v 0 && v 2) := by
  cases h0 : v 0 <;> cases h2 : v 2 <;> simp [evW, root, exX0X2, evalF, h0, h2]

/-- `x0 ∧ x2` implies `x0`, not conversely: `cmp_implies` says `Less` -/
example : cmpImplies exX0X2 exX0 = some .lt := by
  apply (cmp_implies_spec exX0X2 exX0 3 exX0X2_wf exX0_wf).2.1.2
  constructor
  · intro v hv
    rw [exX0X2_fn] at hv; rw [exX0_fn]
    cases h0 : v 0 with
    | true => rfl
    | false => rw [h0] at hv; simp at hv
  · intro h
    have := h (fun j => j == 0) (by rw [exX0_fn]; rfl)
    rw [exX0X2_fn] at this
    simp at this

end B.Props.C05
