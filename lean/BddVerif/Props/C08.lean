/-! # C08 — property theorems (to be written) -/
namespace B.Props.C08
end B.Props.C08
