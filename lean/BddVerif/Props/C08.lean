import BddVerif.Core.Canon
import BddVerif.Lemmas.IterSat
import BddVerif.Lemmas.IterDnf
import BddVerif.Lemmas.IterRedB
/-!
# C08 — enumeration yields exactly the satisfying valuations and paths, once each

Property theorems about the model `Model/Iter.lean` (helper lemmas in `Lemmas/Iter*.lean`).
Throughout, `A` is a reduced array over `n` variables (`Red A n`, what every operation of the library
returns for a non-false function) or the one-node array of the constant false (`false_constant`).

* specification level: `paths_partition`, `extensions_spec`, `sat_valuations_spec`;
* the step functions compute the specifications: `val_next_spec`, `clause_vals_iter_eq`,
  `clause_vals_new_panics`, `clause_vals_shape_irrelevant`, `dnf_clause_vals`, `path_iter_eq`, `to_dnf_eq_paths`, `to_dnf_eq_sat_clauses`, `sat_iter_eq`;
* owned variants: `owned_returns_bdd`, `owned_same_sequences`; error branches: `clause_vals_new_panics`,
  `path_iter_redundant_panics`; the constant false: `false_constant`.
-/
namespace B.Props.C08
open B B.Iter

/-- The clauses of `paths` below any pointer of a reduced array (with the literals `acc` chosen above,
    all positions from the variable of `p` on still free): they have length `n`, are pairwise disjoint
    (no valuation satisfies two of them — in particular no clause occurs twice), a valuation satisfies
    one of them iff it satisfies `acc` and the function of `p`, and there is a clause unless `p = 0`
    (a reduced node never has two zero children, so no path is a dead end). -/
theorem paths_partition {A : Arr} {n : Nat} (h : Red A n) (p : Nat) (hp : p < A.size) (acc : PV)
    (hlen : acc.length = n) (hfree : Free acc (varOf A n p)) :
    (∀ c, c ∈ paths A p acc → c.length = n) ∧
    List.Pairwise Disjoint (paths A p acc) ∧
    (∀ v, (∃ c, c ∈ paths A p acc ∧ Sat c v) ↔ (Sat acc v ∧ ev A v p = true)) ∧
    (p ≠ 0 → paths A p acc ≠ []) :=
  ⟨fun c hc => paths_length h p hp acc c hlen hc, paths_disjoint h p hp acc,
   paths_cover h p hp acc hfree, fun h0 => paths_ne_nil h p hp h0 acc⟩

/-- … for the whole diagram: the clauses of `pathsOf A` partition the satisfying set of `den A`. -/
theorem paths_partition_root {A : Arr} {n : Nat} (h : Red A n) (hn : numVars A = n) :
    (∀ c, c ∈ pathsOf A → c.length = n) ∧
    List.Pairwise Disjoint (pathsOf A) ∧
    (∀ v, (∃ c, c ∈ pathsOf A ∧ Sat c v) ↔ den A v = true) ∧
    pathsOf A ≠ [] := by
  have h2 := h.size2
  have hr : root A < A.size := by unfold root; omega
  have hr0 : root A ≠ 0 := by unfold root; omega
  have hfree : Free (List.replicate n (none : Option Bool)) (varOf A n (root A)) :=
    fun i _ => pvGet_replicate n i
  obtain ⟨a, b, c, d⟩ := paths_partition h (root A) hr (List.replicate n none) (by simp) hfree
  unfold pathsOf den
  rw [hn]
  refine ⟨a, b, ?_, d hr0⟩
  intro v
  rw [c v]
  constructor
  · exact fun x => x.2
  · exact fun x => ⟨fun i b hi => (by rw [pvGet_replicate] at hi; cases hi), x⟩

/-- `extensions c` is exactly the set of total valuations of the same length that agree with the clause,
    in strictly increasing order (variable 0 least significant), hence each once, 2^k of them. -/
theorem extensions_spec (c : PV) :
    (∀ w, w ∈ extensions c ↔ (w.length = c.length ∧ Sat c (valOf w))) ∧
    List.Pairwise (fun a b => leNum a < leNum b) (extensions c) ∧
    (extensions c).Nodup ∧
    (extensions c).length = 2 ^ freeCount c :=
  ⟨fun w => (mem_extensions c w).trans (extendsB_iff c w), extensions_sorted c, extensions_nodup c,
   extensions_length c⟩

/-- The recursive specification of `sat_valuations` lists every satisfying valuation exactly once and
    nothing else. -/
theorem sat_valuations_spec {A : Arr} {n : Nat} (h : Red A n) (hn : numVars A = n) :
    (satSpec A).Nodup ∧ ∀ w, w ∈ satSpec A ↔ (w.length = n ∧ den A (valOf w) = true) := by
  obtain ⟨hlen, hdis, hcov, _⟩ := paths_partition_root h hn
  constructor
  · unfold satSpec List.Nodup
    rw [List.pairwise_flatMap]
    refine ⟨fun c _ => extensions_nodup c, hdis.imp ?_⟩
    intro c d hcd x hx y hy e
    subst e
    have hx' := ((extensions_spec c).1 x).mp hx
    have hy' := ((extensions_spec d).1 x).mp hy
    exact hcd (valOf x) ⟨hx'.2, hy'.2⟩
  · intro w
    unfold satSpec
    rw [List.mem_flatMap]
    constructor
    · rintro ⟨c, hc, hw⟩
      have hw' := ((extensions_spec c).1 w).mp hw
      exact ⟨by rw [hw'.1, hlen c hc], (hcov (valOf w)).mp ⟨c, hc, hw'.2⟩⟩
    · rintro ⟨hl, hd⟩
      obtain ⟨c, hc, hs⟩ := (hcov (valOf w)).mpr hd
      exact ⟨c, hc, ((extensions_spec c).1 w).mpr ⟨by rw [hl, hlen c hc], hs⟩⟩

/-- `BddValuation::next` with fixed clause positions: applied to any extension `u` of the clause (over `n`
    variables) it returns the successor of `u` in `extensions`, and `None` on the last one; it does not
    panic. (`extensions` has no duplicates, so the decomposition is unique.) -/
theorem val_next_spec (clause : PV) (n : Nat) (u : Valn) (hu : u ∈ extensions (pvNorm n clause)) :
    ∃ pre rest, extensions (pvNorm n clause) = pre ++ u :: rest ∧ valNext u clause = .ok rest.head? := by
  have hc := chain_extensions (pvGet clause) n 0
  rw [← pvNorm_eq_range'] at hc
  exact hc.succ u hu

/-- Collecting `ValuationsOfClauseIterator::new(clause, n)` yields exactly `extensions` of the clause
    restricted to the `n` variables, provided no position `≥ n` of the clause is `true` (positions `≥ n` that
    are `false` are ignored by the code); afterwards the iterator answers `None` and stays put. -/
theorem clause_vals_iter_eq (clause : PV) (n : Nat) (h : NoTrueBeyond n clause) (fuel : Nat)
    (hf : 2 ^ freeCount (pvNorm n clause) < fuel) :
    (∃ st, cvNew clause n = .ok st ∧ collect cvNext fuel st = .ok (extensions (pvNorm n clause))) ∧
    cvNext ⟨none, clause⟩ = .ok (none, ⟨none, clause⟩) := by
  have hc := chain_extensions (pvGet clause) n 0
  rw [← pvNorm_eq_range', ← firstN_eq_firstOf] at hc
  exact ⟨⟨_, cvNew_ok clause n h, collect_chain clause hc fuel (by rw [extensions_length]; exact hf)⟩, rfl⟩

/-- The error branch of `new`: a position `≥ num_vars` set to `true` makes `flip_value` index out of
    bounds, i.e. `new` panics exactly when `NoTrueBeyond` fails. -/
theorem clause_vals_new_panics (clause : PV) (n : Nat) :
    ((cvNew clause n).isPanic = true ↔ ¬ NoTrueBeyond n clause) := by
  constructor
  · intro hp hn
    rw [cvNew_ok clause n hn] at hp
    simp [Outcome.isPanic] at hp
  · exact cvNew_panic clause n

/-- `new_unconstrained(n)` (and the deprecated `BddValuationIterator::new(n)`, which wraps it) yields all
    `2^n` valuations in increasing order; `empty()` yields nothing. -/
theorem unconstrained_iter_eq (n fuel : Nat) (hf : 2 ^ n < fuel) :
    collect cvNext fuel (cvUnconstrained n) = .ok (extensions (List.replicate n none)) ∧
    collect cvNext (fuel + 1) cvEmpty = .ok [] := by
  constructor
  · have hc' := chain_extensions (pvGet []) n 0
    rw [← pvNorm_eq_range', ← firstN_eq_firstOf, firstN_nil, pvNorm_nil] at hc'
    have hfn : freeCount (List.replicate n (none : Option Bool)) ≤ n := by
      unfold freeCount
      calc _ ≤ (List.replicate n (none : Option Bool)).length := List.length_filter_le _ _
        _ = n := by simp
    exact collect_chain [] hc' fuel (by
      rw [extensions_length]
      exact Nat.lt_of_le_of_lt (Nat.pow_le_pow_right (by omega) hfn) hf)
  · simp [collect, cvNext, cvEmpty]

/-- `sat_clauses`: unfolding `BddPathIterator::next` from `BddPathIterator::new` yields exactly `paths` of the
    root (as raw vectors: `paths … []`; as seen over the `n` variables: `pathsOf A`), without panic, and
    `next` answers `None` exactly on the empty stack, where it stays. -/
theorem path_iter_eq {A : Arr} {n : Nat} (h : Red A n) (hn : numVars A = n) (fuel : Nat)
    (hf : (pathsOf A).length < fuel) :
    pathList A fuel = .ok (paths A (root A) []) ∧
    (paths A (root A) []).map (pvNorm n) = pathsOf A ∧
    (∀ S S', pathNext A S = .ok (none, S') → S = [] ∧ S' = []) ∧
    pathNext A [] = .ok (none, []) := by
  have h2 := h.size2
  have hr : root A < A.size := by unfold root; omega
  have hnorm : (paths A (root A) []).map (pvNorm n) = pathsOf A := by
    rw [paths_norm h _ hr, pvNorm_nil]; unfold pathsOf; rw [hn]
  obtain ⟨S, hS, hg, hrem⟩ := pathInit_spec h
  refine ⟨?_, hnorm, ?_, rfl⟩
  · unfold pathList
    rw [hS]
    simp only []
    rw [collect_pathNext h fuel S hg (by rw [hrem, ← List.length_map (f := pvNorm n), hnorm]; exact hf), hrem]
  · intro S S' hS
    cases S with
    | nil => simp [pathNext] at hS; exact ⟨rfl, hS⟩
    | cons t r =>
      simp only [pathNext] at hS
      split at hS
      · split at hS <;> simp at hS
      all_goals simp at hS

/-- `to_dnf`: with fuel `4 · 2^size` (a crude bound on the number of loop iterations) or more, the
    explicit-stack loop terminates without panic and its results, seen over the `n` variables, are exactly
    `pathsOf A`, in the same order. -/
theorem to_dnf_eq_paths {A : Arr} {n : Nat} (h : Red A n) (hn : numVars A = n) (fuel : Nat)
    (hf : 4 * 2 ^ A.size ≤ fuel) :
    ∃ R, toDnf A fuel = .ok R ∧ R.map (pvNorm n) = pathsOf A := by
  have h2 := h.size2
  have hr : root A < A.size := by unfold root; omega
  obtain ⟨k, path', R, hrun, _, hR, hk, _⟩ :=
    dnfLoop_sub h (root A) hr [] [] [] (fun i _ => pvGet_nil i) (fun j _ => pvGet_nil j)
  have hle : 2 ^ root A ≤ 2 ^ A.size := Nat.pow_le_pow_right (by omega) (by omega)
  refine ⟨R, ?_, ?_⟩
  · obtain ⟨f, rfl⟩ : ∃ f, fuel = f + k := ⟨fuel - k, by omega⟩
    unfold toDnf
    rw [hrun f, dnfLoop_nil]; simp
  · rw [hR, paths_norm h _ hr, pvNorm_nil]; unfold pathsOf; rw [hn]

/-- `sat_clauses` and `to_dnf` list the same clauses in the same order (hence the same set). -/
theorem to_dnf_eq_sat_clauses {A : Arr} {n : Nat} (h : Red A n) (hn : numVars A = n) (fuel : Nat)
    (hf : 4 * 2 ^ A.size ≤ fuel) (hf' : (pathsOf A).length < fuel) :
    ∃ R P, toDnf A fuel = .ok R ∧ pathList A fuel = .ok P ∧ R.map (pvNorm n) = P.map (pvNorm n) := by
  obtain ⟨R, hR, hRn⟩ := to_dnf_eq_paths h hn fuel hf
  obtain ⟨hP, hPn, _⟩ := path_iter_eq h hn fuel hf'
  exact ⟨R, _, hR, hP, by rw [hRn, hPn]⟩

/-- The backing vector of a clause is irrelevant: two partial valuations with the same `get_value`
    everywhere (e.g. one of them grown by `unset_value` of a later variable, or by the shared path buffer
    of `to_dnf`) give clause iterators that yield the same valuations. -/
theorem clause_vals_shape_irrelevant (c d : PV) (n : Nat) (he : ∀ i, pvGet c i = pvGet d i)
    (h : NoTrueBeyond n c) (fuel : Nat) (hf : 2 ^ freeCount (pvNorm n c) < fuel) :
    ∃ sc sd l, cvNew c n = .ok sc ∧ cvNew d n = .ok sd ∧
      collect cvNext fuel sc = .ok l ∧ collect cvNext fuel sd = .ok l ∧ l = extensions (pvNorm n c) := by
  have hd : NoTrueBeyond n d := fun j hj => by rw [← he]; exact h j hj
  have hn : pvNorm n c = pvNorm n d := pvNorm_congr n c d he
  obtain ⟨⟨sc, hc1, hc2⟩, _⟩ := clause_vals_iter_eq c n h fuel hf
  obtain ⟨⟨sd, hd1, hd2⟩, _⟩ := clause_vals_iter_eq d n hd fuel (by rw [← hn]; exact hf)
  exact ⟨sc, sd, _, hc1, hd1, hc2, by rw [hd2, hn], rfl⟩

/-- Every clause returned by `to_dnf` (as returned: the raw vector, with whatever trailing unset cells the
    shared path buffer left) and by `sat_clauses` is accepted by `ValuationsOfClauseIterator::new(·, n)` and
    yields exactly the extensions of its literals over the `n` variables; concatenated over the `to_dnf`
    clauses these are exactly `satSpec A`. -/
theorem dnf_clause_vals {A : Arr} {n : Nat} (h : Red A n) (hn : numVars A = n) (fuel : Nat)
    (hf : 4 * 2 ^ A.size ≤ fuel) :
    ∃ R, toDnf A fuel = .ok R ∧
      (∀ c, c ∈ R ∨ c ∈ paths A (root A) [] → NoTrueBeyond n c ∧ ∀ f, 2 ^ freeCount (pvNorm n c) < f →
        ∃ st, cvNew c n = .ok st ∧ collect cvNext f st = .ok (extensions (pvNorm n c))) ∧
      R.flatMap (fun c => extensions (pvNorm n c)) = satSpec A := by
  have h2 := h.size2
  have hr : root A < A.size := by unfold root; omega
  obtain ⟨k, path', R, hrun, _, hR, hk, hb⟩ :=
    dnfLoop_sub h (root A) hr [] [] [] (fun i _ => pvGet_nil i) (fun j _ => pvGet_nil j)
  have hle : 2 ^ root A ≤ 2 ^ A.size := Nat.pow_le_pow_right (by omega) (by omega)
  refine ⟨R, ?_, ?_, ?_⟩
  · obtain ⟨f, rfl⟩ : ∃ f, fuel = f + k := ⟨fuel - k, by omega⟩
    unfold toDnf
    rw [hrun f, dnfLoop_nil]; simp
  · intro c hc
    have hntb : NoTrueBeyond n c := by
      intro j hj
      rcases hc with hc | hc
      · rw [hb c hc j hj]; simp
      · rw [paths_beyond h _ hr _ _ hc j hj, pvGet_nil]; simp
    exact ⟨hntb, fun f hf' => (clause_vals_iter_eq c n hntb f hf').1⟩
  · have : R.map (pvNorm n) = pathsOf A := by
      rw [hR, paths_norm h _ hr, pvNorm_nil]; unfold pathsOf; rw [hn]
    unfold satSpec
    rw [← this, List.flatMap_map]

/-- `sat_valuations`: unfolding `BddSatisfyingValuations::next` (the chaining of the path iterator and the
    clause iterator) from `Bdd::sat_valuations` yields exactly `satSpec A`, without panic — by
    `sat_valuations_spec` every satisfying valuation exactly once and nothing else. -/
theorem sat_iter_eq {A : Arr} {n : Nat} (h : Red A n) (hn : numVars A = n) (fuel : Nat)
    (hf : (satSpec A).length < fuel) :
    satList A fuel = .ok (satSpec A) := by
  have h2 := h.size2
  have hr : root A < A.size := by unfold root; omega
  have hr0 : root A ≠ 0 := by unfold root; omega
  have hnorm : (paths A (root A) []).map (pvNorm n) = pathsOf A := by
    rw [paths_norm h _ hr, pvNorm_nil]; unfold pathsOf; rw [hn]
  obtain ⟨S, hS, hg, hrem⟩ := pathInit_spec h
  have hne : remaining A S ≠ [] := by rw [hrem]; exact paths_ne_nil h _ hr hr0 []
  rcases hg.2 with rfl | ⟨r, rfl⟩
  · exact absurd rfl hne
  obtain ⟨S', hnx, hg', hrm⟩ := pathNext_spec h r hg
  have hntb := remaining_beyond h _ hg (clauseOf A (1 :: r)) (by rw [hrm]; exact List.mem_cons_self)
  obtain ⟨cv, hnew, hcv⟩ := cvNew_rem (clauseOf A (1 :: r)) n hntb
  have hspec : satSpec A = satRemaining A S' (extensions (pvNorm n (clauseOf A (1 :: r)))) := by
    unfold satSpec satRemaining
    rw [← hnorm, ← hrem, hrm, List.flatMap_map, List.flatMap_cons, hn]
  unfold satList satInit
  rw [hS]
  simp only [hnx, hn, hnew]
  rw [hspec] at hf ⊢
  exact collect_satNext h hn (remaining_beyond h) fuel S' cv _ hg' hcv hf

/-- The error branch of `BddPathIterator::next`: a redundant test (both links equal and non-zero) on the
    stack makes the iterator panic ("The BDD is not canonical.") when it backtracks to it — which is why
    the theorems above assume `Red` (and the driver accepts this panic only on non-reduced inputs). -/
theorem path_iter_redundant_panics (A : Arr) (child top : Nat) (rest : List Nat) (nd : Node)
    (h : A[top]? = some nd) (hl : nd.low = child) (hh : nd.high = child) (h0 : child ≠ 0) :
    (popLoop A child (top :: rest)).isPanic = true := by
  simp [popLoop, h, hl, hh, h0, Outcome.isPanic]

/-- The owned iterators give back the Bdd they were made from, whatever number of items has been taken. -/
theorem owned_returns_bdd (A : Arr) :
    (∀ s, ownedPathInit A = .ok s → s.intoBdd = A) ∧
    (∀ s, ownedSatInit A = .ok s → s.intoBdd = A) ∧
    (∀ k (s : OwnedPath) l s', takeK ownedPathNext k s = .ok (l, s') → s'.intoBdd = s.intoBdd) ∧
    (∀ k (s : OwnedSat) l s', takeK ownedSatNext k s = .ok (l, s') → s'.intoBdd = s.intoBdd) := by
  refine ⟨?_, ?_, ?_, ?_⟩
  · intro s hs
    unfold ownedPathInit at hs
    split at hs <;> simp at hs
    rw [← hs]; rfl
  · intro s hs
    unfold ownedSatInit at hs
    split at hs
    · rename_i p hp
      have hpA : p.bdd = A := by
        unfold ownedPathInit at hp
        split at hp <;> simp at hp
        rw [← hp]
      split at hs
      · rename_i first p' hp'
        have := ownedPathNext_bdd _ _ _ hp'
        split at hs <;> simp at hs
        rw [← hs]; simp [OwnedSat.intoBdd, OwnedPath.intoBdd, this, hpA]
      · rename_i p' hp'
        have := ownedPathNext_bdd _ _ _ hp'
        simp at hs
        rw [← hs]; simp [OwnedSat.intoBdd, OwnedPath.intoBdd, this, hpA]
      all_goals simp at hs
    all_goals simp at hs
  · intro k
    induction k with
    | zero => intro s l s' hk; simp [takeK] at hk; rw [hk.2]
    | succ k ih =>
      intro s l s' hk
      simp only [takeK] at hk
      split at hk
      · rename_i s1 h1
        simp at hk; rw [← hk.2]
        exact ownedPathNext_bdd _ _ _ h1
      · rename_i a s1 h1
        split at hk
        · rename_i l2 s2 h2
          simp at hk; rw [← hk.2, ih _ _ _ h2]
          exact ownedPathNext_bdd _ _ _ h1
        all_goals simp at hk
      all_goals simp at hk
  · intro k
    induction k with
    | zero => intro s l s' hk; simp [takeK] at hk; rw [hk.2]
    | succ k ih =>
      intro s l s' hk
      simp only [takeK] at hk
      split at hk
      · rename_i s1 h1
        simp at hk; rw [← hk.2]
        exact ownedSatNext_bdd _ _ _ h1
      · rename_i a s1 h1
        split at hk
        · rename_i l2 s2 h2
          simp at hk; rw [← hk.2, ih _ _ _ h2]
          exact ownedSatNext_bdd _ _ _ h1
        all_goals simp at hk
      all_goals simp at hk

/-- The owned iterators yield the same sequences as the borrowed ones (the code is a copy). -/
theorem owned_same_sequences (A : Arr) (fuel : Nat) :
    (match ownedPathInit A with
      | .ok st => collect ownedPathNext fuel st | .err m => .err m | .panic m => .panic m) = pathList A fuel ∧
    (match ownedSatInit A with
      | .ok st => collect ownedSatNext fuel st | .err m => .err m | .panic m => .panic m) = satList A fuel := by
  constructor
  · unfold ownedPathInit pathList
    cases pathInit A with
    | ok S => exact collect_ownedPathNext A fuel S
    | err m => rfl
    | panic m => rfl
  · unfold ownedSatInit satList satInit ownedPathInit
    cases pathInit A with
    | ok S =>
      simp only [ownedPathNext]
      cases pathNext A S with
      | ok x =>
        obtain ⟨r, S'⟩ := x
        cases r with
        | none => exact collect_ownedSatNext A fuel S' cvEmpty
        | some c =>
          simp only []
          cases cvNew c (numVars A) with
          | ok cv => exact collect_ownedSatNext A fuel S' cv
          | err m => rfl
          | panic m => rfl
      | err m => rfl
      | panic m => rfl
    | err m => rfl
    | panic m => rfl

/-- The constant false (the one-node array, the only diagram that is not `Red`): every enumeration is empty,
    and so is the specification. -/
theorem false_constant (A : Arr) (h : A.size = 1) (fuel : Nat) :
    pathList A (fuel + 1) = .ok [] ∧ satList A (fuel + 1) = .ok [] ∧ toDnf A (fuel + 1) = .ok [] ∧
    pathsOf A = [] ∧ satSpec A = [] ∧ ∀ v, den A v = false := by
  have hr : root A = 0 := by unfold root; omega
  refine ⟨?_, ?_, ?_, ?_, ?_, ?_⟩
  · simp [pathList, pathInit, h, collect, pathNext]
  · simp [satList, satInit, pathInit, h, pathNext, collect, satNext, cvNext, cvEmpty]
  · unfold toDnf; rw [hr, dnfLoop_zero, dnfLoop_nil]
  · unfold pathsOf; rw [hr, paths_zero]
  · unfold satSpec pathsOf; rw [hr, paths_zero]; rfl
  · intro v; unfold den; rw [hr, ev_zero]

/-! ## Non-vacuity: the hypotheses hold on a concrete non-trivial diagram -/

/-- `(x0 ∧ ¬x2) ∨ (¬x0 ∧ x1)` over 4 variables (x3 untested: a skipped level), 5 nodes -/
def exA : Arr := #[⟨4, 0, 0⟩, ⟨4, 1, 1⟩, ⟨2, 1, 0⟩, ⟨1, 0, 1⟩, ⟨0, 3, 2⟩]

theorem exA_red : Red exA 4 := redB_sound (by decide)

example : pathsOf exA = [[some false, some true, none, none], [some true, none, some false, none]] := by decide
example : (satSpec exA).length = 8 := by decide
example := paths_partition_root exA_red rfl
example := sat_valuations_spec exA_red rfl
example : pathList exA 3 = .ok (paths exA (root exA) []) := (path_iter_eq exA_red rfl 3 (by decide)).1
example : paths exA (root exA) [] = [[some false, some true], [some true, none, some false]] := by decide
example : (pathList exA 3).toOption = some [[some false, some true], [some true, none, some false]] := by decide
example : satList exA 9 = .ok (satSpec exA) := sat_iter_eq exA_red rfl 9 (by decide)
example : (toDnf exA 20).toOption = some [[some false, some true], [some true, none, some false]] := by decide
example := to_dnf_eq_sat_clauses exA_red rfl 128 (by decide) (by decide)
/-- a clause with a `false` beyond `num_vars` is accepted, one with a `true` there panics -/
example : NoTrueBeyond 2 [some true, none, some false] := by
  intro j hj
  match j, hj with
  | 2, _ => simp [pvGet]
  | j + 3, _ => simp [pvGet]
example : (cvNew [some true, none, some true] 2).isPanic = true := by decide
example : extensions [some true, none, none] = [[true, false, false], [true, true, false], [true, false, true], [true, true, true]] := by
  decide
example := val_next_spec [some true, none] 3 [true, true, false] (by decide)
/-- the `to_dnf` clause `[Some(true), Some(true), None]` of `(!x0 & x2) | (x0 & x1)` and the plain `[Some(true), Some(true)]` -/
example := clause_vals_shape_irrelevant [some true, some true, none] [some true, some true] 3
  (by intro i; match i with | 0 => rfl | 1 => rfl | 2 => rfl | i + 3 => simp [pvGet])
  (by intro j hj; match j, hj with | j + 3, _ => simp [pvGet]) 3 (by decide)
example : (cvNew [some true, some true, none] 3).toOption.map (·.next) = some (some [true, true, false]) := by decide
/-- the empty clause after `unset_value(x0)`, `num_vars = 0`: one empty valuation -/
example : (match cvNew [none] 0 with | .ok st => (collect cvNext 2 st).toOption | _ => none) = some [[]] := by decide
example := dnf_clause_vals exA_red rfl 128 (by decide)

end B.Props.C08
