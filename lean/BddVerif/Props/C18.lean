import BddVerif.Lemmas.Valuation
import BddVerif.Lemmas.ValuationBdd
import BddVerif.Lemmas.ValuationCanon
import BddVerif.Lemmas.Cmp
import BddVerif.Lemmas.CountSupport
import BddVerif.Lemmas.C02Built
/-!
# C18 — valuation types and comparators obey their equality / ordering contracts

Property theorems about `Model/Valuation.lean` (`B.Val`: partial / total valuations, `B.Cmp`: the five
comparators of `_impl_sort.rs`).

The observable of a partial valuation is `get` ("which variables are fixed to which value"); the vector
behind it (`List (Option Bool)`, with the `None` padding that `unset_value` and `mut_cell` leave) is what
the model computes on. Every statement below is about arbitrary vectors / arbitrary histories.
-/
namespace B.Props.C18
open B B.Val B.Cmp B.Count

/-! ## equality and hashing of partial valuations -/

/-- `==` holds exactly when both valuations fix the same variables to the same values — whatever the
    padding of the two vectors -/
theorem pv_eq_iff (p q : PartialVal) : PartialVal.eq p q = true ↔ ∀ x, PartialVal.get p x = PartialVal.get q x :=
  PartialVal.eq_iff p q

/-- `==` is an equivalence relation -/
theorem pv_eq_equivalence :
    (∀ p, PartialVal.eq p p = true) ∧
    (∀ p q, PartialVal.eq p q = PartialVal.eq q p) ∧
    (∀ p q r, PartialVal.eq p q = true → PartialVal.eq q r = true → PartialVal.eq p r = true) := by
  refine ⟨fun p => (pv_eq_iff p p).2 (fun _ => rfl), ?_, ?_⟩
  · intro p q
    rw [Bool.eq_iff_iff, pv_eq_iff, pv_eq_iff]
    exact ⟨fun h x => (h x).symm, fun h x => (h x).symm⟩
  · intro p q r h1 h2
    rw [pv_eq_iff] at *
    intro x; rw [h1 x, h2 x]

/-- equal valuations feed the `Hasher` the very same sequence of writes (hence hash equally under any
    `Hasher`), and different valuations feed it different sequences -/
theorem pv_hash_congr (p q : PartialVal) :
    PartialVal.eq p q = true ↔ PartialVal.hashWrites p = PartialVal.hashWrites q := by
  rw [pv_eq_iff, PartialVal.hashWrites_eq_iff]

/-- `to_values` lists exactly the fixed variables with their values -/
theorem pv_to_values (p : PartialVal) (x : Nat) (b : Bool) :
    (x, b) ∈ PartialVal.toValues p ↔ PartialVal.get p x = some b := PartialVal.mem_toValues p x b

/-! ## histories of set / unset / index-assignment operations -/

/-- one write: `set_value` (`c = some b`), `unset_value` (`c = none`), `p[x] = c` -/
theorem pv_write (p : PartialVal) (x : Nat) (c : Option Bool) (y : Nat) :
    PartialVal.get (PartialVal.setCell p x c) y = if y = x then c else PartialVal.get p y :=
  PartialVal.get_setCell p x c y

/-- after ANY history of writes a variable reads as the last value written to it, or as in the
    starting valuation if it was never written: the vector's growth and padding are unobservable -/
theorem pv_history (ops : List (Nat × Option Bool)) (p : PartialVal) (x : Nat) :
    PartialVal.get (PartialVal.runOps ops p) x =
      match PartialVal.lastWrite ops x with
      | some c => c
      | none => PartialVal.get p x := PartialVal.get_runOps ops p x

/-- two histories (from the empty valuation) with the same last write per variable build equal
    valuations with equal hash writes -/
theorem pv_history_eq (ops1 ops2 : List (Nat × Option Bool))
    (h : ∀ x, (PartialVal.lastWrite ops1 x).getD none = (PartialVal.lastWrite ops2 x).getD none) :
    PartialVal.eq (PartialVal.runOps ops1 PartialVal.empty) (PartialVal.runOps ops2 PartialVal.empty) = true ∧
    PartialVal.hashWrites (PartialVal.runOps ops1 PartialVal.empty) =
      PartialVal.hashWrites (PartialVal.runOps ops2 PartialVal.empty) := by
  have key : ∀ x, PartialVal.get (PartialVal.runOps ops1 PartialVal.empty) x =
      PartialVal.get (PartialVal.runOps ops2 PartialVal.empty) x := by
    intro x
    rw [pv_history, pv_history]
    have := h x
    cases h1 : PartialVal.lastWrite ops1 x <;> cases h2 : PartialVal.lastWrite ops2 x <;>
      simp_all [PartialVal.empty]
  exact ⟨(pv_eq_iff _ _).2 key, (PartialVal.hashWrites_eq_iff _ _).2 key⟩

/-- a history whose variable ids are `u16` never builds a vector of more than 65 536 cells -/
theorem pv_history_length (ops : List (Nat × Option Bool)) (h : ∀ o ∈ ops, o.1 < 65536) :
    (PartialVal.runOps ops PartialVal.empty).length ≤ 65536 :=
  PartialVal.length_runOps ops _ _ (by simp [PartialVal.empty]) h

/-- `from_values(&p.to_values())` is equal (`==`) to `p`: rebuilding drops the padding only -/
theorem pv_rebuild (p : PartialVal) :
    PartialVal.eq (PartialVal.fromValues (PartialVal.toValues p)) p = true := by
  rw [pv_eq_iff]
  intro x
  rw [PartialVal.fromValues_eq_runOps, pv_history]
  cases hl : PartialVal.lastWrite ((PartialVal.toValues p).map fun xb => (xb.1, some xb.2)) x with
  | some c =>
    simp only
    have hm := PartialVal.lastWrite_some_mem _ _ _ hl
    rw [List.mem_map] at hm
    obtain ⟨⟨y, b⟩, hyb, heq⟩ := hm
    simp only [Prod.mk.injEq] at heq
    obtain ⟨rfl, rfl⟩ := heq
    exact ((pv_to_values p y b).1 hyb).symm
  | none =>
    simp only
    have hn := PartialVal.lastWrite_none _ _ hl
    cases hg : PartialVal.get p x with
    | none => simp [PartialVal.empty]
    | some b =>
      exfalso
      have := (pv_to_values p x b).2 hg
      exact hn (x, some b) (List.mem_map.2 ⟨(x, b), this, rfl⟩) rfl

/-! ## conversions -/

/-- total → partial → total returns the valuation (within the `u16` size limit of `BddValuation`;
    beyond it `try_from` takes its explicit `Err` branch) -/
theorem total_partial_roundtrip (v : TotalVal) :
    PartialVal.toTotal (PartialVal.ofTotal v) = if v.length ≤ 65535 then some v else none :=
  PartialVal.toTotal_ofTotal v

/-- partial → total → partial returns the very same vector whenever the conversion succeeds, and it
    succeeds exactly for vectors of at most 65 535 cells without an unset cell -/
theorem partial_total_roundtrip (p : PartialVal) :
    (∀ v, PartialVal.toTotal p = some v → PartialVal.ofTotal v = p) ∧
    ((PartialVal.toTotal p).isSome = true ↔ p.length ≤ 65535 ∧ ∀ x, x < p.length → PartialVal.get p x ≠ none) :=
  ⟨PartialVal.ofTotal_toTotal p, PartialVal.toTotal_isSome_iff p⟩

/-- the converted valuation reads as the total one -/
theorem of_total_get (v : TotalVal) (x : Nat) : PartialVal.get (PartialVal.ofTotal v) x = v[x]? :=
  PartialVal.get_ofTotal v x

/-- `Bdd::from(valuation)` is a reduced post-order array over `len` variables with one node per
    variable, and it is satisfied by exactly the valuations that agree with `v` on all of them -/
theorem valuation_bdd_spec (v : TotalVal) (hv : v.length ≤ 65535) :
    Red (TotalVal.toBdd v) v.length ∧ Prefix (mkTrue v.length) (TotalVal.toBdd v) ∧
    (TotalVal.toBdd v).size = v.length + 2 ∧
    ∀ w : Nat → Bool, den (TotalVal.toBdd v) w = true ↔ ∀ i, i < v.length → w i = v.getD i false := by
  have h := TotalVal.chainInv_toBdd v
  have hn : TotalVal.numVars v = v.length := PartialVal.u16_of_lt (by omega)
  rw [hn] at h
  refine ⟨h.red, h.pre, by have := h.size; omega, ?_⟩
  intro w
  unfold den
  rw [h.sem w]
  exact ⟨fun h' i hi => h' i (Nat.zero_le _) hi, fun h' i _ hi => h' i hi⟩

/-- `Bdd::from(valuation)` is the library-wide canonical array of the function "agrees with `v` on every
    variable": exactly what the reference builder `canon` lays out (DFS post-order, high child first), for
    every valuation of every length -/
theorem valuation_bdd_canonical (v : TotalVal) :
    TotalVal.toBdd v = canon (TotalVal.numVars v) (TotalVal.agreeFrom v (TotalVal.numVars v) 0) ∧
    Canonical (TotalVal.toBdd v) ∧
    ∀ w : Nat → Bool, TotalVal.agreeFrom v (TotalVal.numVars v) 0 w = true ↔
      ∀ i, i < TotalVal.numVars v → w i = v.getD i false :=
  ⟨TotalVal.toBdd_eq_canon v, TotalVal.toBdd_canonical v,
   fun w => (TotalVal.agreeFrom_iff v _ 0 w).trans
     ⟨fun h i hi => h i (Nat.zero_le _) (by omega), fun h i _ hi => h i (by omega)⟩⟩

/-- the conversion to a Bdd loses nothing: different valuations give different Bdds -/
theorem valuation_bdd_inj (v v' : TotalVal) (hv : v.length ≤ 65535) (hv' : v'.length ≤ 65535)
    (h : TotalVal.toBdd v = TotalVal.toBdd v') : v = v' := by
  obtain ⟨_, _, hs, hd⟩ := valuation_bdd_spec v hv
  obtain ⟨_, _, hs', hd'⟩ := valuation_bdd_spec v' hv'
  have hlen : v.length = v'.length := by rw [h] at hs; omega
  have hself : den (TotalVal.toBdd v) (fun i => v.getD i false) = true := (hd _).2 (fun _ _ => rfl)
  rw [h] at hself
  have := (hd' _).1 hself
  apply List.ext_getElem hlen
  intro i h1 h2
  have := this i h2
  simp only [List.getD, List.getElem?_eq_getElem h1, List.getElem?_eq_getElem h2, Option.getD_some] at this
  exact this

/-- … and it has exactly one satisfying valuation according to the modelled `exact_cardinality` -/
theorem valuation_bdd_card (v : TotalVal) (hv : v.length ≤ 65535) :
    exactCardO (TotalVal.toBdd v) = .ok 1 := by
  obtain ⟨hred, hpre, _, hd⟩ := valuation_bdd_spec v hv
  have hw := B.C02.wfo_of_red hred hpre
  rw [exactCardO_wfo hw]
  congr 1
  have hs := hred.size2
  have hden : ∀ w, evW (TotalVal.toBdd v) v.length w (root (TotalVal.toBdd v)) = den (TotalVal.toBdd v) w :=
    fun w => B.C02.evW_eq_ev hred hw w (root _) (root _) (by unfold root; omega) (Nat.le_refl _)
  unfold cnt
  apply cntV_single _ (fun i => v.getD i false) v.length
  · intro w; rw [hden]; exact hd w
  · omega
  · intro i hi; omega

/-! ## extends -/

/-- `BddPartialValuation::extends` holds exactly when every value fixed in the argument is fixed to
    the same value in `self` (for every vector `set_value`/`unset_value` can build: at most 65 536 cells) -/
theorem extends_iff (s q : PartialVal) (hq : q.length ≤ 65536) :
    PartialVal.extends_ s q = true ↔ ∀ x b, PartialVal.get q x = some b → PartialVal.get s x = some b :=
  PartialVal.extends_iff s q hq

/-- `BddValuation::extends` holds exactly when every variable of the total valuation that the partial
    one fixes has that value -/
theorem total_extends_iff (v : TotalVal) (q : PartialVal) (hv : v.length ≤ 65535) :
    TotalVal.extends_ v q = true ↔
      ∀ x b, x < v.length → PartialVal.get q x = some b → v.getD x false = b :=
  TotalVal.extends_iff v q hv

/-- for a partial valuation over the variables of the total one this is "all fixed values agree" -/
theorem total_extends_iff_all (v : TotalVal) (q : PartialVal) (hv : v.length ≤ 65535)
    (hq : ∀ x, PartialVal.get q x ≠ none → x < v.length) :
    TotalVal.extends_ v q = true ↔ ∀ x b, PartialVal.get q x = some b → v.getD x false = b := by
  rw [total_extends_iff v q hv]
  exact ⟨fun h x b hx => h x b (hq x (by rw [hx]; simp)) hx, fun h x b _ hx => h x b hx⟩

/-- the one-pass functions run by the driver are the literal loops of the Rust code -/
theorem loops_agree (s q : PartialVal) (v : TotalVal) :
    PartialVal.extends_ s q = PartialVal.extendsLoop s q ∧
    PartialVal.toTotal q = PartialVal.toTotalLoop q ∧
    TotalVal.extends_ v q = TotalVal.extendsLoop v q :=
  ⟨PartialVal.extends_eq_loop s q, PartialVal.toTotal_eq_loop q, TotalVal.extends_eq_loop v q⟩

/-! ## comparators -/

/-- `cmp_structural` is a linear order on node vectors and its `Equal` is `==`:
    `Equal` ⇔ same array; reversing the arguments reverses the result; `Less` is transitive
    (totality is in the type: the result is always an `Ordering`) -/
theorem cmp_structural_linear_order :
    (∀ a b, cmpStructural a b = .eq ↔ a = b) ∧
    (∀ a b, cmpStructural b a = (cmpStructural a b).swap) ∧
    (∀ a b c, cmpStructural a b = .lt → cmpStructural b c = .lt → cmpStructural a c = .lt) :=
  ⟨cmpStructural_eq_iff, cmpStructural_swap, cmpStructural_lt_trans⟩

/-- hence `≤` (`≠ Greater`) is reflexive, transitive, antisymmetric and total -/
theorem cmp_structural_le :
    (∀ a, cmpStructural a a ≠ .gt) ∧
    (∀ a b c, cmpStructural a b ≠ .gt → cmpStructural b c ≠ .gt → cmpStructural a c ≠ .gt) ∧
    (∀ a b, cmpStructural a b ≠ .gt → cmpStructural b a ≠ .gt → a = b) ∧
    (∀ a b, cmpStructural a b ≠ .gt ∨ cmpStructural b a ≠ .gt) := by
  obtain ⟨heq, hswap, htrans⟩ := cmp_structural_linear_order
  refine ⟨?_, ?_, ?_, ?_⟩
  · intro a; rw [(heq a a).2 rfl]; simp
  · intro a b c h1 h2
    cases e1 : cmpStructural a b with
    | gt => exact absurd e1 h1
    | eq =>
      have := (heq a b).1 e1; subst this; exact h2
    | lt =>
      cases e2 : cmpStructural b c with
      | gt => exact absurd e2 h2
      | eq => have := (heq b c).1 e2; subst this; rw [e1]; simp
      | lt => rw [htrans a b c e1 e2]; simp
  · intro a b h1 h2
    cases e1 : cmpStructural a b with
    | gt => exact absurd e1 h1
    | eq => exact (heq a b).1 e1
    | lt => rw [hswap a b, e1] at h2; exact absurd rfl h2
  · intro a b
    cases e1 : cmpStructural a b with
    | gt => right; rw [hswap a b, e1]; simp [Ordering.swap]
    | eq => left; simp
    | lt => left; simp

/-- `cmp_size` orders by the number of nodes (any two Bdds) -/
theorem cmp_size_spec (a b : Arr) : cmpSize a b = compare a.size b.size := rfl

/-- `cmp_cardinality` orders by the exact model count (any two diagrams, any variable counts), without panic -/
theorem cmp_cardinality_spec {a b : Arr} {n m : Nat} (ha : WFo a n) (hb : WFo b m) :
    cmpCardinality a b = .ok (compare (cnt n (fun v => evW a n v (root a))) (cnt m (fun v => evW b m v (root b)))) :=
  cmpCardinality_wfo ha hb

/-- `cmp_cardinality_strict`: `None` exactly for different variable counts, otherwise the order of
    the exact model counts -/
theorem cmp_cardinality_strict_spec {a b : Arr} {n m : Nat} (ha : WFo a n) (hb : WFo b m) :
    cmpCardinalityStrict a b =
      .ok (if n = m then some (compare (cnt n (fun v => evW a n v (root a))) (cnt m (fun v => evW b m v (root b))))
           else none) := by
  unfold cmpCardinalityStrict
  rw [numVars_of_wf ha, numVars_of_wf hb]
  split
  · rw [cmpCardinality_wfo ha hb]; rfl
  · rfl

/-- `cmp_implies`: `None` for different variable counts; for equal counts `Equal`/`Less`/`Greater`
    exactly by pointwise implication of the two functions, `None` when they are incomparable -/
theorem cmp_implies_spec {a b : Arr} {n m : Nat} (ha : WFo a n) (hb : WFo b m) :
    (n ≠ m → cmpImplies a b = none) ∧
    (n = m →
      let ab := ∀ v, evW a n v (root a) = true → evW b m v (root b) = true
      let ba := ∀ v, evW b m v (root b) = true → evW a n v (root a) = true
      (cmpImplies a b = some .eq ↔ ab ∧ ba) ∧ (cmpImplies a b = some .lt ↔ ab ∧ ¬ ba) ∧
      (cmpImplies a b = some .gt ↔ ¬ ab ∧ ba) ∧ (cmpImplies a b = none ↔ ¬ ab ∧ ¬ ba)) := by
  constructor
  · intro hne
    unfold cmpImplies
    rw [numVars_of_wf ha, numVars_of_wf hb, if_neg hne]
  · intro heq
    subst heq
    intro ab ba
    have hab : impliesB a b = true ↔ ab := impliesB_iff ha hb
    have hba : impliesB b a = true ↔ ba := impliesB_iff hb ha
    unfold cmpImplies
    rw [numVars_of_wf ha, numVars_of_wf hb, if_pos rfl]
    simp only
    cases h1 : impliesB a b <;> cases h2 : impliesB b a <;> simp_all

/-! ## non-vacuity -/

/-- two different histories over three variables (one leaves padding behind) with the same last
    writes: equal, same hash writes, but only the tight one converts to a total valuation -/
example :
    let p := PartialVal.runOps [(0, some true), (2, some false), (2, none)] PartialVal.empty
    let q := PartialVal.runOps [(1, some false), (0, some true), (1, none), (7, none)] PartialVal.empty
    p = [some true, none, none] ∧ q.length = 8 ∧ PartialVal.eq p q = true ∧
    PartialVal.hashWrites p = PartialVal.hashWrites q ∧
    PartialVal.toTotal [some true] = some [true] ∧ PartialVal.toTotal p = none := by decide

example : PartialVal.extends_ [some true, some false] [none, some false, none] = true ∧
    PartialVal.extends_ [some true] [none, some false] = false := by decide

/-- `Bdd::from` of `101`: hypotheses of `valuation_bdd_spec` hold, and the array is the chain -/
example : TotalVal.toBdd [true, false, true] =
    #[⟨3, 0, 0⟩, ⟨3, 1, 1⟩, ⟨2, 0, 1⟩, ⟨1, 2, 0⟩, ⟨0, 0, 3⟩] := by decide

/-- `valuation_bdd_canonical` on `101`: the chain is the canonical array, computed by the reference builder -/
example : canon 3 (TotalVal.agreeFrom [true, false, true] 3 0) =
    #[⟨3, 0, 0⟩, ⟨3, 1, 1⟩, ⟨2, 0, 1⟩, ⟨1, 2, 0⟩, ⟨0, 0, 3⟩] := by decide

/-- comparators on concrete level-well-formed operands: `x0 ∧ x2 ⇒ x0` strictly -/
example : cmpImplies exX0X2 exX0 = some .lt ∧ cmpStructural exX0X2 exX0 = .gt ∧ cmpSize exX0X2 exX0 = .gt := by
  refine ⟨((cmp_implies_spec exX0X2_wf exX0_wf).2 rfl).2.1.2 ⟨?_, ?_⟩, by decide, by decide⟩
  · intro v
    simp only [evW, root, exX0X2, exX0, List.size_toArray, List.length_cons, List.length_nil]
    cases h0 : v 0 <;> simp [evalF, h0, evalF_zero, evalF_one]
  · intro h
    have := h (fun i => i == 0)
    simp [evW, evalF, exX0X2, exX0, root, evalF_zero, evalF_one] at this

end B.Props.C18
