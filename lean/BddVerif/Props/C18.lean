/-! # C18 — property theorems (to be written) -/
namespace B.Props.C18
end B.Props.C18
