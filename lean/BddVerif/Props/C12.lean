import BddVerif.Lemmas.SerialIO
import BddVerif.Model.SerialStd
import BddVerif.Lemmas.SerialNodes
import BddVerif.Core.ApplyCanon
/-!
# C12 — text, binary and node-list serialisation round-trip under any I/O chunking

Property theorems about the executable model `Model/Serial.lean` (helper lemmas: `Lemmas/Serial*.lean`).
The byte layout (`Gen.recordLen`, `Gen.fieldLayout`) is regenerated from the Rust source on every run; the
theorems below use it only through `layout_ok`, `record_len_is_ten` and `widths_are_u16_u32`, which are
re-checked by `decide` against what the code says now.

Environment parameters (see the trusted base): a script `List Ev` for every reader and writer (`give k`,
`interrupted`, `fail`), and for `read_to_string` the list `wants` of buffer sizes std chooses to offer.
-/
namespace B.Props.C12
open B B.Serial

/-- every field fits its Rust type: `var : u16`, links `: u32` (true of every `Bdd` value) -/
def Fits (A : Arr) : Prop := ∀ nd ∈ A.toList, nd.var < 2 ^ 16 ∧ nd.low < 2 ^ 32 ∧ nd.high < 2 ^ 32

instance (A : Arr) : Decidable (Fits A) := by unfold Fits; infer_instance

theorem fitsNode_of_fits {A : Arr} (h : Fits A) : ∀ nd ∈ A.toList, FitsNode nd := by
  intro nd hnd
  obtain ⟨a, b, c⟩ := h nd hnd
  unfold FitsNode u16Max u32Max
  omega

/-- the regenerated widths are those of `u16` / `u32` -/
theorem widths_are_u16_u32 : 256 ^ varW = 2 ^ 16 ∧ 256 ^ lowW = 2 ^ 32 ∧ 256 ^ highW = 2 ^ 32 := by decide

theorem fitsBytes_of_fits {A : Arr} (h : Fits A) : ∀ nd ∈ A.toList, FitsBytes nd := by
  intro nd hnd
  obtain ⟨a, b, c⟩ := h nd hnd
  obtain ⟨w1, w2, w3⟩ := widths_are_u16_u32
  unfold FitsBytes
  rw [w1, w2, w3]
  exact ⟨a, b, c⟩

theorem digitChar_ascii : ∀ d, d < 10 → (digitChar d).toNat < 0x80 := by decide

theorem asciiBytes_flatten (ps : List (List Char)) : (ps.map asciiBytes).flatten = asciiBytes ps.flatten := by
  induction ps with
  | nil => rfl
  | cons p ps ih =>
    simp only [List.map_cons, List.flatten_cons, ih]
    simp [asciiBytes]

/-- the text writer emits ASCII only -/
theorem writeText_ascii (A : Arr) : ∀ c ∈ writeText A, c.toNat < 0x80 := by
  intro c hc
  rw [writeText_eq_render] at hc
  simp only [render, List.mem_cons, List.mem_flatMap, List.mem_map, List.mem_append, recBody,
    List.not_mem_nil, or_false] at hc
  have dig : ∀ k, c ∈ showNat k → c.toNat < 0x80 := by
    intro k hk
    obtain ⟨d, hd, rfl⟩ := mem_showNat k c hk
    exact digitChar_ascii d hd
  rcases hc with rfl | ⟨r, ⟨nd, _, rfl⟩, hc⟩
  · decide
  · rcases hc with (hc | rfl | hc | rfl | hc) | rfl
    · exact dig _ hc
    · decide
    · exact dig _ hc
    · decide
    · exact dig _ hc
    · decide

/-- what `write_as_string` hands to a sink that accepts everything, as bytes -/
theorem writeTextIO_plain (A : Arr) : writeTextIO A [] = (true, asciiBytes (writeText A), []) := by
  obtain ⟨s', hs', e⟩ := writePieces_ok ((textPieces A).map asciiBytes) [] (by intro e he; simp at he)
  have : s' = [] := List.eq_nil_of_suffix_nil hs'
  subst this
  unfold writeTextIO
  rw [e, asciiBytes_flatten]
  rfl

/-! ## Round trips -/

/-- **text_roundtrip** (characters): reading back what `write_as_string` produced yields the same array -/
theorem text_roundtrip_chars (A : Arr) (h : Fits A) : parseText (writeText A) = .ok A :=
  parseText_writeText (fitsNode_of_fits h)

/-- **text_roundtrip** (bytes, including UTF-8 decoding by `read_to_string`) -/
theorem text_roundtrip (A : Arr) (h : Fits A) : readText (asciiBytes (writeText A)) = .ok A := by
  unfold readText
  rw [← utf8Encode_ascii _ (writeText_ascii A), utf8Decode_encode]
  exact text_roundtrip_chars A h

/-- reading a byte vector through a reader without script = decoding record by record -/
theorem readBytes_eq (data : List UInt8) : readBytes data = .ok (decodeRecs data #[]) :=
  readBytesIO_ok data.length data [] #[] (Nat.le_refl _) (by intro e he; simp at he)

/-- **bytes_roundtrip** -/
theorem bytes_roundtrip (A : Arr) (h : Fits A) : readBytes (writeBytes A) = .ok A := by
  rw [readBytes_eq, writeBytes_eq, decodeRecs_encode _ _ (fitsBytes_of_fits h)]
  simp

/-- **nodes_roundtrip**: `from_nodes(b.to_nodes()) == Ok(b)` for every diagram that is well-formed by level -/
theorem nodes_roundtrip (A : Arr) (n : Nat) (h : WFo A n) : fromNodes (toNodes A) = .ok A := by
  have hn : numVars A = n := by simp [numVars, h.zero]
  exact ((fromNodes_spec A).1 A).mpr ⟨rfl, (fromNodesChecks_iff_wfo A).mpr (hn ▸ h)⟩

/-- **bytes_len**: the binary form has exactly `Gen.recordLen` bytes per node … -/
theorem bytes_len (A : Arr) : (writeBytes A).length = Gen.recordLen * A.size := by
  rw [writeBytes_eq, flatMap_encode_length]; simp

/-- … and the regenerated record length is 10 -/
theorem record_len_is_ten : Gen.recordLen = 10 := by decide

/-- a trailing partial record is ignored: the number of nodes read is `len / recordLen` -/
theorem decodeRecs_size : ∀ (n : Nat) (data : List UInt8) (acc : Arr), data.length ≤ n →
    (decodeRecs data acc).size = acc.size + data.length / Gen.recordLen := by
  intro n
  induction n with
  | zero =>
    intro data acc h
    have hp := recordLen_pos
    rw [decodeRecs_short (by omega), Nat.div_eq_of_lt (by omega)]; rfl
  | succ n ih =>
    intro data acc h
    have hp := recordLen_pos
    rcases Nat.lt_or_ge data.length Gen.recordLen with hlt | hge
    · rw [decodeRecs_short hlt, Nat.div_eq_of_lt hlt]; rfl
    · rw [decodeRecs_long hge, ih _ _ (by simp only [List.length_drop]; omega)]
      simp only [Array.size_push, List.length_drop]
      have : data.length / Gen.recordLen = (data.length - Gen.recordLen) / Gen.recordLen + 1 := by
        rw [← Nat.sub_add_cancel hge]
        simp [Nat.add_div_right _ hp]
      omega

/-! ## Whitespace -/

/-- **text_ws_tolerant**: inserting whitespace characters (any of the 25 `White_Space` code points, ASCII or
    not) anywhere in a text does not change what `read_as_string` returns — stated on the UTF-8 bytes -/
theorem text_ws_tolerant (s s' : List Char) (h : WsInsert s s') :
    readText (utf8Encode s') = readText (utf8Encode s) := by
  unfold readText
  rw [utf8Decode_encode, utf8Decode_encode]
  exact parseText_filter_congr h.filter_eq

/-- … in particular a serialisation with whitespace around its separators reads back as the original -/
theorem text_roundtrip_ws (A : Arr) (h : Fits A) (s' : List Char) (hw : WsInsert (writeText A) s') :
    readText (utf8Encode s') = .ok A := by
  rw [text_ws_tolerant _ _ hw, utf8Encode_ascii _ (writeText_ascii A)]
  exact text_roundtrip A h

/-! ## Chunking -/

/-- **chunking_irrelevant** (binary reader): through any script without hard error and without a
    zero-length transfer — arbitrarily small pieces, interruptions anywhere — `read_as_bytes` returns what it
    returns on the plain data -/
theorem chunking_irrelevant_read_bytes (data : List UInt8) (script : List Ev) (h : ScriptOk script) :
    (readBytesIO ⟨data, script⟩ #[]).1 = readBytes data := by
  rw [readBytes_eq]
  exact readBytesIO_ok data.length data script #[] (Nat.le_refl _) h

/-- **chunking_irrelevant** (text reader), for every choice `wants` of buffer sizes by std -/
theorem chunking_irrelevant_read_text (data : List UInt8) (script : List Ev) (wants : List Nat)
    (h : ScriptOk script) (hw : WantsOk wants) : (readTextIO ⟨data, script⟩ wants).1 = readText data :=
  readTextIO_ok h hw

/-- **chunking_irrelevant** (binary writer with partial writes and interruptions) -/
theorem chunking_irrelevant_write_bytes (A : Arr) (script : List Ev) (h : ScriptOk script) :
    (writeBytesIO A script).1 = true ∧ (writeBytesIO A script).2.1 = writeBytes A := by
  obtain ⟨s', _, e⟩ := writePieces_ok (bytePieces A) script h
  unfold writeBytesIO
  rw [e]
  exact ⟨rfl, rfl⟩

/-- **chunking_irrelevant** (text writer) -/
theorem chunking_irrelevant_write_text (A : Arr) (script : List Ev) (h : ScriptOk script) :
    (writeTextIO A script).1 = true ∧ (writeTextIO A script).2.1 = asciiBytes (writeText A) := by
  obtain ⟨s', _, e⟩ := writePieces_ok ((textPieces A).map asciiBytes) script h
  unfold writeTextIO
  rw [e]
  refine ⟨rfl, ?_⟩
  simp only [asciiBytes_flatten]; rfl

/-- the property as stated: write through any good script, read back through any good script -/
theorem roundtrip_under_chunking (A : Arr) (h : Fits A) (sw sr : List Ev) (wants : List Nat)
    (hsw : ScriptOk sw) (hsr : ScriptOk sr) (hw : WantsOk wants) :
    (readBytesIO ⟨(writeBytesIO A sw).2.1, sr⟩ #[]).1 = .ok A ∧
    (readTextIO ⟨(writeTextIO A sw).2.1, sr⟩ wants).1 = .ok A := by
  rw [(chunking_irrelevant_write_bytes A sw hsw).2, (chunking_irrelevant_write_text A sw hsw).2,
    chunking_irrelevant_read_bytes _ _ hsr, chunking_irrelevant_read_text _ _ _ hsr hw]
  exact ⟨bytes_roundtrip A h, text_roundtrip A h⟩

/-! ## I/O errors -/

/-- **io_error_propagates** (binary reader): for EVERY script, the events split into those consumed and those
    left; the outcome is `err` exactly when a hard error was consumed, and it is never a panic -/
theorem io_error_propagates_read_bytes (r : Reader) :
    ∃ consumed, r.script = consumed ++ (readBytesIO r #[]).2.script ∧
      ((readBytesIO r #[]).1.isErr = true ↔ Ev.fail ∈ consumed) ∧ (readBytesIO r #[]).1.isPanic = false :=
  readBytesIO_consumed r #[]

/-- **io_error_propagates** (text reader): a consumed hard error gives `err`; never a panic -/
theorem io_error_propagates_read_text (r : Reader) (wants : List Nat) :
    ∃ consumed, r.script = consumed ++ (readTextIO r wants).2.script ∧
      (Ev.fail ∈ consumed → (readTextIO r wants).1.isErr = true) ∧ (readTextIO r wants).1.isPanic = false :=
  readTextIO_consumed r wants

/-- **io_error_propagates** (both writers): the call returns `Err` exactly when a hard error or a zero-length
    write (`WriteZero`) was consumed; what reached the sink is then a prefix of the full serialisation -/
theorem io_error_propagates_write (A : Arr) (script : List Ev) :
    (∃ consumed, script = consumed ++ (writeBytesIO A script).2.2 ∧
      ((writeBytesIO A script).1 = false ↔ ∃ e ∈ consumed, isFault e) ∧
      (writeBytesIO A script).2.1 <+: writeBytes A) ∧
    (∃ consumed, script = consumed ++ (writeTextIO A script).2.2 ∧
      ((writeTextIO A script).1 = false ↔ ∃ e ∈ consumed, isFault e) ∧
      (writeTextIO A script).2.1 <+: asciiBytes (writeText A)) := by
  refine ⟨writePieces_consumed (bytePieces A) script, ?_⟩
  have := writePieces_consumed ((textPieces A).map asciiBytes) script
  have e : ((textPieces A).map asciiBytes).flatten = asciiBytes (writeText A) := by
    rw [asciiBytes_flatten]; rfl
  rw [e] at this
  exact this

/-! ## The instance replayed by the drivers -/

theorem readBytesIOS_eq : ∀ (r : Reader) (acc : Arr), readBytesIOS r acc = readBytesIO r acc := by
  have e : recordLenS = Gen.recordLen := by decide
  have d : ∀ buf, decodeNodeS buf = decodeNode buf := fun _ => rfl
  intro r acc
  fun_induction readBytesIO r acc with
  | case1 r acc buf r' hr ih =>
    rw [readBytesIOS]
    split
    · rename_i buf2 r2 heq
      rw [e, hr] at heq
      simp only [Prod.mk.injEq, ExactRes.ok.injEq] at heq
      obtain ⟨rfl, rfl⟩ := heq
      rw [d]; exact ih
    · rename_i heq; rw [e, hr] at heq; simp at heq
    · rename_i heq; rw [e, hr] at heq; simp at heq
  | case2 r acc r' hr =>
    rw [readBytesIOS]
    split
    · rename_i heq; rw [e, hr] at heq; simp at heq
    · rename_i r2 heq; rw [e, hr] at heq
      simp only [Prod.mk.injEq, true_and] at heq; subst heq; rfl
    · rename_i heq; rw [e, hr] at heq; simp at heq
  | case3 r acc r' hr =>
    rw [readBytesIOS]
    split
    · rename_i heq; rw [e, hr] at heq; simp at heq
    · rename_i heq; rw [e, hr] at heq; simp at heq
    · rename_i r2 heq; rw [e, hr] at heq
      simp only [Prod.mk.injEq, true_and] at heq; subst heq; rfl

/-- **std_twin_eq**: the instance of the binary reader/writer with the documented layout written out
    (`Model/SerialStd.lean`, replayed by the drivers so that they build without `Gen/Consts.lean`) is the instance
    with the regenerated layout (`Model/Serial.lean`, which the theorems above are about) -/
theorem std_twin_eq :
    recordLenS = Gen.recordLen ∧ fieldLayoutS = Gen.fieldLayout ∧
    (∀ nd, encodeNodeS nd = encodeNode nd) ∧ (∀ buf, decodeNodeS buf = decodeNode buf) ∧
    (∀ A, writeBytesS A = writeBytes A) ∧ (∀ A s, writeBytesIOS A s = writeBytesIO A s) ∧
    (∀ r acc, readBytesIOS r acc = readBytesIO r acc) ∧ (∀ bs, readBytesS bs = readBytes bs) := by
  have p : ∀ nd, nodeBytePiecesS nd = nodeBytePieces nd := fun _ => rfl
  have bp : ∀ A, bytePiecesS A = bytePieces A := by
    intro A; unfold bytePiecesS bytePieces; congr 1
  refine ⟨by decide, by decide, fun nd => by unfold encodeNodeS encodeNode; rw [p], fun _ => rfl,
    fun A => by unfold writeBytesS writeBytes; rw [bp], fun A s => by unfold writeBytesIOS writeBytesIO; rw [bp],
    readBytesIOS_eq, fun bs => by unfold readBytesS readBytes; rw [readBytesIOS_eq]⟩

/-! ## Non-vacuity: the hypotheses are satisfiable on concrete non-trivial values -/

/-- `x0 ∧ ¬x2`-like diagram over 3 variables with a 16-bit variable bound nearby -/
def exA : Arr := #[⟨3, 0, 0⟩, ⟨3, 1, 1⟩, ⟨2, 1, 0⟩, ⟨0, 0, 2⟩]
def exBig : Arr := #[⟨65535, 0, 0⟩, ⟨65535, 1, 1⟩, ⟨65534, 0, 1⟩, ⟨300, 2, 1⟩]
def exScript : List Ev := [.give 3, .interrupted, .give 1, .give 2, .interrupted]

example : Fits exA := by decide
example : Fits exBig := by decide
example : ScriptOk exScript := by
  intro e he; simp [exScript] at he; rcases he with rfl | rfl | rfl | rfl | rfl <;> simp
example : WantsOk [32, 5, 1, 32] := by intro w hw; simp at hw; omega
example : WFo exA 3 := wfoB_sound (by decide)
example : WsInsert ['|', '1'] [' ', '|', Char.ofNat 0x3000, '1', Char.ofNat 0xA0] :=
  .ins _ (by decide) (.keep _ (.ins _ (by decide) (.keep _ (.ins _ (by decide) .nil))))
example : readText (asciiBytes (writeText exBig)) = .ok exBig := text_roundtrip exBig (by decide)
example : readBytes (writeBytes exBig) = .ok exBig := bytes_roundtrip exBig (by decide)
example : fromNodes (toNodes exA) = .ok exA := nodes_roundtrip exA 3 (wfoB_sound (by decide))
example : (writeBytes exA).length = 40 := by rw [bytes_len, record_len_is_ten]; rfl

end B.Props.C12
