/-! # C12 — property theorems (to be written) -/
namespace B.Props.C12
end B.Props.C12
