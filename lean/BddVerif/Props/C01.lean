import BddVerif.Core.ApplyCanon
import BddVerif.Lemmas.TernaryCanon
import BddVerif.Lemmas.Ternary5
import BddVerif.Drive.Tables
import BddVerif.Gen.OpTables
/-!
# C01 — logical operators compute the pointwise Boolean function of their operands

Property theorems only (helper lemmas live under `Core/` and `Lemmas/`). The tables
`Gen.and_ … Gen.ite_` are regenerated from `src/op_function.rs` / `ite_function` on every run, so
the theorems below are re-checked against what the code says now. `applyWithFlip` is the executable
model of `apply_with_flip` (Model/Apply.lean) that the driver replays against the implementation.

Operands are only required to be well formed *by level* (`WFo`: terminals exact, variables below
`n`, links in range, variables strictly increasing along links) — any shape, constants, skipped
levels, non-canonical numbering. `evW L n v (root L)` is the value of operand `L` at valuation `v`.
-/
namespace B.Props.C01
open B B.Drive B.Gen

/-- **binary_op with any consistent table is the pointwise connective**, for all operands over any
    number of variables and every valuation. -/
theorem apply_pointwise (L R : Arr) (n : Nat) (op : Op2) (c : Bool → Bool → Bool)
    (hL : WFo L n) (hR : WFo R n) (hc : Consistent op c) (v : Nat → Bool) :
    den (applyWithFlip L R op none none none) v = c (evW L n v (root L)) (evW R n v (root R)) := by
  have := applyWithFlip_den L R n op c none none none hL hR hc
    (fun _ h => by cases h) (fun _ h => by cases h) (fun _ h => by cases h) v
  simpa [inv] using this

/-- **eager (short-circuiting) and lazy tables of the same connective give the same result** —
    not merely the same function: the identical node array. -/
theorem eager_lazy_same (L R : Arr) (n : Nat) (op1 op2 : Op2) (c : Bool → Bool → Bool)
    (hL : WFo L n) (hR : WFo R n) (h1 : Consistent op1 c) (h2 : Consistent op2 c) :
    applyWithFlip L R op1 none none none = applyWithFlip L R op2 none none none :=
  apply_eager_lazy L R n op1 op2 c none none none hL hR h1 h2
    (fun _ h => by cases h) (fun _ h => by cases h) (fun _ h => by cases h)

/-- the result is the canonical array of the pointwise function (so it only depends on the function) -/
theorem apply_canonical_form (L R : Arr) (n : Nat) (op : Op2) (c : Bool → Bool → Bool)
    (hL : WFo L n) (hR : WFo R n) (hc : Consistent op c) :
    applyWithFlip L R op none none none =
      canon n (fun v => c (evW L n v (root L)) (evW R n v (root R))) := by
  have := applyWithFlip_eq_canon L R n op c none none none hL hR (numVars_of_wf hL) hc
    (fun _ h => by cases h) (fun _ h => by cases h) (fun _ h => by cases h)
  simpa [inv] using this

/-- **the six built-in tables never answer on partial information unless every completion agrees
    with the answer**, and they are total on known arguments: each is `Consistent` with its connective.
    (Re-proved on every run against the tables regenerated from `src/op_function.rs`.) -/
theorem builtin_tables_consistent :
    Consistent and_ (fun a b => a && b) ∧ Consistent or_ (fun a b => a || b) ∧
    Consistent imp_ (fun a b => !a || b) ∧ Consistent iff_ (fun a b => a == b) ∧
    Consistent xor_ (fun a b => a != b) ∧ Consistent and_not_ (fun a b => a && !b) := by
  refine ⟨?_, ?_, ?_, ?_, ?_, ?_⟩ <;> constructor <;> decide

/-- and/or/xor/imp/iff/and_not of `Bdd` compute their connective pointwise (instances of
    `apply_pointwise` for the regenerated tables). -/
theorem builtin_pointwise (L R : Arr) (n : Nat) (hL : WFo L n) (hR : WFo R n) (v : Nat → Bool) :
    den (applyWithFlip L R and_ none none none) v = (evW L n v (root L) && evW R n v (root R)) ∧
    den (applyWithFlip L R or_ none none none) v = (evW L n v (root L) || evW R n v (root R)) ∧
    den (applyWithFlip L R imp_ none none none) v = (!evW L n v (root L) || evW R n v (root R)) ∧
    den (applyWithFlip L R iff_ none none none) v = (evW L n v (root L) == evW R n v (root R)) ∧
    den (applyWithFlip L R xor_ none none none) v = (evW L n v (root L) != evW R n v (root R)) ∧
    den (applyWithFlip L R and_not_ none none none) v = (evW L n v (root L) && !evW R n v (root R)) := by
  obtain ⟨h1, h2, h3, h4, h5, h6⟩ := builtin_tables_consistent
  exact ⟨apply_pointwise L R n _ _ hL hR h1 v, apply_pointwise L R n _ _ hL hR h2 v,
    apply_pointwise L R n _ _ hL hR h3 v, apply_pointwise L R n _ _ hL hR h4 v,
    apply_pointwise L R n _ _ hL hR h5 v, apply_pointwise L R n _ _ hL hR h6 v⟩

/-- the executable consistency check used by the driver for arbitrary 9-character tables, on the
    built-in tables (all 9 inputs), with the connective numbers the harness uses -/
theorem builtin_tables_check :
    consistent2 and_ 8 = true ∧ consistent2 or_ 14 = true ∧ consistent2 imp_ 11 = true ∧
    consistent2 iff_ 9 = true ∧ consistent2 xor_ 6 = true ∧ consistent2 and_not_ 4 = true := by
  decide

theorem connective_numbers :
    (∀ a b, conn2 8 a b = (a && b)) ∧ (∀ a b, conn2 14 a b = (a || b)) ∧
    (∀ a b, conn2 11 a b = (!a || b)) ∧ (∀ a b, conn2 9 a b = (a == b)) ∧
    (∀ a b, conn2 6 a b = (a != b)) ∧ (∀ a b, conn2 4 a b = (a && !b)) := by
  decide

/-- `ite_function` (regenerated) answers only when every completion agrees with if-then-else (27 inputs) -/
theorem ite_table_check : consistent3 ite_ 0xCA = true := by decide

theorem ite_connective : ∀ a b c, conn3 0xCA a b c = (if a then b else c) := by decide


/-! ### Ternary operators, `if_then_else`, `not` -/

/-- **ternary_op with any consistent 27-entry table is the pointwise ternary connective** -/
theorem ternary_pointwise (A B C : Arr) (n : Nat) (op : Op3) (c : Bool → Bool → Bool → Bool)
    (hA : WFo A n) (hB : WFo B n) (hC : WFo C n) (hc : Consistent3 op c) (v : Nat → Bool) :
    den (ternaryApply A B C op none none none none) v =
      c (evW A n v (root A)) (evW B n v (root B)) (evW C n v (root C)) := by
  have := ternaryApply_den A B C n op c none none none none hA hB hC hc
    (fun _ h => by cases h) (fun _ h => by cases h) (fun _ h => by cases h) v
  simpa [inv] using this

/-- eager and lazy ternary tables of the same connective give the identical array -/
theorem ternary_eager_lazy_same (A B C : Arr) (n : Nat) (op1 op2 : Op3) (c : Bool → Bool → Bool → Bool)
    (hA : WFo A n) (hB : WFo B n) (hC : WFo C n) (h1 : Consistent3 op1 c) (h2 : Consistent3 op2 c) :
    ternaryApply A B C op1 none none none none = ternaryApply A B C op2 none none none none :=
  ternary_eager_lazy A B C n op1 op2 c none none none none hA hB hC h1 h2
    (fun _ h => by cases h) (fun _ h => by cases h) (fun _ h => by cases h)

/-- **if_then_else** (the regenerated `ite_function` table through `ternary_apply`) -/
theorem if_then_else_pointwise (A B C : Arr) (n : Nat) (hA : WFo A n) (hB : WFo B n) (hC : WFo C n)
    (v : Nat → Bool) :
    den (ternaryApply A B C ite_ none none none none) v =
      if evW A n v (root A) then evW B n v (root B) else evW C n v (root C) :=
  ite_den A B C n hA hB hC v

/-- the regenerated `ite_function` answers on partial information only when every completion agrees -/
theorem ite_table_consistent : Consistent3 ite_ (fun a b c => if a then b else c) := ite_consistent3

/-- the executable table checks the driver applies to arbitrary 9- and 27-character tables are sound:
    a table that passes is `Consistent` with its connective, so the theorems above apply to it -/
theorem table_checks_sound :
    (∀ op cn, consistent2 op cn = true → Consistent op (conn2 cn)) ∧
    (∀ op cn, consistent3 op cn = true → Consistent3 op (conn3 cn)) :=
  ⟨fun _ _ h => consistent2_of_check h, fun _ _ h => consistent3_of_check h⟩

/-- **not** computes pointwise negation (constants are swapped, otherwise terminal links are flipped),
    and on the canonical form of `f` it returns the canonical form of `¬f`. -/
theorem not_pointwise {A : Arr} {n : Nat} (h : A.size = 1 ∨ Red A n) (v : Nat → Bool) :
    den (bddNot A) v = !(den A v) := bddNot_den h v

theorem not_canonical_form (n : Nat) (f : (Nat → Bool) → Bool)
    (hdep : ∀ v w : Nat → Bool, (∀ i, i < n → v i = w i) → f v = f w) :
    bddNot (canon n f) = canon n (fun v => !f v) := bddNot_canon n f hdep

/-! ### Non-vacuity: the hypotheses are met by concrete, non-trivial operands -/

/-- x0 ∧ x2 over three variables: the root skips level 1 -/
def exL : Arr := #[⟨3, 0, 0⟩, ⟨3, 1, 1⟩, ⟨2, 0, 1⟩, ⟨0, 0, 2⟩]
/-- the constant true over three variables -/
def exR : Arr := #[⟨3, 0, 0⟩, ⟨3, 1, 1⟩]

example : WFo exL 3 ∧ WFo exR 3 :=
  ⟨wfoB_sound (by decide), wfoB_sound (by decide)⟩

/-- the theorem pins the model's concrete output (the kernel evaluates `canon`, not the `HashMap`) -/
example : applyWithFlip exL exR and_ none none none = exL :=
  (apply_canonical_form exL exR 3 and_ _ (wfoB_sound (by decide)) (wfoB_sound (by decide))
    builtin_tables_consistent.1).trans (by decide)

end B.Props.C01
