import BddVerif.Drive.Tables
import BddVerif.Gen.OpTables
/-!
# C01 — logical operators compute the pointwise Boolean function of their operands

Property theorems only (helper lemmas live under `Core/`). The tables `Gen.and_ … Gen.ite_` are
regenerated from `src/op_function.rs` / `ite_function` on every run, so the theorems below are
re-checked against what the code says now.
-/
namespace B.Props.C01
open B B.Drive B.Gen

/-- "the six built-in tables never answer on partial information unless every completion agrees
    with the answer", and they are total on known arguments (executable form, all 9 inputs). -/
theorem builtin_tables_consistent :
    consistent2 and_ 8 = true ∧ consistent2 or_ 14 = true ∧ consistent2 imp_ 11 = true ∧
    consistent2 iff_ 9 = true ∧ consistent2 xor_ 6 = true ∧ consistent2 and_not_ 4 = true := by
  decide

/-- the connective numbers used above are the intended connectives -/
theorem connective_numbers :
    (∀ a b, conn2 8 a b = (a && b)) ∧ (∀ a b, conn2 14 a b = (a || b)) ∧
    (∀ a b, conn2 11 a b = (!a || b)) ∧ (∀ a b, conn2 9 a b = (a == b)) ∧
    (∀ a b, conn2 6 a b = (a != b)) ∧ (∀ a b, conn2 4 a b = (a && !b)) := by
  decide

/-- `ite_function` is consistent with if-then-else (all 27 inputs) -/
theorem ite_table_consistent : consistent3 ite_ 0xCA = true := by decide

theorem ite_connective : ∀ a b c, conn3 0xCA a b c = (if a then b else c) := by decide

end B.Props.C01
