/-! # C13 — property theorems (to be written) -/
namespace B.Props.C13
end B.Props.C13
