import BddVerif.Lemmas.SerialIO
import BddVerif.Lemmas.SerialValidate
import BddVerif.Lemmas.SerialValidateComplete
import BddVerif.Core.ApplyCanon
/-!
# C13 — deserialisers and `validate()` are safe on arbitrary input

Property theorems about the executable model `Model/Serial.lean` (helper lemmas: `Lemmas/Serial*.lean`).
In the model every Rust index expression is a partial `idx`/`aidx` whose failure is the outcome `panic`, and
every loop without a bound of its own has a fuel whose exhaustion is the outcome `none` (diverge); the
theorems say that these outcomes are unreachable.
-/
namespace B.Props.C13
open B B.Serial

/-! ## The readers and `from_nodes` never panic -/

/-- **read_text_total**: for ALL byte sequences (valid UTF-8 or not, any field count, any number) the text
    reader returns `ok` or `err` -/
theorem read_text_total (bytes : List UInt8) : (readText bytes).isPanic = false := readText_not_panic bytes

/-- … also through every scripted reader and every choice of buffer sizes -/
theorem read_text_io_total (r : Reader) (wants : List Nat) : (readTextIO r wants).1.isPanic = false := by
  obtain ⟨_, _, _, h⟩ := readTextIO_consumed r wants
  exact h

/-- **read_bytes_total**: for ALL byte sequences the binary reader returns `ok` (one node per complete record,
    a trailing partial record is dropped) -/
theorem read_bytes_total (bytes : List UInt8) :
    readBytes bytes = .ok (decodeRecs bytes #[]) ∧ (readBytes bytes).isPanic = false := by
  have h : readBytes bytes = .ok (decodeRecs bytes #[]) :=
    readBytesIO_ok bytes.length bytes [] #[] (Nat.le_refl _) (by intro e he; simp at he)
  exact ⟨h, by rw [h]; rfl⟩

/-- … and through every scripted reader it returns `ok` or `err` -/
theorem read_bytes_io_total (r : Reader) : (readBytesIO r #[]).1.isPanic = false := by
  obtain ⟨_, _, _, h⟩ := readBytesIO_consumed r #[]
  exact h

/-- **from_nodes_total**: `from_nodes` returns `ok` or `err` on every node array -/
theorem from_nodes_total (d : Arr) : (fromNodes d).isPanic = false := (fromNodes_spec d).2

/-! ## Numbers are taken at face value -/

/-- normally formatted text: `|N,N,N|…|` where every `N` is `0` or a non-zero digit followed by digits -/
def Normal (s : List Char) : Prop := ∃ recs : List Rec, (∀ r ∈ recs, NormalRec r) ∧ s = render recs

/-- **face_value** (characters): an accepted, normally formatted text re-serialises to itself -/
theorem face_value_chars (s : List Char) (A : Arr) (hn : Normal s) (h : parseText s = .ok A) :
    writeText A = s := by
  obtain ⟨recs, hrec, rfl⟩ := hn
  rw [parseText_render (fun r hr => cleanRec_of_normal (hrec r hr))] at h
  obtain ⟨l, hA, hl⟩ := parseFields_normal recs #[] A hrec h
  rw [writeText_eq_render, hA]
  simp [hl]

/-- **face_value** (bytes, through UTF-8 decoding) -/
theorem face_value (s : List Char) (A : Arr) (hn : Normal s) (h : readText (utf8Encode s) = .ok A) :
    writeText A = s := by
  unfold readText at h
  rw [utf8Decode_encode] at h
  exact face_value_chars s A hn h

/-- accepted numbers fit their types (nothing is truncated on the way in) -/
theorem accepted_fields_fit : ∀ (ps : List (List Char)) (acc A : Arr),
    (∀ nd ∈ acc.toList, nd.var ≤ u16Max ∧ nd.low ≤ u32Max ∧ nd.high ≤ u32Max) →
    parseRecords ps acc = .ok A → ∀ nd ∈ A.toList, nd.var ≤ u16Max ∧ nd.low ≤ u32Max ∧ nd.high ≤ u32Max := by
  have pd : ∀ max cs a v, a ≤ max → parseDigits max a cs = some v → v ≤ max := by
    intro max cs
    induction cs with
    | nil => intro a v ha h; simp [parseDigits] at h; omega
    | cons c cs ih =>
      intro a v ha h
      simp only [parseDigits] at h
      split at h
      · simp at h
      · split at h
        · rename_i hle; exact ih _ v hle h
        · simp at h
  have pu : ∀ max s v, parseUInt max s = some v → v ≤ max := by
    intro max s v h
    unfold parseUInt at h
    split at h
    · simp at h
    · split at h
      · simp at h
      · exact pd _ _ _ _ (Nat.zero_le _) h
    · split at h <;> exact pd _ _ _ _ (Nat.zero_le _) h
  intro ps
  induction ps with
  | nil => intro acc A hacc h; simp [parseRecords] at h; subst h; exact hacc
  | cons p ps ih =>
    intro acc A hacc h
    simp only [parseRecords] at h
    cases hp : parseRecord p with
    | panic m => simp [hp] at h
    | err m => simp [hp] at h
    | ok nd =>
      simp only [hp] at h
      refine ih _ A ?_ h
      intro x hx
      simp only [Array.toList_push, List.mem_append, List.mem_singleton] at hx
      rcases hx with hx | rfl
      · exact hacc x hx
      · unfold parseRecord at hp
        simp only at hp
        split at hp
        · simp at hp
        · rename_i hl
          have hl : (splitOn ',' p).length = 3 := by simpa using hl
          match hs : splitOn ',' p, hl with
          | [a, b, c], _ =>
            simp only [hs, idx, liftOpt] at hp
            cases e1 : parseUInt u16Max a <;> cases e2 : parseUInt u32Max b <;>
              cases e3 : parseUInt u32Max c <;> simp [e1, e2, e3] at hp
            subst hp
            exact ⟨pu _ _ _ e1, pu _ _ _ e2, pu _ _ _ e3⟩

/-! ## What is accepted is well-formed -/

/-- **from_nodes_wf**: whatever `from_nodes` accepts is the input itself and is well-formed by level over its
    declared variable count (terminals exact, variables in range, links in range, variables strictly
    increasing along both links) — and conversely, so the checks are exactly `WFo` -/
theorem from_nodes_wf (d b : Arr) : fromNodes d = .ok b ↔ b = d ∧ WFo d (numVars d) := by
  rw [(fromNodes_spec d).1 b, fromNodesChecks_iff_wfo]

/-- **validate_total**: the DFS of `validate` terminates within `2·size + 1` iterations on EVERY array (also
    cyclic ones: the documented possibility of looping does not exist once the range checks have passed and
    the `visited` vector is consulted), and never indexes out of bounds -/
theorem validate_total (A : Arr) : ∃ o, validate A = some o ∧ o.isPanic = false := B.Serial.validate_total A

/-- **validate_wf**: `validate() == Ok(())` implies well-formedness by level and that every decision node is
    reachable from the root -/
theorem validate_wf (A : Arr) (h : validate A = some (.ok ())) : WFo A (numVars A) ∧ AllReachable A :=
  wfo_of_validate h

/-! ## `validate`: exactly what is accepted, and which message for which first failing condition -/

/-- **validate_ok_iff**: for EVERY array, `validate() == Ok(())` holds exactly when the array is well-formed by level
    over the variable count stored in node 0 (`WFo`: both terminals exact, every decision node has its variable below
    that count, both links in range and the variable strictly smaller than the variable of either child) and every
    decision node is reachable from the root, the last node (`AllReachable`). Nothing else is checked: no
    reducedness, no duplicate test, no node order; the two terminals need not be reachable. -/
theorem validate_ok_iff (A : Arr) : validate A = some (.ok ()) ↔ WFo A (numVars A) ∧ AllReachable A := by
  refine ⟨validate_wf A, fun ⟨hw, hall⟩ => ?_⟩
  have hpos : 0 < A.size := by
    rcases Nat.eq_zero_or_pos A.size with h0 | h0
    · have := hw.zero; rw [Array.getElem?_eq_none (by omega)] at this; simp at this
    · exact h0
  by_cases h1 : A.size = 1
  · rw [validate_one h1]; simp [hw.zero]
  by_cases h2 : A.size = 2
  · rw [validate_two h2]
    have : Terms A := ⟨hw.zero, hw.one (by omega)⟩
    simp [this]
  have h3 : 3 ≤ A.size := by omega
  have hc := (fromNodesChecks_iff_wfo A).mpr hw
  refine validate_accept h3 ⟨hw.zero, hw.one (by omega)⟩ ?_ ?_ hall
  · intro p nd hp hpn
    obtain ⟨a, b, c, _, _⟩ := hc.inner p nd hp hpn
    exact ⟨a, b, c⟩
  · intro q hq hqs _
    have hnd : A[q]? = some A[q] := by simp [hqs]
    obtain ⟨_, _, _, ⟨lc, e2, o1⟩, ⟨hc', e3, o2⟩⟩ := hc.inner q A[q] hq hnd
    exact ⟨A[q], lc, hc', hnd, e2, e3, o1, o2⟩

/-- the refusals of `validate`, in the order in which the code tests them, each with its message -/
def ValidateErr (A : Arr) (m : String) : Prop :=
  (A.size = 0 ∧ m = "No nodes") ∨
  (A.size = 1 ∧ ¬ A[0]? = some ⟨numVars A, 0, 0⟩ ∧ m = "Malformed false BDD.") ∨
  (A.size = 2 ∧ ¬ Terms A ∧ m = "Malformed true BDD.") ∨
  (3 ≤ A.size ∧ ¬ Terms A ∧ m = "Malformed terminal nodes.") ∨
  (3 ≤ A.size ∧ Terms A ∧ RangeErr A m) ∨
  (3 ≤ A.size ∧ Terms A ∧ RangeOk A ∧
    (∃ q, 2 ≤ q ∧ q < A.size ∧ Reach A (A.size - 1) q ∧ ¬ OrderedAt A q) ∧ m = "Found broken child ordering") ∨
  (3 ≤ A.size ∧ Terms A ∧ RangeOk A ∧
    (∀ q, 2 ≤ q → q < A.size → Reach A (A.size - 1) q → OrderedAt A q) ∧ ¬ AllReachable A ∧
    m = "BDD has unreachable nodes.")

/-- every refusal listed in `ValidateErr` is what the model returns -/
theorem validate_err_of (A : Arr) (m : String) (h : ValidateErr A m) : validate A = some (.err m) := by
  rcases h with ⟨h0, rfl⟩ | ⟨h1, hz, rfl⟩ | ⟨h2, ht, rfl⟩ | ⟨h3, ht, rfl⟩ | ⟨h3, ht, hr⟩ | ⟨h3, ht, hr, hbad, rfl⟩ |
    ⟨h3, ht, hr, hord, hun, rfl⟩
  · exact validate_empty h0
  · rw [validate_one h1]; simp [hz]
  · rw [validate_two h2]; simp [ht]
  · exact validate_bad_terms h3 ht
  · exact validate_range_err h3 ht hr
  · exact validate_order_err h3 ht hr hbad
  · exact validate_unreachable h3 ht hr hord hun

/-- the list is exhaustive: every array is accepted or falls under exactly one refusal -/
theorem validate_exhaustive (A : Arr) : (WFo A (numVars A) ∧ AllReachable A) ∨ ∃ m, ValidateErr A m := by
  by_cases h0 : A.size = 0
  · exact .inr ⟨_, .inl ⟨h0, rfl⟩⟩
  by_cases h1 : A.size = 1
  · by_cases hz : A[0]? = some ⟨numVars A, 0, 0⟩
    · refine .inl ((validate_ok_iff A).mp ?_)
      rw [validate_one h1]; simp [hz]
    · exact .inr ⟨_, .inr (.inl ⟨h1, hz, rfl⟩)⟩
  by_cases h2 : A.size = 2
  · by_cases ht : Terms A
    · refine .inl ((validate_ok_iff A).mp ?_)
      rw [validate_two h2]; simp [ht]
    · exact .inr ⟨_, .inr (.inr (.inl ⟨h2, ht, rfl⟩))⟩
  have h3 : 3 ≤ A.size := by omega
  by_cases ht : Terms A
  · rcases range_ok_or_err A with hr | ⟨m, hr⟩
    · by_cases hbad : ∃ q, 2 ≤ q ∧ q < A.size ∧ Reach A (A.size - 1) q ∧ ¬ OrderedAt A q
      · exact .inr ⟨_, .inr (.inr (.inr (.inr (.inr (.inl ⟨h3, ht, hr, hbad, rfl⟩)))))⟩
      · have hord : ∀ q, 2 ≤ q → q < A.size → Reach A (A.size - 1) q → OrderedAt A q := by
          intro q a b c
          exact Classical.byContradiction fun hn => hbad ⟨q, a, b, c, hn⟩
        by_cases hall : AllReachable A
        · exact .inl ((validate_ok_iff A).mp (validate_accept h3 ht hr hord hall))
        · exact .inr ⟨_, .inr (.inr (.inr (.inr (.inr (.inr ⟨h3, ht, hr, hord, hall, rfl⟩)))))⟩
    · exact .inr ⟨m, .inr (.inr (.inr (.inr (.inl ⟨h3, ht, hr⟩))))⟩
  · exact .inr ⟨_, .inr (.inr (.inr (.inl ⟨h3, ht, rfl⟩)))⟩

/-- **validate_err_iff**: `validate()` returns `Err(m)` exactly under the first failing condition of the list, with the
    message of that condition (for the range tests: the first decision node in index order that fails, and its first
    failing field in the order variable, low link, high link) -/
theorem validate_err_iff (A : Arr) (m : String) : validate A = some (.err m) ↔ ValidateErr A m := by
  refine ⟨fun h => ?_, validate_err_of A m⟩
  rcases validate_exhaustive A with hok | ⟨m', hm'⟩
  · rw [(validate_ok_iff A).mpr hok] at h; simp at h
  · have := validate_err_of A m' hm'
    rw [this] at h
    simp only [Option.some.injEq, Outcome.err.injEq] at h
    rw [← h]; exact hm'

/-- **validate_outcome**: together — `validate` always terminates, never panics, and its result is `Ok` or one of the
    listed refusals -/
theorem validate_outcome (A : Arr) :
    validate A = some (.ok ()) ∨ ∃ m, validate A = some (.err m) ∧ ValidateErr A m := by
  rcases validate_exhaustive A with hok | ⟨m, hm⟩
  · exact .inl ((validate_ok_iff A).mpr hok)
  · exact .inr ⟨m, validate_err_of A m hm, hm⟩

/-! ## Consequences of well-formedness: evaluation terminates, operators accept -/

/-- **wf_eval_terminates**: on a diagram that is well-formed by level, `eval_in` needs at most `n + 1` steps,
    never indexes out of bounds, and computes the level-fuelled denotation `evW` -/
theorem wf_eval_terminates (A : Arr) (n : Nat) (val : Array Bool) (h : WFo A n) (hv : n ≤ val.size) :
    evalIn A val (n + 1) = some (.ok (evW A n (fun i => val.getD i false) (root A))) := by
  have hpos : 0 < A.size := by
    rcases Nat.eq_zero_or_pos A.size with h0 | h0
    · have := h.zero; rw [Array.getElem?_eq_none (by omega)] at this; simp at this
    · exact h0
  unfold evalIn
  rw [if_neg (by omega)]
  have hle : varOf A n (A.size - 1) ≤ n := by
    unfold varOf; split
    · exact Nat.le_refl _
    · split
      · rename_i nd hnd
        exact Nat.le_of_lt (h.inner _ nd (by omega) hnd).1
      · exact Nat.le_refl _
  rw [evalLoop_spec h val hv (n + 1) (A.size - 1) (by omega) (by omega)]
  rfl

/-- evaluation terminates on everything `from_nodes` accepts … -/
theorem from_nodes_eval_terminates (d b : Arr) (val : Array Bool) (h : fromNodes d = .ok b)
    (hv : numVars b ≤ val.size) : ∃ r, evalIn b val (numVars b + 1) = some (.ok r) := by
  obtain ⟨rfl, hw⟩ := (from_nodes_wf d b).mp h
  exact ⟨_, wf_eval_terminates _ _ val hw hv⟩

/-- … and on everything `validate` passes -/
theorem validate_eval_terminates (A : Arr) (val : Array Bool) (h : validate A = some (.ok ()))
    (hv : numVars A ≤ val.size) : ∃ r, evalIn A val (numVars A + 1) = some (.ok r) :=
  ⟨_, wf_eval_terminates _ _ val (validate_wf A h).1 hv⟩

/-- **wf_ops_accept**: an accepted diagram meets the hypotheses of the operator theorem (C01/C02): applied
    with any consistent table to any well-formed operand over the same variables, the model of
    `apply_with_flip` returns the canonical array of the pointwise function -/
theorem wf_ops_accept (d b R : Arr) (op : Op2) (c : Bool → Bool → Bool) (h : fromNodes d = .ok b)
    (hR : WFo R (numVars b)) (hc : Consistent op c) :
    applyWithFlip b R op none none none =
      canon (numVars b) (fun v => c (evW b (numVars b) v (root b)) (evW R (numVars b) v (root R))) := by
  obtain ⟨rfl, hw⟩ := (from_nodes_wf d b).mp h
  have := applyWithFlip_eq_canon b R (numVars b) op c none none none hw hR rfl hc (by simp) (by simp) (by simp)
  simpa [inv] using this

theorem wf_ops_accept_validate (A R : Arr) (op : Op2) (c : Bool → Bool → Bool) (h : validate A = some (.ok ()))
    (hR : WFo R (numVars A)) (hc : Consistent op c) :
    applyWithFlip A R op none none none =
      canon (numVars A) (fun v => c (evW A (numVars A) v (root A)) (evW R (numVars A) v (root R))) := by
  have := applyWithFlip_eq_canon A R (numVars A) op c none none none (validate_wf A h).1 hR rfl hc
    (by simp) (by simp) (by simp)
  simpa [inv] using this

/-! ## Non-vacuity -/

def exOk : Arr := #[⟨2, 0, 0⟩, ⟨2, 1, 1⟩, ⟨1, 0, 1⟩, ⟨0, 2, 1⟩]
/-- accepted by `from_nodes`, refused by `validate` (node 2 is unreachable) -/
def exUnreach : Arr := #[⟨2, 0, 0⟩, ⟨2, 1, 1⟩, ⟨1, 0, 1⟩, ⟨0, 0, 1⟩]
/-- the self-loop of the corpus: refused -/
def exLoop : Arr := #[⟨1, 0, 0⟩, ⟨1, 1, 1⟩, ⟨0, 2, 2⟩]

example : fromNodes exOk = .ok exOk := (from_nodes_wf exOk exOk).mpr ⟨rfl, wfoB_sound (by decide)⟩
theorem validate_ok_of_bool {A : Arr} (h : (validate A).map Outcome.isOk = some true) :
    validate A = some (.ok ()) := by
  cases hv : validate A with
  | none => simp [hv] at h
  | some o => cases o <;> simp [hv, Outcome.isOk] at h ⊢
theorem exOk_valid : validate exOk = some (.ok ()) := validate_ok_of_bool (by decide +kernel)
example : (fromNodes exUnreach).isOk = true ∧ (validate exUnreach).map Outcome.isErr = some true :=
  ⟨by rfl, by decide +kernel⟩
example : (fromNodes exLoop).isErr = true ∧ (validate exLoop).map Outcome.isErr = some true :=
  ⟨by rfl, by decide +kernel⟩
example : WFo exOk (numVars exOk) ∧ AllReachable exOk := validate_wf exOk exOk_valid
example : evalIn exOk #[true, false] 3 = some (.ok true) := by rfl
example : Normal ['|', '2', ',', '0', ',', '0', '|', '2', ',', '1', ',', '1', '|', '0', ',', '0', ',', '1', '|'] :=
  ⟨[(['2'], ['0'], ['0']), (['2'], ['1'], ['1']), (['0'], ['0'], ['1'])],
   by
    intro r hr
    simp only [List.mem_cons, List.not_mem_nil, or_false] at hr
    rcases hr with rfl | rfl | rfl
    · exact ⟨.inr ⟨'2', [], 2, rfl, by decide, by decide, by simp⟩, .inl rfl, .inl rfl⟩
    · exact ⟨.inr ⟨'2', [], 2, rfl, by decide, by decide, by simp⟩, .inr ⟨'1', [], 1, rfl, by decide, by decide, by simp⟩,
        .inr ⟨'1', [], 1, rfl, by decide, by decide, by simp⟩⟩
    · exact ⟨.inl rfl, .inl rfl, .inr ⟨'1', [], 1, rfl, by decide, by decide, by simp⟩⟩,
   by decide⟩
/-- the corpus inputs `|3|` and `|3,4294967296,0|` are refused, not a panic and not a truncation -/
example : (parseText ['|', '3', '|']).isErr = true := by decide
example : (parseText ['|', '3', ',', '4', '2', '9', '4', '9', '6', '7', '2', '9', '6', ',', '0', '|']).isErr = true := by decide
example : (parseText ['|', '3', ',', '4', '2', '9', '4', '9', '6', '7', '2', '9', '5', ',', '0', '|']).isOk = true := by decide


/-! ### every row of the refusal table is inhabited -/

def errMsgIs (A : Arr) (m : String) : Bool :=
  match validate A with
  | some (.err m') => m' == m
  | _ => false

theorem validate_err_of_bool {A : Arr} {m : String} (h : errMsgIs A m = true) : ValidateErr A m := by
  unfold errMsgIs at h
  cases hv : validate A with
  | none => simp [hv] at h
  | some o =>
    cases o with
    | ok u => simp [hv] at h
    | panic m' => simp [hv] at h
    | err m' =>
      simp only [hv, beq_iff_eq] at h
      subst h
      exact (validate_err_iff A m').mp hv

example : ValidateErr #[] "No nodes" := validate_err_of_bool (by decide +kernel)
example : ValidateErr #[⟨3, 1, 0⟩] "Malformed false BDD." := validate_err_of_bool (by decide +kernel)
example : ValidateErr #[⟨3, 0, 0⟩, ⟨3, 0, 0⟩] "Malformed true BDD." := validate_err_of_bool (by decide +kernel)
example : ValidateErr #[⟨2, 0, 0⟩, ⟨7, 1, 1⟩, ⟨0, 0, 1⟩] "Malformed terminal nodes." := validate_err_of_bool (by decide +kernel)
example : ValidateErr #[⟨3, 0, 0⟩, ⟨3, 1, 1⟩, ⟨4, 0, 1⟩] "Found invalid variable" := validate_err_of_bool (by decide +kernel)
example : ValidateErr #[⟨3, 0, 0⟩, ⟨3, 1, 1⟩, ⟨2, 5, 9⟩] "Found invalid low-link" := validate_err_of_bool (by decide +kernel)
example : ValidateErr #[⟨3, 0, 0⟩, ⟨3, 1, 1⟩, ⟨2, 0, 5⟩] "Found invalid high-link" := validate_err_of_bool (by decide +kernel)
/-- the first failing node decides, not the worst one -/
example : ValidateErr #[⟨3, 0, 0⟩, ⟨3, 1, 1⟩, ⟨2, 0, 5⟩, ⟨9, 0, 1⟩] "Found invalid high-link" :=
  validate_err_of_bool (by decide +kernel)
example : ValidateErr exLoop "Found broken child ordering" := validate_err_of_bool (by decide +kernel)
/-- a 2-cycle between the root and node 2 -/
example : ValidateErr #[⟨2, 0, 0⟩, ⟨2, 1, 1⟩, ⟨1, 0, 3⟩, ⟨0, 2, 1⟩] "Found broken child ordering" :=
  validate_err_of_bool (by decide +kernel)
example : ValidateErr exUnreach "BDD has unreachable nodes." := validate_err_of_bool (by decide +kernel)
example : WFo exOk (numVars exOk) ∧ AllReachable exOk := (validate_ok_iff exOk).mp exOk_valid

end B.Props.C13
