import BddVerif.Lemmas.C02Built
import BddVerif.Lemmas.C02History
import BddVerif.Gen.OpTables
/-!
# C02 — equal functions have identical Bdds: canonical form through any history

`Canonical A` says that the array `A` is exactly what the reference builder `canon` produces for
`A`'s own function over `A`'s own variable count (Shannon expansion, HIGH cofactor first,
find-or-push, the one-node array for the contradiction). It is the library-wide layout: the
executable test `Drive.isCanon` that every driver applies to the implementation's outputs is
proved equivalent to it (`check_is_exact`).
-/
namespace B.Props.C02
open B B.C02

/-- **Two canonical Bdds over the same variable count that denote the same function are equal** —
    hence equal under `==`, with equal hashes, text and bytes (any function of the node vector). -/
theorem canonical_unique {a b : Arr} (ha : Canonical a) (hb : Canonical b)
    (hn : numVars a = numVars b) (hf : ∀ v, den a v = den b v) : a = b :=
  B.canonical_unique ha hb hn hf

theorem canonical_same_observables {α : Type} (obs : Arr → α) {a b : Arr} (ha : Canonical a)
    (hb : Canonical b) (hn : numVars a = numVars b) (hf : ∀ v, den a v = den b v) : obs a = obs b :=
  congrArg obs (canonical_unique ha hb hn hf)

/-- **`is_false` / `is_true` are exact**: one node ⇔ contradiction, two nodes ⇔ tautology. -/
theorem is_false_exact {A : Arr} (h : Canonical A) : A.size = 1 ↔ ∀ v, den A v = false :=
  h.size_one_iff
theorem is_true_exact {A : Arr} (h : Canonical A) : A.size = 2 ↔ ∀ v, den A v = true :=
  h.size_two_iff

/-- **Structure of every canonical Bdd with decision nodes**: reduced and ordered (`Red`: variables
    below `n`, children stored before parents, distinct children, variables strictly increasing along
    both links, no duplicate node), the root is the last node (that is how `den` reads it) and every
    decision node is reachable from the root. -/
theorem canonical_structure {A : Arr} (h : Canonical A) (hs : 3 ≤ A.size) :
    Red A (numVars A) ∧ ∀ q, 2 ≤ q → q < A.size → Reach A (root A) q :=
  h.reach hs

/-- the executable canonicity test applied to observed outputs decides exactly `Canonical` -/
theorem check_is_exact (A : Arr) : Drive.isCanon A = true ↔ Canonical A := isCanon_iff A

/-- **Binary operators (with or without fused flips) return the canonical form even for merely
    valid, non-canonical operands** (`WFo`: well formed by level only; so `b.and(true)` canonicalises). -/
theorem binary_canonicalizes (L R : Arr) (n : Nat) (op : Op2) (c : Bool → Bool → Bool)
    (fl fr fo : Option Nat) (hL : WFo L n) (hR : WFo R n) (hc : Consistent op c)
    (hfl : ∀ x, fl = some x → x < n) (hfr : ∀ x, fr = some x → x < n) (hfo : ∀ x, fo = some x → x < n) :
    Canonical (applyWithFlip L R op fl fr fo) :=
  applyWithFlip_is_canonical L R n op c fl fr fo hL hR hc hfl hfr hfo

/-- the same for ternary operators -/
theorem ternary_canonicalizes (A B C : Arr) (n : Nat) (op : Op3) (c : Bool → Bool → Bool → Bool)
    (fa fb fc fo : Option Nat) (hA : WFo A n) (hB : WFo B n) (hC : WFo C n) (hc : Consistent3 op c)
    (hfa : ∀ x, fa = some x → x < n) (hfb : ∀ x, fb = some x → x < n) (hfc : ∀ x, fc = some x → x < n) :
    Canonical (ternaryApply A B C op fa fb fc fo) := by
  rw [ternaryApply_eq_canon A B C n op c fa fb fc fo hA hB hC hc hfa hfb hfc]
  exact canon_canonical' _ _

/-- `b.and(true)` is the canonical form of a merely valid `b` and denotes the same function -/
theorem and_true_canonicalizes (b : Arr) (n : Nat) (hb : WFo b n) :
    Canonical (applyWithFlip b (mkTrue n) Gen.and_ none none none) ∧
    ∀ v, den (applyWithFlip b (mkTrue n) Gen.and_ none none none) v = evW b n v (root b) := by
  have hT : WFo (mkTrue n) n := wfo_of_red (red_mkTrue n) (Prefix.refl _)
  have hc : Consistent Gen.and_ (fun a b => a && b) := by constructor <;> decide
  refine ⟨applyWithFlip_is_canonical b (mkTrue n) n _ _ none none none hb hT hc
    (fun _ h => by cases h) (fun _ h => by cases h) (fun _ h => by cases h), fun v => ?_⟩
  have := applyWithFlip_den b (mkTrue n) n _ _ none none none hb hT hc
    (fun _ h => by cases h) (fun _ h => by cases h) (fun _ h => by cases h) v
  rw [this]
  have : evW (mkTrue n) n (inv none (inv none v)) (root (mkTrue n)) = true := by
    show evW (mkTrue n) n _ 1 = true
    exact evW_one _ _ _
  rw [this, Bool.and_true]; rfl

/-- `not` maps canonical forms to canonical forms -/
theorem not_canonical {A : Arr} (h : Canonical A) : Canonical (bddNot A) := by
  have := bddNot_canon (numVars A) (den A) h.depBelow
  rw [← h] at this
  rw [this]
  exact canon_canonical' _ _

/-! ### Histories: the closure of canonical values under ALL modelled public operations

`B.C02H.Built n a` (Lemmas/C02History.lean, 51 constructors): `a` over `n` variables is obtained by
any finite sequence of the library's public operations as modelled — constants, literals, valuation
Bdds, clause/DNF/CNF/threshold constructors, `not`, binary and ternary operators with any consistent
table and fused flips, size-limited operators, nested apply, `exists`/`for_all`/`var_exists`/
`var_for_all`/`binary_op_with_exists`/`…_for_all`, `select`/`restrict`/`pick`/`pick_random`/`var_pick…`,
`substitute`, `rename_variable(s)`/`set_num_vars`/`transfer_from` (whenever they do not refuse),
rebuilds from `to_dnf`/`to_cnf`/`to_optimized_dnf`, deserialisation of the library's own text/bytes/
node output, `eval_expression` and the export round trip. Each constructor's side conditions are the
hypotheses of that operation's canonical-form theorem (C01, C03–C07, C10, C12, C15–C17). -/

/-- **Whatever sequence of operations produced it, the Bdd is canonical** (and carries the right
    variable count) — induction over the history. -/
theorem built_canonical {n : Nat} {a : Arr} (h : B.C02H.Built n a) : Canonical a ∧ numVars a = n :=
  B.C02H.built_canonical h

/-- **Any two results of any two histories with the same truth table are the same Bdd.** -/
theorem built_unique {n : Nat} {a b : Arr} (ha : B.C02H.Built n a) (hb : B.C02H.Built n b)
    (hf : ∀ v, den a v = den b v) : a = b :=
  B.C02H.built_unique ha hb hf

/-- … hence equal under `==`, with equal hash, text and bytes (any observable of the node vector) -/
theorem built_same_observables {α : Type} (obs : Arr → α) {n : Nat} {a b : Arr}
    (ha : B.C02H.Built n a) (hb : B.C02H.Built n b) (hf : ∀ v, den a v = den b v) : obs a = obs b :=
  B.C02H.built_same_observables obs ha hb hf

/-- every value of every history passes the executable test the driver applies to observed outputs -/
theorem built_passes_check {n : Nat} {a : Arr} (h : B.C02H.Built n a) : Drive.isCanon a = true :=
  B.C02H.built_isCanon h

/-! ### Non-vacuity -/
example : B.C02H.Built 3 (applyWithFlip (bddNot (canon 3 (fun v => v 0 && v 2))) (mkTrue 3) Gen.and_ none (some 1) none) :=
  B.C02H.Built.binary Gen.and_ (fun a b => a && b) none (some 1) none (B.C02H.Built.not (B.C02H.Built.canonOf 3 _)) (B.C02H.Built.mkTrue 3)
    (by constructor <;> decide) (by simp) (by simp) (by simp)

/-- x0 ∧ x2 over three variables (the root skips level 1) is canonical … -/
example : Canonical (#[⟨3, 0, 0⟩, ⟨3, 1, 1⟩, ⟨2, 0, 1⟩, ⟨0, 0, 2⟩] : Arr) := by
  show _ = canon 3 _; decide
/-- … a reduced array with an unreachable node is not, -/
example : ¬ Canonical (#[⟨2, 0, 0⟩, ⟨2, 1, 1⟩, ⟨1, 0, 1⟩, ⟨0, 0, 1⟩] : Arr) := by
  show ¬ (_ = canon 2 _); decide
/-- … and neither is the low-first layout of (x0 ∧ x1) ∨ (¬x0 ∧ x2) (the layout `restrict` used to produce). -/
example : ¬ Canonical (#[⟨3, 0, 0⟩, ⟨3, 1, 1⟩, ⟨2, 0, 1⟩, ⟨1, 0, 1⟩, ⟨0, 2, 3⟩] : Arr) := by
  show ¬ (_ = canon 3 _); decide
example : Canonical (#[⟨3, 0, 0⟩, ⟨3, 1, 1⟩, ⟨1, 0, 1⟩, ⟨2, 0, 1⟩, ⟨0, 3, 2⟩] : Arr) := by
  show _ = canon 3 _; decide

end B.Props.C02
