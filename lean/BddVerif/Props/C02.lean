import BddVerif.Lemmas.C02Built
import BddVerif.Gen.OpTables
/-!
# C02 — equal functions have identical Bdds: canonical form through any history

`Canonical A` says that the array `A` is exactly what the reference builder `canon` produces for
`A`'s own function over `A`'s own variable count (Shannon expansion, HIGH cofactor first,
find-or-push, the one-node array for the contradiction). It is the library-wide layout: the
executable test `Drive.isCanon` that every driver applies to the implementation's outputs is
proved equivalent to it (`check_is_exact`).
-/
namespace B.Props.C02
open B B.C02

/-- **Two canonical Bdds over the same variable count that denote the same function are equal** —
    hence equal under `==`, with equal hashes, text and bytes (any function of the node vector). -/
theorem canonical_unique {a b : Arr} (ha : Canonical a) (hb : Canonical b)
    (hn : numVars a = numVars b) (hf : ∀ v, den a v = den b v) : a = b :=
  B.canonical_unique ha hb hn hf

theorem canonical_same_observables {α : Type} (obs : Arr → α) {a b : Arr} (ha : Canonical a)
    (hb : Canonical b) (hn : numVars a = numVars b) (hf : ∀ v, den a v = den b v) : obs a = obs b :=
  congrArg obs (canonical_unique ha hb hn hf)

/-- **`is_false` / `is_true` are exact**: one node ⇔ contradiction, two nodes ⇔ tautology. -/
theorem is_false_exact {A : Arr} (h : Canonical A) : A.size = 1 ↔ ∀ v, den A v = false :=
  h.size_one_iff
theorem is_true_exact {A : Arr} (h : Canonical A) : A.size = 2 ↔ ∀ v, den A v = true :=
  h.size_two_iff

/-- **Structure of every canonical Bdd with decision nodes**: reduced and ordered (`Red`: variables
    below `n`, children stored before parents, distinct children, variables strictly increasing along
    both links, no duplicate node), the root is the last node (that is how `den` reads it) and every
    decision node is reachable from the root. -/
theorem canonical_structure {A : Arr} (h : Canonical A) (hs : 3 ≤ A.size) :
    Red A (numVars A) ∧ ∀ q, 2 ≤ q → q < A.size → Reach A (root A) q :=
  h.reach hs

/-- the executable canonicity test applied to observed outputs decides exactly `Canonical` -/
theorem check_is_exact (A : Arr) : Drive.isCanon A = true ↔ Canonical A := isCanon_iff A

/-- **Binary operators (with or without fused flips) return the canonical form even for merely
    valid, non-canonical operands** (`WFo`: well formed by level only; so `b.and(true)` canonicalises). -/
theorem binary_canonicalizes (L R : Arr) (n : Nat) (op : Op2) (c : Bool → Bool → Bool)
    (fl fr fo : Option Nat) (hL : WFo L n) (hR : WFo R n) (hc : Consistent op c)
    (hfl : ∀ x, fl = some x → x < n) (hfr : ∀ x, fr = some x → x < n) (hfo : ∀ x, fo = some x → x < n) :
    Canonical (applyWithFlip L R op fl fr fo) :=
  applyWithFlip_is_canonical L R n op c fl fr fo hL hR hc hfl hfr hfo

/-- the same for ternary operators -/
theorem ternary_canonicalizes (A B C : Arr) (n : Nat) (op : Op3) (c : Bool → Bool → Bool → Bool)
    (fa fb fc fo : Option Nat) (hA : WFo A n) (hB : WFo B n) (hC : WFo C n) (hc : Consistent3 op c)
    (hfa : ∀ x, fa = some x → x < n) (hfb : ∀ x, fb = some x → x < n) (hfc : ∀ x, fc = some x → x < n) :
    Canonical (ternaryApply A B C op fa fb fc fo) := by
  rw [ternaryApply_eq_canon A B C n op c fa fb fc fo hA hB hC hc hfa hfb hfc]
  exact canon_canonical' _ _

/-- `b.and(true)` is the canonical form of a merely valid `b` and denotes the same function -/
theorem and_true_canonicalizes (b : Arr) (n : Nat) (hb : WFo b n) :
    Canonical (applyWithFlip b (mkTrue n) Gen.and_ none none none) ∧
    ∀ v, den (applyWithFlip b (mkTrue n) Gen.and_ none none none) v = evW b n v (root b) := by
  have hT : WFo (mkTrue n) n := wfo_of_red (red_mkTrue n) (Prefix.refl _)
  have hc : Consistent Gen.and_ (fun a b => a && b) := by constructor <;> decide
  refine ⟨applyWithFlip_is_canonical b (mkTrue n) n _ _ none none none hb hT hc
    (fun _ h => by cases h) (fun _ h => by cases h) (fun _ h => by cases h), fun v => ?_⟩
  have := applyWithFlip_den b (mkTrue n) n _ _ none none none hb hT hc
    (fun _ h => by cases h) (fun _ h => by cases h) (fun _ h => by cases h) v
  rw [this]
  have : evW (mkTrue n) n (inv none (inv none v)) (root (mkTrue n)) = true := by
    show evW (mkTrue n) n _ 1 = true
    exact evW_one _ _ _
  rw [this, Bool.and_true]; rfl

/-- `not` maps canonical forms to canonical forms -/
theorem not_canonical {A : Arr} (h : Canonical A) : Canonical (bddNot A) := by
  have := bddNot_canon (numVars A) (den A) h.depBelow
  rw [← h] at this
  rw [this]
  exact canon_canonical' _ _

/-! ### Histories: the closure of canonical values under the modelled operations

`Built n a`: `a` is obtained from the constants by any finite sequence of the operations below (each
constructor is one public operation of the library as modelled). `built_canonical` is the statement
"whatever sequence of operations produced it, the Bdd is canonical", by induction over the history.
(Operations whose canonical-form theorem is proved elsewhere — restrict, nested apply, … — are added
as further constructors in their property files via the same one-step lemma shape.) -/
inductive Built (n : Nat) : Arr → Prop
  | mkFalse : Built n (mkFalse n)
  | mkTrue : Built n (mkTrue n)
  | canonOf (f : (Nat → Bool) → Bool) : Built n (canon n f)   -- any oracle-built operand
  | not {a} : Built n a → Built n (bddNot a)
  | binary {a b} (op : Op2) (c : Bool → Bool → Bool) (fl fr fo : Option Nat) :
      Built n a → Built n b → Consistent op c →
      (∀ x, fl = some x → x < n) → (∀ x, fr = some x → x < n) → (∀ x, fo = some x → x < n) →
      Built n (applyWithFlip a b op fl fr fo)
  | ternary {a b d} (op : Op3) (c : Bool → Bool → Bool → Bool) (fa fb fc fo : Option Nat) :
      Built n a → Built n b → Built n d → Consistent3 op c →
      (∀ x, fa = some x → x < n) → (∀ x, fb = some x → x < n) → (∀ x, fc = some x → x < n) →
      Built n (ternaryApply a b d op fa fb fc fo)

theorem numVars_canon' (n : Nat) (f : (Nat → Bool) → Bool) : numVars (canon n f) = n := by
  rw [canon_restrict]; exact numVars_canon n _ (depBelow_restr n f)

theorem built_canonical {n : Nat} {a : Arr} (h : Built n a) : Canonical a ∧ numVars a = n := by
  induction h with
  | mkFalse => exact ⟨canonical_mkFalse n, rfl⟩
  | mkTrue => exact ⟨canonical_mkTrue n, rfl⟩
  | canonOf f => exact ⟨canon_canonical' n f, numVars_canon' n f⟩
  | not _ ih =>
    obtain ⟨hc, hn⟩ := ih
    refine ⟨not_canonical hc, ?_⟩
    have := bddNot_canon (numVars _) (den _) hc.depBelow
    rw [← hc] at this
    rw [this, numVars_canon', hn]
  | binary op c fl fr fo _ _ hcons hfl hfr hfo iha ihb =>
    obtain ⟨ha, hna⟩ := iha; obtain ⟨hb, hnb⟩ := ihb
    have hwa := Canonical.wfo ha; rw [hna] at hwa
    have hwb := Canonical.wfo hb; rw [hnb] at hwb
    refine ⟨applyWithFlip_is_canonical _ _ n op c fl fr fo hwa hwb hcons hfl hfr hfo, ?_⟩
    rw [applyWithFlip_eq_canon _ _ n op c fl fr fo hwa hwb (numVars_of_wf hwa) hcons hfl hfr hfo]
    exact numVars_canon' _ _
  | ternary op c fa fb fc fo _ _ _ hcons hfa hfb hfc iha ihb ihd =>
    obtain ⟨ha, hna⟩ := iha; obtain ⟨hb, hnb⟩ := ihb; obtain ⟨hd, hnd⟩ := ihd
    have hwa := Canonical.wfo ha; rw [hna] at hwa
    have hwb := Canonical.wfo hb; rw [hnb] at hwb
    have hwd := Canonical.wfo hd; rw [hnd] at hwd
    rw [ternaryApply_eq_canon _ _ _ n op c fa fb fc fo hwa hwb hwd hcons hfa hfb hfc]
    exact ⟨canon_canonical' _ _, numVars_canon' _ _⟩

/-- **Any two results of any two histories with the same truth table are the same Bdd.** -/
theorem built_unique {n : Nat} {a b : Arr} (ha : Built n a) (hb : Built n b)
    (hf : ∀ v, den a v = den b v) : a = b := by
  obtain ⟨ca, na⟩ := built_canonical ha
  obtain ⟨cb, nb⟩ := built_canonical hb
  exact canonical_unique ca cb (by rw [na, nb]) hf

/-! ### Non-vacuity -/
example : Built 3 (applyWithFlip (bddNot (canon 3 (fun v => v 0 && v 2))) (mkTrue 3) Gen.and_ none (some 1) none) :=
  Built.binary Gen.and_ (fun a b => a && b) none (some 1) none (Built.not (Built.canonOf _)) Built.mkTrue
    (by constructor <;> decide) (by simp) (by simp) (by simp)

/-- x0 ∧ x2 over three variables (the root skips level 1) is canonical … -/
example : Canonical (#[⟨3, 0, 0⟩, ⟨3, 1, 1⟩, ⟨2, 0, 1⟩, ⟨0, 0, 2⟩] : Arr) := by
  show _ = canon 3 _; decide
/-- … a reduced array with an unreachable node is not, -/
example : ¬ Canonical (#[⟨2, 0, 0⟩, ⟨2, 1, 1⟩, ⟨1, 0, 1⟩, ⟨0, 0, 1⟩] : Arr) := by
  show ¬ (_ = canon 2 _); decide
/-- … and neither is the low-first layout of (x0 ∧ x1) ∨ (¬x0 ∧ x2) (the layout `restrict` used to produce). -/
example : ¬ Canonical (#[⟨3, 0, 0⟩, ⟨3, 1, 1⟩, ⟨2, 0, 1⟩, ⟨1, 0, 1⟩, ⟨0, 2, 3⟩] : Arr) := by
  show ¬ (_ = canon 3 _); decide
example : Canonical (#[⟨3, 0, 0⟩, ⟨3, 1, 1⟩, ⟨1, 0, 1⟩, ⟨2, 0, 1⟩, ⟨0, 3, 2⟩] : Arr) := by
  show _ = canon 3 _; decide

end B.Props.C02
