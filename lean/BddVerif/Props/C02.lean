/-! # C02 — property theorems (to be written) -/
namespace B.Props.C02
end B.Props.C02
