import BddVerif.Lemmas.RelPick
import BddVerif.Lemmas.RelRestrict
/-!
# C06 — selection, restriction and picking have their relational meaning

Property theorems about the model `Model/Relation.lean` (helper lemmas: `Lemmas/Rel*.lean`). All statements
hold for every operand that is well formed by level (`WFo A n`: what `validate()` guarantees; canonical arrays
are a special case), for every number of variables, every literal list (any order, repeated variables — the
last literal of a variable counts) and every variable list (any order, repetitions allowed), with all
variables below `num_vars` (variables outside the variable set are outside the property; for `pick`/`var_pick`
the code refuses them by panic, `restrict` ignores them, see `*_out_of_range`).

`sem A v` is the value of the whole array at valuation `v` (root evaluated with fuel `num_vars + 1`): exactly the
driver's `evalArr`, which produces the truth tables the predicate is evaluated on.
The tables `Gen.and_`, `Gen.or_`, `Gen.and_not_` are regenerated from `src/op_function.rs` on every run.
-/
namespace B.Props.C06
open B B.Rel

/-! ### partial valuations: `from_values` -/

/-- `from_values` of the empty slice fixes nothing, and appending a literal overwrites exactly its variable:
    for repeated variables the LAST literal wins -/
theorem from_values_last_wins (lits : List (Nat × Bool)) (x : Nat) (b : Bool) (y : Nat) :
    (fromValues []).get y = none ∧
    (fromValues (lits ++ [(x, b)])).get y = if y = x then some b else (fromValues lits).get y :=
  ⟨PVal.get_nil y, get_fromValues_snoc lits x b y⟩

/-! ### select / var_select -/

/-- `select` returns the canonical array of "operand ∧ agrees with the literals" -/
theorem select_canon {A : Arr} {n : Nat} (hA : WFo A n) (lits : List (Nat × Bool)) (hl : ∀ l ∈ lits, l.1 < n) :
    select A lits = canon n (fun v => sem A v && agrees (fromValues lits) v) :=
  (select_isCanon hA lits hl).eq

/-- `select` keeps exactly the valuations of the operand that agree with the given literals -/
theorem select_spec {A : Arr} {n : Nat} (hA : WFo A n) (lits : List (Nat × Bool)) (hl : ∀ l ∈ lits, l.1 < n)
    (v : Nat → Bool) :
    sem (select A lits) v = true ↔
      sem A v = true ∧ ∀ x b, (fromValues lits).get x = some b → v x = b := by
  rw [(select_isCanon hA lits hl).sem, Bool.and_eq_true, agrees_iff]

theorem var_select_canon {A : Arr} {n : Nat} (hA : WFo A n) (x : Nat) (b : Bool) (hx : x < n) :
    varSelect A x b = canon n (fun v => sem A v && (v x == b)) :=
  (varSelect_isCanon hA x b hx).eq

theorem var_select_spec {A : Arr} {n : Nat} (hA : WFo A n) (x : Nat) (b : Bool) (hx : x < n) (v : Nat → Bool) :
    sem (varSelect A x b) v = true ↔ sem A v = true ∧ v x = b := by
  rw [(varSelect_isCanon hA x b hx).sem, Bool.and_eq_true, beq_iff_eq]

/-! ### restrict / var_restrict (L7) -/

/-- `restrict` returns the canonical array of "operand at the overridden valuation" — for EVERY well-formed
    operand (also a non-canonical one) and every literal list (variables `≥ n` are ignored) -/
theorem restrict_canon {A : Arr} {n : Nat} (hA : WFo A n) (lits : List (Nat × Bool)) :
    restrict A lits = canon n (fun v => sem A (ovr (fromValues lits) v)) :=
  restriction_eq_canon hA (fromValues lits)

/-- the value of `restrict` at `v` is the operand's value at `v` overridden with the literals
    (`ovr pv v i = (pv.get i).getD (v i)`) -/
theorem restrict_spec {A : Arr} {n : Nat} (hA : WFo A n) (lits : List (Nat × Bool)) (v : Nat → Bool) :
    sem (restrict A lits) v = sem A (ovr (fromValues lits) v) := by
  rw [restrict_canon hA lits]
  exact sem_canon (ovr_dep A n hA (fromValues lits)) v

/-- … hence the result does not depend on the restricted variables -/
theorem restrict_indep {A : Arr} {n : Nat} (hA : WFo A n) (lits : List (Nat × Bool)) (x : Nat) (c : Bool)
    (hx : (fromValues lits).get x = some c) (v : Nat → Bool) (b : Bool) :
    sem (restrict A lits) (upd v x b) = sem (restrict A lits) v := by
  rw [restrict_spec hA, restrict_spec hA]
  congr 1
  funext i
  by_cases hi : i = x
  · subst hi; simp [ovr, hx]
  · simp [ovr, upd, hi]

theorem var_restrict_spec {A : Arr} {n : Nat} (hA : WFo A n) (x : Nat) (b : Bool) (v : Nat → Bool) :
    sem (varRestrict A x b) v = sem A (upd v x b) := by
  unfold varRestrict
  rw [restrict_spec hA]
  congr 1
  funext i
  have := (from_values_last_wins [] x b i).2
  simp only [List.nil_append] at this
  by_cases hi : i = x
  · subst hi; simp [ovr, this, upd]
  · simp [ovr, this, upd, hi, fromValues_nil, PVal.get_nil]

/-- restriction results are well-formed operands themselves and `restrict` of a constant is the constant -/
theorem restrict_wfo {A : Arr} {n : Nat} (hA : WFo A n) (lits : List (Nat × Bool)) : WFo (restrict A lits) n := by
  rw [restrict_canon hA lits]; exact canon_wfo (ovr_dep A n hA (fromValues lits))

/-! ### var_pick / var_pick_random -/

/-- `var_pick_random` with coin `c` (and `var_pick` = coin `false`): the canonical array of
    "in the operand, and either carrying the preferred value of `x` or without an `x`-twin in the operand" -/
theorem var_pick_random_canon {A : Arr} {n : Nat} (hA : WFo A n) (x : Nat) (c : Bool) (hx : x < n) :
    varPickRandom A x c = canon n (fun v => sem A v && (v x == c || !sem A (flipV x v))) :=
  (varPickRandom_isCanon hA x c hx).eq

theorem var_pick_canon {A : Arr} {n : Nat} (hA : WFo A n) (x : Nat) (hx : x < n) :
    varPick A x = canon n (fun v => sem A v && (v x == false || !sem A (flipV x v))) :=
  (varPick_isCanon hA x hx).eq

/-- of the two valuations that differ only in `x`: if both are in the operand `var_pick` keeps exactly the one
    with `x = false`; if only one is, it is kept; nothing outside the operand is added -/
theorem var_pick_spec {A : Arr} {n : Nat} (hA : WFo A n) (x : Nat) (hx : x < n) (v : Nat → Bool) :
    (sem (varPick A x) v = true → sem A v = true) ∧
    (sem A v = true → sem A (flipV x v) = true → (sem (varPick A x) v = true ↔ v x = false)) ∧
    (sem A v = true → sem A (flipV x v) = false → sem (varPick A x) v = true) := by
  rw [(varPick_isCanon hA x hx).sem]
  simp only [pickF]
  cases sem A v <;> cases sem A (flipV x v) <;> cases v x <;> simp

/-- the same with the coin as the preferred value -/
theorem var_pick_random_spec {A : Arr} {n : Nat} (hA : WFo A n) (x : Nat) (c : Bool) (hx : x < n) (v : Nat → Bool) :
    (sem (varPickRandom A x c) v = true → sem A v = true) ∧
    (sem A v = true → sem A (flipV x v) = true → (sem (varPickRandom A x c) v = true ↔ v x = c)) ∧
    (sem A v = true → sem A (flipV x v) = false → sem (varPickRandom A x c) v = true) := by
  rw [(varPickRandom_isCanon hA x c hx).sem]
  simp only [pickF]
  cases sem A v <;> cases sem A (flipV x v) <;> cases v x <;> cases c <;> simp

/-! ### pick / pick_random -/

/-- `pick(vars)`: a subset of the operand that contains exactly one valuation (of the `n` variables) from every
    non-empty class of operand valuations agreeing outside `vars` — for any order of `vars` and with repeated
    variables (the slice denotes a set; `sorted()` sorts and removes repetitions) -/
theorem pick_spec {A : Arr} {n : Nat} (hA : WFo A n) (vars : List Nat) (hv : ∀ x ∈ vars, x < n) :
    (∀ v, sem (pick A vars) v = true → sem A v = true) ∧
    (∀ v, sem A v = true → ∃ w, sem (pick A vars) w = true ∧ ∀ i, i ∉ vars → w i = v i) ∧
    (∀ w w', sem (pick A vars) w = true → sem (pick A vars) w' = true →
      (∀ i, i < n → i ∉ vars → w i = w' i) → ∀ i, i < n → w i = w' i) := by
  rw [pick_eq_rPickG]
  obtain ⟨h, _, _⟩ := pickG_of_vars hA vars hv ((sortedVars vars).reverse.map fun x => (x, false))
    (by simp [List.map_map, Function.comp_def])
  exact ⟨h.sub, h.ex, h.uniq⟩

/-- `pick_random(vars, rng)`: the same for EVERY sequence of coins the generator may produce -/
theorem pick_random_spec {A : Arr} {n : Nat} (hA : WFo A n) (vars : List Nat) (hv : ∀ x ∈ vars, x < n)
    (flips : List Bool) :
    (∀ v, sem (pickRandom A vars flips) v = true → sem A v = true) ∧
    (∀ v, sem A v = true → ∃ w, sem (pickRandom A vars flips) w = true ∧ ∀ i, i ∉ vars → w i = v i) ∧
    (∀ w w', sem (pickRandom A vars flips) w = true → sem (pickRandom A vars flips) w' = true →
      (∀ i, i < n → i ∉ vars → w i = w' i) → ∀ i, i < n → w i = w' i) := by
  rw [pickRandom_eq_rPickG]
  obtain ⟨h, _, _⟩ := pickG_of_vars hA vars hv (assignCoins (sortedVars vars).reverse flips).1
    (assignCoins_fst _ _)
  exact ⟨h.sub, h.ex, h.uniq⟩

/-- the result of `pick` over a non-empty list is a canonical array (`pick(&[])` is `clone()`), and it is always
    a well-formed operand -/
theorem pick_canon {A : Arr} {n : Nat} (hA : WFo A n) (vars : List Nat) (hv : ∀ x ∈ vars, x < n) :
    WFo (pick A vars) n ∧ (vars ≠ [] → pick A vars = canon n (sem (pick A vars))) := by
  rw [pick_eq_rPickG]
  obtain ⟨_, hw, hc⟩ := pickG_of_vars hA vars hv ((sortedVars vars).reverse.map fun x => (x, false))
    (by simp [List.map_map, Function.comp_def])
  exact ⟨hw, hc⟩

theorem pick_nil (A : Arr) : pick A [] = A := by
  simp [pick, sortedVars, dedupAdj, rPick]

theorem pick_random_canon {A : Arr} {n : Nat} (hA : WFo A n) (vars : List Nat) (hv : ∀ x ∈ vars, x < n)
    (flips : List Bool) :
    WFo (pickRandom A vars flips) n ∧
    (vars ≠ [] → pickRandom A vars flips = canon n (sem (pickRandom A vars flips))) := by
  rw [pickRandom_eq_rPickG]
  obtain ⟨_, hw, hc⟩ := pickG_of_vars hA vars hv (assignCoins (sortedVars vars).reverse flips).1
    (assignCoins_fst _ _)
  exact ⟨hw, hc⟩

/-- `pick_random` draws one coin per DISTINCT variable and hands the unused coins back -/
theorem pick_random_draws (A : Arr) (vars : List Nat) (flips : List Bool) :
    (rPickRandom A (sortedVars vars).reverse flips).2 = flips.drop (pickRandomDraws vars) := by
  unfold pickRandomDraws
  have key : ∀ (L : List Nat) (A : Arr) (flips : List Bool), (rPickRandom A L flips).2 = flips.drop L.length := by
    intro L
    induction L with
    | nil => intro A flips; rfl
    | cons x rest ih =>
      intro A flips
      simp only [rPickRandom, drawCoin, ih, List.length_cons]
      rw [List.tail_drop]
  rw [key, List.length_reverse]

/-! ### variables outside the variable set: refusal, never a value -/

/-- `var_pick`, `pick` (and the random variants) refuse a variable `≥ num_vars` by panic
    (`check_flip_bounds`) and answer on all others -/
theorem pick_out_of_range (A : Arr) (vars : List Nat) (x : Nat) (c : Bool) (flips : List Bool) :
    ((varPickO A x).isOk = decide (x < numVars A)) ∧ ((varPickO A x).isPanic = !decide (x < numVars A)) ∧
    ((varPickRandomO A x c).isOk = decide (x < numVars A)) ∧
    ((pickO A vars).isOk = vars.all (· < numVars A)) ∧ ((pickO A vars).isPanic = !vars.all (· < numVars A)) ∧
    ((pickRandomO A vars flips).isOk = vars.all (· < numVars A)) := by
  unfold varPickO varPickRandomO pickO pickRandomO
  refine ⟨?_, ?_, ?_, ?_, ?_, ?_⟩ <;> split <;> simp_all [Outcome.isOk, Outcome.isPanic]

/-! ### non-vacuity: the hypotheses are satisfiable on concrete, non-trivial values -/

/-- `x0 ∧ x2` over three variables (skips level 1), `exX1 = x1` -/
example : WFo exX0X2 3 := exX0X2_wf

/-- `select` with a repeated variable: `[(2,false),(1,true),(2,true)]` means `x1 ∧ x2`; the result is
    `x0 ∧ x1 ∧ x2` -/
example : select exX0X2 [(2, false), (1, true), (2, true)] =
    #[⟨3, 0, 0⟩, ⟨3, 1, 1⟩, ⟨2, 0, 1⟩, ⟨1, 0, 2⟩, ⟨0, 0, 3⟩] :=
  (select_canon exX0X2_wf _ (by decide)).trans (by decide)

/-- `restrict x0 := true` of `x0 ∧ x2` is `x2`; `restrict x2 := false` is the one-node `false` -/
example : restrict exX0X2 [(0, true)] = #[⟨3, 0, 0⟩, ⟨3, 1, 1⟩, ⟨2, 0, 1⟩] :=
  (restrict_canon exX0X2_wf _).trans (by decide)
example : restrict exX0X2 [(0, true), (2, true), (2, false)] = #[⟨3, 0, 0⟩] :=
  (restrict_canon exX0X2_wf _).trans (by decide)

/-- `var_pick` on variable 1 of `x0 ∧ x2` (which does not mention it): keeps the `x1 = false` half -/
example : varPick exX0X2 1 = #[⟨3, 0, 0⟩, ⟨3, 1, 1⟩, ⟨2, 0, 1⟩, ⟨1, 2, 0⟩, ⟨0, 0, 3⟩] :=
  (var_pick_canon exX0X2_wf 1 (by decide)).trans (by decide)

/-- the hypotheses of `pick_spec` with an unsorted list with a repetition -/
example := pick_spec exX0X2_wf [2, 1, 2] (by decide)
example := pick_random_spec exX0X2_wf [2, 1, 2] (by decide) [true, false]

end B.Props.C06
