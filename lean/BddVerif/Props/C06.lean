/-! # C06 — property theorems (to be written) -/
namespace B.Props.C06
end B.Props.C06
