import BddVerif.Core.Sim
namespace B
open Std

structure Ctx.Ok (Γ : Ctx) (c : Bool → Bool → Bool) : Prop where
  wfL : WFo Γ.L Γ.n
  wfR : WFo Γ.R Γ.n
  cons : Consistent Γ.op c
  hfl : ∀ x, Γ.fl = some x → x < Γ.n
  hfr : ∀ x, Γ.fr = some x → x < Γ.n

def Ctx.F (Γ : Ctx) (c : Bool → Bool → Bool) (l r : Nat) (u : Nat → Bool) : Bool :=
  c (evW Γ.L Γ.n (inv Γ.fl u) l) (evW Γ.R Γ.n (inv Γ.fr u) r)
def Ctx.G (Γ : Ctx) (c : Bool → Bool → Bool) (l r : Nat) (v : Nat → Bool) : Bool := Γ.F c l r (inv Γ.fo v)

theorem inv_agree (f : Option Nat) (v w : Nat → Bool) (i : Nat) (h : v i = w i) : inv f v i = inv f w i := by
  cases f with
  | none => simpa [inv] using h
  | some x =>
    by_cases hx : i = x
    · subst hx; simp [inv, h]
    · simp [inv, hx, h]
    
theorem Ctx.G_indep (Γ : Ctx) (c : Bool → Bool → Bool) (ok : Γ.Ok c) (l r : Nat) (hl : l < Γ.L.size) (hr : r < Γ.R.size) (k : Nat)
    (hkl : k ≤ varOf Γ.L Γ.n l) (hkr : k ≤ varOf Γ.R Γ.n r) (v w : Nat → Bool)
    (hvw : ∀ i, k ≤ i → i < Γ.n → v i = w i) : Γ.G c l r v = Γ.G c l r w := by
  unfold Ctx.G Ctx.F
  congr 1
  · apply evW_indep ok.wfL Γ.n l hl (by omega)
    intro i hi hin
    exact inv_agree _ _ _ _ (inv_agree _ _ _ _ (hvw i (by omega) hin))
  · apply evW_indep ok.wfR Γ.n r hr (by omega)
    intro i hi hin
    exact inv_agree _ _ _ _ (inv_agree _ _ _ _ (hvw i (by omega) hin))

/-- Shannon step of the task function through `kids` (with input and output flips) -/
theorem Ctx.G_split (Γ : Ctx) (c : Bool → Bool → Bool) (ok : Γ.Ok c) (l r : Nat) (hl : l < Γ.L.size) (hr : r < Γ.R.size) (d : Nat)
    (hdl : d ≤ varOf Γ.L Γ.n l) (hdr : d ≤ varOf Γ.R Γ.n r) (hdn : d < Γ.n) (b : Bool) (v : Nat → Bool) :
    Γ.G c l r (upd v d b) =
      Γ.G c (sel (if Γ.fo = some d then !b else b) (kids Γ.L l d Γ.fl))
          (sel (if Γ.fo = some d then !b else b) (kids Γ.R r d Γ.fr)) v := by
  unfold Ctx.G Ctx.F
  rw [inv_upd]
  rw [(evW_kids ok.wfL l hl d hdl hdn Γ.fl _ _).1, (evW_kids ok.wfR r hr d hdr hdn Γ.fr _ _).1]

/-- skipping a level the function does not depend on -/
theorem ins_skip {A : Arr} {n : Nat} (h : Red A n) (fuel k : Nat) (f : (Nat → Bool) → Bool)
    (hk : fuel + 1 + k = n)
    (hdep : ∀ v w : Nat → Bool, (∀ i, k + 1 ≤ i → i < n → v i = w i) → f v = f w) :
    ins n (fuel + 1) k f A = ins n fuel (k + 1) f A := by
  have e1 : (fun v => f (upd v k true)) = f := by
    funext v; apply hdep; intro i hi _; have : i ≠ k := by omega
    simp [upd, this]
  have e2 : (fun v => f (upd v k false)) = f := by
    funext v; apply hdep; intro i hi _; have : i ≠ k := by omega
    simp [upd, this]
  obtain ⟨r1red, r1pre, r1lt, r1var, r1ev⟩ := ins_spec fuel (k+1) f A h (by omega) hdep
  have hfound := ins_found r1red fuel (k+1) f (ins n fuel (k+1) f A).2 (by omega) r1lt r1var
    (fun v => (r1ev v).symm)
  simp only [ins, e1, e2, hfound, if_true]

theorem ins_skip_many {A : Arr} {n : Nat} (h : Red A n) (f : (Nat → Bool) → Bool) :
    ∀ m k d, d = k + m → d ≤ n →
      (∀ v w : Nat → Bool, (∀ i, d ≤ i → i < n → v i = w i) → f v = f w) →
      ins n (n - k) k f A = ins n (n - d) d f A := by
  intro m
  induction m with
  | zero => intro k d hd _ _; simp at hd; subst hd; rfl
  | succ m ih =>
    intro k d hd hdn hdep
    have : n - k = (n - k - 1) + 1 := by omega
    rw [this, ins_skip h (n - k - 1) k f (by omega)]
    · have : n - k - 1 = n - (k + 1) := by omega
      rw [this]
      exact ih (k+1) d (by omega) hdn hdep
    · intro v w hvw
      apply hdep
      intro i hi hin
      exact hvw i (by omega) hin

end B
