import BddVerif.Core.Opnd
import BddVerif.Model.Apply
namespace B
open Std


/-- consistency of a partial table with a connective -/
structure Consistent (op : Op2) (c : Bool → Bool → Bool) : Prop where
  total : ∀ x y, op (some x) (some y) = some (c x y)
  left : ∀ x r, op (some x) none = some r → ∀ y, c x y = r
  right : ∀ y r, op none (some y) = some r → ∀ x, c x y = r
  none_ : ∀ r, op none none = some r → ∀ x y, c x y = r

def inv (f : Option Nat) (v : Nat → Bool) : Nat → Bool :=
  match f with | none => v | some x => fun j => if j = x then !(v j) else v j

def sel (b : Bool) (k : Nat × Nat) : Nat := if b then k.2 else k.1


def child (A : Arr) (p d : Nat) (b : Bool) : Nat :=
  let nd := nodeAt A p
  if nd.var ≠ d then p else if b then nd.high else nd.low

theorem sel_kids (A : Arr) (p d : Nat) (fl : Option Nat) (b : Bool) :
    sel b (kids A p d fl) = child A p d (if fl = some d then !b else b) := by
  unfold sel kids child
  by_cases hv : (nodeAt A p).var = d
  · subst hv
    by_cases hf : fl = some (nodeAt A p).var
    · cases b <;> simp [hf]
    · cases b <;> simp [hf]
  · cases b <;> simp [hv]

theorem inv_upd (fl : Option Nat) (w : Nat → Bool) (d : Nat) (b : Bool) :
    inv fl (upd w d b) = upd (inv fl w) d (if fl = some d then !b else b) := by
  funext j
  cases fl with
  | none => simp [inv]
  | some x =>
    by_cases hxd : x = d
    · subst hxd
      by_cases hj : j = x
      · subst hj; simp [inv, upd]
      · simp [inv, upd, hj]
    · have hne : ¬ (some x = some d) := by intro e; cases e; exact hxd rfl
      by_cases hj : j = d
      · subst hj
        have : j ≠ x := fun e => hxd e.symm
        simp [inv, upd, this, hne]
      · by_cases hjx : j = x
        · subst hjx; simp [inv, upd, hj, hne]
        · simp [inv, upd, hj, hjx, hne]

theorem nodeAt_var_terminal {L : Arr} {n : Nat} (h : WFo L n) (l : Nat) (hl : l < L.size) (h2 : l < 2) :
    (nodeAt L l).var = n := by
  have : l = 0 ∨ l = 1 := by omega
  rcases this with rfl | rfl
  · simp [nodeAt, h.zero]
  · have := h.one (by omega); simp [nodeAt, this]

theorem evW_child {L : Arr} {n : Nat} (h : WFo L n) (l : Nat) (hl : l < L.size) (d : Nat)
    (hd : d ≤ varOf L n l) (hdn : d < n) (x : Nat → Bool) (b : Bool) :
    evW L n (upd x d b) l = evW L n x (child L l d b) ∧
    child L l d b < L.size ∧ d + 1 ≤ varOf L n (child L l d b) := by
  by_cases hvd : varOf L n l = d
  · have hl2 : 2 ≤ l := by
      rcases Nat.lt_or_ge l 2 with h2 | h2
      · simp [varOf, h2] at hvd; omega
      · exact h2
    have hnd : L[l]? = some L[l] := by simp [hl]
    obtain ⟨hv, hlo, hhi, hvl, hvh⟩ := h.inner l L[l] hl2 hnd
    have hvar : L[l].var = d := by rw [varOf_node l _ hl2 hnd] at hvd; exact hvd
    have hna : nodeAt L l = L[l] := by simp [nodeAt, hnd]
    have hc : child L l d b = if b then L[l].high else L[l].low := by
      unfold child; rw [hna]; simp [hvar]
    rw [hc, evW_node h _ l hl2 _ hnd, hvar]
    have hu : upd x d b d = b := by simp [upd]
    rw [hu]
    cases b
    · simp only [Bool.false_eq_true, if_false]
      exact ⟨evW_upd h _ hlo _ d false (by omega), hlo, by omega⟩
    · simp only [if_true]
      exact ⟨evW_upd h _ hhi _ d true (by omega), hhi, by omega⟩
  · have hgt : d < varOf L n l := by omega
    have hne : (nodeAt L l).var ≠ d := by
      rcases Nat.lt_or_ge l 2 with h2 | h2
      · rw [nodeAt_var_terminal h l hl h2]; omega
      · have hnd : L[l]? = some L[l] := by simp [hl]
        rw [varOf_node l _ h2 hnd] at hgt
        simp [nodeAt, hnd]; omega
    have hc : child L l d b = l := by unfold child; simp [hne]
    rw [hc]
    exact ⟨evW_upd h _ hl _ d b hgt, hl, by omega⟩

/-- one operand: Shannon step through `kids` -/
theorem evW_kids {L : Arr} {n : Nat} (h : WFo L n) (l : Nat) (hl : l < L.size) (d : Nat)
    (hd : d ≤ varOf L n l) (hdn : d < n) (fl : Option Nat) (w : Nat → Bool) (b : Bool) :
    evW L n (inv fl (upd w d b)) l = evW L n (inv fl w) (sel b (kids L l d fl)) ∧
    sel b (kids L l d fl) < L.size ∧ d + 1 ≤ varOf L n (sel b (kids L l d fl)) := by
  rw [inv_upd, sel_kids]
  exact evW_child h l hl d hd hdn _ _

end B
