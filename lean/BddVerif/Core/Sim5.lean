import BddVerif.Core.Sim4
import BddVerif.Core.Canon
namespace B
open Std

/-! Second half of the simulation, part 1: `finishN` delivers the contract of the parent task. -/

theorem nodeAt_var {L : Arr} {n : Nat} (h : WFo L n) (l : Nat) (hl : l < L.size) :
    (nodeAt L l).var = varOf L n l := by
  rcases Nat.lt_or_ge l 2 with h2 | h2
  · rw [nodeAt_var_terminal h l hl h2]; simp [varOf, h2]
  · have hnd : L[l]? = some L[l] := by simp [hl]
    rw [varOf_node l _ h2 hnd]; simp [nodeAt, hnd]

theorem WFo.varOf_le {L : Arr} {n : Nat} (h : WFo L n) (p : Nat) : varOf L n p ≤ n := by
  unfold varOf
  split
  · exact Nat.le_refl _
  · split
    · rename_i nd hnd
      exact Nat.le_of_lt (h.inner p nd (by omega) hnd).1
    · exact Nat.le_refl _

theorem WFo.terminal_of_varOf {L : Arr} {n : Nat} (h : WFo L n) (p : Nat) (hp : p < L.size)
    (hv : varOf L n p = n) : p < 2 := by
  rcases Nat.lt_or_ge p 2 with h2 | h2
  · exact h2
  · have hnd : L[p]? = some L[p] := by simp [hp]
    have := (h.inner p L[p] h2 hnd).1
    rw [varOf_node p _ h2 hnd] at hv
    omega

/-- the state after the `is_not_empty` update of `finish` -/
def flagSt (s : St) (p1 p2 : Nat) : St := if p1 = 1 ∨ p2 = 1 then { s with nonEmpty := true } else s

theorem flagSt_res (s : St) (p1 p2 : Nat) : (flagSt s p1 p2).res = s.res := by
  unfold flagSt; split <;> rfl
theorem flagSt_existing (s : St) (p1 p2 : Nat) : (flagSt s p1 p2).existing = s.existing := by
  unfold flagSt; split <;> rfl
theorem flagSt_finished (s : St) (p1 p2 : Nat) : (flagSt s p1 p2).finished = s.finished := by
  unfold flagSt; split <;> rfl
theorem flagSt_nonEmpty (s : St) (p1 p2 : Nat) :
    (flagSt s p1 p2).nonEmpty = (s.nonEmpty || decide (p1 = 1 ∨ p2 = 1)) := by
  unfold flagSt; split
  · rename_i h; simp [h]
  · rename_i h; simp [h]

theorem Inv.flagSt {Γ : Ctx} {c : Bool → Bool → Bool} {s : St} (hs : Inv Γ c s) (p1 p2 : Nat) :
    Inv Γ c (flagSt s p1 p2) := by
  refine ⟨?_, ?_, ?_, ?_⟩
  · rw [flagSt_res]; exact hs.red
  · rw [flagSt_res, flagSt_existing]; exact hs.ex
  · rw [flagSt_res, flagSt_finished]; exact hs.fin
  · rw [flagSt_finished, flagSt_nonEmpty]
    intro l r p h hp
    rw [hs.ne l r p h hp]; rfl

theorem finishN_eq (s : St) (l r d p1 p2 : Nat) :
    finishN s l r d p1 p2 =
      if p2 = p1 then ({ flagSt s p1 p2 with finished := (flagSt s p1 p2).finished.insert (l, r) p2 }, p2)
      else
        ({ (findOrPush (flagSt s p1 p2) ⟨d, p2, p1⟩).1 with
            finished := (findOrPush (flagSt s p1 p2) ⟨d, p2, p1⟩).1.finished.insert (l, r)
              (findOrPush (flagSt s p1 p2) ⟨d, p2, p1⟩).2 },
         (findOrPush (flagSt s p1 p2) ⟨d, p2, p1⟩).2) := rfl

/-- right-hand side of one `ins` unfolding, as a function of the array and the two sub-results -/
def mkRes (A : Arr) (d p1 p2 : Nat) : Arr × Nat :=
  if p2 = p1 then (A, p2) else
    match findNode A ⟨d, p2, p1⟩ with
    | some i => (A, i)
    | none => (A.push ⟨d, p2, p1⟩, A.size)

theorem mkRes_prefix (A : Arr) (d p1 p2 : Nat) : Prefix A (mkRes A d p1 p2).1 := by
  unfold mkRes
  split
  · exact Prefix.refl _
  · split
    · exact Prefix.refl _
    · exact Prefix.push _ _

/-- structural facts about `finishN` -/
theorem finishN_facts (Γ : Ctx) (c : Bool → Bool → Bool) (s : St) (hs : Inv Γ c s) (l r d p1 p2 : Nat)
    (hd : p2 ≠ p1 → d < Γ.n) :
    ((finishN s l r d p1 p2).1.res, (finishN s l r d p1 p2).2) = mkRes s.res d p1 p2 ∧
    (∀ (nd' : Node) (i : Nat), nd'.var < Γ.n →
      ((finishN s l r d p1 p2).1.existing[nd']? = some i ↔
        2 ≤ i ∧ (finishN s l r d p1 p2).1.res[i]? = some nd')) ∧
    (finishN s l r d p1 p2).1.finished = s.finished.insert (l, r) (finishN s l r d p1 p2).2 ∧
    (finishN s l r d p1 p2).1.nonEmpty = (s.nonEmpty || decide (p1 = 1 ∨ p2 = 1)) := by
  rw [finishN_eq]
  unfold mkRes
  by_cases h : p2 = p1
  · simp only [h, if_true]
    refine ⟨?_, ?_, ?_, ?_⟩
    · rw [flagSt_res]
    · rw [flagSt_res, flagSt_existing]; exact hs.ex
    · rw [flagSt_finished]
    · rw [flagSt_nonEmpty]
  · simp only [h, if_false]
    obtain ⟨f1, f2, f3, f4⟩ := findOrPush_spec Γ c (flagSt s p1 p2) (hs.flagSt p1 p2) ⟨d, p2, p1⟩ (hd h)
    rw [flagSt_res] at f1
    rw [flagSt_finished] at f3
    rw [flagSt_nonEmpty] at f4
    exact ⟨f1, f2, by rw [f3], f4⟩

/-- generic re-establishment of the invariant after a task has been finished -/
theorem Inv.step {Γ : Ctx} {c : Bool → Bool → Bool} {s2 o : St} (hs2 : Inv Γ c s2)
    (hred : Red o.res Γ.n) (hpre : Prefix s2.res o.res)
    (hex : ∀ (nd : Node) (i : Nat), nd.var < Γ.n → (o.existing[nd]? = some i ↔ 2 ≤ i ∧ o.res[i]? = some nd))
    (l r p : Nat) (hfin : o.finished = s2.finished.insert (l, r) p)
    (hp : p < o.res.size)
    (hvar : min (varOf Γ.L Γ.n l) (varOf Γ.R Γ.n r) ≤ varOf o.res Γ.n p)
    (hev : ∀ v, ev o.res v p = Γ.G c l r v)
    (hmono : s2.nonEmpty = true → o.nonEmpty = true)
    (hne : p ≠ 0 → o.nonEmpty = true) : Inv Γ c o := by
  refine ⟨hred, hex, ?_, ?_⟩
  · intro l' r' p' h
    rw [hfin, HashMap.getElem?_insert] at h
    split at h
    · rename_i hk
      have hk' : (l, r) = (l', r') := by simpa using hk
      cases hk'; cases h
      exact ⟨hp, hvar, hev⟩
    · obtain ⟨a, b, e⟩ := hs2.fin l' r' p' h
      refine ⟨by have := hpre.1; omega, ?_, ?_⟩
      · rw [varOf_prefix hpre _ a]; exact b
      · intro v; rw [ev_prefix hs2.red hred hpre v _ a]; exact e v
  · intro l' r' p' h hp'
    rw [hfin, HashMap.getElem?_insert] at h
    split at h
    · cases h; exact hne hp'
    · exact hmono (hs2.ne l' r' p' h hp')

/-- `finishN` meets the contract of the parent task (at its decision level d) -/
theorem finishN_out (Γ : Ctx) (c : Bool → Bool → Bool) (ok : Γ.Ok c) (s s2 : St) (l r d p1 p2 : Nat)
    (hs : Inv Γ c s) (hs2 : Inv Γ c s2) (hl : l < Γ.L.size) (hr : r < Γ.R.size)
    (hd : d = min (varOf Γ.L Γ.n l) (varOf Γ.R Γ.n r))
    (hdn : p2 ≠ p1 → d < Γ.n)
    (htarget : ins Γ.n (Γ.n - d) d (Γ.G c l r) s.res = mkRes s2.res d p1 p2)
    (hne1 : 2 ≤ p1 → s2.nonEmpty = true) (hne2 : 2 ≤ p2 → s2.nonEmpty = true)
    (hmono : s.nonEmpty = true → s2.nonEmpty = true)
    (hfalse : (∀ v, Γ.G c l r v = false) → s2.nonEmpty = s.nonEmpty ∧ p1 = 0 ∧ p2 = 0) :
    OutR Γ c s l r d (finishN s2 l r d p1 p2) := by
  have hdle : d ≤ Γ.n := by have := ok.wfL.varOf_le l; omega
  obtain ⟨fa, fb, fc, fd⟩ := finishN_facts Γ c s2 hs2 l r d p1 p2 hdn
  rw [← htarget] at fa
  obtain ⟨tred, tpre, tlt, tvar, tev⟩ := ins_spec (Γ.n - d) d (Γ.G c l r) s.res hs.red (by omega)
    (fun v w hvw => Γ.G_indep c ok l r hl hr d (by omega) (by omega) v w hvw)
  rw [← fa] at tred tpre tlt tvar tev
  simp only at tred tpre tlt tvar tev
  generalize ho : finishN s2 l r d p1 p2 = o at *
  have hpre2 : Prefix s2.res o.1.res := by
    have := mkRes_prefix s2.res d p1 p2
    rw [← htarget, ← fa] at this; exact this
  have ho2 : p2 = p1 → o.2 = p2 := by
    intro h
    have := congrArg Prod.snd fa
    rw [htarget] at this
    simp only [mkRes, h, if_true] at this
    rw [this, h]
  have hflag : (p1 ≠ 0 ∨ p2 ≠ 0) → o.1.nonEmpty = true := by
    intro h
    rw [fd]
    by_cases h1 : p1 = 1 ∨ p2 = 1
    · simp [h1]
    · have : 2 ≤ p1 ∨ 2 ≤ p2 := by omega
      rcases this with h2 | h2
      · simp [hne1 h2]
      · simp [hne2 h2]
  have hnz : o.2 ≠ 0 → o.1.nonEmpty = true := by
    intro h
    apply hflag
    by_cases he : p2 = p1
    · have := ho2 he; omega
    · omega
  have hmono2 : s2.nonEmpty = true → o.1.nonEmpty = true := by
    intro h; rw [fd, h]; rfl
  refine ⟨⟨?_, fa, ?_, fun h => hnz (by omega), fun h => hmono2 (hmono h)⟩, hnz⟩
  · exact Inv.step hs2 tred hpre2 fb l r o.2 fc tlt (by omega) tev hmono2 hnz
  · intro hF
    obtain ⟨e, z1, z2⟩ := hfalse hF
    rw [fd, e, z1, z2]; simp

/-- the contract at the decision level implies the contract at any shallower entry level -/
theorem OutR.lower {Γ : Ctx} {c : Bool → Bool → Bool} (ok : Γ.Ok c) {s : St} (hs : Inv Γ c s) {l r d k : Nat}
    {out : St × Nat} (hl : l < Γ.L.size) (hr : r < Γ.R.size)
    (hd : d = min (varOf Γ.L Γ.n l) (varOf Γ.R Γ.n r)) (hk : k ≤ d)
    (h : OutR Γ c s l r d out) : OutR Γ c s l r k out := by
  have hdle : d ≤ Γ.n := by have := ok.wfL.varOf_le l; omega
  refine ⟨⟨h.inv, ?_, h.neFalse, h.neTrue, h.mono⟩, h.nz⟩
  rw [h.eq]
  exact (ins_skip_many hs.red (Γ.G c l r) (d - k) k d (by omega) hdle
    (fun v w hvw => Γ.G_indep c ok l r hl hr d (by omega) (by omega) v w hvw)).symm

end B
