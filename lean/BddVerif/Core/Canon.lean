import BddVerif.Core.InsSpec
import BddVerif.Model.Apply
namespace B

/-! The canonical array of a Boolean function over `n` variables: the reference builder `ins`
    (Shannon expansion, HIGH cofactor first, find-or-push) run on the two-terminal array; the
    constant false is the one-node array (as in the Rust library). -/

def canon (n : Nat) (f : (Nat → Bool) → Bool) : Arr :=
  let r := ins n n 0 f (mkTrue n)
  if r.2 = 0 then mkFalse n else r.1

/-- denotation of a whole array: value of the root pointer (last node) -/
def den (A : Arr) (v : Nat → Bool) : Bool := ev A v (root A)

theorem mkTrue_size (n : Nat) : (mkTrue n).size = 2 := rfl
theorem mkFalse_size (n : Nat) : (mkFalse n).size = 1 := rfl

theorem red_mkTrue (n : Nat) : Red (mkTrue n) n := by
  have hnone : ∀ p, 2 ≤ p → (mkTrue n)[p]? = none := by
    intro p hp; exact Array.getElem?_eq_none (by rw [mkTrue_size]; omega)
  refine ⟨by rw [mkTrue_size]; omega, ?_, ?_⟩
  · intro p nd hp h; rw [hnone p hp] at h; cases h
  · intro p q nd hp _ h; rw [hnone p hp] at h; cases h

theorem canon_congr {n : Nat} {f g : (Nat → Bool) → Bool} (h : ∀ v, f v = g v) : canon n f = canon n g := by
  have : f = g := funext h
  rw [this]

theorem den_mkFalse (n : Nat) (v : Nat → Bool) : den (mkFalse n) v = false := by
  simp [den, root, mkFalse, ev_zero]

/-- one unfolding of the reference builder, with the two sub-results named -/
theorem ins_succ' {n fuel k : Nat} {f : (Nat → Bool) → Bool} {A A1 A2 : Arr} {p1 p2 : Nat}
    (h1 : ins n fuel (k+1) (fun v => f (upd v k true)) A = (A1, p1))
    (h2 : ins n fuel (k+1) (fun v => f (upd v k false)) A1 = (A2, p2)) :
    ins n (fuel+1) k f A =
      if p2 = p1 then (A2, p2) else
        match findNode A2 ⟨k, p2, p1⟩ with
        | some i => (A2, i)
        | none => (A2.push ⟨k, p2, p1⟩, A2.size) := by
  simp only [ins, h1, h2]
  rfl

/-- the constant-false function is represented by pointer 0, nothing is pushed -/
theorem ins_false {A : Arr} {n : Nat} (h : Red A n) (fuel k : Nat) (f : (Nat → Bool) → Bool)
    (hk : fuel + k = n) (hf : ∀ v, f v = false) : ins n fuel k f A = (A, 0) := by
  apply ins_found h fuel k f 0 hk (by have := h.size2; omega)
  · simp [varOf]; omega
  · intro v; rw [hf, ev_zero]

/-- the reference builder either leaves the array alone or returns its last node -/
theorem ins_last {n : Nat} :
    ∀ fuel k (f : (Nat → Bool) → Bool) (A : Arr), Red A n → fuel + k = n →
      (∀ v w : Nat → Bool, (∀ i, k ≤ i → i < n → v i = w i) → f v = f w) →
      (ins n fuel k f A).1 = A ∨ (ins n fuel k f A).2 + 1 = (ins n fuel k f A).1.size := by
  intro fuel
  induction fuel with
  | zero => intro k f A _ _ _; left; simp [ins]
  | succ fuel ih =>
    intro k f A h hk hdep
    have dep1 : ∀ b, ∀ v w : Nat → Bool, (∀ i, k+1 ≤ i → i < n → v i = w i) →
        f (upd v k b) = f (upd w k b) := by
      intro b v w hvw
      apply hdep
      intro i h1 h2
      by_cases hik : i = k
      · simp [upd, hik]
      · simp [upd, hik]; exact hvw i (by omega) h2
    have l1 := ih (k+1) (fun v => f (upd v k true)) A h (by omega) (dep1 true)
    obtain ⟨r1red, _, r1lt, _, _⟩ := ins_spec fuel (k+1) (fun v => f (upd v k true)) A h (by omega) (dep1 true)
    generalize hr1 : ins n fuel (k+1) (fun v => f (upd v k true)) A = r1 at l1 r1red r1lt
    have l2 := ih (k+1) (fun v => f (upd v k false)) r1.1 r1red (by omega) (dep1 false)
    obtain ⟨r2red, r2pre, r2lt, _, _⟩ := ins_spec fuel (k+1) (fun v => f (upd v k false)) r1.1 r1red (by omega) (dep1 false)
    generalize hr2 : ins n fuel (k+1) (fun v => f (upd v k false)) r1.1 = r2 at l2 r2red r2pre r2lt
    obtain ⟨A1, p1⟩ := r1
    obtain ⟨A2, p2⟩ := r2
    simp only at l1 l2 r1red r1lt r2red r2pre r2lt
    rw [ins_succ' hr1 hr2]
    by_cases heq : p2 = p1
    · simp only [heq, if_true]
      rcases l2 with l2 | l2
      · rcases l1 with l1 | l1
        · left; rw [l2, l1]
        · right; rw [l2]; exact l1
      · right; rw [← heq]; exact l2
    · simp only [heq, if_false]
      rcases hfn : findNode A2 ⟨k, p2, p1⟩ with _ | i
      · right; simp
      · simp only
        obtain ⟨hi2, hind⟩ := findNode_some hfn
        have his : i < A2.size := by
          rcases Nat.lt_or_ge i A2.size with h' | h'
          · exact h'
          · simp [Array.getElem?_eq_none h'] at hind
        obtain ⟨_, hlo, hhi, _, _, _⟩ := r2red.inner i _ hi2 hind
        simp only at hlo hhi
        rcases l2 with l2 | l2
        · rcases l1 with l1 | l1
          · left; rw [l2, l1]
          · exfalso; rw [l2] at his; omega
        · exfalso; omega

/-- what `canon` delivers for a function of the first `n` variables -/
theorem canon_spec (n : Nat) (f : (Nat → Bool) → Bool)
    (hdep : ∀ v w : Nat → Bool, (∀ i, i < n → v i = w i) → f v = f w) :
    (canon n f = mkFalse n ∧ ∀ v, f v = false) ∨
    (Red (canon n f) n ∧ canon n f = (ins n n 0 f (mkTrue n)).1 ∧
      root (canon n f) = (ins n n 0 f (mkTrue n)).2 ∧ ∀ v, ev (canon n f) v (root (canon n f)) = f v) := by
  have hdep' : ∀ v w : Nat → Bool, (∀ i, 0 ≤ i → i < n → v i = w i) → f v = f w :=
    fun v w h => hdep v w (fun i hi => h i (Nat.zero_le _) hi)
  obtain ⟨hred, hpre, hlt, _, hev⟩ := ins_spec n 0 f (mkTrue n) (red_mkTrue n) (by omega) hdep'
  have hlast := ins_last n 0 f (mkTrue n) (red_mkTrue n) (by omega) hdep'
  unfold canon
  generalize ins n n 0 f (mkTrue n) = r at hred hpre hlt hev hlast
  by_cases h0 : r.2 = 0
  · left
    simp only [h0, if_true]
    refine ⟨trivial, ?_⟩
    intro v; rw [← hev v, h0, ev_zero]
  · right
    simp only [h0, if_false]
    have hroot : root r.1 = r.2 := by
      unfold root
      rcases hlast with e | e
      · rw [e, mkTrue_size] at hlt ⊢; omega
      · omega
    refine ⟨hred, trivial, hroot, ?_⟩
    intro v; rw [hroot]; exact hev v

theorem den_canon (n : Nat) (f : (Nat → Bool) → Bool)
    (hdep : ∀ v w : Nat → Bool, (∀ i, i < n → v i = w i) → f v = f w) (v : Nat → Bool) :
    den (canon n f) v = f v := by
  rcases canon_spec n f hdep with ⟨e, hf⟩ | ⟨_, _, _, h⟩
  · rw [e, den_mkFalse, hf]
  · exact h v

theorem red_canon (n : Nat) (f : (Nat → Bool) → Bool)
    (hdep : ∀ v w : Nat → Bool, (∀ i, i < n → v i = w i) → f v = f w)
    (h2 : 2 ≤ (canon n f).size) : Red (canon n f) n := by
  rcases canon_spec n f hdep with ⟨e, _⟩ | ⟨h, _⟩
  · rw [e, mkFalse_size] at h2; omega
  · exact h

end B
