import BddVerif.Core.ApplyCanon
/-! Axiom audit of the apply simulation: only `propext`, `Classical.choice`, `Quot.sound` may appear. -/
#print axioms B.applyWithFlip_eq_canon
#print axioms B.applyWithFlip_den
#print axioms B.apply_eager_lazy
#print axioms B.applyWithFlip_red
#print axioms B.applyWithFlip_canonical
#print axioms B.applyRec_spec
#print axioms B.applyStep_out
#print axioms B.finishN_out
#print axioms B.inv_initSt
#print axioms B.canon_spec
#print axioms B.ins_last
#print axioms B.red_mkTrue
#print axioms B.canon_congr
#print axioms B.wfoB_sound
