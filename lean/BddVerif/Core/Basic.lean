/-! Prototype: core BDD model -/
namespace B

structure Node where
  var : Nat
  low : Nat
  high : Nat
deriving DecidableEq, Repr, Hashable, Inhabited

abbrev Arr := Array Node

/-- evaluation with fuel; pointers 0/1 are terminals -/
def evalF (A : Arr) (v : Nat → Bool) : Nat → Nat → Bool
  | _, 0 => false
  | _, 1 => true
  | 0, _ => false
  | f+1, p => match A[p]? with
    | none => false
    | some nd => evalF A v f (if v nd.var then nd.high else nd.low)

/-- variable of a pointer: terminals carry n -/
def varOf (A : Arr) (n : Nat) (p : Nat) : Nat :=
  if p < 2 then n else match A[p]? with | some nd => nd.var | none => n

/-- post-order reduced array over n variables -/
structure Red (A : Arr) (n : Nat) : Prop where
  size2 : 2 ≤ A.size
  inner : ∀ p nd, 2 ≤ p → A[p]? = some nd →
      nd.var < n ∧ nd.low < p ∧ nd.high < p ∧ nd.low ≠ nd.high ∧
      nd.var < varOf A n nd.low ∧ nd.var < varOf A n nd.high
  nodup : ∀ p q nd, 2 ≤ p → 2 ≤ q → A[p]? = some nd → A[q]? = some nd → p = q

/-- semantic value of pointer p (fuel = p suffices in post-order arrays) -/
def ev (A : Arr) (v : Nat → Bool) (p : Nat) : Bool := evalF A v p p

end B
