import BddVerif.Core.Sim6
namespace B
open Std

/-! Central theorem: the model of `apply_with_flip` returns exactly the canonical array of the
    specified function, for all operands, tables and flips. -/

theorem numVars_of_wf {L : Arr} {n : Nat} (h : WFo L n) : numVars L = n := by
  simp [numVars, h.zero]

theorem WFo.size_pos {L : Arr} {n : Nat} (h : WFo L n) : 0 < L.size := by
  rcases Nat.lt_or_ge 0 L.size with h' | h'
  · exact h'
  · have := h.zero; simp [Array.getElem?_eq_none h'] at this

theorem root_lt {L : Arr} {n : Nat} (h : WFo L n) : root L < L.size := by
  have := h.size_pos; unfold root; omega

/-- the function computed by `apply_with_flip` (input flips `fl`, `fr`, output flip `fo`) -/
def specFn (L R : Arr) (n : Nat) (c : Bool → Bool → Bool) (fl fr fo : Option Nat) (v : Nat → Bool) : Bool :=
  c (evW L n (inv fl (inv fo v)) (root L)) (evW R n (inv fr (inv fo v)) (root R))

theorem specFn_dep (L R : Arr) (n : Nat) (c : Bool → Bool → Bool) (fl fr fo : Option Nat)
    (hL : WFo L n) (hR : WFo R n) (v w : Nat → Bool) (h : ∀ i, i < n → v i = w i) :
    specFn L R n c fl fr fo v = specFn L R n c fl fr fo w := by
  unfold specFn
  congr 1
  · apply evW_indep hL n _ (root_lt hL) (by omega)
    intro i _ hin
    exact inv_agree _ _ _ _ (inv_agree _ _ _ _ (h i hin))
  · apply evW_indep hR n _ (root_lt hR) (by omega)
    intro i _ hin
    exact inv_agree _ _ _ _ (inv_agree _ _ _ _ (h i hin))

theorem applyWithFlip_eq_canon (L R : Arr) (n : Nat) (op : Op2) (c : Bool → Bool → Bool) (fl fr fo : Option Nat)
    (hL : WFo L n) (hR : WFo R n) (hn : numVars L = n)
    (hc : Consistent op c)
    (hfl : ∀ x, fl = some x → x < n) (hfr : ∀ x, fr = some x → x < n) (_hfo : ∀ x, fo = some x → x < n) :
    applyWithFlip L R op fl fr fo =
      canon n (fun v => c (evW L n (inv fl (inv fo v)) (root L)) (evW R n (inv fr (inv fo v)) (root R))) := by
  have ok : Ctx.Ok ⟨L, R, n, op, fl, fr, fo⟩ c := ⟨hL, hR, hc, hfl, hfr⟩
  have hspec := applyRec_spec ⟨L, R, n, op, fl, fr, fo⟩ c ok (n+2) 0 (by show n - 0 < n + 2; omega)
    (root L) (root R) (initSt n) (inv_initSt ⟨L, R, n, op, fl, fr, fo⟩ c) (root_lt hL) (root_lt hR)
    (Nat.zero_le _) (Nat.zero_le _)
  have hG : (fun v => c (evW L n (inv fl (inv fo v)) (root L)) (evW R n (inv fr (inv fo v)) (root R))) =
      Ctx.G ⟨L, R, n, op, fl, fr, fo⟩ c (root L) (root R) := rfl
  rw [hG]
  unfold applyWithFlip
  simp only [hn]
  generalize applyRec ⟨L, R, n, op, fl, fr, fo⟩ (n + 2) (root L) (root R) (initSt n) = out at hspec
  have heq : ins n n 0 (Ctx.G ⟨L, R, n, op, fl, fr, fo⟩ c (root L) (root R)) (mkTrue n) = (out.1.res, out.2) :=
    hspec.eq.symm
  obtain ⟨_, _, _, _, hev⟩ := ins_spec n 0 (Ctx.G ⟨L, R, n, op, fl, fr, fo⟩ c (root L) (root R)) (mkTrue n)
    (red_mkTrue n) (by omega)
    (fun v w hvw => Ctx.G_indep ⟨L, R, n, op, fl, fr, fo⟩ c ok (root L) (root R) (root_lt hL) (root_lt hR) 0
      (Nat.zero_le _) (Nat.zero_le _) v w hvw)
  rw [heq] at hev
  simp only at hev
  unfold canon
  rw [heq]
  simp only
  by_cases h0 : out.2 = 0
  · have hF : ∀ v, Ctx.G ⟨L, R, n, op, fl, fr, fo⟩ c (root L) (root R) v = false := by
      intro v; rw [← hev v, h0, ev_zero]
    have hflag : out.1.nonEmpty = false := by rw [hspec.neFalse hF]; rfl
    simp [h0, hflag]
  · have hflag : out.1.nonEmpty = true := hspec.nz h0
    simp [h0, hflag]

/-- denotational corollary: the result array denotes the specified function (the one-node array is the
    constant false; `den` evaluates the root = last node) -/
theorem applyWithFlip_den (L R : Arr) (n : Nat) (op : Op2) (c : Bool → Bool → Bool) (fl fr fo : Option Nat)
    (hL : WFo L n) (hR : WFo R n) (hc : Consistent op c)
    (hfl : ∀ x, fl = some x → x < n) (hfr : ∀ x, fr = some x → x < n) (hfo : ∀ x, fo = some x → x < n)
    (v : Nat → Bool) :
    den (applyWithFlip L R op fl fr fo) v =
      c (evW L n (inv fl (inv fo v)) (root L)) (evW R n (inv fr (inv fo v)) (root R)) := by
  rw [applyWithFlip_eq_canon L R n op c fl fr fo hL hR (numVars_of_wf hL) hc hfl hfr hfo]
  exact den_canon n (specFn L R n c fl fr fo) (specFn_dep L R n c fl fr fo hL hR) v

/-- two partial tables consistent with the same connective (e.g. the eager and the lazy table of an
    operator) produce identical arrays -/
theorem apply_eager_lazy (L R : Arr) (n : Nat) (op1 op2 : Op2) (c : Bool → Bool → Bool) (fl fr fo : Option Nat)
    (hL : WFo L n) (hR : WFo R n) (h1 : Consistent op1 c) (h2 : Consistent op2 c)
    (hfl : ∀ x, fl = some x → x < n) (hfr : ∀ x, fr = some x → x < n) (hfo : ∀ x, fo = some x → x < n) :
    applyWithFlip L R op1 fl fr fo = applyWithFlip L R op2 fl fr fo := by
  rw [applyWithFlip_eq_canon L R n op1 c fl fr fo hL hR (numVars_of_wf hL) h1 hfl hfr hfo,
    applyWithFlip_eq_canon L R n op2 c fl fr fo hL hR (numVars_of_wf hL) h2 hfl hfr hfo]

/-- the result is either the one-node false array or a reduced post-order array -/
theorem applyWithFlip_red (L R : Arr) (n : Nat) (op : Op2) (c : Bool → Bool → Bool) (fl fr fo : Option Nat)
    (hL : WFo L n) (hR : WFo R n) (hc : Consistent op c)
    (hfl : ∀ x, fl = some x → x < n) (hfr : ∀ x, fr = some x → x < n) (hfo : ∀ x, fo = some x → x < n)
    (h2 : 2 ≤ (applyWithFlip L R op fl fr fo).size) : Red (applyWithFlip L R op fl fr fo) n := by
  rw [applyWithFlip_eq_canon L R n op c fl fr fo hL hR (numVars_of_wf hL) hc hfl hfr hfo] at h2 ⊢
  exact red_canon n (specFn L R n c fl fr fo) (specFn_dep L R n c fl fr fo hL hR) h2

/-- semantically equal specifications give identical result arrays (canonicity across operand pairs) -/
theorem applyWithFlip_canonical (L R L' R' : Arr) (n : Nat) (op op' : Op2) (c c' : Bool → Bool → Bool)
    (fl fr fo fl' fr' fo' : Option Nat)
    (hL : WFo L n) (hR : WFo R n) (hL' : WFo L' n) (hR' : WFo R' n)
    (hc : Consistent op c) (hc' : Consistent op' c')
    (hfl : ∀ x, fl = some x → x < n) (hfr : ∀ x, fr = some x → x < n) (hfo : ∀ x, fo = some x → x < n)
    (hfl' : ∀ x, fl' = some x → x < n) (hfr' : ∀ x, fr' = some x → x < n) (hfo' : ∀ x, fo' = some x → x < n)
    (hsem : ∀ v, specFn L R n c fl fr fo v = specFn L' R' n c' fl' fr' fo' v) :
    applyWithFlip L R op fl fr fo = applyWithFlip L' R' op' fl' fr' fo' := by
  rw [applyWithFlip_eq_canon L R n op c fl fr fo hL hR (numVars_of_wf hL) hc hfl hfr hfo,
    applyWithFlip_eq_canon L' R' n op' c' fl' fr' fo' hL' hR' (numVars_of_wf hL') hc' hfl' hfr' hfo']
  exact canon_congr hsem



/-! ### Executable well-formedness check and non-vacuity examples -/

/-- Boolean check of `WFo` (all indices below the size) -/
def wfoB (L : Arr) (n : Nat) : Bool :=
  (L[0]? == some ⟨n, 0, 0⟩) && (decide (L.size < 2) || (L[1]? == some ⟨n, 1, 1⟩)) &&
  (List.range L.size).all (fun p => decide (p < 2) ||
    match L[p]? with
    | none => true
    | some nd => decide (nd.var < n) && decide (nd.low < L.size) && decide (nd.high < L.size) &&
        decide (nd.var < varOf L n nd.low) && decide (nd.var < varOf L n nd.high))

theorem wfoB_sound {L : Arr} {n : Nat} (h : wfoB L n = true) : WFo L n := by
  unfold wfoB at h
  simp only [Bool.and_eq_true, Bool.or_eq_true, decide_eq_true_eq, beq_iff_eq, List.all_eq_true,
    List.mem_range] at h
  obtain ⟨⟨h0, h1⟩, hin⟩ := h
  refine ⟨h0, ?_, ?_⟩
  · intro hs; rcases h1 with h1 | h1
    · omega
    · exact h1
  · intro p nd hp hnd
    have hps : p < L.size := by
      rcases Nat.lt_or_ge p L.size with h' | h'
      · exact h'
      · simp [Array.getElem?_eq_none h'] at hnd
    have := hin p hps
    rw [hnd] at this
    rcases this with h' | h'
    · omega
    · simp only [Bool.and_eq_true, decide_eq_true_eq] at h'
      obtain ⟨⟨⟨⟨a, b⟩, c⟩, d⟩, e⟩ := h'
      exact ⟨a, b, c, d, e⟩

/-- the lazy (short-circuiting) table of conjunction -/
def andLazy : Op2 := fun a b =>
  match a, b with
  | some false, _ => some false
  | _, some false => some false
  | some true, some true => some true
  | _, _ => none

/-- the eager table of conjunction: answers only when both arguments are known -/
def andEager : Op2 := fun a b =>
  match a, b with
  | some x, some y => some (x && y)
  | _, _ => none

theorem andLazy_consistent : Consistent andLazy (fun x y => x && y) := by
  refine ⟨?_, ?_, ?_, ?_⟩
  · intro x y; cases x <;> cases y <;> rfl
  · intro x r h y; cases x <;> cases y <;> simp_all [andLazy]
  · intro y r h x; cases x <;> cases y <;> simp_all [andLazy]
  · intro r h; simp [andLazy] at h

theorem andEager_consistent : Consistent andEager (fun x y => x && y) := by
  refine ⟨?_, ?_, ?_, ?_⟩
  · intro x y; rfl
  · intro x r h; simp [andEager] at h
  · intro y r h; simp [andEager] at h
  · intro r h; simp [andEager] at h

/-- `x0` over 3 variables -/
def exX0 : Arr := #[⟨3, 0, 0⟩, ⟨3, 1, 1⟩, ⟨0, 0, 1⟩]
/-- `x0 ∧ x2` over 3 variables: the root (variable 0) points to a node on variable 2, skipping level 1 -/
def exX0X2 : Arr := #[⟨3, 0, 0⟩, ⟨3, 1, 1⟩, ⟨2, 0, 1⟩, ⟨0, 0, 2⟩]
/-- `x1` over 3 variables -/
def exX1 : Arr := #[⟨3, 0, 0⟩, ⟨3, 1, 1⟩, ⟨1, 0, 1⟩]

theorem exX0_wf : WFo exX0 3 := wfoB_sound (by decide)
theorem exX0X2_wf : WFo exX0X2 3 := wfoB_sound (by decide)
theorem exX1_wf : WFo exX1 3 := wfoB_sound (by decide)

/-- non-vacuity: all hypotheses of the central theorem are satisfiable (level-skipping left operand,
    no flips) -/
example : applyWithFlip exX0X2 exX1 andLazy none none none =
    canon 3 (fun v => evW exX0X2 3 v (root exX0X2) && evW exX1 3 v (root exX1)) :=
  applyWithFlip_eq_canon exX0X2 exX1 3 andLazy (fun x y => x && y) none none none
    exX0X2_wf exX1_wf rfl andLazy_consistent (by simp) (by simp) (by simp)

/-- non-vacuity with all three flips present -/
example : applyWithFlip exX0X2 exX1 andLazy (some 2) (some 1) (some 0) =
    canon 3 (fun v => evW exX0X2 3 (inv (some 2) (inv (some 0) v)) (root exX0X2) &&
      evW exX1 3 (inv (some 1) (inv (some 0) v)) (root exX1)) :=
  applyWithFlip_eq_canon exX0X2 exX1 3 andLazy (fun x y => x && y) (some 2) (some 1) (some 0)
    exX0X2_wf exX1_wf rfl andLazy_consistent (by simp) (by simp) (by simp)

/-- eager and lazy conjunction tables agree on these operands -/
example : applyWithFlip exX0X2 exX1 andLazy none none none = applyWithFlip exX0X2 exX1 andEager none none none :=
  apply_eager_lazy exX0X2 exX1 3 andLazy andEager (fun x y => x && y) none none none
    exX0X2_wf exX1_wf andLazy_consistent andEager_consistent (by simp) (by simp) (by simp)

/-- the canonical array is a concrete, non-trivial object: `x0 ∧ x1 ∧ x2` -/
example : canon 3 (fun v => evW exX0X2 3 v (root exX0X2) && evW exX1 3 v (root exX1)) =
    #[⟨3, 0, 0⟩, ⟨3, 1, 1⟩, ⟨2, 0, 1⟩, ⟨1, 0, 2⟩, ⟨0, 0, 3⟩] := by decide

/-- ... and a contradiction yields the one-node false array -/
example : canon 3 (fun v => evW exX1 3 v (root exX1) && evW exX1 3 (inv (some 1) v) (root exX1)) =
    #[⟨3, 0, 0⟩] := by decide

/-- the theorem pins the model's concrete output (the kernel cannot evaluate the `HashMap`-based model
    by `decide`, but it can evaluate `canon`) -/
example : applyWithFlip exX0X2 exX1 andLazy none none none =
    #[⟨3, 0, 0⟩, ⟨3, 1, 1⟩, ⟨2, 0, 1⟩, ⟨1, 0, 2⟩, ⟨0, 0, 3⟩] :=
  (applyWithFlip_eq_canon exX0X2 exX1 3 andLazy (fun x y => x && y) none none none
    exX0X2_wf exX1_wf rfl andLazy_consistent (by simp) (by simp) (by simp)).trans (by decide)

/-- same with all three flips: `¬x0 ∧ ¬x1 ∧ ¬x2`-shaped result of the flipped conjunction -/
example : applyWithFlip exX0X2 exX1 andLazy (some 2) (some 1) (some 0) =
    #[⟨3, 0, 0⟩, ⟨3, 1, 1⟩, ⟨2, 1, 0⟩, ⟨1, 2, 0⟩, ⟨0, 3, 0⟩] :=
  (applyWithFlip_eq_canon exX0X2 exX1 3 andLazy (fun x y => x && y) (some 2) (some 1) (some 0)
    exX0X2_wf exX1_wf rfl andLazy_consistent (by simp) (by simp) (by simp)).trans (by decide)

/-- a contradictory conjunction returns the one-node false array -/
example : applyWithFlip exX1 exX1 andLazy none (some 1) none = #[⟨3, 0, 0⟩] :=
  (applyWithFlip_eq_canon exX1 exX1 3 andLazy (fun x y => x && y) none (some 1) none
    exX1_wf exX1_wf rfl andLazy_consistent (by simp) (by simp) (by simp)).trans (by decide)

end B
