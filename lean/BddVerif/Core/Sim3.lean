import BddVerif.Core.Sim2
namespace B
open Std

structure Inv (Γ : Ctx) (c : Bool → Bool → Bool) (s : St) : Prop where
  red : Red s.res Γ.n
  ex : ∀ (nd : Node) (i : Nat), nd.var < Γ.n → (s.existing[nd]? = some i ↔ 2 ≤ i ∧ s.res[i]? = some nd)
  fin : ∀ (l r p : Nat), s.finished[(l, r)]? = some p →
      p < s.res.size ∧ min (varOf Γ.L Γ.n l) (varOf Γ.R Γ.n r) ≤ varOf s.res Γ.n p ∧
      ∀ v, ev s.res v p = Γ.G c l r v
  ne : ∀ (l r p : Nat), s.finished[(l, r)]? = some p → p ≠ 0 → s.nonEmpty = true

/-- what a (sub-)computation on task (l, r), entered at level k from state s, must deliver -/
structure Out (Γ : Ctx) (c : Bool → Bool → Bool) (s : St) (l r k : Nat) (out : St × Nat) : Prop where
  inv : Inv Γ c out.1
  eq : (out.1.res, out.2) = ins Γ.n (Γ.n - k) k (Γ.G c l r) s.res
  neFalse : (∀ v, Γ.G c l r v = false) → out.1.nonEmpty = s.nonEmpty
  neTrue : 2 ≤ out.2 → out.1.nonEmpty = true
  mono : s.nonEmpty = true → out.1.nonEmpty = true

/-- contract of a genuine task computation (`applyStep`, not a bare terminal look-up): in addition to
    `Out`, any non-zero result pointer (including the terminal 1) forces the `nonEmpty` flag -/
structure OutR (Γ : Ctx) (c : Bool → Bool → Bool) (s : St) (l r k : Nat) (out : St × Nat) : Prop
    extends Out Γ c s l r k out where
  nz : out.2 ≠ 0 → out.1.nonEmpty = true

def Spec (Γ : Ctx) (c : Bool → Bool → Bool) (rec : Nat → Nat → St → St × Nat) (k : Nat) : Prop :=
  ∀ l r s, Inv Γ c s → l < Γ.L.size → r < Γ.R.size → k ≤ varOf Γ.L Γ.n l → k ≤ varOf Γ.R Γ.n r →
    OutR Γ c s l r k (rec l r s)

theorem asBool_some {L : Arr} {n : Nat} (p : Nat) (x : Bool) (h : asBool p = some x) (v) :
    evW L n v p = x := by
  unfold asBool at h
  split at h
  · rename_i h0; subst h0; cases h; exact evW_zero _ _ _
  · split at h
    · rename_i _ h1; subst h1; cases h; exact evW_one _ _ _
    · cases h

/-- a terminal look-up that answers determines the task function -/
theorem Ctx.G_const (Γ : Ctx) (c : Bool → Bool → Bool) (ok : Γ.Ok c) (a b : Nat) (t : Bool)
    (h : Γ.op (asBool a) (asBool b) = some t) (v) : Γ.G c a b v = t := by
  unfold Ctx.G Ctx.F
  cases ha : asBool a with
  | some x =>
    cases hb : asBool b with
    | some y =>
      rw [ha, hb, ok.cons.total] at h; cases h
      rw [asBool_some a x ha, asBool_some b y hb]
    | none =>
      rw [ha, hb] at h
      rw [asBool_some a x ha]; exact ok.cons.left x t h _
  | none =>
    cases hb : asBool b with
    | some y =>
      rw [ha, hb] at h
      rw [asBool_some b y hb]; exact ok.cons.right y t h _
    | none =>
      rw [ha, hb] at h
      exact ok.cons.none_ t h _ _

theorem ofBool_lt {A : Arr} {n : Nat} (h : Red A n) (c : Bool) : ofBool c < A.size := by
  have := h.size2; cases c <;> simp [ofBool] <;> omega

theorem ev_ofBool (A : Arr) (v) (c : Bool) : ev A v (ofBool c) = c := by
  cases c <;> simp [ofBool, ev_zero, ev_one]

/-- `solve` meets the output contract at level k if `rec` does -/
theorem solve_out (Γ : Ctx) (c : Bool → Bool → Bool) (ok : Γ.Ok c) (rec) (k : Nat) (hk : k ≤ Γ.n)
    (hrec : Spec Γ c rec k)
    (a b : Nat) (s : St) (hs : Inv Γ c s) (ha : a < Γ.L.size) (hb : b < Γ.R.size)
    (hka : k ≤ varOf Γ.L Γ.n a) (hkb : k ≤ varOf Γ.R Γ.n b) :
    Out Γ c s a b k (solve Γ.op rec a b s) := by
  unfold solve
  cases hop : Γ.op (asBool a) (asBool b) with
  | none => exact (hrec a b s hs ha hb hka hkb).toOut
  | some t =>
    have hG := Γ.G_const c ok a b t hop
    refine ⟨hs, ?_, fun _ => rfl, ?_, fun h => h⟩
    · have := ins_found hs.red (Γ.n - k) k (Γ.G c a b) (ofBool t) (by omega) (ofBool_lt hs.red t)
        (by have : varOf s.res Γ.n (ofBool t) = Γ.n := by cases t <;> simp [varOf, ofBool]
            omega)
        (fun v => by rw [hG, ev_ofBool])
      exact this.symm
    · intro h2; cases t <;> simp [ofBool] at h2

end B
