import BddVerif.Core.Basic
namespace B

theorem evalF_zero (A : Arr) (v) (f) : evalF A v f 0 = false := by
  cases f <;> simp [evalF]
theorem evalF_one (A : Arr) (v) (f) : evalF A v f 1 = true := by
  cases f <;> simp [evalF]

theorem evalF_succ (A : Arr) (v) (f p : Nat) (hp : 2 ≤ p) (nd : Node) (h : A[p]? = some nd) :
    evalF A v (f+1) p = evalF A v f (if v nd.var then nd.high else nd.low) := by
  match p, hp with
  | p+2, _ => simp [evalF, h]

/-- fuel adequacy in post-order arrays -/
theorem evalF_fuel {A : Arr} {n : Nat} (h : Red A n) (v) :
    ∀ p f, p < A.size → p ≤ f → evalF A v f p = evalF A v p p := by
  intro p
  induction p using Nat.strongRecOn with
  | _ p ih =>
    intro f hp hf
    by_cases h0 : p = 0
    · subst h0; simp [evalF_zero]
    by_cases h1 : p = 1
    · subst h1; simp [evalF_one]
    have hp2 : 2 ≤ p := by omega
    have hnd : A[p]? = some A[p] := by simp [hp]
    obtain ⟨_, hl, hh, _, _, _⟩ := h.inner p A[p] hp2 hnd
    obtain ⟨f', rfl⟩ : ∃ f', f = f'+1 := ⟨f-1, by omega⟩
    obtain ⟨p', hp'⟩ : ∃ p', p = p'+1 := ⟨p-1, by omega⟩
    rw [evalF_succ A v f' p hp2 _ hnd]
    conv => rhs; rw [hp']
    rw [evalF_succ A v p' (p'+1) (by omega) A[p] (by rw [← hp']; exact hnd)]
    split
    · rw [ih _ (by omega) f' (by omega) (by omega), ih _ (by omega) p' (by omega) (by omega)]
    · rw [ih _ (by omega) f' (by omega) (by omega), ih _ (by omega) p' (by omega) (by omega)]

theorem ev_zero (A : Arr) (v) : ev A v 0 = false := by simp [ev, evalF_zero]
theorem ev_one (A : Arr) (v) : ev A v 1 = true := by simp [ev, evalF_one]

theorem ev_node {A : Arr} {n : Nat} (h : Red A n) (v) (p : Nat) (hp2 : 2 ≤ p) (nd : Node)
    (hnd : A[p]? = some nd) : ev A v p = if v nd.var then ev A v nd.high else ev A v nd.low := by
  have hps : p < A.size := by
    rcases Nat.lt_or_ge p A.size with h' | h'
    · exact h'
    · simp [Array.getElem?_eq_none h'] at hnd
  obtain ⟨_, hl, hh, _, _, _⟩ := h.inner p nd hp2 hnd
  obtain ⟨p', rfl⟩ : ∃ p', p = p'+1 := ⟨p-1, by omega⟩
  unfold ev
  rw [evalF_succ A v p' (p'+1) hp2 nd hnd]
  split
  · exact evalF_fuel h v _ _ (by omega) (by omega)
  · exact evalF_fuel h v _ _ (by omega) (by omega)

/-- value at p depends only on variables ≥ varOf p -/
theorem ev_indep {A : Arr} {n : Nat} (h : Red A n) :
    ∀ p, p < A.size → ∀ v w : Nat → Bool, (∀ i, varOf A n p ≤ i → v i = w i) → ev A v p = ev A w p := by
  intro p
  induction p using Nat.strongRecOn with
  | _ p ih =>
    intro hp v w hvw
    by_cases h0 : p = 0
    · subst h0; simp [ev_zero]
    by_cases h1 : p = 1
    · subst h1; simp [ev_one]
    have hp2 : 2 ≤ p := by omega
    have hnd : A[p]? = some A[p] := by simp [hp]
    obtain ⟨_, hl, hh, _, hvl, hvh⟩ := h.inner p A[p] hp2 hnd
    have hvar : varOf A n p = A[p].var := by simp [varOf, hnd]; omega
    rw [ev_node h v p hp2 _ hnd, ev_node h w p hp2 _ hnd]
    have : v A[p].var = w A[p].var := hvw _ (by omega)
    rw [this]
    split
    · exact ih _ hh (by omega) v w (fun i hi => hvw i (by omega))
    · exact ih _ hl (by omega) v w (fun i hi => hvw i (by omega))

def upd (v : Nat → Bool) (i : Nat) (b : Bool) : Nat → Bool := fun j => if j = i then b else v j


theorem ev_upd {A : Arr} {n : Nat} (h : Red A n) (p : Nat) (hp : p < A.size) (v : Nat → Bool) (i : Nat) (b : Bool)
    (hi : i < varOf A n p) : ev A (upd v i b) p = ev A v p := by
  apply ev_indep h p hp
  intro j hj
  have : j ≠ i := by omega
  simp [upd, this]

/-- Bryant: in a reduced array, semantic equality of pointers implies pointer equality -/
theorem ev_inj {A : Arr} {n : Nat} (h : Red A n) :
    ∀ s p q, max p q = s → p < A.size → q < A.size → (∀ v, ev A v p = ev A v q) → p = q := by
  intro s
  induction s using Nat.strongRecOn with
  | _ s ih =>
    intro p q hs hp hq heq
    have key : ∀ x y, max x y = s → x < A.size → y < A.size → 2 ≤ x →
        (∀ nd, A[x]? = some nd → nd.var < varOf A n y) → (∀ v, ev A v x = ev A v y) → False := by
      intro x y hxy hx hy hx2 hlt hxyeq
      have hnd : A[x]? = some A[x] := by simp [hx]
      obtain ⟨_, hl, hh, hne, hvl, hvh⟩ := h.inner x A[x] hx2 hnd
      have hlt' := hlt _ hnd
      apply hne
      apply ih (max A[x].low A[x].high) (by omega) _ _ rfl (by omega) (by omega)
      intro v
      have e1 := hxyeq (upd v A[x].var false)
      have e2 := hxyeq (upd v A[x].var true)
      rw [ev_node h _ x hx2 _ hnd] at e1 e2
      simp [upd] at e1 e2
      have i1 := ev_upd h A[x].low (by omega) v A[x].var false hvl
      have i2 := ev_upd h A[x].high (by omega) v A[x].var true hvh
      have i3 := ev_upd h y hy v A[x].var false hlt'
      have i4 := ev_upd h y hy v A[x].var true hlt'

      rw [← i1, ← i2, e1, e2, i3, i4]
    by_cases hpq : p = q
    · exact hpq
    exfalso
    by_cases hpt : p < 2
    · by_cases hqt : q < 2
      · have hp' : p = 0 ∨ p = 1 := by omega
        have hq' : q = 0 ∨ q = 1 := by omega
        have e := heq (fun _ => false)
        rcases hp' with rfl | rfl <;> rcases hq' with rfl | rfl <;>
          simp [ev_zero, ev_one] at e <;> omega
      · apply key q p (by omega) hq hp (by omega) _ (fun v => (heq v).symm)
        intro nd hnd
        have := (h.inner q nd (by omega) hnd).1
        simp [varOf, hpt]; exact this
    · by_cases hqt : q < 2
      · apply key p q hs hp hq (by omega) _ heq
        intro nd hnd
        have := (h.inner p nd (by omega) hnd).1
        simp [varOf, hqt]; exact this
      · have hp2 : 2 ≤ p := by omega
        have hq2 : 2 ≤ q := by omega
        have hndp : A[p]? = some A[p] := by simp [hp]
        have hndq : A[q]? = some A[q] := by simp [hq]
        have hvq : varOf A n q = A[q].var := by simp [varOf, hndq]; omega
        have hvp : varOf A n p = A[p].var := by simp [varOf, hndp]; omega
        rcases Nat.lt_trichotomy A[p].var A[q].var with hlt | heqv | hgt
        · apply key p q hs hp hq hp2 _ heq
          intro nd hnd; rw [hndp] at hnd; cases hnd; omega
        · obtain ⟨_, hlp, hhp, _, hvlp, hvhp⟩ := h.inner p A[p] hp2 hndp
          obtain ⟨_, hlq, hhq, _, hvlq, hvhq⟩ := h.inner q A[q] hq2 hndq
          have hlow : A[p].low = A[q].low := by
            apply ih (max A[p].low A[q].low) (by omega) _ _ rfl (by omega) (by omega)
            intro v
            have e := heq (upd v A[p].var false)
            rw [ev_node h _ p hp2 _ hndp, ev_node h _ q hq2 _ hndq] at e
            simp [upd, ← heqv] at e
            have i1 := ev_upd h A[p].low (by omega) v A[p].var false hvlp
            have i2 := ev_upd h A[q].low (by omega) v A[p].var false (by omega)

            rw [← i1, ← i2, e]
          have hhigh : A[p].high = A[q].high := by
            apply ih (max A[p].high A[q].high) (by omega) _ _ rfl (by omega) (by omega)
            intro v
            have e := heq (upd v A[p].var true)
            rw [ev_node h _ p hp2 _ hndp, ev_node h _ q hq2 _ hndq] at e
            simp [upd, ← heqv] at e
            have i1 := ev_upd h A[p].high (by omega) v A[p].var true hvhp
            have i2 := ev_upd h A[q].high (by omega) v A[p].var true (by omega)

            rw [← i1, ← i2, e]
          have : A[p] = A[q] := by
            cases hA : A[p]; cases hB : A[q]
            simp [hA, hB] at heqv hlow hhigh ⊢
            exact ⟨heqv, hlow, hhigh⟩
          apply hpq
          exact h.nodup p q A[p] hp2 hq2 hndp (by rw [this]; exact hndq)
        · apply key q p (by omega) hq hp hq2 _ (fun v => (heq v).symm)
          intro nd hnd; rw [hndq] at hnd; cases hnd; omega

end B
