import BddVerif.Core.Inj
namespace B

def findNode (A : Arr) (nd : Node) : Option Nat :=
  (List.range A.size).find? (fun i => decide (2 ≤ i) && (A[i]? == some nd))

/-- reference builder: insert function `f` (depending on variables k..n-1) into reduced array -/
def ins (n : Nat) : Nat → Nat → ((Nat → Bool) → Bool) → Arr → Arr × Nat
  | 0, _, f, A => (A, if f (fun _ => false) then 1 else 0)
  | fuel+1, k, f, A =>
    let r1 := ins n fuel (k+1) (fun v => f (upd v k true)) A
    let r2 := ins n fuel (k+1) (fun v => f (upd v k false)) r1.1
    if r2.2 = r1.2 then (r2.1, r2.2) else
      match findNode r2.1 ⟨k, r2.2, r1.2⟩ with
      | some i => (r2.1, i)
      | none => (r2.1.push ⟨k, r2.2, r1.2⟩, r2.1.size)

theorem findNode_of_mem {A : Arr} {n : Nat} (h : Red A n) (p : Nat) (nd : Node) (hp : 2 ≤ p)
    (hnd : A[p]? = some nd) : findNode A nd = some p := by
  unfold findNode
  have hps : p < A.size := by
    rcases Nat.lt_or_ge p A.size with h' | h'
    · exact h'
    · simp [Array.getElem?_eq_none h'] at hnd
  rcases hf : (List.range A.size).find? (fun i => decide (2 ≤ i) && (A[i]? == some nd)) with _ | q
  · rw [List.find?_eq_none] at hf
    have := hf p (by simp [hps])
    simp [hp, hnd] at this
  · have hq := List.find?_some hf
    simp at hq
    have := h.nodup p q nd hp hq.1 hnd hq.2
    rw [this]

theorem varOf_node {A : Arr} {n : Nat} (p : Nat) (nd : Node) (hp : 2 ≤ p) (hnd : A[p]? = some nd) :
    varOf A n p = nd.var := by
  unfold varOf
  rw [if_neg (by omega)]
  simp [hnd]

theorem varOf_le {A : Arr} {n : Nat} (h : Red A n) (p : Nat) : varOf A n p ≤ n := by
  unfold varOf
  split
  · exact Nat.le_refl _
  · split
    · rename_i nd hnd
      exact Nat.le_of_lt (h.inner p nd (by omega) hnd).1
    · exact Nat.le_refl _

theorem varOf_eq_n {A : Arr} {n : Nat} (h : Red A n) (p : Nat) (hp : p < A.size) (hv : varOf A n p = n) : p < 2 := by
  rcases Nat.lt_or_ge p 2 with h2 | h2
  · exact h2
  · have hnd : A[p]? = some A[p] := by simp [hp]
    have := (h.inner p A[p] h2 hnd).1
    simp [varOf, hnd] at hv
    omega

/-- L3: a function already represented in a reduced array is found, array unchanged -/
theorem ins_found {A : Arr} {n : Nat} (h : Red A n) :
    ∀ fuel k f p, fuel + k = n → p < A.size → k ≤ varOf A n p → (∀ v, f v = ev A v p) →
      ins n fuel k f A = (A, p) := by
  intro fuel
  induction fuel with
  | zero =>
    intro k f p hk hp hkv hf
    have hvn : varOf A n p = n := by have := varOf_le h p; omega
    have hp2 := varOf_eq_n h p hp hvn
    have : p = 0 ∨ p = 1 := by omega
    rcases this with rfl | rfl
    · simp [ins, hf, ev_zero]
    · simp [ins, hf, ev_one]
  | succ fuel ih =>
    intro k f p hk hp hkv hf
    by_cases hvk : varOf A n p = k
    · -- p is a node on variable k
      have hp2 : 2 ≤ p := by
        rcases Nat.lt_or_ge p 2 with h2 | h2
        · simp [varOf, h2] at hvk; omega
        · exact h2
      have hnd : A[p]? = some A[p] := by simp [hp]
      obtain ⟨_, hl, hh, hne, hvl, hvh⟩ := h.inner p A[p] hp2 hnd
      have hvar : A[p].var = k := by rw [varOf_node p _ hp2 hnd] at hvk; exact hvk
      have e1 : ins n fuel (k+1) (fun v => f (upd v k true)) A = (A, A[p].high) := by
        apply ih (k+1) _ A[p].high (by omega) (by omega) (by omega)
        intro v
        rw [hf, ev_node h _ p hp2 _ hnd]
        simp [upd, hvar]
        exact ev_upd h _ (by omega) v k true (by omega)
      have e2 : ins n fuel (k+1) (fun v => f (upd v k false)) A = (A, A[p].low) := by
        apply ih (k+1) _ A[p].low (by omega) (by omega) (by omega)
        intro v
        rw [hf, ev_node h _ p hp2 _ hnd]
        simp [upd, hvar]
        exact ev_upd h _ (by omega) v k false (by omega)
      have hfn : findNode A ⟨k, A[p].low, A[p].high⟩ = some p := by
        apply findNode_of_mem h p _ hp2
        rw [hnd]; congr 1; cases hA : A[p]; simp [hA] at hvar ⊢; omega
      simp only [ins, e1, e2, hne, if_false, hfn]
    · have hgt : k + 1 ≤ varOf A n p := by omega
      have e1 : ins n fuel (k+1) (fun v => f (upd v k true)) A = (A, p) := by
        apply ih (k+1) _ p (by omega) hp hgt
        intro v; rw [hf]; exact ev_upd h _ hp v k true (by omega)
      have e2 : ins n fuel (k+1) (fun v => f (upd v k false)) A = (A, p) := by
        apply ih (k+1) _ p (by omega) hp hgt
        intro v; rw [hf]; exact ev_upd h _ hp v k false (by omega)
      simp only [ins, e1, e2, if_true]

end B
