import BddVerif.Core.InsSpec
namespace B

/-- operand well-formedness: ordered by level only (no index order required) -/
structure WFo (L : Arr) (n : Nat) : Prop where
  zero : L[0]? = some ⟨n, 0, 0⟩
  one : 2 ≤ L.size → L[1]? = some ⟨n, 1, 1⟩
  inner : ∀ p nd, 2 ≤ p → L[p]? = some nd →
      nd.var < n ∧ nd.low < L.size ∧ nd.high < L.size ∧
      nd.var < varOf L n nd.low ∧ nd.var < varOf L n nd.high

/-- operand denotation, fuel by level -/
def evW (L : Arr) (n : Nat) (v : Nat → Bool) (p : Nat) : Bool := evalF L v (n + 1) p

theorem evalF_level {L : Arr} {n : Nat} (h : WFo L n) (v) :
    ∀ f1 p f2, p < L.size → n - varOf L n p < f1 → n - varOf L n p < f2 →
      evalF L v f1 p = evalF L v f2 p := by
  intro f1
  induction f1 with
  | zero => intro p f2 _ h1; omega
  | succ f1 ih =>
    intro p f2 hp h1 h2
    by_cases h0 : p = 0
    · subst h0; simp [evalF_zero]
    by_cases h1' : p = 1
    · subst h1'; simp [evalF_one]
    have hp2 : 2 ≤ p := by omega
    have hnd : L[p]? = some L[p] := by simp [hp]
    obtain ⟨hv, hl, hh, hvl, hvh⟩ := h.inner p L[p] hp2 hnd
    have hvar : varOf L n p = L[p].var := varOf_node p _ hp2 hnd
    obtain ⟨f2', rfl⟩ : ∃ f2', f2 = f2' + 1 := ⟨f2 - 1, by omega⟩
    rw [evalF_succ L v f1 p hp2 _ hnd, evalF_succ L v f2' p hp2 _ hnd]
    split
    · exact ih _ _ hh (by omega) (by omega)
    · exact ih _ _ hl (by omega) (by omega)

theorem evW_zero (L : Arr) (n v) : evW L n v 0 = false := by simp [evW, evalF_zero]
theorem evW_one (L : Arr) (n v) : evW L n v 1 = true := by simp [evW, evalF_one]

theorem evW_node {L : Arr} {n : Nat} (h : WFo L n) (v) (p : Nat) (hp2 : 2 ≤ p) (nd : Node)
    (hnd : L[p]? = some nd) :
    evW L n v p = if v nd.var then evW L n v nd.high else evW L n v nd.low := by
  obtain ⟨hv, hl, hh, hvl, hvh⟩ := h.inner p nd hp2 hnd
  unfold evW
  rw [evalF_succ L v n p hp2 _ hnd]
  split
  · exact evalF_level h v _ _ _ hh (by omega) (by omega)
  · exact evalF_level h v _ _ _ hl (by omega) (by omega)

theorem evW_indep {L : Arr} {n : Nat} (h : WFo L n) :
    ∀ m p, p < L.size → n - varOf L n p ≤ m → ∀ v w : Nat → Bool,
      (∀ i, varOf L n p ≤ i → i < n → v i = w i) → evW L n v p = evW L n w p := by
  intro m
  induction m with
  | zero =>
    intro p hp hm v w hvw
    by_cases h0 : p = 0
    · subst h0; simp [evW_zero]
    by_cases h1 : p = 1
    · subst h1; simp [evW_one]
    have hp2 : 2 ≤ p := by omega
    have hnd : L[p]? = some L[p] := by simp [hp]
    have := (h.inner p L[p] hp2 hnd).1
    rw [varOf_node p _ hp2 hnd] at hm; omega
  | succ m ih =>
    intro p hp hm v w hvw
    by_cases h0 : p = 0
    · subst h0; simp [evW_zero]
    by_cases h1 : p = 1
    · subst h1; simp [evW_one]
    have hp2 : 2 ≤ p := by omega
    have hnd : L[p]? = some L[p] := by simp [hp]
    obtain ⟨hv, hl, hh, hvl, hvh⟩ := h.inner p L[p] hp2 hnd
    have hvar : varOf L n p = L[p].var := varOf_node p _ hp2 hnd
    rw [evW_node h v p hp2 _ hnd, evW_node h w p hp2 _ hnd]
    have : v L[p].var = w L[p].var := hvw _ (by omega) hv
    rw [this]
    split
    · exact ih _ hh (by omega) v w (fun i hi hin => hvw i (by omega) hin)
    · exact ih _ hl (by omega) v w (fun i hi hin => hvw i (by omega) hin)

theorem evW_upd {L : Arr} {n : Nat} (h : WFo L n) (p : Nat) (hp : p < L.size) (v : Nat → Bool) (i : Nat)
    (b : Bool) (hi : i < varOf L n p) : evW L n (upd v i b) p = evW L n v p := by
  apply evW_indep h n p hp (by omega)
  intro j hj _
  have : j ≠ i := by omega
  simp [upd, this]

end B
