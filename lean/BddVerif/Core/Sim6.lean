import BddVerif.Core.Sim5
namespace B
open Std

/-! Second half of the simulation, part 2: one step of the model, fuel induction, initial state. -/

theorem sel_true (k : Nat × Nat) : sel true k = k.2 := rfl
theorem sel_false (k : Nat × Nat) : sel false k = k.1 := rfl

/-- core of a non-cached step at decision level `d < n`: (a1, b1) is the sub-task solved first (its result
    becomes the HIGH child), (a2, b2) the one solved second -/
theorem step_core (Γ : Ctx) (c : Bool → Bool → Bool) (ok : Γ.Ok c) (rec : Nat → Nat → St → St × Nat)
    (s : St) (l r d a1 b1 a2 b2 : Nat)
    (hs : Inv Γ c s) (hl : l < Γ.L.size) (hr : r < Γ.R.size)
    (hd : d = min (varOf Γ.L Γ.n l) (varOf Γ.R Γ.n r)) (hdn : d < Γ.n)
    (hrec : Spec Γ c rec (d+1))
    (ha1 : a1 < Γ.L.size) (hb1 : b1 < Γ.R.size)
    (hva1 : d + 1 ≤ varOf Γ.L Γ.n a1) (hvb1 : d + 1 ≤ varOf Γ.R Γ.n b1)
    (ha2 : a2 < Γ.L.size) (hb2 : b2 < Γ.R.size)
    (hva2 : d + 1 ≤ varOf Γ.L Γ.n a2) (hvb2 : d + 1 ≤ varOf Γ.R Γ.n b2)
    (hG1 : ∀ v, Γ.G c l r (upd v d true) = Γ.G c a1 b1 v)
    (hG2 : ∀ v, Γ.G c l r (upd v d false) = Γ.G c a2 b2 v) :
    OutR Γ c s l r d
      (finishN (solve Γ.op rec a2 b2 (solve Γ.op rec a1 b1 s).1).1 l r d
        (solve Γ.op rec a1 b1 s).2 (solve Γ.op rec a2 b2 (solve Γ.op rec a1 b1 s).1).2) := by
  have O1 := solve_out Γ c ok rec (d+1) (by omega) hrec a1 b1 s hs ha1 hb1 hva1 hvb1
  generalize solve Γ.op rec a1 b1 s = o1 at O1 ⊢
  have O2 := solve_out Γ c ok rec (d+1) (by omega) hrec a2 b2 o1.1 O1.inv ha2 hb2 hva2 hvb2
  generalize solve Γ.op rec a2 b2 o1.1 = o2 at O2 ⊢
  have e1 : (fun v => Γ.G c l r (upd v d true)) = Γ.G c a1 b1 := funext hG1
  have e2 : (fun v => Γ.G c l r (upd v d false)) = Γ.G c a2 b2 := funext hG2
  apply finishN_out Γ c ok s o2.1 l r d o1.2 o2.2 hs O2.inv hl hr hd (fun _ => hdn)
  · have h1 : ins Γ.n (Γ.n - (d+1)) (d+1) (fun v => Γ.G c l r (upd v d true)) s.res = (o1.1.res, o1.2) := by
      rw [e1]; exact O1.eq.symm
    have h2 : ins Γ.n (Γ.n - (d+1)) (d+1) (fun v => Γ.G c l r (upd v d false)) o1.1.res = (o2.1.res, o2.2) := by
      rw [e2]; exact O2.eq.symm
    have : Γ.n - d = (Γ.n - (d+1)) + 1 := by omega
    rw [this, ins_succ' h1 h2]
    rfl
  · intro h; exact O2.mono (O1.neTrue h)
  · exact O2.neTrue
  · intro h; exact O2.mono (O1.mono h)
  · intro hF
    have hF1 : ∀ v, Γ.G c a1 b1 v = false := fun v => by rw [← hG1]; exact hF _
    have hF2 : ∀ v, Γ.G c a2 b2 v = false := fun v => by rw [← hG2]; exact hF _
    have q1 := O1.eq
    rw [ins_false hs.red _ _ _ (by omega) hF1] at q1
    have q2 := O2.eq
    rw [ins_false O1.inv.red _ _ _ (by omega) hF2] at q2
    refine ⟨?_, congrArg Prod.snd q1, congrArg Prod.snd q2⟩
    rw [O2.neFalse hF2, O1.neFalse hF1]

theorem ofBool_lt_two (t : Bool) : ofBool t < 2 := by cases t <;> simp [ofBool]

theorem kids_terminal {L : Arr} {n : Nat} (h : WFo L n) (l : Nat) (hl : l < L.size) (h2 : l < 2)
    (d : Nat) (fl : Option Nat) : kids L l d fl = (l, l) := by
  have : l = 0 ∨ l = 1 := by omega
  rcases this with rfl | rfl
  · unfold kids; simp only [nodeAt, h.zero, Option.getD_some]
    split
    · rfl
    · split <;> rfl
  · have h1 := h.one (by omega)
    unfold kids; simp only [nodeAt, h1, Option.getD_some]
    split
    · rfl
    · split <;> rfl

theorem asBool_terminal (l : Nat) (h2 : l < 2) :
    ∃ x, asBool l = some x ∧ ∀ (L : Arr) (n : Nat) (v : Nat → Bool), evW L n v l = x := by
  have : l = 0 ∨ l = 1 := by omega
  rcases this with rfl | rfl
  · exact ⟨false, by simp [asBool], fun L n v => evW_zero L n v⟩
  · exact ⟨true, by simp [asBool], fun L n v => evW_one L n v⟩

/-- a step whose two pointers are both terminal: both sub-tasks are answered by the table -/
theorem step_terminal (Γ : Ctx) (c : Bool → Bool → Bool) (ok : Γ.Ok c) (rec : Nat → Nat → St → St × Nat)
    (s : St) (l r : Nat) (hs : Inv Γ c s) (hl : l < Γ.L.size) (hr : r < Γ.R.size)
    (hl2 : l < 2) (hr2 : r < 2) :
    ∃ t, solve Γ.op rec l r s = (s, ofBool t) ∧ OutR Γ c s l r Γ.n (finishN s l r Γ.n (ofBool t) (ofBool t)) := by
  obtain ⟨x, hx, hxe⟩ := asBool_terminal l hl2
  obtain ⟨y, hy, hye⟩ := asBool_terminal r hr2
  have hvl : varOf Γ.L Γ.n l = Γ.n := by simp [varOf, hl2]
  have hvr : varOf Γ.R Γ.n r = Γ.n := by simp [varOf, hr2]
  have hG : ∀ v, Γ.G c l r v = c x y := by
    intro v; unfold Ctx.G Ctx.F; rw [hxe, hye]
  refine ⟨c x y, ?_, ?_⟩
  · unfold solve; rw [hx, hy, ok.cons.total]
  · apply finishN_out Γ c ok s s l r Γ.n _ _ hs hs hl hr (by rw [hvl, hvr]; simp) (fun h => absurd rfl h)
    · rw [ins_found hs.red (Γ.n - Γ.n) Γ.n (Γ.G c l r) (ofBool (c x y)) (by omega) (ofBool_lt hs.red _)
        (by have : varOf s.res Γ.n (ofBool (c x y)) = Γ.n := by cases c x y <;> simp [varOf, ofBool]
            omega)
        (fun v => by rw [hG, ev_ofBool])]
      simp [mkRes]
    · intro h; have := ofBool_lt_two (c x y); omega
    · intro h; have := ofBool_lt_two (c x y); omega
    · exact fun h => h
    · intro hF
      have := hF (fun _ => false)
      rw [hG] at this
      rw [this]; simp [ofBool]

/-- one step of the model meets the contract at level k if `rec` does at all deeper levels -/
theorem applyStep_out (Γ : Ctx) (c : Bool → Bool → Bool) (ok : Γ.Ok c) (rec : Nat → Nat → St → St × Nat)
    (k : Nat) (hrec : ∀ k', k < k' → k' ≤ Γ.n → Spec Γ c rec k') : Spec Γ c (applyStep Γ rec) k := by
  intro l r s hs hl hr hkl hkr
  have hkn : k ≤ Γ.n := by have := ok.wfL.varOf_le l; omega
  unfold applyStep
  cases hfin : s.finished[(l, r)]? with
  | some p =>
    simp only
    obtain ⟨hp, hv, he⟩ := hs.fin l r p hfin
    have := ins_found hs.red (Γ.n - k) k (Γ.G c l r) p (by omega) hp (by omega) (fun v => (he v).symm)
    exact ⟨⟨hs, this.symm, fun _ => rfl, fun h => hs.ne l r p hfin (by omega), fun h => h⟩,
      hs.ne l r p hfin⟩
  | none =>
    simp only
    rw [nodeAt_var ok.wfL l hl, nodeAt_var ok.wfR r hr]
    generalize hd : min (varOf Γ.L Γ.n l) (varOf Γ.R Γ.n r) = d
    apply OutR.lower ok hs hl hr hd.symm (by omega)
    by_cases hdn : d < Γ.n
    · have hdl : d ≤ varOf Γ.L Γ.n l := by omega
      have hdr : d ≤ varOf Γ.R Γ.n r := by omega
      have KL := fun b => evW_kids ok.wfL l hl d hdl hdn Γ.fl (fun _ => false) b
      have KR := fun b => evW_kids ok.wfR r hr d hdr hdn Γ.fr (fun _ => false) b
      have GS := fun b v => Γ.G_split c ok l r hl hr d hdl hdr hdn b v
      have hR := hrec (d+1) (by omega) (by omega)
      by_cases hfo : Γ.fo = some d
      · simp only [hfo, if_true]
        rw [finish_flip]
        have g1 := GS true; have g2 := GS false
        simp only [hfo, if_true, Bool.not_true, Bool.not_false, sel_true, sel_false] at g1 g2
        have kl1 := KL false; have kl2 := KL true; have kr1 := KR false; have kr2 := KR true
        simp only [sel_true, sel_false] at kl1 kl2 kr1 kr2
        exact step_core Γ c ok rec s l r d _ _ _ _ hs hl hr hd.symm hdn hR
          kl1.2.1 kr1.2.1 kl1.2.2 kr1.2.2 kl2.2.1 kr2.2.1 kl2.2.2 kr2.2.2 g1 g2
      · simp only [hfo, if_false]
        rw [finish_noflip]
        have g1 := GS true; have g2 := GS false
        simp only [hfo, if_false, sel_true, sel_false] at g1 g2
        have kl1 := KL false; have kl2 := KL true; have kr1 := KR false; have kr2 := KR true
        simp only [sel_true, sel_false] at kl1 kl2 kr1 kr2
        exact step_core Γ c ok rec s l r d _ _ _ _ hs hl hr hd.symm hdn hR
          kl2.2.1 kr2.2.1 kl2.2.2 kr2.2.2 kl1.2.1 kr1.2.1 kl1.2.2 kr1.2.2 g1 g2
    · have hvl := ok.wfL.varOf_le l
      have hvr := ok.wfR.varOf_le r
      have hde : d = Γ.n := by omega
      subst hde
      have hl2 := ok.wfL.terminal_of_varOf l hl (by omega)
      have hr2 := ok.wfR.terminal_of_varOf r hr (by omega)
      rw [kids_terminal ok.wfL l hl hl2, kids_terminal ok.wfR r hr hr2]
      obtain ⟨t, ht, hO⟩ := step_terminal Γ c ok rec s l r hs hl hr hl2 hr2
      simp only [ht]
      split
      · rw [finish_flip]; exact hO
      · rw [finish_noflip]; exact hO

/-- fuel induction: enough fuel for the remaining levels suffices -/
theorem applyRec_spec (Γ : Ctx) (c : Bool → Bool → Bool) (ok : Γ.Ok c) :
    ∀ fuel k, Γ.n - k < fuel → Spec Γ c (applyRec Γ fuel) k := by
  intro fuel
  induction fuel with
  | zero => intro k hk; omega
  | succ fuel ih =>
    intro k hk
    show Spec Γ c (applyStep Γ (applyRec Γ fuel)) k
    apply applyStep_out Γ c ok
    intro k' h1 h2
    exact ih k' (by omega)

/-- the initial state satisfies the invariant -/
theorem inv_initSt (Γ : Ctx) (c : Bool → Bool → Bool) : Inv Γ c (initSt Γ.n) := by
  refine ⟨red_mkTrue Γ.n, ?_, ?_, ?_⟩
  · intro nd i hv
    have h0 : (zeroN Γ.n == nd) = false := by
      simp only [beq_eq_false_iff_ne, ne_eq]; intro e; rw [← e] at hv; simp [zeroN] at hv
    have h1 : (oneN Γ.n == nd) = false := by
      simp only [beq_eq_false_iff_ne, ne_eq]; intro e; rw [← e] at hv; simp [oneN] at hv
    have hnone : (initSt Γ.n).existing[nd]? = none := by
      simp only [initSt, HashMap.getElem?_insert, h0, h1, Bool.false_eq_true, if_false]
      exact HashMap.getElem?_emptyWithCapacity
    rw [hnone]
    constructor
    · intro h; cases h
    · intro ⟨hi, h⟩
      have : (initSt Γ.n).res[i]? = none := Array.getElem?_eq_none (by simp [initSt, mkTrue_size]; omega)
      rw [this] at h; cases h
  · intro l r p h
    have : (initSt Γ.n).finished[(l, r)]? = none := HashMap.getElem?_emptyWithCapacity
    rw [this] at h; cases h
  · intro l r p h
    have : (initSt Γ.n).finished[(l, r)]? = none := HashMap.getElem?_emptyWithCapacity
    rw [this] at h; cases h

end B
