import BddVerif.Core.Ins
namespace B

def Prefix (A A' : Arr) : Prop := A.size ≤ A'.size ∧ ∀ i, i < A.size → A'[i]? = A[i]?

theorem Prefix.refl (A : Arr) : Prefix A A := ⟨Nat.le_refl _, fun _ _ => rfl⟩
theorem Prefix.trans {A B C : Arr} (h1 : Prefix A B) (h2 : Prefix B C) : Prefix A C :=
  ⟨Nat.le_trans h1.1 h2.1, fun i hi => by rw [h2.2 i (by have := h1.1; omega), h1.2 i hi]⟩
theorem Prefix.push (A : Arr) (nd : Node) : Prefix A (A.push nd) :=
  ⟨by simp, fun i hi => by simp [Array.getElem?_push, Nat.ne_of_lt hi]⟩

theorem varOf_prefix {A A' : Arr} {n : Nat} (hp : Prefix A A') (p : Nat) (h : p < A.size) :
    varOf A' n p = varOf A n p := by
  unfold varOf; rw [hp.2 p h]

theorem ev_prefix {A A' : Arr} {n : Nat} (h : Red A n) (h' : Red A' n) (hp : Prefix A A') (v) :
    ∀ p, p < A.size → ev A' v p = ev A v p := by
  intro p
  induction p using Nat.strongRecOn with
  | _ p ih =>
    intro hps
    by_cases h0 : p = 0
    · subst h0; simp [ev_zero]
    by_cases h1 : p = 1
    · subst h1; simp [ev_one]
    have hp2 : 2 ≤ p := by omega
    have hnd : A[p]? = some A[p] := by simp [hps]
    have hnd' : A'[p]? = some A[p] := by rw [hp.2 p hps]; exact hnd
    obtain ⟨_, hl, hh, _, _, _⟩ := h.inner p A[p] hp2 hnd
    rw [ev_node h' v p hp2 _ hnd', ev_node h v p hp2 _ hnd]
    rw [ih _ hl (by omega), ih _ hh (by omega)]

theorem findNode_none {A : Arr} {nd : Node} (h : findNode A nd = none) (p : Nat) (hp : 2 ≤ p) : A[p]? ≠ some nd := by
  intro hnd
  unfold findNode at h
  rw [List.find?_eq_none] at h
  have hps : p < A.size := by
    rcases Nat.lt_or_ge p A.size with h' | h'
    · exact h'
    · simp [Array.getElem?_eq_none h'] at hnd
  have := h p (by simp [hps])
  simp [hp, hnd] at this

theorem findNode_some {A : Arr} {nd : Node} {i : Nat} (h : findNode A nd = some i) : 2 ≤ i ∧ A[i]? = some nd := by
  unfold findNode at h
  have := List.find?_some h
  simpa using this

theorem Red.push {A : Arr} {n : Nat} (h : Red A n) (nd : Node) (hv : nd.var < n) (hl : nd.low < A.size)
    (hh : nd.high < A.size) (hne : nd.low ≠ nd.high) (hvl : nd.var < varOf A n nd.low)
    (hvh : nd.var < varOf A n nd.high) (hfresh : findNode A nd = none) : Red (A.push nd) n := by
  have hpre := Prefix.push A nd
  refine ⟨by have := h.size2; simp; omega, ?_, ?_⟩
  · intro p nd' hp2 hnd'
    by_cases hps : p < A.size
    · rw [hpre.2 p hps] at hnd'
      obtain ⟨a, b, c, d, e, f⟩ := h.inner p nd' hp2 hnd'
      refine ⟨a, b, c, d, ?_, ?_⟩
      · rw [varOf_prefix hpre _ (by omega)]; exact e
      · rw [varOf_prefix hpre _ (by omega)]; exact f
    · have hpe : p = A.size := by
        rcases Nat.lt_or_ge p (A.push nd).size with h' | h'
        · simp at h'; omega
        · simp [Array.getElem?_eq_none h'] at hnd'
      subst hpe
      simp at hnd'
      subst hnd'
      refine ⟨hv, hl, hh, hne, ?_, ?_⟩
      · rw [varOf_prefix hpre _ hl]; exact hvl
      · rw [varOf_prefix hpre _ hh]; exact hvh
  · intro p q nd' hp2 hq2 hp' hq'
    have bound : ∀ r, (A.push nd)[r]? = some nd' → r < A.size ∨ (r = A.size ∧ nd' = nd) := by
      intro r hr
      rcases Nat.lt_or_ge r A.size with h' | h'
      · exact Or.inl h'
      · right
        have : r = A.size := by
          rcases Nat.lt_or_ge r (A.push nd).size with h'' | h''
          · simp at h''; omega
          · simp [Array.getElem?_eq_none h''] at hr
        subst this; simp at hr; exact ⟨rfl, hr.symm⟩
    rcases bound p hp' with hpl | ⟨rfl, rfl⟩ <;> rcases bound q hq' with hql | ⟨rfl, hq''⟩
    · rw [hpre.2 p hpl] at hp'; rw [hpre.2 q hql] at hq'
      exact h.nodup p q nd' hp2 hq2 hp' hq'
    · subst hq''; rw [hpre.2 p hpl] at hp'
      exact absurd hp' (findNode_none hfresh p hp2)
    · rw [hpre.2 q hql] at hq'
      exact absurd hq' (findNode_none hfresh q hq2)
    · rfl

/-- L2: specification of the reference builder -/
theorem ins_spec {n : Nat} :
    ∀ fuel k (f : (Nat → Bool) → Bool) (A : Arr), Red A n → fuel + k = n →
      (∀ v w : Nat → Bool, (∀ i, k ≤ i → i < n → v i = w i) → f v = f w) →
      Red (ins n fuel k f A).1 n ∧ Prefix A (ins n fuel k f A).1 ∧
      (ins n fuel k f A).2 < (ins n fuel k f A).1.size ∧
      k ≤ varOf (ins n fuel k f A).1 n (ins n fuel k f A).2 ∧
      ∀ v, ev (ins n fuel k f A).1 v (ins n fuel k f A).2 = f v := by
  intro fuel
  induction fuel with
  | zero =>
    intro k f A h hk hdep
    have hk' : k = n := by omega
    subst hk'
    have hs := h.size2
    by_cases hf : f (fun _ => false) = true
    · simp only [ins, hf, if_true]
      refine ⟨h, Prefix.refl _, by omega, by simp [varOf], ?_⟩
      intro v; rw [ev_one, ← hf]; exact (hdep _ _ (fun i h1 h2 => by omega))
    · simp only [ins, hf]
      refine ⟨h, Prefix.refl _, by simp; omega, by simp [varOf], ?_⟩
      intro v; simp [ev_zero]
      have : f v = f (fun _ => false) := hdep _ _ (fun i h1 h2 => by omega)
      rw [this]; simpa using hf
  | succ fuel ih =>
    intro k f A h hk hdep
    have hkn : k < n := by omega
    have dep1 : ∀ b, ∀ v w : Nat → Bool, (∀ i, k+1 ≤ i → i < n → v i = w i) →
        f (upd v k b) = f (upd w k b) := by
      intro b v w hvw
      apply hdep
      intro i h1 h2
      by_cases hik : i = k
      · simp [upd, hik]
      · simp [upd, hik]; exact hvw i (by omega) h2
    obtain ⟨r1red, r1pre, r1lt, r1var, r1ev⟩ := ih (k+1) (fun v => f (upd v k true)) A h (by omega) (dep1 true)
    generalize hr1 : ins n fuel (k+1) (fun v => f (upd v k true)) A = r1 at r1red r1pre r1lt r1var r1ev
    obtain ⟨r2red, r2pre, r2lt, r2var, r2ev⟩ := ih (k+1) (fun v => f (upd v k false)) r1.1 r1red (by omega) (dep1 false)
    generalize hr2 : ins n fuel (k+1) (fun v => f (upd v k false)) r1.1 = r2 at r2red r2pre r2lt r2var r2ev
    have hhigh_lt : r1.2 < r2.1.size := by have := r2pre.1; omega
    have hev_high : ∀ v, ev r2.1 v r1.2 = f (upd v k true) := by
      intro v; rw [ev_prefix r1red r2red r2pre v _ r1lt]; exact r1ev v
    have hvar_high : k + 1 ≤ varOf r2.1 n r1.2 := by rw [varOf_prefix r2pre _ r1lt]; exact r1var
    have fsplit : ∀ v, f v = if v k then f (upd v k true) else f (upd v k false) := by
      intro v
      split
      · rename_i hvk; apply hdep; intro i _ _; by_cases hik : i = k <;> simp [upd, hik, hvk]
      · rename_i hvk; apply hdep; intro i _ _; by_cases hik : i = k <;> simp [upd, hik]; simpa using hvk
    have hins : ins n (fuel+1) k f A =
        if r2.2 = r1.2 then (r2.1, r2.2) else
          match findNode r2.1 ⟨k, r2.2, r1.2⟩ with
          | some i => (r2.1, i)
          | none => (r2.1.push ⟨k, r2.2, r1.2⟩, r2.1.size) := by
      simp only [ins, hr1, hr2]
      rfl
    rw [hins]
    by_cases heq : r2.2 = r1.2
    · simp only [heq, if_true]
      refine ⟨r2red, r1pre.trans r2pre, hhigh_lt, by omega, ?_⟩
      intro v
      have a := r2ev v
      have b := hev_high v
      rw [heq] at a
      rw [fsplit v]
      split
      · exact b
      · exact a
    · simp only [heq, if_false]
      rcases hfn : findNode r2.1 ⟨k, r2.2, r1.2⟩ with _ | i
      · simp only
        have hred : Red (r2.1.push ⟨k, r2.2, r1.2⟩) n :=
          Red.push r2red _ hkn r2lt hhigh_lt heq (by simp; omega) (by simp; omega) hfn
        have hpre := Prefix.push r2.1 ⟨k, r2.2, r1.2⟩
        have hnd : (r2.1.push ⟨k, r2.2, r1.2⟩)[r2.1.size]? = some ⟨k, r2.2, r1.2⟩ := by simp
        have hs2 := r2red.size2
        refine ⟨hred, (r1pre.trans r2pre).trans hpre, by simp, ?_, ?_⟩
        · rw [varOf_node _ _ (by omega) hnd]; exact Nat.le_refl _
        · intro v
          rw [ev_node hred v _ (by omega) _ hnd, fsplit v]
          simp only
          rw [ev_prefix r2red hred hpre v _ hhigh_lt, ev_prefix r2red hred hpre v _ r2lt, hev_high, r2ev]
      · simp only
        obtain ⟨hi2, hind⟩ := findNode_some hfn
        have his : i < r2.1.size := by
          rcases Nat.lt_or_ge i r2.1.size with h' | h'
          · exact h'
          · simp [Array.getElem?_eq_none h'] at hind
        refine ⟨r2red, r1pre.trans r2pre, his, ?_, ?_⟩
        · rw [varOf_node _ _ hi2 hind]; exact Nat.le_refl _
        · intro v
          rw [ev_node r2red v _ hi2 _ hind, fsplit v]
          simp only
          rw [hev_high, r2ev]

end B
