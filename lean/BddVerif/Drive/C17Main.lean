import BddVerif.Drive.C17
def main : IO Unit := B.Drive.runLoop B.Drive.C17.handle
