import BddVerif.Drive.Util
import BddVerif.Core.ApplyCanon
import BddVerif.Model.Rename
/-!
Driver for C17. For every case the model (`Model/Rename.lean`) is re-run and compared with the observed
outcome (`|…|`, `none`, `panic`), and the property's own predicate is evaluated on the OBSERVED result
with definitions that do not use the model: `wfoB` (valid diagram), truth tables by `evalArr`, `isCanon`,
and a support / name correspondence computed here by brute force.
-/
namespace B.Drive.C17
open B B.Drive B.Ren

def maxTT : Nat := 12

def showOutcome : Outcome Arr → String
  | .ok r => showArr r
  | .err _ => "none"
  | .panic _ => "panic"

def parseMap? (s : String) : Option (List (Nat × Nat)) :=
  if s == "~" then some [] else
  (s.splitOn ",").mapM fun kv =>
    match kv.splitOn ":" with
    | [k, v] => match k.toNat?, v.toNat? with
      | some k, some v => some (k, v)
      | _, _ => none
    | _ => none

def parseNames (s : String) : List String := if s == "~" then [] else s.splitOn ","

/-- brute-force support: variables `x` such that some node with index ≥ 2 is labelled `x` -/
def supp (A : Arr) : List Nat :=
  let vars := (A.toList.drop 2).map (·.var)
  (List.range (vars.foldl max 0 + 1)).filter fun x => vars.contains x

/-- pseudo-random valuations for diagrams too wide for a full truth table (same mixing as `Drive/C01.lean`) -/
def sampleVal (n k : Nat) : Nat → Bool := fun j =>
  let z := (k + 1) * 0x9E3779B97F4A7C15 % 2 ^ 64
  let z := (z ^^^ (z >>> 29)) * 0xBF58476D1CE4E5B9 % 2 ^ 64
  let z := (z ^^^ (z >>> 32))
  j < n && (z >>> (j % 60)) % 2 == 1

def samples : Nat := 4096

/-- EXACT test of `r(v) = b(v ∘ g)` for two reduced diagrams, any width: memoised simultaneous walk from the two
    roots. If the functions are equal every node of `r` is paired with exactly one node of `b` (both are
    reduced), so more than `r.size + b.size` visited pairs — or two different terminals — refute the identity. -/
def sameFunctionUnder (b r : Arr) (g : Nat → Option Nat) : Bool := Id.run do
  let inf := 1000000
  let budget := r.size + b.size + 4
  let mut stack : Array (Nat × Nat) := #[(root r, root b)]
  let mut seen : Std.HashSet (Nat × Nat) := {}
  for _ in [0:3 * budget] do
    match stack.back? with
    | none => return true
    | some (p, q) =>
      stack := stack.pop
      if seen.contains (p, q) then continue
      seen := seen.insert (p, q)
      if seen.size > budget then return false
      if p < 2 && q < 2 then
        if p != q then return false
      else
        let nr := r[p]?.getD default
        let nb := b[q]?.getD default
        let vr := if p < 2 then inf else nr.var
        let vb := if q < 2 then inf else (match g nb.var with | some y => y | none => inf + 1)
        if vb == inf + 1 then return false
        let d := min vr vb
        let (pl, ph) := if vr == d then (nr.low, nr.high) else (p, p)
        let (ql, qh) := if vb == d then (nb.low, nb.high) else (q, q)
        stack := (stack.push (pl, ql)).push (ph, qh)
  return stack.isEmpty

def firstFail (xs : List (Option String)) : Option String := xs.findSome? id

/-- `g` is defined and strictly increasing on the variables tested by the decision nodes of `b` (images below the
    walk's sentinel). Only then is a REJECT of `sameFunctionUnder` conclusive (`ExactWalk.sameFunctionUnder_reject`): for a
    renaming that is not increasing the walk follows paths that are not valuations and rejects equal functions (two
    counterexamples are proved in Lemmas/ExactWalkC17Complete.lean). Its ACCEPT is sound for every `g`. -/
def increasingOnTested (b : Arr) (g : Nat → Option Nat) : Bool :=
  let vars := ((b.toList.drop 2).map (·.var)).mergeSort (· ≤ ·) |>.eraseDups
  let imgs := vars.map g
  imgs.all (fun o => match o with | some y => y < 1000000 | none => false) &&
  (imgs.zip (imgs.drop 1)).all fun (a, c) => match a, c with | some x, some y => x < y | _, _ => false

/-- the statement's clauses: `r` is a valid diagram over `m` variables and `r(v) = b(v ∘ g)` on all valuations of
    the first `N` variables -/
def checkResult (b r : Arr) (m N : Nat) (g : Nat → Option Nat) : Option String :=
  firstFail [
    if wfoB r m then none else some "result-not-a-valid-diagram",
    if N > maxTT then
      (if N > 4096 then none else
        if isReduced b && isReduced r && increasingOnTested b g && !sameFunctionUnder b r g then some "function-changed(exact walk)" else
        if (List.range samples).all fun k =>
          let v := sampleVal N k
          evalArr r v == evalArr b (fun x => match g x with | some y => (decide (y < N) && v y) | none => false)
        then none else some "function-changed(sampled)")
    else
      if (List.range (2 ^ N)).all fun i =>
        let v := valOfIndex N i
        evalArr r v == evalArr b (fun x => match g x with | some y => (decide (y < N) && v y) | none => false)
      then none else some "function-changed" ]

/-- not in the property's statement (it asks for a VALID diagram denoting the renamed function): same size and
    kept canonicity are reported as tags and, through the model, as agreement -/
def notesOf (b : Arr) (res : String) : List String :=
  match parseArr? res with
  | some r => (if b.size != r.size then ["note-size-changed"] else []) ++
      (if isCanon b && !isCanon r then ["note-canonicity-lost"] else [])
  | none => []

def bigTag (b : Arr) : List String := if b.size > 65536 then ["big-operand"] else []

def kindTag (obs : String) : String :=
  if obs == "panic" then "panic" else if obs == "none" then "none" else if obs == "hang" then "hang" else "ok"

def inputTag (b : Arr) (n : Nat) : String :=
  if !wfoB b n then "invalid-input" else if isCanon b then "canonical"
  else if isReduced b then "noncanonical" else "nonreduced"

def handle (key : String) (ins obs : List String) : Verdict :=
  match key, ins, obs with
  | "C17.setnv", [bs, nvs], [res] =>
    match parseArr? bs, nvs.toNat? with
    | some b, some nv =>
      let n := numVars b
      let model := showOutcome (setNumVars b nv)
      let valid := wfoB b n
      let fail :=
        if !valid then none else
        match parseArr? res with
        | some r => firstFail [
            if numVars r == nv then none else some "variable-count-not-set",
            checkResult b r nv (if max n nv ≤ maxTT then max n nv else n) (fun x => some x)]
        | none => if res == "panic" then none else some ("outcome:" ++ res)
      { agree := model == res, model, fail, nontrivial := valid && b.size > 2,
        tags := ["setnv", kindTag res, inputTag b n] ++ bigTag b ++ notesOf b res }
    | _, _ => Verdict.bad "args"
  | "C17.renvars", [bs, ms], [res] =>
    match parseArr? bs, parseMap? ms with
    | some b, some m =>
      let n := numVars b
      let π := varMapOfList m
      let model := showOutcome (renameVariables b π)
      let valid := wfoB b n
      let fail :=
        if !valid then none else
        match parseArr? res with
        | some r => checkResult b r n n (fun x => some (applyMap π x))
        | none => if res == "panic" then none else some ("outcome:" ++ res)
      { agree := model == res, model, fail, nontrivial := valid && b.size > 2,
        tags := ["renvars", kindTag res, inputTag b n] ++ (if m.any (·.1 == n) then ["key-num_vars"] else []) ++ bigTag b ++ notesOf b res }
    | _, _ => Verdict.bad "args"
  | "C17.renvar", [bs, os, ns], [res] =>
    match parseArr? bs, os.toNat?, ns.toNat? with
    | some b, some old, some new =>
      let n := numVars b
      let model := showOutcome (renameVariable b old new)
      let valid := wfoB b n
      let fail :=
        if !valid then none else
        match parseArr? res with
        | some r => checkResult b r n n (fun x => some (if x = old then new else x))
        | none => if res == "panic" then none else some ("outcome:" ++ res)
      { agree := model == res, model, fail, nontrivial := valid && b.size > 2,
        tags := ["renvar", kindTag res, inputTag b n] ++ bigTag b ++ notesOf b res }
    | _, _, _ => Verdict.bad "args"
  | "C17.transfer", [bs, ss, ts], [res] =>
    match parseArr? bs with
    | some b =>
      let n := numVars b
      let src := parseNames ss
      let tgt := parseNames ts
      let model := showOutcome (transferFrom tgt b src)
      -- the property speaks about a Bdd valid in the source set, and sets with distinct names
      let applicable := wfoB b n && src.length == n && src.eraseDups.length == src.length &&
        tgt.eraseDups.length == tgt.length
      let sup := supp b
      let g : Nat → Option Nat := fun x => match src[x]? with | some nm => tgt.findIdx? (· == nm) | none => none
      let image := sup.map g
      let increasing := (List.range image.length).all fun i => (List.range image.length).all fun j =>
        !(decide (i < j)) || (match image[i]?, image[j]? with | some (some a), some (some c) => decide (a < c) | _, _ => false)
      let expectSome := image.all (·.isSome) && increasing
      let fail :=
        if !applicable then none else
        match parseArr? res with
        | some r => firstFail [
            if expectSome then none else some "accepted-a-Bdd-that-cannot-be-transferred",
            if numVars r == tgt.length then none else some "wrong-variable-count",
            checkResult b r tgt.length tgt.length g]
        | none =>
          if res == "none" then (if expectSome then some "refused-a-transferable-Bdd" else none)
          else some ("outcome:" ++ res)
      { agree := model == res, model, fail, nontrivial := applicable && b.size > 2,
        tags := ["transfer", kindTag res, if applicable then inputTag b n else "inapplicable"] ++ bigTag b ++ notesOf b res }
    | none => Verdict.bad "args"
  | _, _, _ => Verdict.bad ("key " ++ key)

end B.Drive.C17
