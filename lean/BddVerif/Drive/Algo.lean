import BddVerif.Drive.Tables
import BddVerif.Gen.OpTables
import BddVerif.Gen.Algo
import BddVerif.Model.Ternary
import BddVerif.Model.Limit
import BddVerif.Model.Nested
import BddVerif.Model.Relation
import BddVerif.Model.Count
/-!
Driver for the GENERATED algorithm definitions (`Gen/Algo.lean`, produced by tools/rust2lean.py from the Rust text).

Reads the case lines of the per-property harness binaries (C01, C03, C04, C05, C06, C09, C13) and, for every line
whose operation is a translated function, recomputes the observed fields with the generated definition. A line is
`OK` iff the generated definition reproduces the observation AND (where one exists) the hand-written model gives
the same answer as the generated definition. Lines of other operations print `OK 0 skip`.
A generated loop that runs out of fuel is reported as `panic:fuel` and can never agree with an observation.
-/
namespace B.Drive.Algo
open B B.Drive B.Gen.Algo B.Lim B.Count

abbrev OpT := Option Bool → Option Bool → Option Bool

def isFuel (m : String) : Bool := m == "fuel"

def showOA : Outcome Arr → String
  | .ok A => showArr A
  | .err _ => "err"
  | .panic m => if isFuel m then "panic:fuel" else "panic"

def showOOA : Outcome (Option Arr) → String
  | .ok (some A) => showArr A
  | .ok none => "none"
  | .err _ => "err"
  | .panic m => if isFuel m then "panic:fuel" else "panic"

def showDry : Outcome (Option (Bool × Nat)) → String
  | .ok (some (f, c)) => s!"{if f then 1 else 0},{c}"
  | .ok none => "none"
  | .err _ => "err"
  | .panic m => if isFuel m then "panic:fuel" else "panic"

def showON : Outcome Nat → String
  | .ok n => toString n
  | .err _ => "err"
  | .panic m => if isFuel m then "panic:fuel" else "panic"

def showOB : Outcome Bool → String
  | .ok b => if b then "1" else "0"
  | .err _ => "err"
  | .panic m => if isFuel m then "panic:fuel" else "panic"

def showOptArr : Option Arr → String
  | some A => showArr A
  | none => "panic"

/-- verdict: generated output vs observation, and vs the hand-written model where there is one -/
def mk (gen obs : String) (hand : Option String) (tags : List String) : Verdict :=
  let okObs := gen == obs
  let okHand := match hand with | some h => h == gen | none => true
  { agree := okObs && okHand,
    model := s!"gen:{gen}" ++ (match hand with | some h => (if h == gen then "" else s!" hand:{h}") | none => ""),
    nontrivial := true, tags := tags ++ [if hand.isSome then "hand" else "nohand"] }

def skip : Verdict := { agree := true, model := "", nontrivial := false, tags := ["skip"] }

def fuel2 (L R : Arr) : Nat := 8 * (L.size * R.size + numVars L + 8)
def fuel3 (A B C : Arr) : Nat := 8 * (A.size * B.size * C.size + numVars A + 8)
def fuel1 (A : Arr) : Nat := 8 * (A.size + numVars A + 8)
/-- nested apply: the inner tasks range over pairs of nodes of the growing result -/
def fuelN (L R : Arr) : Nat := 8 * ((L.size * R.size + 2) * (L.size * R.size + 2) + numVars L + 8)

def parseVars? (s : String) : Option (List Nat) :=
  if s == "~" then some [] else (s.splitOn ",").mapM (·.toNat?)

def parseLits? (s : String) : Option (List (Nat × Bool)) :=
  if s == "~" then some [] else
  (s.splitOn ",").mapM fun p =>
    match p.splitOn ":" with
    | [x, b] => (x.toNat?).map fun x => (x, b == "1")
    | _ => none

def innerOf (name : String) : Op2 :=
  if name == "or" then Gen.or_ else if name == "and" then Gen.and_ else op2OfTable name

def parseArrE? (s : String) : Option Arr := if s == "|" then some #[] else parseArr? s

def showNats (xs : List Nat) : String := if xs.isEmpty then "~" else ",".intercalate (xs.map toString)

/-- hand model of `restriction` takes a `List (Option Bool)` -/
def handRestrict (A : Arr) (ls : List (Nat × Bool)) : String := showArr (B.restrict A ls)

def genValidate (A : Arr) : String :=
  match Bdd_validate (fuel1 A) A with
  | .ok (.ok _) => "vok"
  | .ok (.error _) => "verr"
  | .err _ => "verr"
  | .panic m => if isFuel m then "vpanic:fuel" else "vpanic"

/-- all paths through the generated `BddPathIterator::new` / `next` (bounded by `limit` items) -/
def genPaths (A : Arr) (limit : Nat) : Outcome (List (Array (Option Bool))) := do
  let mut it ← BddPathIterator_new (fuel1 A) A
  let mut acc : List (Array (Option Bool)) := []
  let mut fin := false
  for _ in [0:limit + 1] do
    let (item, it') ← BddPathIterator_next (fuel1 A) it
    it := it'
    match item with
    | none =>
      fin := true
      break
    | some c => acc := c :: acc
  if !fin then Outcome.panic "fuel"
  return acc.reverse

/-- harness `fmt_partial`: `01-` over n variables (`~` if n = 0), set variables ≥ n appended as `;idx=val` -/
def fmtPartial (p : Array (Option Bool)) (n : Nat) : String :=
  let head := String.ofList ((List.range n).map fun i => match Gen.Rust.pvalIndex p i with
    | some true => '1' | some false => '0' | none => '-')
  let head := if head.isEmpty then "~" else head
  let extra := (List.range p.size).foldl (fun acc i => if i < n then acc else match Gen.Rust.pvalIndex p i with
    | some b => acc ++ s!";{i}={if b then 1 else 0}" | none => acc) ""
  head ++ extra

def fmtSeq (cs : List (Array (Option Bool))) (n : Nat) : String :=
  s!"{cs.length}:" ++ ",".intercalate (cs.map (fmtPartial · n))

def fmtSlash (cs : List (Array (Option Bool))) (n : Nat) : String :=
  if cs.isEmpty then "." else "/".intercalate (cs.map (fmtPartial · n))

def showOClauses (f : List (Array (Option Bool)) → String) : Outcome (List (Array (Option Bool))) → String
  | .ok cs => f cs
  | .err _ => "err"
  | .panic m => if isFuel m then "panic:fuel" else "panic"

/-- number of items announced by an observed `k:…` / `a/b/c` field (0 when it is `panic`) -/
def countSeq (s : String) : Nat := ((s.splitOn ":").headD "0").toNat?.getD 0
def countSlash (s : String) : Nat := if s == "." || s == "panic" then 0 else (s.splitOn "/").length

def fuelPaths (A : Arr) (k : Nat) : Nat := 8 * (k + 2) * (A.size + numVars A + 8)

def genDnf (A : Arr) (k : Nat) : Outcome (List (Array (Option Bool))) :=
  (Bdd_to_dnf (fuelPaths A k) A).map (·.toList)
def genCnf (A : Arr) : Outcome (List (Array (Option Bool))) :=
  (Bdd_to_cnf (numVars A + 8) A).map (·.toList)

def showWitness : Outcome (Option (Array Bool)) → String
  | .ok (some v) => if v.isEmpty then "~" else showBits v.toList
  | .ok none => "none"
  | .err _ => "err"
  | .panic m => if isFuel m then "panic:fuel" else "panic"

/-- `ValuationsOfClauseIterator::new(clause, n).collect()` through the generated `new` / `next` (and `BddValuation::next`) -/
def genClauseVals (clause : Array (Option Bool)) (n : Nat) (limit : Nat) : Outcome (List (Array Bool)) := do
  let mut it ← ValuationsOfClauseIterator_new clause n
  let mut acc : List (Array Bool) := []
  let mut fin := false
  for _ in [0:limit + 1] do
    let (item, it') ← ValuationsOfClauseIterator_next it
    it := it'
    match item with
    | none =>
      fin := true
      break
    | some v => acc := v :: acc
  if !fin then Outcome.panic "fuel"
  return acc.reverse

def fmtVals : Outcome (List (Array Bool)) → String
  | .ok vs => s!"{vs.length}:" ++ ",".intercalate (vs.map fun v => if v.isEmpty then "~" else showBits v.toList)
  | .err _ => "err"
  | .panic m => if isFuel m then "panic:fuel" else "panic"

/-- harness `parse_partial`: `01-` string, `~` = empty; position i is variable i (set through `from_values`) -/
def parsePartial (t : String) : Array (Nat × Bool) :=
  if t == "~" then #[] else
  ((t.toList.zipIdx).filterMap fun (c, i) => if c == '1' then some (i, true) else if c == '0' then some (i, false) else none).toArray

def handle (key : String) (ins obs : List String) : Verdict :=
  match key, ins, obs with
  -- ------------------------------------------------------------------ C01
  | "C01.bin", [_, table, l, r, _], [res, _] =>
    match parseArr? l, parseArr? r with
    | some L, some R =>
      let op := op2OfTable table
      mk (showOA (Bdd_binary_op (fuel2 L R) L R op)) res (some (showArr (applyWithFlip L R op none none none))) ["binary_op"]
    | _, _ => Verdict.bad "args"
  | "C01.named", [name, l, r], [res, _] =>
    match parseArr? l, parseArr? r, Gen.builtin2.lookup name with
    | some L, some R, some op =>
      mk (showOA (apply_with_flip (fuel2 L R) L R none none none op)) res (some (showArr (applyWithFlip L R op none none none))) ["apply_with_flip"]
    | _, _, _ => Verdict.bad "args"
  | "C01.not", [l], [res] =>
    match parseArr? l with
    | some L => mk (showOA (Bdd_not L)) res (some (showArr (bddNot L))) ["not"]
    | none => Verdict.bad "args"
  | "C01.ite", [a, b, c], [res] =>
    match parseArr? a, parseArr? b, parseArr? c with
    | some A, some B, some C =>
      mk (showOA (Bdd_ternary_op (fuel3 A B C) A B C Gen.ite_)) res
        (some (showArr (ternaryApply A B C Gen.ite_ none none none none))) ["ternary_op"]
    | _, _, _ => Verdict.bad "args"
  | "C01.ter", [table, _, a, b, c], [res, _] =>
    match parseArr? a, parseArr? b, parseArr? c with
    | some A, some B, some C =>
      let op := op3OfTable table
      mk (showOA (Bdd_ternary_op (fuel3 A B C) A B C op)) res
        (some (showArr (ternaryApply A B C op none none none none))) ["ternary_op"]
    | _, _, _ => Verdict.bad "args"
  | "C01.eval", [l, bits], [res] =>
    match parseArr? l with
    | some L =>
      let bs := (parseBits bits).toArray
      mk (showOB (Bdd_eval_in (fuel1 L) L bs)) res (some (if evalArr L (valOfBits bs.toList) then "1" else "0")) ["eval_in"]
    | none => Verdict.bad "args"
  -- ------------------------------------------------------------------ C03
  | "C03.nested", [_, table, _, l, r, mask, inner, _], [res] =>
    match parseArr? l, parseArr? r, mask.toNat? with
    | some L, some R, some mask =>
      let op := op2OfTable table
      let iop := innerOf inner
      let trig : Nat → Bool := fun x => (mask >>> (x % 64)) % 2 == 1
      mk (showOA (Bdd_binary_op_nested (fuelN L R) L R trig op iop)) res (some (showOptArr (nestedApplyO L R trig op iop))) ["nested_apply"]
    | _, _, _ => Verdict.bad "args"
  | "C03.exq", [_, table, _, l, r, vs1, vs2], [r1, r2] =>
    match parseArr? l, parseArr? r, parseVars? vs1, parseVars? vs2 with
    | some L, some R, some v1, some v2 =>
      let op := op2OfTable table
      let g := fun (vs : List Nat) => showOA (nested_apply (fuelN L R) L R (fun x => vs.contains x) op Gen.or_)
      let h := fun (vs : List Nat) => showOptArr (nestedApplyO L R (trigOfList vs) op Gen.or_)
      mk s!"{g v1} {g v2}" s!"{r1} {r2}" (some s!"{h v1} {h v2}") ["nested_apply", "exists"]
    | _, _, _, _ => Verdict.bad "args"
  | "C03.allq", [_, table, _, l, r, vs1, vs2], [r1, r2] =>
    match parseArr? l, parseArr? r, parseVars? vs1, parseVars? vs2 with
    | some L, some R, some v1, some v2 =>
      let op := op2OfTable table
      let g := fun (vs : List Nat) => showOA (nested_apply (fuelN L R) L R (fun x => vs.contains x) op Gen.and_)
      let h := fun (vs : List Nat) => showOptArr (nestedApplyO L R (trigOfList vs) op Gen.and_)
      mk s!"{g v1} {g v2}" s!"{r1} {r2}" (some s!"{h v1} {h v2}") ["nested_apply", "forall"]
    | _, _, _, _ => Verdict.bad "args"
  | "C03.exists", [l, vs1, vs2], [r1, r2, r3] =>
    match parseArr? l, parseVars? vs1, parseVars? vs2 with
    | some L, some v1, some v2 =>
      let g := fun (vs : List Nat) => showOA (nested_apply (fuelN L L) L L (fun x => vs.contains x) Gen.and_ Gen.or_)
      mk s!"{g v1} {g v2} {g v1}" s!"{r1} {r2} {r3}" (some s!"{showArr (bddExists L v1)} {showArr (bddExists L v2)} {showArr (bddExists L v1)}")
        ["nested_apply", "exists"]
    | _, _, _ => Verdict.bad "args"
  | "C03.forall", [l, vs1, vs2], r1 :: r2 :: _ =>
    match parseArr? l, parseVars? vs1, parseVars? vs2 with
    | some L, some v1, some v2 =>
      let g := fun (vs : List Nat) => showOA (nested_apply (fuelN L L) L L (fun x => vs.contains x) Gen.and_ Gen.and_)
      mk s!"{g v1} {g v2}" s!"{r1} {r2}" (some s!"{showArr (bddForAll L v1)} {showArr (bddForAll L v2)}") ["nested_apply", "forall"]
    | _, _, _ => Verdict.bad "args"
  | "C03.varex", [l, x], r1 :: _ =>
    match parseArr? l, x.toNat? with
    | some L, some x =>
      mk (showOA (Bdd_fused_binary_flip_op (fuel2 L L) (L, none) (L, some x) none Gen.or_)) r1 (some (showOptArr (varExistsO L x))) ["apply_with_flip", "var_exists"]
    | _, _ => Verdict.bad "args"
  | "C03.varall", [l, x], r1 :: _ =>
    match parseArr? l, x.toNat? with
    | some L, some x =>
      mk (showOA (Bdd_fused_binary_flip_op (fuel2 L L) (L, none) (L, some x) none Gen.and_)) r1 (some (showOptArr (varForAllO L x))) ["apply_with_flip", "var_for_all"]
    | _, _ => Verdict.bad "args"
  -- ------------------------------------------------------------------ C04
  | "C04.bin", [table, _, l, r, fl, fr, fo], [fused, _] =>
    match parseArr? l, parseArr? r, parseOptNat? fl, parseOptNat? fr, parseOptNat? fo with
    | some L, some R, some fl, some fr, some fo =>
      let op := op2OfTable table
      mk (showOA (Bdd_fused_binary_flip_op (fuel2 L R) (L, fl) (R, fr) fo op)) fused (some (showOA (fusedBinaryFlipOp L R op fl fr fo))) ["apply_with_flip", "flips"]
    | _, _, _, _, _ => Verdict.bad "args"
  | "C04.ter", [table, _, a, b, c, fa, fb, fc, fo], [fused, _] =>
    match parseArr? a, parseArr? b, parseArr? c, parseOptNat? fa, parseOptNat? fb, parseOptNat? fc, parseOptNat? fo with
    | some A, some B, some C, some fa, some fb, some fc, some fo =>
      let op := op3OfTable table
      mk (showOA (Bdd_fused_ternary_flip_op (fuel3 A B C) (A, fa) (B, fb) (C, fc) fo op)) fused
        (some (showOA (fusedTernaryFlipOp A B C op fa fb fc fo))) ["ternary_apply", "flips"]
    | _, _, _, _, _, _, _ => Verdict.bad "args"
  -- ------------------------------------------------------------------ C05
  | "C05.lim", [table, _, l, r, fl, fr, fo, limit], [lim, unres] =>
    match parseArr? l, parseArr? r, parseOptNat? fl, parseOptNat? fr, parseOptNat? fo, limit.toNat? with
    | some L, some R, some fl, some fr, some fo, some k =>
      let op := op2OfTable table
      let g1 := showOOA (Bdd_fused_binary_flip_op_with_limit (fuel2 L R) k (L, fl) (R, fr) fo op)
      let g2 := showOA (Bdd_fused_binary_flip_op (fuel2 L R) (L, fl) (R, fr) fo op)
      let h1 := showOOA (fusedBinaryFlipOpWithLimit k L R op fl fr fo)
      let h2 := showOA (fusedBinaryFlipOp L R op fl fr fo)
      mk s!"{g1} {g2}" s!"{lim} {unres}" (some s!"{h1} {h2}") ["apply_with_flip_and_limit"]
    | _, _, _, _, _, _ => Verdict.bad "args"
  | "C05.blim", [table, _, l, r, limit], [lim, unres] =>
    match parseArr? l, parseArr? r, limit.toNat? with
    | some L, some R, some k =>
      let op := op2OfTable table
      let g1 := showOOA (Bdd_binary_op_with_limit (fuel2 L R) k L R op)
      let g2 := showOA (Bdd_binary_op (fuel2 L R) L R op)
      let h1 := showOOA (fusedBinaryFlipOpWithLimit k L R op none none none)
      let h2 := showOA (fusedBinaryFlipOp L R op none none none)
      mk s!"{g1} {g2}" s!"{lim} {unres}" (some s!"{h1} {h2}") ["apply_with_flip_and_limit"]
    | _, _, _ => Verdict.bad "args"
  | "C05.dry", [table, _, l, r, fl, fr, fo, limit], [dry, full, _] =>
    match parseArr? l, parseArr? r, parseOptNat? fl, parseOptNat? fr, parseOptNat? fo, limit.toNat? with
    | some L, some R, some fl, some fr, some fo, some k =>
      let op := op2OfTable table
      let big := 18446744073709551615
      let g1 := showDry (Bdd_check_fused_binary_flip_op (fuel2 L R) k (L, fl) (R, fr) fo op)
      let g2 := showDry (Bdd_check_fused_binary_flip_op (fuel2 L R) big (L, fl) (R, fr) fo op)
      let h1 := showDry (checkFusedBinaryFlipOp k L R op fl fr fo)
      let h2 := showDry (checkFusedBinaryFlipOp big L R op fl fr fo)
      mk s!"{g1} {g2}" s!"{dry} {full}" (some s!"{h1} {h2}") ["estimated_apply_complexity"]
    | _, _, _, _, _, _ => Verdict.bad "args"
  | "C05.bdry", [table, _, l, r, limit], [dry, full, _] =>
    match parseArr? l, parseArr? r, limit.toNat? with
    | some L, some R, some k =>
      let op := op2OfTable table
      let big := 18446744073709551615
      let g1 := showDry (Bdd_check_binary_op (fuel2 L R) k L R op)
      let g2 := showDry (Bdd_check_binary_op (fuel2 L R) big L R op)
      let h1 := showDry (checkFusedBinaryFlipOp k L R op none none none)
      let h2 := showDry (checkFusedBinaryFlipOp big L R op none none none)
      mk s!"{g1} {g2}" s!"{dry} {full}" (some s!"{h1} {h2}") ["estimated_apply_complexity"]
    | _, _, _ => Verdict.bad "args"
  -- ------------------------------------------------------------------ C06
  | "C06.restrict", [a, lits], [res] =>
    match parseArr? a, parseLits? lits with
    | some A, some ls => mk (showOA (Bdd_restrict (fuel1 A) A ls.toArray)) res (some (handRestrict A ls)) ["restriction"]
    | _, _ => Verdict.bad "args"
  | "C06.vres", [a, x, b], [res] =>
    match parseArr? a, x.toNat? with
    | some A, some x => mk (showOA (Bdd_var_restrict (fuel1 A) A x (b == "1"))) res (some (showArr (varRestrict A x (b == "1")))) ["restriction"]
    | _, _ => Verdict.bad "args"
  | "C06.select", [a, lits], [res] =>
    match parseArr? a, parseLits? lits with
    | some A, some ls =>
      -- `select` = from_values, mk_partial_valuation, and
      let g : Outcome Arr := do
        let pv ← BddPartialValuation_from_values ls.toArray
        let vb ← Bdd_mk_partial_valuation (← Bdd_num_vars A) pv
        apply_with_flip (fuel2 A vb) A vb none none none Gen.and_
      mk (showOA g) res (some (showArr (select A ls))) ["mk_partial_valuation", "apply_with_flip"]
    | _, _ => Verdict.bad "args"
  | "C06.vsel", [a, x, b], [res] =>
    match parseArr? a, x.toNat? with
    | some A, some x =>
      let g : Outcome Arr := do
        let lit := Bdd_mk_literal (← Bdd_num_vars A) x (b == "1")
        apply_with_flip (fuel2 A lit) A lit none none none Gen.and_
      mk (showOA g) res (some (showArr (varSelect A x (b == "1")))) ["mk_literal", "apply_with_flip"]
    | _, _ => Verdict.bad "args"
  | "C06.vex", [a, x], [res] =>
    match parseArr? a, x.toNat? with
    | some A, some x =>
      mk (showOA (Bdd_fused_binary_flip_op (fuel2 A A) (A, none) (A, some x) none Gen.or_)) res (some (showOA (Rel.varExistsO A x))) ["apply_with_flip", "var_exists"]
    | _, _ => Verdict.bad "args"
  | "C06.vall", [a, x], [res] =>
    match parseArr? a, x.toNat? with
    | some A, some x =>
      mk (showOA (Bdd_fused_binary_flip_op (fuel2 A A) (A, none) (A, some x) none Gen.and_)) res (some (showOA (Rel.varForAllO A x))) ["apply_with_flip", "var_for_all"]
    | _, _ => Verdict.bad "args"
  -- ------------------------------------------------------------------ C09
  | "C09.cnt", [a], [oExact, oClause, _, oSup, _, _, oPaths] =>
    match parseArr? a with
    | some A =>
      let sup : String := match Bdd_support_set A with
        | .ok s => showNats (s.toList.mergeSort (fun x y => decide (x ≤ y)))
        | _ => "panic"
      -- the path iterator and to_dnf must yield as many clauses as the harness counted (when it counted)
      let np := oPaths.toNat?
      let paths : String := match np with
        | some k => (match genPaths A k with | .ok ps => toString ps.length | .panic m => s!"panic:{m}" | .err _ => "err")
        | none => oPaths
      let dnf : String := match np with
        | some _ => (match Bdd_to_dnf (8 * fuel1 A * (A.size + 2)) A with | .ok ps => toString ps.size | .panic m => s!"panic:{m}" | .err _ => "err")
        | none => oPaths
      let g := s!"{showON (Bdd_exact_cardinality (fuel1 A) A)} {showON (Bdd_exact_clause_cardinality (fuel1 A) A)} {sup} {paths} {dnf}"
      let h := s!"{showON (exactCardO A)} {showON (clauseCardO A)} {showNats (supportSet A)} {oPaths} {oPaths}"
      mk g s!"{oExact} {oClause} {oSup} {oPaths} {oPaths}" (some h) ["exact_cardinality", "exact_clause_cardinality", "support_set", "path_iterator", "to_dnf"]
    | none => Verdict.bad "args"
  | "C09.bad", [a], [oExact, oClause] =>
    match parseArr? a with
    | some A =>
      let g := s!"{showON (Bdd_exact_cardinality (fuel1 A) A)} {showON (Bdd_exact_clause_cardinality (fuel1 A) A)}"
      mk g s!"{oExact} {oClause}" (some s!"{showON (exactCardO A)} {showON (clauseCardO A)}") ["exact_cardinality", "malformed"]
    | none => Verdict.bad "args"
  | "C09.law", [_, a, b], [oa, ob, oor, oand, onot] =>
    match parseArr? a, parseArr? b with
    | some A, some B =>
      let card := fun (o : Outcome Arr) => match o with
        | .ok X => showON (Bdd_exact_cardinality (fuel1 X) X)
        | _ => "panic"
      let g := s!"{card (.ok A)} {card (.ok B)} {card (apply_with_flip (fuel2 A B) A B none none none Gen.or_)} {card (apply_with_flip (fuel2 A B) A B none none none Gen.and_)} {card (Bdd_not A)}"
      mk g s!"{oa} {ob} {oor} {oand} {onot}" none ["exact_cardinality", "apply_with_flip", "not"]
    | _, _ => Verdict.bad "args"
  -- ------------------------------------------------------------------ C13
  | "C13.nodes", [arr], kind :: bdd :: v :: _ =>
    match parseArrE? arr with
    | some D =>
      let g := match Bdd_from_nodes D with
        | .ok (.ok A) => s!"ok {showArr A} {genValidate A}"
        | .ok (.error _) => "err ~ -"
        | .err _ => "err ~ -"
        | .panic m => s!"panic:{m} ~ -"
      mk g s!"{kind} {bdd} {v}" none ["from_nodes", "validate"]
    | none => Verdict.bad "args"
  | "C13.text", [_], kind :: bdd :: _ :: v :: _ =>
    if kind != "ok" then skip else
    match parseArrE? bdd with
    | some A => if v == "noeval" then skip else mk (genValidate A) v none ["validate"]
    | none => skip
  | "C13.bytes", [_], kind :: bdd :: v :: _ =>
    if kind != "ok" then skip else
    match parseArrE? bdd with
    | some A => if v == "noeval" then skip else mk (genValidate A) v none ["validate"]
    | none => skip
  -- ------------------------------------------------------------------ C08 / C10 / C11 (enumeration, normal forms, witnesses)
  | "C08.clauses", [a], [it, dnf] =>
    match parseArr? a with
    | some A =>
      let n := numVars A
      let g1 := showOClauses (fmtSeq · n) (genPaths A (max (countSeq it) (countSeq dnf) + 2))
      let g2 := showOClauses (fmtSeq · n) (genDnf A (countSeq dnf))
      mk s!"{g1} {g2}" s!"{it} {dnf}" none ["path_iterator", "to_dnf"]
    | none => Verdict.bad "args"
  | "C10.ext", [a], dnf :: cnf :: _ =>
    match parseArr? a with
    | some A =>
      let n := numVars A
      let g1 := showOClauses (fmtSlash · n) (genDnf A (countSlash dnf))
      let g2 := showOClauses (fmtSlash · n) (genCnf A)
      mk s!"{g1} {g2}" s!"{dnf} {cnf}" none ["to_dnf", "to_cnf"]
    | none => Verdict.bad "args"
  | k, [a], [w, _, _, _, _, _, _, _, _, _, isC, isV] =>
    if k != "C11.sel" && k != "C11.nc" then skip else
    match parseArr? a with
    | some A =>
      let g := s!"{showWitness (Bdd_sat_witness A)} {showOB (Bdd_is_clause (fuel1 A) A)} {showOB (Bdd_is_valuation (fuel1 A) A)}"
      mk g s!"{w} {isC} {isV}" none ["sat_witness", "is_clause", "is_valuation"]
    | none => Verdict.bad "args"
  | "C08.cvals", [c, ns], [res] =>
    match ns.toNat? with
    | some n =>
      let g : Outcome (List (Array Bool)) := do
        let clause ← BddPartialValuation_from_values (parsePartial c)
        genClauseVals clause n (countSeq res + 2)
      mk (fmtVals g) res none ["BddValuation_next", "clause_valuations"]
    | none => Verdict.bad "args"
  | "C08.uvals", [ns], u :: _ =>
    match ns.toNat? with
    | some n => mk (fmtVals (genClauseVals #[] n (countSeq u + 2))) u none ["BddValuation_next", "clause_valuations"]
    | none => Verdict.bad "args"
  | _, _, _ => skip

end B.Drive.Algo
