import BddVerif.Drive.Util
import BddVerif.Model.Ternary
/-! Partial operator tables of the line protocol: 9 / 27 characters over `T`, `F`, `-`. -/
namespace B.Drive

def optIx : Option Bool → Nat
  | none => 0
  | some false => 1
  | some true => 2

def cellOf (c : Char) : Option Bool := if c == 'T' then some true else if c == 'F' then some false else none

def op2OfTable (t : String) : Op2 :=
  let cs := t.toList.toArray
  fun l r => cellOf (cs.getD (3 * optIx l + optIx r) '-')

def op3OfTable (t : String) : Op3 :=
  let cs := t.toList.toArray
  fun a b c => cellOf (cs.getD (9 * optIx a + 3 * optIx b + optIx c) '-')

def tableOfOp2 (op : Op2) : String :=
  String.ofList <| [none, some false, some true].flatMap fun l => [none, some false, some true].map fun r =>
    match op l r with | some true => 'T' | some false => 'F' | none => '-'

/-- connective number `c`: bit `2a+b` is the value at `(a, b)` -/
def conn2 (c : Nat) (a b : Bool) : Bool := (c >>> (2 * a.toNat + b.toNat)) % 2 == 1
def conn3 (c : Nat) (a b d : Bool) : Bool := (c >>> (4 * a.toNat + 2 * b.toNat + d.toNat)) % 2 == 1

def completions : Option Bool → List Bool
  | some b => [b]
  | none => [false, true]

/-- executable form of `Consistent op (conn2 c)` -/
def consistent2 (op : Op2) (c : Nat) : Bool :=
  [none, some false, some true].all fun l => [none, some false, some true].all fun r =>
    match op l r with
    | some x => (completions l).all fun a => (completions r).all fun b => conn2 c a b == x
    | none => !(l.isSome && r.isSome)

def consistent3 (op : Op3) (c : Nat) : Bool :=
  [none, some false, some true].all fun x => [none, some false, some true].all fun y =>
    [none, some false, some true].all fun z =>
      match op x y z with
      | some r => (completions x).all fun a => (completions y).all fun b => (completions z).all fun d => conn3 c a b d == r
      | none => !(x.isSome && y.isSome && z.isSome)

/-- the connective of a table that is total on terminals -/
def connOf2 (op : Op2) : Option Nat :=
  [false, true].foldl (init := some 0) fun acc a => [false, true].foldl (init := acc) fun acc b =>
    match acc, op (some a) (some b) with
    | some n, some true => some (n + 2 ^ (2 * a.toNat + b.toNat))
    | some n, some false => some n
    | _, _ => none

end B.Drive
