import BddVerif.Drive.Algo2
def main : IO Unit := B.Drive.runLoop B.Drive.Algo2.handle
