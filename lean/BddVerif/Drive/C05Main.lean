import BddVerif.Drive.C05
def main : IO Unit := B.Drive.runLoop B.Drive.C05.handle
