import BddVerif.Drive.Util
import BddVerif.Model.Select
/-!
C11, very wide diagrams (1 000 … 65 533 variables): run-length encoded text forms and an oracle that is linear in
(nodes + variables) and independent of the model `Model/Select.lean`: dynamic programming over the observed
array with unbounded naturals (which pointers reach the one terminal, number / maximal / minimal length of
paths, maximal number of `true` resp. `false` variables among the satisfying valuations including the free
levels), the usual walks for the lexicographic extrema, membership by evaluating the array on the returned
valuation, the clause selectors by their definitions on paths, and the shared literals by a sweep over the
edges that can be part of a path to one.
-/
namespace B.Drive.C11Wide
open B B.Drive B.Select

/-! ### run-length encoding -/

def rleOf {α : Type} [BEq α] [Inhabited α] (sym : α → Char) (xs : Array α) : String := Id.run do
  if xs.size = 0 then return "~"
  let mut out : String := ""
  let mut cur := xs[0]!
  let mut cnt : Nat := 0
  for x in xs do
    if x == cur then cnt := cnt + 1
    else
      out := (if out.isEmpty then out else out.push ',') ++ (String.singleton (sym cur)) ++ "x" ++ toString cnt
      cur := x
      cnt := 1
  out := (if out.isEmpty then out else out.push ',') ++ (String.singleton (sym cur)) ++ "x" ++ toString cnt
  return out

def bitChar (b : Bool) : Char := if b then '1' else '0'
def cellChar : Option Bool → Char
  | some true => '1'
  | some false => '0'
  | none => '-'

def rleBits (v : Array Bool) : String := rleOf bitChar v
def rleCells (c : Array (Option Bool)) : String := rleOf cellChar c

/-- decode `1x3,0x5` / `-x2,1x1` into cells (`none` for `-`); `none` result = malformed -/
def unrle (s : String) : Option (Array (Option Bool)) := Id.run do
  if s == "~" then return some #[]
  let mut out : Array (Option Bool) := #[]
  for run in s.splitOn "," do
    match run.splitOn "x" with
    | [sy, k] =>
      match k.toNat? with
      | some k =>
        let cell : Option (Option Bool) :=
          if sy == "1" then some (some true) else if sy == "0" then some (some false) else if sy == "-" then some none else none
        match cell with
        | some c => out := out ++ Array.replicate k c
        | none => return none
      | none => return none
    | _ => return none
  return some out

def unrleBits (s : String) : Option (Array Bool) :=
  (unrle s).bind fun cells => if cells.all (·.isSome) then some (cells.map (·.getD false)) else none

/-! ### rendering of model results -/

def showValW : Sel Val → String
  | .panic => "panic"
  | .none => "none"
  | .some v => rleBits v.toArray

/-- `n` cells, then `;idx=val` for fixed variables `≥ n` (as the harness prints them) -/
def showClauseW (n : Nat) : Sel Clause → String
  | .panic => "panic"
  | .none => "none"
  | .some c =>
    let a := c.toArray
    let head := rleCells ((Array.range n).map fun i => (a[i]?).getD none)
    let extra := (List.range (a.size - n)).map fun j =>
      match (a[n + j]?).getD none with
      | some b => s!";{n + j}={if b then 1 else 0}"
      | none => ""
    head ++ String.join extra

def showOBW : Option Bool → String
  | none => "panic"
  | some true => "1"
  | some false => "0"

/-! ### the oracle -/

structure Tab where
  n : Nat
  live : Array Bool          -- the pointer reaches the one terminal
  cntP : Array Nat           -- number of paths to one
  maxL : Array Nat           -- longest / shortest path to one (decisions), meaningful on live pointers
  minL : Array Nat
  maxT : Array Nat           -- max number of true variables on levels [var p, n) over assignments satisfying p
  maxF : Array Nat           -- same for false variables

def nodeOf (A : Arr) (p : Nat) : Node := A[p]?.getD default
def varAt (A : Arr) (p : Nat) : Nat := (nodeOf A p).var

/-- children before parents, variables increase along edges, terminals exact: what the tables rely on -/
def wellFormed (A : Arr) : Bool := Id.run do
  let n := numVars A
  if A.size = 0 then return false
  if A[0]! != ⟨n, 0, 0⟩ then return false
  if A.size = 1 then return true
  if A[1]! != ⟨n, 1, 1⟩ then return false
  let mut hasParent : Array Bool := Array.replicate A.size false
  for i in [2:A.size] do
    let nd := A[i]!
    if !(nd.var < n && nd.low < i && nd.high < i && nd.low != nd.high) then return false
    if !(nd.var < (A[nd.low]!).var && nd.var < (A[nd.high]!).var) then return false
    hasParent := (hasParent.setIfInBounds nd.low true).setIfInBounds nd.high true
  for i in [2:A.size - 1] do
    if !hasParent[i]! then return false
  return true

def mkTab (A : Arr) : Tab := Id.run do
  let n := numVars A
  let mut live : Array Bool := #[false, true]
  let mut cntP : Array Nat := #[0, 1]
  let mut maxL : Array Nat := #[0, 0]
  let mut minL : Array Nat := #[0, 0]
  let mut maxT : Array Nat := #[0, 0]
  let mut maxF : Array Nat := #[0, 0]
  for i in [2:A.size] do
    let nd := A[i]!
    let ll := live[nd.low]!
    let lh := live[nd.high]!
    let gl := varAt A nd.low - nd.var - 1
    let gh := varAt A nd.high - nd.var - 1
    live := live.push (ll || lh)
    cntP := cntP.push ((if ll then cntP[nd.low]! else 0) + (if lh then cntP[nd.high]! else 0))
    let viaL (t : Array Nat) := t[nd.low]! + 1
    let viaH (t : Array Nat) := t[nd.high]! + 1
    maxL := maxL.push (if ll && lh then max (viaL maxL) (viaH maxL) else if ll then viaL maxL else viaH maxL)
    minL := minL.push (if ll && lh then min (viaL minL) (viaH minL) else if ll then viaL minL else viaH minL)
    let tl := maxT[nd.low]! + gl
    let th := maxT[nd.high]! + gh + 1
    maxT := maxT.push (if ll && lh then max tl th else if ll then tl else th)
    let fl := maxF[nd.low]! + gl + 1
    let fh := maxF[nd.high]! + gh
    maxF := maxF.push (if ll && lh then max fl fh else if ll then fl else fh)
  return { n, live, cntP, maxL, minL, maxT, maxF }

/-- value of the diagram under an assignment given as an array (linear walk) -/
def evalW (A : Arr) (v : Array Bool) : Bool := Id.run do
  let mut p := root A
  for _ in [0:A.size] do
    if p < 2 then break
    let nd := A[p]!
    p := if v[nd.var]?.getD false then nd.high else nd.low
  return p == 1

/-- a walk from the root that takes `prefer` whenever that child is live; other variables get `fill` -/
def greedyVal (A : Arr) (T : Tab) (prefer fill : Bool) : Array Bool := Id.run do
  let mut v : Array Bool := Array.replicate T.n fill
  let mut p := root A
  for _ in [0:A.size] do
    if p < 2 then break
    let nd := A[p]!
    let pc := if prefer then nd.high else nd.low
    let b := if T.live[pc]! then prefer else !prefer
    v := v.setIfInBounds nd.var b
    p := if b then nd.high else nd.low
  return v

/-- the least valuation among those with the maximal number of variables equal to `b` -/
def bestVal (A : Arr) (T : Tab) (b : Bool) : Array Bool := Id.run do
  let t := if b then T.maxT else T.maxF
  let mut v : Array Bool := Array.replicate T.n b
  let mut p := root A
  for _ in [0:A.size] do
    if p < 2 then break
    let nd := A[p]!
    let ll := T.live[nd.low]!
    let lh := T.live[nd.high]!
    let sl := t[nd.low]! + (varAt A nd.low - nd.var - 1) + (if b then 0 else 1)
    let sh := t[nd.high]! + (varAt A nd.high - nd.var - 1) + (if b then 1 else 0)
    -- the low branch gives the smaller valuation: take it unless the high branch is strictly better
    let c := if ll && lh then decide (sh > sl) else lh
    v := v.setIfInBounds nd.var c
    p := if c then nd.high else nd.low
  return v

def countEq (v : Array Bool) (b : Bool) : Nat := v.foldl (fun k x => if x == b then k + 1 else k) 0

/-- follow a clause from the root: `some (steps, firstOK, lastOK)` if it is exactly a path to one
    (every visited node's variable is fixed, nothing else is), with the two divergence conditions -/
def walkClause (A : Arr) (T : Tab) (c : Array (Option Bool)) : Option (Nat × Bool × Bool) := Id.run do
  let mut p := root A
  let mut steps : Nat := 0
  let mut firstOK := true
  let mut lastOK := true
  for _ in [0:A.size] do
    if p < 2 then break
    let nd := A[p]!
    match (c[nd.var]?).getD none with
    | none => return none
    | some b =>
      -- where another path diverges (the other child is live), `first` must have taken false, `last` true
      let other := if b then nd.low else nd.high
      if T.live[other]! then
        if b then firstOK := false else lastOK := false
      steps := steps + 1
      p := if b then nd.high else nd.low
  if p != 1 then return none
  let fixed := c.foldl (fun k x => if x.isSome then k + 1 else k) 0
  if fixed != steps then return none
  return some (steps, firstOK, lastOK)

/-- the literals shared by all satisfying valuations -/
def sharedLits (A : Arr) (T : Tab) : Array (Option Bool) := Id.run do
  let n := T.n
  if A.size < 2 then return Array.replicate n none
  -- pointers on some path from the root to one
  let mut on : Array Bool := Array.replicate A.size false
  on := on.setIfInBounds (root A) true
  let mut diff : Array Int := Array.replicate (n + 1) 0     -- coverage of skipped levels (difference array)
  let mut both : Array Bool := Array.replicate n false
  let mut sawF : Array Bool := Array.replicate n false
  let mut sawT : Array Bool := Array.replicate n false
  let top := varAt A (root A)
  diff := diff.modify 0 (· + 1)
  diff := diff.modify top (· - 1)
  for k in [0:A.size - 2] do
    let i := A.size - 1 - k
    if on[i]! then
      let nd := A[i]!
      let ll := T.live[nd.low]!
      let lh := T.live[nd.high]!
      if ll && lh then both := both.setIfInBounds nd.var true
      else if ll then sawF := sawF.setIfInBounds nd.var true
      else sawT := sawT.setIfInBounds nd.var true
      if ll then
        on := on.setIfInBounds nd.low true
        diff := diff.modify (nd.var + 1) (· + 1)
        diff := diff.modify (varAt A nd.low) (· - 1)
      if lh then
        on := on.setIfInBounds nd.high true
        diff := diff.modify (nd.var + 1) (· + 1)
        diff := diff.modify (varAt A nd.high) (· - 1)
  let mut out : Array (Option Bool) := Array.mkEmpty n
  let mut cover : Int := 0
  for k in [0:n] do
    cover := cover + diff[k]!
    let free := cover > 0 || both[k]! || (sawF[k]! && sawT[k]!)
    out := out.push (if free then none else if sawF[k]! then some false else if sawT[k]! then some true else none)
  return out

def firstFail (xs : List (Option String)) : Option String := xs.findSome? id

def checkValW (A : Arr) (T : Tab) (obs what : String) : Option String :=
  match unrleBits obs with
  | none => some (what ++ "-missing")
  | some v => if v.size == T.n && evalW A v then none else some (what ++ "-not-satisfying")

def expectVal (obs : String) (want : Array Bool) (what : String) : Option String :=
  if obs == rleBits want then none else some what

/-- predicate on the twelve deterministic observations -/
def checkWide (A : Arr) (T : Tab) (obs : List String) : Option String :=
  match obs with
  | [wit, fv, lv, mp, mn, fc, lc, mfx, mfr, nec, isc, isv] =>
    if !T.live[root A]! then
      firstFail (([wit, fv, lv, mp, mn, fc, lc, mfx, mfr] ++ (if nec == "skipped" then [] else [nec])).map (fun x =>
        if x == "none" then none else some "none-on-contradiction") ++
        [if isc == "0" then none else some "is_clause-on-contradiction",
         if isv == "0" then none else some "is_valuation-on-contradiction"])
    else
      let r := root A
      let top := varAt A r
      let clauseCheck (x what : String) (test : Nat × Bool × Bool → Bool) : Option String :=
        match unrle x with
        | none => some (what ++ "-missing")
        | some c =>
          if c.size != T.n then some (what ++ "-length") else
          match walkClause A T c with
          | none => some (what ++ "-not-a-path")
          | some w => if test w then none else some (what ++ "-not-extremal")
      let countCheck (x : String) (b : Bool) (best : Nat) (what : String) : Option String :=
        match unrleBits x with
        | none => some (what ++ "-missing")
        | some v => if countEq v b == best then none else some (what ++ "-not-max")
      firstFail [
        checkValW A T wit "sat_witness", checkValW A T fv "first_valuation", checkValW A T lv "last_valuation",
        checkValW A T mp "most_positive", checkValW A T mn "most_negative",
        expectVal fv (greedyVal A T false false) "first_valuation-not-least",
        expectVal lv (greedyVal A T true true) "last_valuation-not-greatest",
        countCheck mp true (top + T.maxT[r]!) "most_positive",
        countCheck mn false (top + T.maxF[r]!) "most_negative",
        expectVal mp (bestVal A T true) "most_positive-not-least-among-max",
        expectVal mn (bestVal A T false) "most_negative-not-least-among-max",
        clauseCheck fc "first_clause" (fun w => w.2.1),
        clauseCheck lc "last_clause" (fun w => w.2.2),
        clauseCheck mfx "most_fixed" (fun w => w.1 == T.maxL[r]!),
        clauseCheck mfr "most_free" (fun w => w.1 == T.minL[r]!),
        if nec == "skipped" then none else
          if nec == rleCells (sharedLits A T) then none else some "necessary_clause-not-exact",
        if isc == (if T.cntP[r]! == 1 then "1" else "0") then none else some "is_clause-wrong",
        if isv == (if T.cntP[r]! == 1 && T.minL[r]! == T.n then "1" else "0") then none else some "is_valuation-wrong"]
  | _ => some "arity"

def checkWideRand (A : Arr) (T : Tab) (obs : List String) : Option String :=
  match obs with
  | [rv, rc] =>
    if !T.live[root A]! then
      firstFail ([rv, rc].map fun x => if x == "none" then none else some "none-on-contradiction")
    else
      firstFail [checkValW A T rv "random_valuation",
        match unrle rc with
        | none => some "random_clause-missing"
        | some c => if c.size == T.n && (walkClause A T c).isSome then none else some "random_clause-not-a-path"]
  | _ => some "arity"

/-- the harness runs `necessary_clause` only below this many (decision nodes x variables) -/
def necBudget : Nat := 60000000

def modelWide (A : Arr) : List String :=
  let n := numVars A
  [showValW (satWitness A), showValW (firstValuation A), showValW (lastValuation A),
   showValW (mostPositiveValuation A), showValW (mostNegativeValuation A),
   showClauseW n (firstClause A), showClauseW n (lastClause A),
   showClauseW n (mostFixedClause A), showClauseW n (mostFreeClause A),
   if (A.size - 2) * n ≤ necBudget then showClauseW n (necessaryClause A) else "skipped",
   showOBW (isClause A), showOBW (isValuation A)]

def tagsW (key : String) (A : Arr) : List String :=
  let n := numVars A
  [key, s!"n{n}", s!"sz{Nat.log2 (A.size + 1)}", if (A.size - 2) * n ≤ necBudget then "nec" else "necskipped"]

def handleWide (key : String) (ins obs : List String) : Verdict :=
  match key, ins with
  | "C11.wide", [a] =>
    match parseArr? a with
    | some A =>
      if !wellFormed A then Verdict.bad "wide input not a canonical diagram (harness bug)" else
      let model := modelWide A
      let T := mkTab A
      { agree := model == obs, model := " ".intercalate (model.map fun s => (s.take 200).toString), fail := checkWide A T obs,
        nontrivial := A.size > 2, tags := tagsW "wide" A }
    | none => Verdict.bad "args"
  | "C11.widerand", [a, f] =>
    match parseArr? a, unrleBits f with
    | some A, some fl =>
      if !wellFormed A then Verdict.bad "wide input not a canonical diagram (harness bug)" else
      let n := numVars A
      let model := [showValW (randomValuation A fl.toList), showClauseW n (randomClause A fl.toList)]
      let T := mkTab A
      { agree := model == obs, model := " ".intercalate (model.map fun s => (s.take 200).toString), fail := checkWideRand A T obs,
        nontrivial := A.size > 2, tags := tagsW "widerand" A }
    | _, _ => Verdict.bad "args"
  | _, _ => Verdict.bad ("key " ++ key)

end B.Drive.C11Wide
