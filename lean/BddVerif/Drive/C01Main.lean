import BddVerif.Drive.C01
def main : IO Unit := B.Drive.runLoop B.Drive.C01.handle
