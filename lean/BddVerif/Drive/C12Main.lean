import BddVerif.Drive.C12
def main : IO Unit := B.Drive.runLoop B.Drive.C12.handle
