import BddVerif.Drive.C15
def main : IO Unit := B.Drive.runLoop B.Drive.C15.handle
