import BddVerif.Drive.C02
def main : IO Unit := B.Drive.runLoop B.Drive.C02.handle
