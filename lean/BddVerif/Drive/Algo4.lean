import BddVerif.Drive.Algo3
import BddVerif.Gen.Algo4
import BddVerif.Drive.C02
/-!
Driver for the fourth batch of GENERATED definitions (`Gen/Algo4.lean`: the owned iterator twins, the rest of the public
API) and for the replays that combine translated functions of all batches:
* `C08.owned` through the generated owned iterators,
* `C02.prog`: every operation of a history is recomputed from the OBSERVED pool by the translated public function,
* `C20.writeinv` / `C20.pieces` through the generated `write_bdd_as_dot` and the scripted writer.
Every other line goes to `B.Drive.Algo3.handle` (`drv_algo4` ⊇ `drv_algo3`).
-/
namespace B.Drive.Algo4
open B B.Drive B.Drive.Algo B.Drive.Algo2 B.Drive.Algo3 B.Gen.Algo B.Gen.Algo2 B.Gen.Algo3 B.Gen.Algo4

/-! ### C08.owned -/
abbrev OwnedVals := Nat × (Arr × Array Nat) × (Option (Array Bool) × Array (Option Bool))
abbrev OwnedPaths := Arr × Array Nat

/-- `it.next()` at most `k` times (`none` ends the loop), or until exhaustion when `k = none` (bounded by `limit`) -/
def takeVals (f : Nat) (it : OwnedVals) (k : Option Nat) (limit : Nat) : Outcome (List (Array Bool) × OwnedVals) := do
  let mut it := it
  let mut acc : List (Array Bool) := []
  let mut fin := false
  for _ in [0:(k.getD (limit + 1))] do
    let (item, it') ← OwnedBddSatisfyingValuations_next f it
    it := it'
    match item with
    | none =>
      fin := true
      break
    | some v => acc := v :: acc
  if k.isNone && !fin then Outcome.panic "fuel"
  return (acc.reverse, it)

def takePaths (f : Nat) (it : OwnedPaths) (k : Option Nat) (limit : Nat) : Outcome (List (Array (Option Bool)) × OwnedPaths) := do
  let mut it := it
  let mut acc : List (Array (Option Bool)) := []
  let mut fin := false
  for _ in [0:(k.getD (limit + 1))] do
    let (item, it') ← OwnedBddPathIterator_next f it
    it := it'
    match item with
    | none =>
      fin := true
      break
    | some c => acc := c :: acc
  if k.isNone && !fin then Outcome.panic "fuel"
  return (acc.reverse, it)

def limitOf (field : String) (A : Arr) : Nat := if field == "panic" then 2 ^ (min (numVars A) 16) + 2 else countSeq field + 2

/-- harness `fmt_clause_vals`: `<count>/<clause>><valuations>/…`, each clause fed to the generated `ValuationsOfClauseIterator` -/
def fmtClauseVals (n : Nat) : Outcome (List (Array (Option Bool))) → String
  | .ok cs => toString cs.length ++ String.join (cs.map fun c =>
      s!"/{fmtPartial c n}>{fmtVals (genClauseVals c n (2 ^ (min n 16) + 2))}")
  | .err _ => "err"
  | .panic m => if isFuel m then "panic:fuel" else "panic"

/-- `BddValuationIterator::new(n).collect()` through the generated (deprecated) wrapper -/
def genValIter (n : Nat) (limit : Nat) : Outcome (List (Array Bool)) := do
  let mut it := BddValuationIterator_new n
  let mut acc : List (Array Bool) := []
  let mut fin := false
  for _ in [0:limit + 1] do
    let (item, it') ← BddValuationIterator_next it
    it := it'
    match item with
    | none =>
      fin := true
      break
    | some v => acc := v :: acc
  if !fin then Outcome.panic "fuel"
  return acc.reverse

/-! ### C02.prog: one translated public function per operation of the harness' `exec` -/
def c02Fuel : Nat := 1000000000

def optNat (s : String) : Option Nat := if s == "-" then none else s.toNat?
def natOf (s : String) : Nat := s.toNat?.getD 0
def varsOf (s : String) : Array Nat := (C02.parseVars s).toArray
def litsOf (s : String) : Array (Nat × Bool) := (C02.parseLits s).toArray

/-- the translated counterpart of harness/src/bin/c02.rs `exec`; `none` = an operation this driver does not replay
    (the `nc*` operations: their operands come from the harness' own random mutator) -/
def genOp (vars : VSet) (pool : Array Arr) (f : List String) : Option (Outcome Arr) :=
  let p (s : String) : Arr := pool.getD (natOf s) #[]
  let F := c02Fuel
  match f with
  | ["not", i] => some (Bdd_not (p i))
  | ["and", i, j] => some (Bdd_and F (p i) (p j))
  | ["or", i, j] => some (Bdd_or F (p i) (p j))
  | ["xor", i, j] => some (Bdd_xor F (p i) (p j))
  | ["imp", i, j] => some (Bdd_imp F (p i) (p j))
  | ["iff", i, j] => some (Bdd_iff F (p i) (p j))
  | ["andnot", i, j] => some (Bdd_and_not F (p i) (p j))
  | ["ite", i, j, k] => some (Bdd_if_then_else F (p i) (p j) (p k))
  | ["bin", t, i, j] => some (Bdd_binary_op F (p i) (p j) (op2OfTable t))
  | ["fused", t, i, fl, j, fr, fo] => some (Bdd_fused_binary_flip_op F (p i, optNat fl) (p j, optNat fr) (optNat fo) (op2OfTable t))
  | ["ter", t, i, j, k] => some (Bdd_ternary_op F (p i) (p j) (p k) (op3OfTable t))
  | ["fused3", t, i, fa, j, fb, k, fc, fo] =>
    some (Bdd_fused_ternary_flip_op F (p i, optNat fa) (p j, optNat fb) (p k, optNat fc) (optNat fo) (op3OfTable t))
  | ["limit", t, i, j] => some ((Bdd_binary_op_with_limit F (2 ^ 30) (p i) (p j) (op2OfTable t)).bind Gen.Rust.unwrap)
  | ["exists", i, vs] => some (Bdd_exists F (p i) (varsOf vs))
  | ["forall", i, vs] => some (Bdd_for_all F (p i) (varsOf vs))
  | ["varexists", i, x] => some (Bdd_var_exists F (p i) (natOf x))
  | ["varforall", i, x] => some (Bdd_var_for_all F (p i) (natOf x))
  | ["bexists", t, i, j, vs] => some (Bdd_binary_op_with_exists F (p i) (p j) (op2OfTable t) (varsOf vs))
  | ["bforall", t, i, j, vs] => some (Bdd_binary_op_with_for_all F (p i) (p j) (op2OfTable t) (varsOf vs))
  | ["nested", t, i, j, mask, inner] =>
    let m := natOf mask
    some (Bdd_binary_op_nested F (p i) (p j) (fun v => (m >>> v) % 2 == 1) (op2OfTable t)
      (if inner == "or" then op_function__or else op_function__and))
  | ["select", i, ls] => some (Bdd_select F (p i) (litsOf ls))
  | ["restrict", i, ls] => some (Bdd_restrict F (p i) (litsOf ls))
  | ["varselect", i, x, b] => some (Bdd_var_select F (p i) (natOf x) (b == "1"))
  | ["varrestrict", i, x, b] => some (Bdd_var_restrict F (p i) (natOf x) (b == "1"))
  | ["pick", i, vs] => some (Bdd_pick F (p i) (varsOf vs))
  | ["varpick", i, x] => some (Bdd_var_pick F (p i) (natOf x))
  | ["pickrandom", i, vs, fl] => some ((Bdd_pick_random F (p i) (varsOf vs) (padFlips (parseBits fl))).map (·.1))
  | ["substitute", i, x, j] => some (Bdd_substitute F (p i) (natOf x) (p j))
  | ["dnf", i] => some (do BddVariableSet_mk_dnf F vars (← Bdd_to_dnf F (p i)))
  | ["optdnf", i] => some (do BddVariableSet_mk_dnf F vars (← Bdd_to_optimized_dnf F (p i)))
  | ["cnf", i] => some (do BddVariableSet_mk_cnf F vars (← Bdd_to_cnf F (p i)))
  | ["text", i] => some (do
      let (r, s) ← Bdd_fmt (p i) ""
      if let .error _ := r then Outcome.panic "a Display implementation returned an error unexpectedly"
      Bdd_from_string s)
  | ["bytes", i] => some (do
      let bs ← Bdd_to_bytes (p i)
      let (b, _) ← Bdd_from_bytes F bs
      pure b)
  | ["nodes", i] => some (do Gen.Rust.unwrapR (← Bdd_from_nodes (Bdd_to_nodes (p i))))
  | ["expr", i] => some (do BddVariableSet_eval_expression F vars (← Bdd_to_boolean_expression (p i) vars))
  | ["exprtext", i] => some (do
      let e ← Bdd_to_boolean_expression (p i) vars
      let (r, s) ← BooleanExpression_fmt F e ""
      if let .error _ := r then Outcome.panic "a Display implementation returned an error unexpectedly"
      BddVariableSet_eval_expression_string F vars s)
  | ["transfer", i] => some (do Gen.Rust.unwrap (← BddVariableSet_transfer_from vars (p i) vars))
  | ["renamevar", i, o, nw] => some (Bdd_rename_variable (p i) (natOf o) (natOf nw))
  | ["mkvar", x] => some (.ok (BddVariableSet_mk_var vars (natOf x)))
  | ["mknotvar", x] => some (.ok (BddVariableSet_mk_not_var vars (natOf x)))
  | ["mktrue"] => some (.ok (BddVariableSet_mk_true vars))
  | ["mkfalse"] => some (.ok (BddVariableSet_mk_false vars))
  | ["satk", k, vs] => some (BddVariableSet_mk_sat_exactly_k F vars (natOf k) (varsOf vs))
  | ["satupk", k, vs] => some (BddVariableSet_mk_sat_up_to_k F vars (natOf k) (varsOf vs))
  | ["clause", ls] => some (do BddVariableSet_mk_conjunctive_clause vars (← BddPartialValuation_from_values (litsOf ls)))
  | ["dclause", ls] => some (do BddVariableSet_mk_disjunctive_clause vars (← BddPartialValuation_from_values (litsOf ls)))
  | ["valuation", bs] => some (Bdd_from (BddValuation_new (parseBits bs).toArray))
  | _ => none

structure ProgAcc where
  pool : Array Arr
  replayed : Nat := 0
  skipped : Nat := 0
  disagree : List String := []
  names : List String := []

/-! ### C20.writeinv / C20.pieces: `write_bdd_as_dot` on scripted writers -/
inductive WRes where
  | ok (out : Array Nat) | err (out : Array Nat) | panic | other (m : String)

def runDot (A : Arr) (names : Array String) (pruned : Bool) (script : List Gen.Rust.IoEv) : WRes :=
  match write_bdd_as_dot { script := script } A names pruned with
  | .ok (.ok _, w) => .ok w.out
  | .ok (.error _, w) => .err w.out
  | .panic m => if isFuel m then .other "panic:fuel" else .panic
  | .err m => .other m

def bigGive : Gen.Rust.IoEv := .give 1000000000

/-- sink after `j` complete `write` calls followed by a failing one -/
def afterCalls (A : Arr) (names : Array String) (pruned : Bool) (j : Nat) : WRes :=
  runDot A names pruned (List.replicate j bigGive ++ [.fail])

/-- What the translated function tells about a run that PANICS (a panic of the generated code drops the `&mut` sink):
    `some (lens, P)` — the lengths of the complete `write` calls before the panic and the sink contents up to, but not
    including, the last byte written before the panic (that byte can only be seen in a run that goes on to panic).
    Found by letting the sink fail after j calls (j = 0, 1, …) and then after k bytes of the next call. -/
def panicPrefix (A : Arr) (names : Array String) (pruned : Bool) (maxCalls : Nat) : Option (List Nat × Array Nat) := Id.run do
  let mut prev : Array Nat := #[]
  let mut lens : List Nat := []
  for j in [0:maxCalls] do
    match afterCalls A names pruned j with
    | .err out =>
      if j > 0 then lens := lens ++ [out.size - prev.size]
      prev := out
    | .panic =>
      -- j complete calls precede the panic; `prev` holds j-1 of them (or nothing when j = 0)
      if j == 0 then return some ([], #[])
      let mut last := prev
      let mut klen := 0
      for k in [1:100000] do
        match runDot A names pruned (List.replicate (j - 1) bigGive ++ [.give k, .fail]) with
        | .err out => last := out
        | _ =>
          klen := k
          break
      return some (lens ++ [klen], last)
    | _ => return none
  return none

def handle (key : String) (ins obs : List String) : Verdict :=
  match key, ins, obs with
  | "C08.owned", [b, ks], [vals, cls, backV, backC, takenV, takenC] =>
    match parseArr? b, ks.toNat? with
    | some A, some k =>
      let n := numVars A
      let f := fuelVals A
      let gVals := fmtVals (do
        let it ← Bdd_into_sat_valuations f A
        let (l, _) ← takeVals f it none (limitOf vals A)
        pure l)
      let gCls := showOClauses (fmtSeq · n) (do
        let it ← OwnedBddPathIterator_from f A
        let (l, _) ← takePaths f it none (limitOf cls A)
        pure l)
      let gBackV : Outcome (String × String) := do
        let it ← OwnedBddSatisfyingValuations_from f A
        let (l, it') ← takeVals f it (some k) 0
        let back ← bdd_satisfying_valuations__Bdd_from f it'
        pure (showArr back, fmtVals (.ok l))
      let gBackC : Outcome (String × String) := do
        let it ← Bdd_into_sat_clauses f A
        let (l, it') ← takePaths f it (some k) 0
        pure (showArr (bdd_path_iterator__Bdd_from it'), fmtSeq l n)
      let pair := fun (o : Outcome (String × String)) => match o with
        | .ok x => x
        | .panic m => if isFuel m then ("panic:fuel", "panic:fuel") else ("panic", "panic")
        | .err _ => ("err", "err")
      let (bv, tv) := pair gBackV
      let (bc, tc) := pair gBackC
      mk (" ".intercalate [gVals, gCls, bv, bc, tv, tc]) (" ".intercalate [vals, cls, backV, backC, takenV, takenC]) none
        ["owned_iterators"]
    | _, _ => Verdict.bad "args"
  | "C08.dnfvals", [b], [dnf, it] =>
    match parseArr? b with
    | some A =>
      let n := numVars A
      let cnt := fun (f : String) => if f == "panic" then 2 ^ (min n 16) + 2 else ((f.splitOn "/").headD "0").toNat?.getD 0 + 2
      mk s!"{fmtClauseVals n (genDnf A (cnt dnf))} {fmtClauseVals n (genPaths A (cnt it))}" s!"{dnf} {it}" none ["to_dnf", "path_iterator", "clause_valuations"]
    | none => Verdict.bad "args"
  | "C08.hvals", [h, ns], [vals, clause] =>
    match ns.toNat?, applyHistory h with
    | some n, .ok c => mk s!"{fmtVals (genClauseVals c n (2 ^ (min n 16) + 2))} {fmtPartial c (max n 6)}" s!"{vals} {clause}" none ["clause_valuations", "partial_valuation"]
    | _, _ => Verdict.bad "args"
  | "C08.uvals", [ns], [_, d, _] =>
    match ns.toNat? with
    | some n =>
      let v := Algo3.handle key ins obs
      let v2 := mk (fmtVals (genValIter n (countSeq d + 2))) d none ["BddValuationIterator"]
      { v with agree := v.agree && v2.agree, model := v.model ++ " | " ++ v2.model, tags := v.tags ++ v2.tags }
    | none => Verdict.bad "args"
  | "C02.prog", [ns, inits, ops], [results, _, flags] =>
    match ns.toNat?, (inits.splitOn ";").mapM parseArr? with
    | some n, some initL =>
      match BddVariableSet_new_anonymous n with
      | .ok vars => Id.run do
        let mut acc : ProgAcc := { pool := initL.toArray }
        for (op, res) in (ops.splitOn ";").zip (results.splitOn ";") do
          let f := op.splitOn ":"
          match genOp vars acc.pool f with
          | none => acc := { acc with skipped := acc.skipped + 1 }
          | some o =>
            let g := showOA o
            acc := { acc with replayed := acc.replayed + 1, names := if acc.names.contains (f.headD "") then acc.names else (f.headD "") :: acc.names }
            if g != res then acc := { acc with disagree := s!"{op}->{(g.take 200).toString}" :: acc.disagree }
          -- the next operations work on the OBSERVED pool (a panic leaves element 0 in its place, as the harness does)
          acc := { acc with pool := acc.pool.push (if res == "panic" then acc.pool.getD 0 #[] else (parseArr? res).getD #[]) }
        -- `is_true` / `is_false` of the results as the translated accessors report them
        let gFlags := String.ofList ((acc.pool.toList.drop initL.length).map fun a =>
          if Bdd_is_false a then 'F' else if Bdd_is_true a then 'T' else '-')
        if gFlags != flags then acc := { acc with disagree := s!"flags->{gFlags}" :: acc.disagree }
        return { agree := acc.disagree.isEmpty,
                 model := if acc.disagree.isEmpty then "" else "gen:" ++ ";".intercalate acc.disagree.reverse,
                 nontrivial := acc.replayed > 0,
                 tags := ["history", s!"replayed{acc.replayed}", s!"unreplayed{acc.skipped}"] ++ acc.names.reverse }
      | _ => Verdict.bad "variable set"
    | _, _ => Verdict.bad "args"
  | "C20.writeinv", [b, ns, pr, sc], o =>
    match parseArr? b with
    | some A =>
      match BddVariableSet_new (decNames ns).toArray with
      | .ok vs =>
        let pruned := pr == "1"
        let names := vs.2.1
        let text := Bdd_to_dot_string A vs pruned
        let len := match text with | .ok t => (Gen.Rust.utf8Bytes t).size | _ => 64 * A.size + 256
        let f1 := match text with | .ok t => "x" ++ hexOfNats' (Gen.Rust.utf8Bytes t) | _ => "panic"
        -- `g4096^j` = j times `g4096`
        let script := (sc.splitOn ".").flatMap fun tok =>
          match tok.splitOn "^" with
          | [ev, rep] => (List.replicate (rep.toNat?.getD 0) ev).flatMap (parseSinkScript · len)
          | _ => parseSinkScript tok len
        let same := fun (out : Array Nat) => match text with
          | .ok t => if out == Gen.Rust.utf8Bytes t then "=" else "x" ++ hexOfNats' out
          | _ => "x" ++ hexOfNats' out
        match runDot A names pruned script with
        | .ok out => mk s!"{f1} ok {same out}" (" ".intercalate o) none ["write_bdd_as_dot", "invalid"]
        | .err out => mk s!"{f1} err {same out}" (" ".intercalate o) none ["write_bdd_as_dot", "invalid"]
        | .other m => mk s!"{f1} {m}" (" ".intercalate o) none ["write_bdd_as_dot", "invalid"]
        | .panic =>
          -- the sink of a panicking run: everything but its last byte is reproduced (see `panicPrefix`)
          match o with
          | [t, st, got] =>
            let sink := unhexNats (got.drop 1).toString
            let okSink := match panicPrefix A names pruned (32 * A.size + 64) with
              | some (_, P) => if P.isEmpty && sink.isEmpty then true else sink.size == P.size + 1 && sink.extract 0 P.size == P
              | none => false
            mk s!"{f1} panic {if okSink then got else "sink-prefix-differs"}" s!"{t} {st} {got}" none ["write_bdd_as_dot", "invalid", "panic"]
          | _ => mk s!"{f1} panic" (" ".intercalate o) none ["write_bdd_as_dot", "invalid", "panic"]
      | _ => mk "badset" (" ".intercalate o) none ["BddVariableSet_new"]
    | none => Verdict.bad "args"
  | "C20.pieces", [b, ns, pr], o =>
    match parseArr? b with
    | some A =>
      match BddVariableSet_new (decNames ns).toArray with
      | .ok vs =>
        let pruned := pr == "1"
        let names := vs.2.1
        -- the lengths of the `write` calls into an accepting sink: differences of the sink sizes when the (j+1)-th call fails
        let g : String := Id.run do
          match runDot A names pruned [] with
          | .ok total =>
            let mut prev := 0
            let mut lens : List Nat := []
            for j in [1:32 * A.size + 64] do
              match afterCalls A names pruned j with
              | .err out =>
                lens := lens ++ [out.size - prev]
                prev := out.size
              | .ok out =>
                if out.size != total.size then return "inconsistent"
                if out.size > prev then lens := lens ++ [out.size - prev]
                break
              | _ => return "inconsistent"
            return "ok " ++ showNats lens
          | .panic =>
            match panicPrefix A names pruned (32 * A.size + 64) with
            | some (lens, _) => return "panic " ++ showNats lens
            | none => return "panic ?"
          | .err _ => return "err"
          | .other m => return m
        mk g (" ".intercalate o) none ["write_bdd_as_dot", "pieces"]
      | _ => mk "badset" (" ".intercalate o) none ["BddVariableSet_new"]
    | none => Verdict.bad "args"
  | "C01.named", [name, _, _], [_, table] =>
    -- additionally: the translated `op_function::<name>` has the observed table
    let v := Algo3.handle key ins obs
    let op : Option Op2 := match name with
      | "and" => some op_function__and | "or" => some op_function__or | "imp" => some op_function__imp
      | "iff" => some op_function__iff | "xor" => some op_function__xor | "and_not" => some op_function__and_not | _ => none
    match op with
    | some op =>
      let v2 := mk (tableOfOp2 op) table none ["op_function"]
      { v with agree := v.agree && v2.agree, model := v.model ++ " | " ++ v2.model, tags := v.tags ++ v2.tags }
    | none => v
  | _, _, _ => Algo3.handle key ins obs

end B.Drive.Algo4
