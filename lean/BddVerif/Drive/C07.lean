import BddVerif.Drive.Util
import BddVerif.Core.ApplyCanon
import BddVerif.Model.Substitute
/-!
Driver for C07. The model (`Model/Substitute.lean`) is re-run and compared with the observed outcome; the
property's predicate is evaluated on the OBSERVED result, without the model: for valid operands over the
same `n` variables and `x < n`, the result is a valid diagram whose truth table is
`v ↦ f (v[x := g v])` on all `2ⁿ` valuations and the outcome is not a panic (nor a hang). Strictly the
statement's clauses FAIL; validity / canonicity of the result (property C02) are tags `note-…` and agreement
with the model; inputs outside the quantifier (65 535 variables, different variable counts, `x ≥ num_vars`,
invalid operands) are agreement only.
-/
namespace B.Drive.C07
open B B.Drive B.Ren B.Ren.Subst

def maxTT : Nat := 12

def showOutcome : Outcome Arr → String
  | .ok r => showArr r
  | .err _ => "err"
  | .panic _ => "panic"

def kindOf (res : String) : String := if res == "panic" then "panic" else if res == "hang" then "hang" else "ok"

def firstFail (xs : List (Option String)) : Option String := xs.findSome? id

/-- pseudo-random valuations for diagrams too wide for a full truth table (same mixing as `Drive/C01.lean`) -/
def sampleVal (n k : Nat) : Nat → Bool := fun j =>
  let z := (k + 1) * 0x9E3779B97F4A7C15 % 2 ^ 64
  let z := (z ^^^ (z >>> 29)) * 0xBF58476D1CE4E5B9 % 2 ^ 64
  let z := (z ^^^ (z >>> 32))
  j < n && (z >>> (j % 60)) % 2 == 1

def samples : Nat := 4096

/-- the composition identity on `samples` pseudo-random valuations -/
def compositionSampled (f g r : Arr) (n x : Nat) : Bool :=
  (List.range samples).all fun k =>
    let v := sampleVal n k
    let gv := evalArr g v
    evalArr r v == evalArr f (fun y => if y = x then gv else v y)

/-- EXACT test of `r(v) = f(v[x := g v])` for valid diagrams of any width: memoised simultaneous walk over
    `(p in r, a in f with x := 1, c in f with x := 0, q in g)`; when all four are terminals the identity reads
    `p = if q then a else c`. `none` = more than `budget` states (inconclusive, the sampled test decides). -/
def compositionExact (f g r : Arr) (x budget : Nat) : Option Bool := Id.run do
  let inf := 1000000
  let skipX := fun (a : Nat) (hi : Bool) =>
    if a < 2 then a else
      let nd := f[a]?.getD default
      if nd.var == x then (if hi then nd.high else nd.low) else a
  let varAt := fun (A : Arr) (a : Nat) => if a < 2 then inf else (A[a]?.getD default).var
  let step := fun (A : Arr) (a d : Nat) (β : Bool) =>
    if a < 2 then a else
      let nd := A[a]?.getD default
      if nd.var == d then (if β then nd.high else nd.low) else a
  let mut stack : Array (Nat × Nat × Nat × Nat) := #[(root r, root f, root f, root g)]
  let mut seen : Std.HashSet (Nat × Nat × Nat × Nat) := {}
  for _ in [0:3 * budget + 8] do
    match stack.back? with
    | none => return some true
    | some (p, a0, c0, q) =>
      stack := stack.pop
      let a1 := skipX a0 true
      let c1 := skipX c0 false
      -- once `g` is decided only one branch of `f` matters
      let a := if q == 0 then c1 else a1
      let c := if q == 1 then a1 else c1
      if seen.contains (p, a, c, q) then continue
      seen := seen.insert (p, a, c, q)
      if seen.size > budget then return none
      if p < 2 && a < 2 && c < 2 && q < 2 then
        if p != (if q == 1 then a else c) then return some false
      else
        let d := min (min (varAt r p) (varAt f a)) (min (varAt f c) (varAt g q))
        stack := (stack.push (step r p d false, step f a d false, step f c d false, step g q d false)).push
          (step r p d true, step f a d true, step f c d true, step g q d true)
  return (if stack.isEmpty then some true else none)

/-- the variables some decision node of the given diagrams is labelled with, plus `x` (no duplicates) -/
def usedVars (As : List Arr) (x : Nat) : List Nat :=
  (As.flatMap fun A => (A.toList.drop 2).map (·.var)).foldl (fun acc y => if acc.contains y then acc else acc ++ [y]) [x]

/-- `r(v) = f(v[x := g v])` on every valuation of the USED variables (all others false): the three
    diagrams read no other variable, so this is the identity on all `2ⁿ` valuations -/
def compositionHolds (f g r : Arr) (x : Nat) : Option Bool :=
  let used := usedVars [f, g, r] x
  if used.length > maxTT then none else
  some ((List.range (2 ^ used.length)).all fun i =>
    let v : Nat → Bool := fun y => match used.idxOf? y with | some j => (i >>> j) % 2 == 1 | none => false
    let gv := evalArr g v
    evalArr r v == evalArr f (fun y => if y = x then gv else v y))

/-- brute-force support -/
def mentions (A : Arr) (x : Nat) : Bool := (A.toList.drop 2).any (·.var == x)

def handle (key : String) (ins obs : List String) : Verdict :=
  match key, ins, obs with
  | "C07.sub", [fs, gs, xs], [res] =>
    match parseArr? fs, parseArr? gs, xs.toNat? with
    | some f, some g, some x =>
      let n := numVars f
      let model := showOutcome (substitute f x g)
      let path := if !mentions f x then "unchanged" else if !mentions g x then "safe" else "clash"
      -- the property's quantifier, strictly by its statement: f, g valid diagrams over the same variables,
      -- x one of these variables, fewer than the maximum number (65 535) of variables. Everything else
      -- (65 535 variables, different variable counts, x ≥ num_vars, invalid operands) is agreement only.
      let valid := wfoB f n && wfoB g n && numVars g == n && decide (x < n) && decide (n + 1 < 65536)
      let fail :=
        if !valid then none else
        match parseArr? res with
        | some r => firstFail [
            -- the statement's clause: the value at every valuation (validity and canonicity of the result are
            -- C02's; here they are notes in the tags and, through the model, agreement)
            if n > maxTT then
              (match compositionHolds f g r x with
               | some false => some "not-the-composition"
               | some true => none
               | none =>
                 -- the exact walk presupposes an ordered result
                 match (if wfoB r n then compositionExact f g r x 6000000 else none) with
                 | some false => some "not-the-composition(exact walk)"
                 | some true => none
                 | none => if compositionSampled f g r n x then none else some "not-the-composition(sampled)")
            else
              if (List.range (2 ^ n)).all fun i =>
                let v := valOfIndex n i
                let gv := evalArr g v
                evalArr r v == evalArr f (fun y => if y = x then gv else v y)
              then none else some "not-the-composition" ]
        | none => some ("outcome:" ++ res)   -- panic / hang inside the quantifier
      let notes := match parseArr? res with
        | some r =>
          (if wfoB r n then [] else ["note-result-not-valid"]) ++
          (if (isCanon f || path != "unchanged") && !isCanon r then ["note-result-not-canonical"] else [])
        | none => []
      let extra :=
        (if mentions g x && (List.range n).any (fun y => y != x && mentions g y && !mentions f y) then ["g-has-foreign-var"] else []) ++
        (if isCanon f && isCanon g then [] else ["noncanonical-operand"])
      { agree := model == res, model, fail,
        nontrivial := valid && path != "unchanged" && g.size > 2,
        tags := [path, s!"n{n}", if valid then "valid" else (if ¬ n + 1 < 65536 then "max-vars" else if ¬ x < n then "x-not-a-variable" else "invalid-input"),
          kindOf res] ++ (if n ≥ 300 then ["boundary"] else []) ++
          (if f.size > 65536 || g.size > 65536 then ["big-operand"] else []) ++ extra ++ notes }
    | _, _, _ => Verdict.bad "args"
  | _, _, _ => Verdict.bad ("key " ++ key)

end B.Drive.C07
