import BddVerif.Drive.C08
def main : IO Unit := B.Drive.runLoop B.Drive.C08.handle
