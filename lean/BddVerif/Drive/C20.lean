import BddVerif.Drive.Util
import BddVerif.Drive.Hex
import BddVerif.Model.Dot
/-!
Driver for C20: `agree` = the observed text is byte for byte `render (dotStmts …)` (or both panic).
The property predicate is evaluated on the observed TEXT, without `render`/`dotStmts`: the text is read back
with `parseDot` and compared with the node array `A`:
  * one header (first), one footer (last), one invisible entry vertex, exactly one entry edge, to the root;
  * terminal vertices: `0` and `1`, only `1` with zero-pruning;
  * exactly one vertex per decision node `p ≥ 2`, labelled `names[var p]`;
  * exactly the edges `p → high(p)` solid and `p → low(p)` dotted, except — with zero-pruning — those into 0;
  * the graph read back evaluates like `A` on all valuations (n ≤ 12; sampled above), a missing edge meaning 0
    (only for arrays that are valid Bdds).
Labels that would need escaping (`"`, `\`, LF, CR) make the text unreadable for any `.dot` reader; the
property is not claimed for them (they are compared with the model only, tag `unsafe-label`).
-/
namespace B.Drive.C20
open B B.Drive B.Dot B.Drive.Hex

def maxTT : Nat := 12

def safeName (s : String) : Bool := !(s.toList.any fun c => c == '"' || c == '\\' || c == '\n' || c == '\r')

/-- valid Bdd: terminals exact, variables below `n`, links in range, variables strictly increasing along edges -/
def wellFormed (A : Arr) : Bool :=
  let n := numVars A
  A.size ≥ 1 && A[0]! == ⟨n, 0, 0⟩ && (A.size < 2 || A[1]! == ⟨n, 1, 1⟩) &&
  (List.range' 2 (A.size - 2)).all fun p =>
    let nd := A[p]!
    nd.var < n && nd.low < A.size && nd.high < A.size && nd.var < (A[nd.low]!).var && nd.var < (A[nd.high]!).var

def count (ss : List Stmt) (s : Stmt) : Nat := (ss.filter (· == s)).length

def sameSet {α} [BEq α] (xs ys : List α) : Bool :=
  xs.length == ys.length && xs.all ys.elem && ys.all xs.elem && xs.eraseDups.length == xs.length

def samples (n : Nat) : List (Nat → Bool) :=
  [fun _ => false, fun _ => true, fun i => i % 2 == 0, fun i => i % 2 == 1, fun i => i % 3 == 0,
   fun i => (i * 7 + 3) % 5 < 2, fun i => i < n / 2, fun i => i ≥ n / 2]

def checkDot (A : Arr) (names : List String) (pruned : Bool) (text : String) : Option String :=
  match parseDot text with
  | none => some "unparsable"
  | some ss =>
    let n := numVars A
    let inner := List.range' 2 (A.size - 2)
    let vertices := ss.filterMap fun | .vertex p l => some (p, l) | _ => none
    let edges := ss.filterMap fun | .edge p q s => some (p, q, s == Style.filled) | _ => none
    let entries := ss.filterMap fun | .initEdge p => some p | _ => none
    let terminals := ss.filterMap fun | .terminal b => some b | _ => none
    let expVertices := inner.map fun p => (p, names.getD (A[p]!).var "?")
    let expEdges := inner.flatMap fun p =>
      let nd := A[p]!
      (if pruned && nd.high == 0 then [] else [(p, nd.high, true)]) ++
      (if pruned && nd.low == 0 then [] else [(p, nd.low, false)])
    if ss.head? != some .header || ss.getLast? != some .footer || count ss .header != 1 || count ss .footer != 1 then
      some "frame"
    else if count ss .initNode != 1 then some "entry-vertex"
    else if entries != [A.size - 1] then some "entry-edge"
    else if !sameSet terminals (if pruned then [true] else [false, true]) then some "terminals"
    else if !sameSet vertices expVertices then some "vertices"
    else if !sameSet edges expEdges then some "edges"
    else if !wellFormed A then none
    else
      let val (v : Nat → Bool) : String → Bool := fun s => v (names.idxOf s)
      let ok (v : Nat → Bool) : Bool := evalDot ss (val v) (n + 1) == evalArr A v
      if n ≤ maxTT then
        (if (List.range (2 ^ n)).all fun i => ok (valOfIndex n i) then none else some "evaluation")
      else if (samples n).all ok then none else some "evaluation"

/-- `i.g3.*7` (see harness): `*K` = as many `give K` as `len` bytes can need -/
def parseScript? (s : String) (len : Nat) : Option (List Serial.Ev) :=
  if s == "~" then some [] else
  (s.splitOn ".").foldlM (init := []) fun acc tok =>
    if tok == "i" then some (acc ++ [Serial.Ev.interrupted])
    else if tok == "e" then some (acc ++ [Serial.Ev.fail])
    else match tok.toList with
      | '*' :: k => (String.ofList k).toNat?.map fun k => acc ++ List.replicate (len + 2) (Serial.Ev.give k)
      | 'g' :: k => (String.ofList k).toNat?.map fun k => acc ++ [Serial.Ev.give k]
      | _ => none

def isFault : Serial.Ev → Bool
  | .fail => true
  | .give 0 => true
  | _ => false

/-- the first fault of the script is reached whatever pieces are written: the gives before it cannot cover `len` bytes -/
def faultEarly (script : List Serial.Ev) (len : Nat) : Bool :=
  let pre := script.takeWhile (fun e => !isFault e)
  pre.length < script.length &&
    (pre.foldl (fun a e => match e with | .give k => a + k | _ => a) 0) < len

def hexOfBytes (bs : List UInt8) : String :=
  String.ofList ('x' :: bs.flatMap fun b => [hexDigit (b.toNat / 16), hexDigit (b.toNat % 16)])

def dotVerdict (A : Arr) (names : List String) (pruned : Bool) (text : String) : Option String :=
  let safe := names.all safeName
  let claimed := names.length == numVars A && wellFormed A
  if text == "panic" then (if claimed then some "outcome:panic" else none)
  else if !safe then none
  else match decText? 'x' text with
    | none => some "not-utf8"
    | some t => checkDot A names pruned t

def handle (key : String) (ins obs : List String) : Verdict :=
  match key, ins, obs with
  | "C20.write", [bdd, names, pruned, script], [text, status, got] =>
    match parseArr? bdd, decNames? names with
    | some A, some names =>
      let pruned := pruned == "1"
      let mt := toDotString A names pruned
      let len := match mt with | .ok t => (textBytes t).length | _ => 0
      match parseScript? script len with
      | none => Verdict.bad "script"
      | some sc =>
        let model := match writeDotIO A names pruned sc, mt with
          | .ok (ok, out), .ok t =>
            encText 'x' t ++ (if ok then " ok =" else " err " ++ hexOfBytes out)
          | _, _ => "panic panic ~"
        -- the partial output under an error depends on how `format_args!` cuts the text; compared: text, status, and
        -- the complete output when the call returned Ok
        let agree := match writeDotIO A names pruned sc, mt with
          | .ok (ok, _), .ok t => text == encText 'x' t && status == (if ok then "ok" else "err") && (!ok || got == "=")
          | _, _ => text == "panic"
        let hasFault := sc.any isFault
        let fail := (dotVerdict A names pruned text) <|>
          (if text == "panic" then none
           else if status == "ok" then
             (if got != "=" then some "sink-bytes-differ-from-to_dot_string"
              else if faultEarly sc ((text.length - 1) / 2) then some "hard-error-swallowed" else none)
           else if status == "err" then
             (if !hasFault then some "spurious-error"
              else if !((got.drop 1).toString.isPrefixOf (text.drop 1).toString) && got != "=" then some "sink-not-a-prefix" else none)
           else some ("outcome:" ++ status))
        { agree, model := if model.length > 300 then (model.take 300).toString ++ "…" else model, fail,
          nontrivial := A.size > 2 && text != "panic",
          tags := ["write", status, if hasFault then "fault" else if sc.isEmpty then "whole" else "chunked",
            if len > 30000 then "big" else "small"] }
    | _, _ => Verdict.bad "args"
  | "C20.dot", [bdd, names, pruned], [text, written] =>
    match parseArr? bdd, decNames? names with
    | some A, some names =>
      let pruned := pruned == "1"
      let model := match toDotString A names pruned with
        | .ok t => encText 'x' t
        | _ => "panic"
      let safe := names.all safeName
      let fail :=
        if text != "panic" && written != "=" then some "write_as_dot_string-differs"
        else dotVerdict A names pruned text
      { agree := model == text, model := if model.length > 300 then (model.take 300).toString ++ "…" else model, fail,
        nontrivial := A.size > 2 && text != "panic",
        tags := [if pruned then "pruned" else "full",
          if text == "panic" then "panic" else if !safe then "unsafe-label" else if !wellFormed A then "invalid-bdd"
          else if !isCanon A then "non-canonical" else if A.size ≤ 2 then "const" else "canonical",
          s!"nodes{Nat.log2 (A.size + 1)}"] }
    | _, _ => Verdict.bad "args"
  | "C20.dot", _, ["badset"] => Verdict.bad "harness generated an invalid name set"
  | _, _, _ => Verdict.bad ("key " ++ key)

end B.Drive.C20
