import BddVerif.Drive.Util
import BddVerif.Drive.Hex
import BddVerif.Model.Dot
/-!
Driver for C20: `agree` = the observed text is byte for byte `render (dotStmts …)` (or both panic).
The property predicate is evaluated on the observed TEXT, without `render`/`dotStmts`: the text is read back
with `parseDot` and compared with the node array `A`:
  * one header (first), one footer (last), one invisible entry vertex, exactly one entry edge, to the root;
  * terminal vertices: `0` and `1`, only `1` with zero-pruning;
  * exactly one vertex per decision node `p ≥ 2`, labelled `names[var p]`;
  * exactly the edges `p → high(p)` solid and `p → low(p)` dotted, except — with zero-pruning — those into 0;
  * the graph read back evaluates like `A` on all valuations (n ≤ 12; sampled above), a missing edge meaning 0
    (only for arrays that are valid Bdds).
Clauses follow the statement strictly. Outside it, i.e. compared with the model only (a difference is a plain DIS):
a wrong number of names, invalid diagrams (`C20.writeinv`), labels that need escaping, how the text is cut into `write`
calls (`C20.pieces`), byte-exact equality of the text, everything about `Err` outcomes of a sink (which error, what
reached the sink), and the observation `hang`. An export into a sink that returns `Ok` is judged by the graph clauses
on what the sink received.
Labels that would need escaping (`"`, `\`, LF, CR) make the text unreadable for any `.dot` reader; the
property is not claimed for them (they are compared with the model only, tag `unsafe-label`).
-/
namespace B.Drive.C20
open B B.Drive B.Dot B.Drive.Hex

def maxTT : Nat := 12

def safeName (s : String) : Bool := !(s.toList.any fun c => c == '"' || c == '\\' || c == '\n' || c == '\r')

/-- valid Bdd: terminals exact, variables below `n`, links in range, variables strictly increasing along edges -/
def wellFormed (A : Arr) : Bool :=
  let n := numVars A
  A.size ≥ 1 && A[0]! == ⟨n, 0, 0⟩ && (A.size < 2 || A[1]! == ⟨n, 1, 1⟩) &&
  (List.range' 2 (A.size - 2)).all fun p =>
    let nd := A[p]!
    nd.var < n && nd.low < A.size && nd.high < A.size && nd.var < (A[nd.low]!).var && nd.var < (A[nd.high]!).var

def count (ss : List Stmt) (s : Stmt) : Nat := (ss.filter (· == s)).length

def sameSet {α} [BEq α] (xs ys : List α) : Bool :=
  xs.length == ys.length && xs.all ys.elem && ys.all xs.elem && xs.eraseDups.length == xs.length

def samples (n : Nat) : List (Nat → Bool) :=
  [fun _ => false, fun _ => true, fun i => i % 2 == 0, fun i => i % 2 == 1, fun i => i % 3 == 0,
   fun i => (i * 7 + 3) % 5 < 2, fun i => i < n / 2, fun i => i ≥ n / 2]

def checkDot (A : Arr) (names : List String) (pruned : Bool) (text : String) : Option String :=
  match parseDot text with
  | none => some "unparsable"
  | some ss =>
    let n := numVars A
    let inner := List.range' 2 (A.size - 2)
    let vertices := ss.filterMap fun | .vertex p l => some (p, l) | _ => none
    let edges := ss.filterMap fun | .edge p q s => some (p, q, s == Style.filled) | _ => none
    let entries := ss.filterMap fun | .initEdge p => some p | _ => none
    let terminals := ss.filterMap fun | .terminal b => some b | _ => none
    let expVertices := inner.map fun p => (p, names.getD (A[p]!).var "?")
    let expEdges := inner.flatMap fun p =>
      let nd := A[p]!
      (if pruned && nd.high == 0 then [] else [(p, nd.high, true)]) ++
      (if pruned && nd.low == 0 then [] else [(p, nd.low, false)])
    if ss.head? != some .header || ss.getLast? != some .footer || count ss .header != 1 || count ss .footer != 1 then
      some "frame"
    else if count ss .initNode != 1 then some "entry-vertex"
    else if entries != [A.size - 1] then some "entry-edge"
    else if !sameSet terminals (if pruned then [true] else [false, true]) then some "terminals"
    else if !sameSet vertices expVertices then some "vertices"
    else if !sameSet edges expEdges then some "edges"
    else if !wellFormed A then none
    else
      let val (v : Nat → Bool) : String → Bool := fun s => v (names.idxOf s)
      let ok (v : Nat → Bool) : Bool := evalDot ss (val v) (n + 1) == evalArr A v
      if n ≤ maxTT then
        (if (List.range (2 ^ n)).all fun i => ok (valOfIndex n i) then none else some "evaluation")
      else if (samples n).all ok then none else some "evaluation"

/-- `i.g3.*7` (see harness): `*K` = as many `give K` as `len` bytes can need -/
def parseScript? (s : String) (len : Nat) : Option (List Serial.Ev) :=
  if s == "~" then some [] else
  (s.splitOn ".").foldlM (init := []) fun acc tok =>
    if tok == "i" then some (acc ++ [Serial.Ev.interrupted])
    else if tok == "e" then some (acc ++ [Serial.Ev.fail])
    else match tok.toList with
      | '*' :: k => (String.ofList k).toNat?.map fun k => acc ++ List.replicate (len + 2) (Serial.Ev.give k)
      | 'g' :: k =>
        match (String.ofList k).splitOn "^" with
        | [k] => k.toNat?.map fun k => acc ++ [Serial.Ev.give k]
        | [k, n] => match k.toNat?, n.toNat? with
          | some k, some n => some (acc ++ List.replicate n (Serial.Ev.give k))
          | _, _ => none
        | _ => none
      | _ => none

def isFault : Serial.Ev → Bool
  | .fail => true
  | .give 0 => true
  | _ => false

def hexOfBytes (bs : List UInt8) : String :=
  String.ofList ('x' :: bs.flatMap fun b => [hexDigit (b.toNat / 16), hexDigit (b.toNat % 16)])

def dotVerdict (A : Arr) (names : List String) (pruned : Bool) (text : String) : Option String :=
  let safe := names.all safeName
  let claimed := names.length == numVars A && wellFormed A
  -- outside the statement (compared with the model only): a wrong number of names, an invalid diagram, labels that
  -- need escaping, and the observation `hang`
  if !safe || !claimed || text == "hang" then none
  else if text == "panic" then some "outcome:panic"
  else match decText? 'x' text with
    | none => some "not-utf8"
    | some t => checkDot A names pruned t

/-- the export into a sink: the statement says nothing about I/O errors, so `Err` outcomes (which error, what reached
    the sink) are compared with the model only. When the call returns `Ok`, what is in the sink IS the export: if it is
    not `to_dot_string`'s text, the graph clauses are evaluated on it (a truncated text fails them). A panic on a
    sink without fault is no export at all. -/
def sinkVerdict (A : Arr) (names : List String) (pruned : Bool) (text status got : String) (hasFault : Bool) :
    Option String :=
  (dotVerdict A names pruned text) <|>
    (if text == "panic" || text == "hang" then none
     else if status == "ok" && got != "=" then (dotVerdict A names pruned got).map ("sink:" ++ ·)
     else if status == "panic" && !hasFault then (dotVerdict A names pruned "panic").map ("sink:" ++ ·)
     else none)

/-! ### big diagrams: digest of the model's text, counts reported by the harness's own reader -/

def fnvStep (h : UInt64) (b : UInt8) : UInt64 := (h ^^^ b.toUInt64) * 0x100000001b3

def fnvChars (h : UInt64) (cs : List Char) : UInt64 :=
  cs.foldl (fun h c => (String.utf8EncodeChar c).foldl fnvStep h) h

/-- FNV-1a 64 and length of the UTF-8 bytes of `render ss`, statement by statement -/
def digestStmts (ss : List Stmt) : UInt64 × Nat :=
  ss.foldl (fun (acc : UInt64 × Nat) s =>
    let cs := renderStmt s ++ ['\n']
    (fnvChars acc.1 cs, acc.2 + (cs.foldl (fun n c => n + c.utf8Size) 0))) (0xcbf29ce484222325, 0)

def hex16 (h : UInt64) : String :=
  String.ofList ((List.range 16).map fun i => hexDigit ((h.toNat >>> (4 * (15 - i))) % 16))

/-- the clauses of the property on the harness's read-back counts -/
def checkBig (A : Arr) (pruned : Bool) (f : List String) : Option String :=
  match f with
  | [frame, unparsed, vertices, distinct, labelBad, edges, distinctEdges, dangling, wrong, entries, terminals, evalBad] =>
    let inner := A.size - 2
    let expEdges := (List.range' 2 inner).foldl (fun n p =>
      let nd := A[p]!
      n + (if pruned && nd.high == 0 then 0 else 1) + (if pruned && nd.low == 0 then 0 else 1)) 0
    if frame != "1/1/1" then some "frame"
    else if unparsed != "0" then some "unparsable"
    else if vertices != toString inner then some "vertices:count"
    else if distinct != vertices then some "vertices:ids-not-distinct"
    else if labelBad != "0" then some "vertices:label"
    else if edges != toString expEdges then some "edges:count"
    else if distinctEdges != edges then some "edges:duplicate"
    else if dangling != "0" then some "edges:undeclared-vertex"
    else if wrong != "0" then some "edges:not-a-link"
    else if entries != toString (A.size - 1) then some "entry-edge"
    else if terminals != (if pruned then "1" else "0,1") then some "terminals"
    else if evalBad != "0" then some "evaluation"
    else none
  | _ => some "fields"

def handle (key : String) (ins obs : List String) : Verdict :=
  match key, ins, obs with
  | "C20.budget", [bdd, names, pruned, budget], [text, status, got] =>
    match parseArr? bdd, decNames? names, budget.toNat? with
    | some A, some names, some budget =>
      let pruned := pruned == "1"
      let mt := toDotString A names pruned
      let mtext := match mt with | .ok t => encText 'x' t | _ => "panic"
      let model := mtext ++ (match writeDotBudget A names pruned budget, mt with
        | .ok (true, out), .ok t => if out == textBytes t then " ok =" else " ok " ++ hexOfBytes out
        | .ok (true, out), _ => " ok " ++ hexOfBytes out
        | .ok (false, out), _ => " err " ++ hexOfBytes out
        | _, _ => " panic ?")
      let len := (text.length - 1) / 2
      let fail := sinkVerdict A names pruned text status got (budget < len)
      { agree := model == " ".intercalate [text, status, got],
        model := if model.length > 300 then (model.take 300).toString ++ "…" else model, fail,
        nontrivial := true,
        tags := ["budget", status, if len ≥ 65535 then "64KiB" else if len ≥ 8191 then "8KiB" else "short"] }
    | _, _, _ => Verdict.bad "args"
  | "C20.big", [n, _total, _seed, pruned], arr :: digest :: bytes :: rest =>
    match n.toNat?, parseArr? arr with
    | some n, some A =>
      let pruned := pruned == "1"
      let names := (List.range n).map fun i => "n" ++ toString i
      let model := match dotStmts A names pruned with
        | .ok ss => let d := digestStmts ss; hex16 d.1 ++ " " ++ toString d.2
        | _ => "panic"
      if !wellFormed A || numVars A != n then Verdict.bad "harness built an invalid diagram" else
      let fail := checkBig A pruned rest
      { agree := model == digest ++ " " ++ bytes, model, fail, nontrivial := true,
        tags := ["big", if pruned then "pruned" else "full", s!"nodes{Nat.log2 (A.size + 1)}"] }
    | _, _ => Verdict.bad "args"
  | "C20.big", _, [_, "panic"] => { agree := false, model := "text", fail := some "outcome:panic", nontrivial := true, tags := ["big"] }
  | "C20.write", [bdd, names, pruned, script], [text, status, got]
  | "C20.writeinv", [bdd, names, pruned, script], [text, status, got] =>
    match parseArr? bdd, decNames? names with
    | some A, some names =>
      let pruned := pruned == "1"
      let mt := toDotString A names pruned
      let len := match mt with | .ok t => (textBytes t).length | _ => 64 * A.size + 256
      match parseScript? script len with
      | none => Verdict.bad "script"
      | some sc =>
        let mtext := match mt with | .ok t => encText 'x' t | _ => "panic"
        -- the model follows the order of the code piece by piece, so the partial output under an error is compared too
        let model := if key == "C20.write" && mtext == "panic" then "panic panic ~" else
          mtext ++ (match writeDotIO A names pruned sc, mt with
          | .ok (true, out), .ok t => if out == textBytes t then " ok =" else " ok " ++ hexOfBytes out
          | .ok (true, out), _ => " ok " ++ hexOfBytes out
          | .ok (false, out), _ => " err " ++ hexOfBytes out
          | _, _ =>
            -- a panic after the named prefix has been written: the sink holds that prefix
            " panic " ++ hexOfBytes (if A.size = 0 || names.length != numVars A then [] else
              (piecesOf (preamble A pruned ++ (namedPrefix A names).flatMap (nodeStmts A names pruned))).flatten))
        let agree := model == " ".intercalate [text, status, got]
        let hasFault := sc.any isFault
        let fail := sinkVerdict A names pruned text status got hasFault
        { agree, model := if model.length > 300 then (model.take 300).toString ++ "…" else model, fail,
          nontrivial := A.size > 2 && text != "panic",
          tags := ["write", status, if hasFault then "fault" else if sc.isEmpty then "whole" else "chunked",
            if len > 30000 then "big" else "small"] }
    | _, _ => Verdict.bad "args"
  | "C20.pieces", [bdd, names, pruned], [status, calls] =>
    match parseArr? bdd, decNames? names with
    | some A, some names =>
      let pruned := pruned == "1"
      -- the `write` calls into a sink that accepts everything: one per non-empty piece, up to the panic if there is one
      let lens (ss : List Stmt) : String :=
        let ls := ((piecesOf ss).map List.length).filter (· != 0)
        if ls.isEmpty then "~" else ",".intercalate (ls.map toString)
      let model :=
        if A.size = 0 || names.length != numVars A then "panic ~"
        else if (namedPrefix A names).length == (innerPtrs A).length then "ok " ++ lens (stmtsOf A names pruned)
        else "panic " ++ lens (preamble A pruned ++ (namedPrefix A names).flatMap (nodeStmts A names pruned))
      { agree := model == status ++ " " ++ calls, model, fail := none, nontrivial := A.size > 2,
        tags := ["pieces", status] }
    | _, _ => Verdict.bad "args"
  | "C20.dot", [bdd, names, pruned], [text, written] =>
    match parseArr? bdd, decNames? names with
    | some A, some names =>
      let pruned := pruned == "1"
      let model := match toDotString A names pruned with
        | .ok t => encText 'x' t
        | _ => "panic"
      let safe := names.all safeName
      let fail :=
        -- `written`: the same export into a `Vec<u8>`; if it is another text, the graph clauses decide on it too
        (dotVerdict A names pruned text) <|>
          (if written == "=" || text == "panic" then none
           else if written == "panic" || written == "err" then (dotVerdict A names pruned "panic").map ("written:" ++ ·)
           else (dotVerdict A names pruned written).map ("written:" ++ ·))
      { agree := model == text, model := if model.length > 300 then (model.take 300).toString ++ "…" else model, fail,
        nontrivial := A.size > 2 && text != "panic",
        tags := [if pruned then "pruned" else "full",
          if text == "panic" then "panic" else if !safe then "unsafe-label" else if !wellFormed A then "invalid-bdd"
          else if !isCanon A then "non-canonical" else if A.size ≤ 2 then "const" else "canonical",
          s!"nodes{Nat.log2 (A.size + 1)}"] }
    | _, _ => Verdict.bad "args"
  | _, _, ["hang"] => { agree := false, model := "terminates", fail := none, nontrivial := false, tags := ["hang"] }
  | "C20.dot", _, ["badset"] => Verdict.bad "harness generated an invalid name set"
  | _, _, _ => Verdict.bad ("key " ++ key)

end B.Drive.C20
