import BddVerif.Drive.C14
def main : IO Unit := B.Drive.runLoop B.Drive.C14.handle
