import BddVerif.Drive.C12
/-!
Driver for C13 (deserialisers and `validate()` are safe on arbitrary input). Model side: `readText`,
`readBytes`, `fromNodes`, `validate`, `evalIn` of `Model/Serial.lean` and `applyWithFlip` for `and(true)`.
Predicate on the OBSERVED output, independent of the model:

* the outcome is `ok` or `err`, never `panic`/`hang` (readers, `from_nodes`, `validate`);
* a normally formatted text (`|N,N,N|…|`, `N = 0 | [1-9][0-9]*`) that is accepted re-serialises to itself;
* whatever `from_nodes` returns or `validate` passes satisfies `wfoB` (sound for `WFo` by `wfoB_sound`), for
  `validate` every decision node is reachable from the root; `eval_in` terminates on all valuations (no panic,
  no hang); `exact_cardinality` = number of valuations on which the OBSERVED `eval_in` is true; `and(true)` does
  not panic or hang ("operators accept it").
AGREEMENT ONLY (a difference is a `DIS`, never a `FAIL`): which malformed inputs are rejected, error messages, what
`validate` reports first, the VALUE of `eval_in` and of `and(true)` (C01/C18), one node per ten bytes (C12), whether
`from_nodes` returns its input unchanged (C12), a panic of the harness itself.
-/
namespace B.Drive.C13
open B B.Drive B.Serial B.Drive.C12

def isNormalNum (s : String) : Bool :=
  match s.toList with
  | [] => false
  | ['0'] => true
  | c :: cs => '1' ≤ c && c ≤ '9' && cs.all (fun d => '0' ≤ d && d ≤ '9')

/-- `|N,N,N|…|` (at least the leading bar), numbers without sign or leading zero -/
def isNormalText (s : String) : Bool :=
  match s.splitOn "|" with
  | "" :: rest =>
    (match rest.reverse with
     | "" :: recs => recs.all fun r => match r.splitOn "," with
        | [a, b, c] => isNormalNum a && isNormalNum b && isNormalNum c
        | _ => false
     | _ => false)
  | _ => false

/-- every decision node is reachable from the root (worklist with fuel) -/
def reachAll (A : Arr) : Bool := Id.run do
  let mut seen : Array Bool := Array.replicate A.size false
  let mut work : List Nat := [A.size - 1]
  for _ in [0:2 * A.size + 2] do
    match work with
    | [] => break
    | p :: rest =>
      work := rest
      if p ≥ 2 && p < A.size && !seen[p]! then
        seen := seen.set! p true
        let nd := A[p]!
        work := nd.low :: nd.high :: work
  return (List.range A.size).all fun p => p < 2 || seen[p]!

def bitsOf (A : Arr) (n : Nat) : String :=
  String.ofList ((ttOf A n).toList.map fun b => if b then '1' else '0')

/-- model of the harness's `accepted_fields`: evals, count, and(true) -/
def modelAccepted (A : Arr) : List String :=
  match A[0]? with
  | none => ["panic", "panic", "panic"]
  | some n0 =>
    let n := n0.var
    let results := if n ≤ 16 then (List.range (2 ^ n)).map fun i =>
        evalIn A (Array.ofFn (n := n) fun k => valOfIndex n i k.val) (n + 1) else []
    let render (rs : List (Option (Outcome Bool))) : String :=
      if rs.any (fun r => match r with | some (.panic _) => true | _ => false) then "panic"
      else if rs.any (·.isNone) then "hang"
      else String.ofList (rs.map fun r => match r with | some (.ok true) => '1' | _ => '0')
    let evals := if n ≤ 10 then render results else "-"
    let count := if n ≤ 16 then
        (let r := render results
         if r == "panic" || r == "hang" then r else toString (r.toList.filter (· == '1')).length) else "-"
    let and := showArr (applyWithFlip A (mkTrue n) andLazy none none none)
    [evals, count, and]

def validateField (A : Arr) : String :=
  match validate A with
  | none => "vhang"
  | some (.ok _) => "vok"
  | some (.err _) => "verr"
  | some (.panic _) => "vpanic"

/-- clauses about an accepted value, on the observed fields -/
def acceptedClauses (A : Arr) (needReach : Bool) (evals count and : String) : List (Option String) :=
  let n := numVars A
  -- `evals` is the library's own `eval_in` on all valuations (a bit string) when the harness ran it
  let isBits := !evals.isEmpty && evals.toList.all (fun c => c == '0' || c == '1')
  [ req (A.size > 0 && wfoB A n) "accepted-value-not-well-formed",
    req (!needReach || reachAll A) "validate-ok-with-unreachable-node",
    req (evals != "panic" && evals != "hang") ("eval_in:" ++ evals),
    req (count != "panic" && count != "hang") ("exact_cardinality:" ++ count),
    -- "model counting agrees with evaluation": against the OBSERVED evaluation (what `eval_in` computes is C01/C18's business)
    req (!isBits || count == "noeval" || count == "-" || count == toString (evals.toList.filter (· == '1')).length) "count-differs-from-evaluation",
    req (and != "panic" && and != "hang") ("and(true):" ++ and) ]

def handle (key : String) (ins obs : List String) : Verdict :=
  match key, ins, obs with
  | _, _, ["harness-panic"] =>
    { agree := false, model := "no-panic", fail := none, nontrivial := false, tags := ["harness-panic"] }
  | "C13.text", [data], [kind, bdd, reser, v, evals, count, and] =>
    let bytes := unhex data
    let mo := readText bytes
    let model := match mo with
      | .ok A =>
        let mv := validateField A
        " ".intercalate (["ok", showArr A, String.ofList (writeText A), mv] ++ (if mv == "vok" then modelAccepted A else ["-", "-", "-"]))
      | o => s!"{kindOf o} ~ ~ - - - -"
    let asText : Option String := (utf8Decode bytes).map String.ofList
    let normal := match asText with | some t => isNormalText t | none => false
    let fail := firstFail ([
      req (kind == "ok" || kind == "err") ("outcome:" ++ kind),
      -- re-serialising reproduces the text; the LAYOUT of the re-serialisation is compared modulo ASCII whitespace
      req (!(normal && kind == "ok") || stripWs (textFieldBytes reser) == bytes) "face-value",
      req (v == "vok" || v == "verr" || v == "-" || v == "noeval") ("validate:" ++ v)] ++
      (if v == "vok" then match parseArrE? bdd with
        | some A => acceptedClauses A true evals count and
        | none => [some "unparsable-accepted-value"] else []))
    { agree := model == " ".intercalate obs, model, fail,
      nontrivial := kind == "ok" && bdd.length > 14,
      tags := ["text", kind, v] ++ (if normal then ["normal"] else []) ++ (if asText.isNone then ["invalid-utf8"] else []) ++
        (if bytes.length > 24 then ["len>24"] else []) ++
        (if asText.isSome && bytes.any (fun b => b.toNat ≥ 0x80) then ["multibyte-utf8"] else []) }
  | "C13.bytes", [data], [kind, bdd, v, evals, count, and] =>
    let bytes := unhex data
    let mo := readBytesS bytes
    let model := match mo with
      | .ok A =>
        let mv := validateField A
        " ".intercalate (["ok", showArr A, mv] ++ (if mv == "vok" then modelAccepted A else ["-", "-", "-"]))
      | o => s!"{kindOf o} ~ - - - -"
    let fail := firstFail ([
      req (kind == "ok" || kind == "err") ("outcome:" ++ kind),
      req (v == "vok" || v == "verr" || v == "-" || v == "noeval") ("validate:" ++ v)] ++
      (if v == "vok" then match parseArrE? bdd with
        | some A => acceptedClauses A true evals count and
        | none => [some "unparsable-accepted-value"] else []))
    { agree := model == " ".intercalate obs, model, fail,
      nontrivial := bytes.length ≥ 20, tags := ["bytes", kind, v, if bytes.length % 10 == 0 then "whole-records" else "partial-record"] }
  | "C13.nodes", [arr], [kind, bdd, v, evals, count, and] =>
    match parseArrE? arr with
    | some D =>
      let mo := fromNodes D
      let model := match mo with
        | .ok A => " ".intercalate (["ok", showArr A, validateField A] ++ modelAccepted A)
        | o => s!"{kindOf o} ~ - - - -"
      let fail := firstFail ([
        req (kind == "ok" || kind == "err") ("outcome:" ++ kind),
        req (v == "vok" || v == "verr" || v == "-" || v == "noeval") ("validate:" ++ v)] ++
        (if kind == "ok" then match parseArrE? bdd with
          | some R => acceptedClauses R (v == "vok") evals count and      -- the value `from_nodes` RETURNED
          | none => [some "unparsable-accepted-value"] else []))
      { agree := model == " ".intercalate obs, model, fail,
        nontrivial := D.size > 2, tags := ["nodes", kind, v, s!"size{D.size}"] }
    | none => Verdict.bad "args"
  | _, _, _ => Verdict.bad ("key " ++ key)

end B.Drive.C13
