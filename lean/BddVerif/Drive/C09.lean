import BddVerif.Drive.Tables
import BddVerif.Gen.OpTables
import BddVerif.Model.Count
import BddVerif.Model.F64
/-!
Driver for C09. Per case it (a) recomputes the observation with the model (`exactCardO`, `clauseCardO`,
`supportSet`, `sizePerVariable`, and `cardF64Bits` — the exact binary64 model of `cardinality()`, compared
BIT FOR BIT with the observed `to_bits()`; for the laws also `applyWithFlip`/`bddNot`), and (b) evaluates the
property's own predicate on the OBSERVED values, independently of the cached level-gap arithmetic:

* exact count = popcount of the truth table (n ≤ 12) and = Σ over root-to-one paths of 2^(n − path
  length) (any n, by plain path enumeration with a work budget);
* clause count = number of root-to-one paths = number of items the `sat_clauses` iterator yielded;
* support (canonical diagrams) = variables the function depends on (truth table for n ≤ 12; for large n
  brute force over the assignments of the reported variables, plus "no node tests another variable");
* size_per_variable: keys = support, counts sum to size − 2;
* `cardinality()` (f64, given as its bit pattern): the statement of `Props.C09.cardinality_f64_spec` /
  `cardinality_f64_zero_iff` evaluated in exact natural arithmetic on the OBSERVED bits (decoded with
  `F64.ofBits`; independent of the traversal model): sign bit 0, not NaN; finite ⇒ an integer `v` with
  `c·(P−1)^d ≤ v·P^d ≤ c·(P+1)^d`, `P = 2^53`; `+inf` ⇒ `(2^1024 − 2^970)·P^d ≤ c·(P+1)^d`; `0.0 ⇔ c = 0`;
  `c` = the observed exact count, `d` = min(longest path, n, size − 2) (`pathDepth_le`);
* laws: |a∨b| + |a∧b| = |a| + |b| and |¬a| = 2ⁿ − |a| on the observed numbers;
* `C09.res`: the same clauses on the RESULT of a library operation (exists, for_all, restrict, pick,
  substitute, …), with the support clause evaluated unconditionally against the truth table.
-/
namespace B.Drive.C09
open B B.Drive B.Count

def maxTT : Nat := 12

def showO : Outcome Nat → String
  | .ok x => toString x
  | _ => "panic"

def showNats (xs : List Nat) : String := if xs.isEmpty then "~" else ",".intercalate (xs.map toString)
def showPairs (xs : List (Nat × Nat)) : String :=
  if xs.isEmpty then "~" else ",".intercalate (xs.map fun (a, b) => s!"{a}:{b}")

def parseNats? (s : String) : Option (List Nat) :=
  if s == "~" then some [] else (s.splitOn ",").mapM (·.toNat?)
def parsePairs? (s : String) : Option (List (Nat × Nat)) :=
  if s == "~" then some [] else (s.splitOn ",").mapM fun f =>
    match f.splitOn ":" with
    | [a, b] => match a.toNat?, b.toNat? with | some a, some b => some (a, b) | _, _ => none
    | _ => none

/-- plain enumeration of the root-to-terminal paths: state = (budget, paths to one, Σ 2^(n − length)) -/
def bruteGo (A : Arr) (n : Nat) : Nat → Nat → Nat → (Nat × Nat × Nat) → Option (Nat × Nat × Nat)
  | 0, _, _, _ => none
  | f + 1, p, fixed, (bud, paths, cnt) =>
    if bud = 0 then none
    else if p = 0 then some (bud - 1, paths, cnt)
    else if p = 1 then some (bud - 1, paths + 1, cnt + 2 ^ (n - fixed))
    else
      let nd := nodeAt A p
      match bruteGo A n f nd.low (fixed + 1) (bud - 1, paths, cnt) with
      | none => none
      | some st => bruteGo A n f nd.high (fixed + 1) st

/-- `(paths to one, model count)` by path enumeration, `none` if more than 300 000 steps are needed -/
def brute (A : Arr) : Option (Nat × Nat) :=
  if A.size = 1 then some (0, 0) else
  (bruteGo A (numVars A) (A.size + 1) (root A) 0 (300000, 0, 0)).map fun (_, p, c) => (p, c)

def popcount (tt : Array Bool) : Nat := tt.foldl (fun acc b => if b then acc + 1 else acc) 0

/-- variables on which the truth table over `n` variables depends -/
def ttSupport (tt : Array Bool) (n : Nat) : List Nat :=
  (List.range n).filter fun k => Id.run do
    for i in [0:2 ^ n] do
      if tt[i]! != tt[i ^^^ (1 <<< (n - 1 - k))]! then return true
    return false

/-- the truth-table clauses apply to at most 12 variables, and to BIG diagrams (more than 4096 nodes)
    over at most 20 variables, where path enumeration is hopeless but 2^20 evaluations are affordable -/
def useTT (A : Arr) : Bool := numVars A ≤ maxTT || (numVars A ≤ 20 && A.size > 4096)

/-- does the function of `A` depend on `x`, testing all assignments of the variables `vars` (others false) -/
def dependsOn (A : Arr) (vars : List Nat) (x : Nat) : Bool :=
  let m := vars.length
  (List.range (2 ^ m)).any fun i =>
    let v : Nat → Bool := fun k => match vars.idxOf? k with
      | some j => (i >>> j) % 2 == 1
      | none => false
    evalArr A (fun k => if k = x then true else v k) != evalArr A (fun k => if k = x then false else v k)

/-- reduced regardless of the numbering of the nodes: terminals exact, links in range, variables
    strictly increasing along links, distinct children, no duplicate node, every node reachable from
    the root (so the diagram is the canonical one up to a renumbering of its nodes) -/
def reducedAnyOrder (A : Arr) : Bool := Id.run do
  let n := numVars A
  if A.size = 0 then return false
  if A[0]! != ⟨n, 0, 0⟩ then return false
  if A.size = 1 then return true
  if A[1]! != ⟨n, 1, 1⟩ then return false
  let mut seen : Std.HashSet Node := {}
  for i in [2:A.size] do
    let nd := A[i]!
    if !(nd.var < n && nd.low < A.size && nd.high < A.size && nd.low != nd.high) then return false
    if !(nd.var < (A[nd.low]!).var && nd.var < (A[nd.high]!).var) then return false
    if seen.contains nd then return false
    seen := seen.insert nd
  let reach := reachGo A (A.size + 1) (root A) (Array.replicate A.size false)
  return (List.range A.size).all fun p => p < 2 || reach.getD p false

def hexVal (c : Char) : Option Nat :=
  if '0' ≤ c ∧ c ≤ '9' then some (c.toNat - '0'.toNat)
  else if 'a' ≤ c ∧ c ≤ 'f' then some (c.toNat - 'a'.toNat + 10) else none
def parseHex? (s : String) : Option Nat :=
  s.toList.foldlM (fun acc c => (hexVal c).map (acc * 16 + ·)) 0

def f64Max : Nat := (2 ^ 53 - 1) * 2 ^ 971

def hexDigit (d : Nat) : Char := if d < 10 then Char.ofNat (48 + d) else Char.ofNat (87 + d)
/-- 16 lower-case hex digits, the harness's `{:016x}` -/
def hex16 (x : Nat) : String :=
  String.ofList ((List.range 16).map fun i => hexDigit ((x >>> (4 * (15 - i))) % 16))

/-- the model's prediction of `cardinality().to_bits()` as printed by the harness -/
def showBitsO (A : Arr) : String :=
  match cardF64O A with
  | .ok x => hex16 x.toBits
  | _ => "panic"

/-- longest-path pass (memoised depth-first, one cache entry per decision node) -/
def depthGo (A : Arr) : Nat → Nat → Array (Option Nat) → Array (Option Nat)
  | 0, _, c => c
  | fuel + 1, p, c =>
    if p < 2 then c else
    match c.getD p none with
    | some _ => c
    | none =>
      let c := c.setIfInBounds p none
      let nd := nodeAt A p
      let c2 := depthGo A fuel nd.low (depthGo A fuel nd.high c)
      let dl := if nd.low < 2 then 0 else (c2.getD nd.low none).getD 0
      let dh := if nd.high < 2 then 0 else (c2.getD nd.high none).getD 0
      c2.setIfInBounds p (some (1 + max dl dh))

/-- number of decision nodes on the longest root-to-terminal path of a valid diagram, capped by the
    number of variables and of stored decision nodes (`Props.C09.pathDepth_le`) -/
def roundings (A : Arr) : Nat :=
  let n := numVars A
  let cap := min n (A.size - 2)
  if A.size ≤ 2 || !cardOk A then 0
  else
    let c := depthGo A (cardFuel A) (root A) (Array.replicate A.size none)
    min cap ((c.getD (root A) none).getD cap)

/-- the floating-point clause = the statement of `cardinality_f64_spec` + `cardinality_f64_zero_iff` on
    the observed bit pattern; `exact` is the observed exact count, `d` the number of roundings allowed;
    `none` = holds -/
def checkF64 (bits exact d : Nat) : Option String :=
  if bits ≥ 2 ^ 63 then some "f64-negative"
  else
    let P : Nat := 2 ^ 53
    match F64.ofBits bits with
    | .nan => some "f64-nan"
    | .inf =>
      if (2 ^ 1024 - 2 ^ 970) * P ^ d ≤ exact * (P + 1) ^ d then none else some "f64-inf-but-representable"
    | .fin s =>
      if s % 2 ^ 1074 ≠ 0 then some "f64-not-an-integer"
      else
        let v := s / 2 ^ 1074
        if (v == 0) != (exact == 0) then some "f64-zero"
        else if exact * (P - 1) ^ d ≤ v * P ^ d ∧ v * P ^ d ≤ exact * (P + 1) ^ d then none
        else some "f64-rounding-bound"

def firstFail (xs : List (Option String)) : Option String := xs.findSome? id

def maxGap (A : Arr) : Nat :=
  (List.range A.size).foldl (fun acc p => if p < 2 then acc else
    let nd := nodeAt A p
    max acc (max (varAt A nd.low - nd.var) (varAt A nd.high - nd.var))) (varAt A (root A))

def tagsCnt (A : Arr) (exact : Option Nat) : List String :=
  let n := numVars A
  [ if n ≤ 4 then s!"n{n}" else if n ≤ 12 then "n5-12" else if n ≤ 64 then "n13-64" else if n ≤ 1024 then "n65-1024" else "n>1024",
    if maxGap A > 1024 then "gap>1024" else if maxGap A > 1 then "gap" else "nogap",
    match exact with | some x => if x ≥ 2 ^ 64 then (if x > f64Max then "count>f64max" else "count>2^64") else "count<2^64" | none => "nocount",
    if isCanon A then "canon" else if reducedAnyOrder A then "reduced-not-postorder" else "noncanon",
    match cardF64 A, exact with
      | .inf, _ => "f64-inf"
      | .nan, _ => "f64-nan"
      | .fin s, some x => if s == 0 then "f64-zero" else if s == x * F64.U then "f64-exact" else "f64-rounded"
      | .fin _, none => "f64-finite" ]

/-- `j:c` pairs: the iterator's `count()` after `j` explicit `next()` calls must be `total − j`; the
    fresh iterator (`j = 0`) must be among them -/
def checkCounts (what : String) (total : Nat) (s : String) : Option String :=
  match parsePairs? s with
  | none => some s!"outcome:{what}:{s}"
  | some ps =>
    if !(ps.any (·.1 == 0)) then some s!"harness:{what}-no-fresh-count"
    else match ps.find? (fun (j, c) => c + j != total) with
      | some (j, _) => some (if j == 0 then s!"{what}.count()≠N-on-fresh-iterator" else s!"{what}.count()-after-j-next≠N-j")
      | none => none

/-- a valid diagram (what `validate()` accepts, the property's quantifier "all Bdds"): terminals exact, every
    decision node with links inside the array, a variable below `num_vars` and strictly below its children's.
    On anything else the predicate is not evaluated (agreement with the model only). -/
def validArr (A : Arr) : Bool :=
  let n := numVars A
  A.size > 0 && A[0]! == ⟨n, 0, 0⟩ && (A.size == 1 || A[1]! == ⟨n, 1, 1⟩) &&
  (List.range A.size).all fun p => p < 2 ||
    (let nd := A[p]!
     nd.var < n && nd.low < A.size && nd.high < A.size && nd.var < (A[nd.low]!).var && nd.var < (A[nd.high]!).var)

def handle (key : String) (ins obs : List String) : Verdict :=
  -- an observation `hang` (the runner's watchdog) is a plain disagreement: nothing can be evaluated on it
  if obs == ["hang"] then { agree := false, model := "returns", fail := none, nontrivial := false, tags := ["hang"] } else
  match key, ins, obs with
  | "C09.cnt", [a], [oExact, oClause, oBits, oSup, oSpv, oSize, oPaths, oPC, oVC] =>
    match parseArr? a with
    | some A =>
      let n := numVars A
      let model := s!"{showO (exactCardO A)} {showO (clauseCardO A)} {showBitsO A} {showNats (supportSet A)} {showPairs (sizePerVariable A)} {A.size}"
      let observed := s!"{oExact} {oClause} {oBits} {oSup} {oSpv} {oSize}"
      let fail : Option String :=
        if !validArr A then none else
        match oExact.toNat?, oClause.toNat?, parseHex? oBits, parseNats? oSup, parsePairs? oSpv, oSize.toNat? with
        | some ex, some cl, some bits, some sup, some spv, some sz =>
          let br := brute A
          let canon := reducedAnyOrder A
          let tt := if useTT A then ttOf A n else #[]
          let redundant := (List.range A.size).any (fun p => p ≥ 2 && (nodeAt A p).low == (nodeAt A p).high)
          firstFail [
            if useTT A then (if popcount tt == ex then none else some "exact≠popcount") else none,
            match br with | some (_, c) => if c == ex then none else some "exact≠Σpaths" | none => none,
            match br with | some (p, _) => if p == cl then none else some "clause≠#paths" | none => none,
            -- the path iterator documents a panic ("The BDD is not canonical.") on a node with low = high
            if oPaths == "-" then none
            else if oPaths == "panic" && (List.range A.size).any (fun p => p ≥ 2 && (nodeAt A p).low == (nodeAt A p).high) then none
            else (if oPaths.toNat? == some cl then none else some "clause≠sat_clauses.count"),
            -- `count()` of the iterator after j explicit `next()` calls must be (proved clause count) − j
            if oPC == "-" || (oPC == "panic" && redundant) then none
            else checkCounts "sat_clauses" (clauseCard A) oPC,
            -- sat_valuations: explicit loop count and `count()` after j calls against the proved exact count
            if oVC == "-" || (oVC == "panic" && redundant) then none
            else match oVC.splitOn ";" with
              | [lp, rest] => firstFail [if lp.toNat? == some (exactCard A) then none else some "exact≠sat_valuations-loop",
                                         checkCounts "sat_valuations" (exactCard A) rest]
              | _ => some s!"outcome:sat_valuations:{oVC}",
            if !canon then none
            else if useTT A then (if ttSupport tt n == sup then none else some "support≠dependence")
            else if sup.length ≤ 12 then
              (if sup.all (dependsOn A sup) && (List.range A.size).all (fun p => p < 2 || sup.contains (nodeAt A p).var)
               then none else some "support≠dependence(large)")
            else none,
            if spv.map (·.1) == sup then none else some "spv-keys≠support",
            if (spv.map (·.2)).foldl (· + ·) 0 + 2 == sz ∨ (sz < 2 ∧ spv.isEmpty) then none else some "spv-sum≠size-2",
            if spv.all (·.2 > 0) then none else some "spv-zero-entry",
            checkF64 bits ex (roundings A) ]
        | _, _, _, _, _, _ => some s!"outcome:{oExact},{oClause},{oBits},{oSup},{oSpv}"
      { agree := model == observed, model, fail, nontrivial := A.size > 2, tags := tagsCnt A oExact.toNat? }
    | none => Verdict.bad "args"
  | "C09.law", [ns, a, b], [oa, ob, oor, oand, onot] =>
    match ns.toNat?, parseArr? a, parseArr? b with
    | some n, some A, some B =>
      let mor := applyWithFlip A B Gen.or_ none none none
      let mand := applyWithFlip A B Gen.and_ none none none
      let model := s!"{showO (exactCardO A)} {showO (exactCardO B)} {showO (exactCardO mor)} {showO (exactCardO mand)} {showO (exactCardO (bddNot A))}"
      let observed := s!"{oa} {ob} {oor} {oand} {onot}"
      let fail : Option String :=
        if !(validArr A && validArr B) then none else
        match oa.toNat?, ob.toNat?, oor.toNat?, oand.toNat?, onot.toNat? with
        | some ca, some cb, some cor, some cand, some cnot =>
          firstFail [
            if numVars A == n && numVars B == n then none else some "harness:num_vars",
            if cor + cand == ca + cb then none else some "|a∨b|+|a∧b|≠|a|+|b|",
            if cnot + ca == 2 ^ n then none else some "|¬a|≠2^n-|a|",
            if useTT A && useTT B then (if popcount (ttOf A n) == ca && popcount (ttOf B n) == cb then none else some "exact≠popcount") else none ]
        | _, _, _, _, _ => some s!"outcome:{observed}"
      { agree := model == observed, model, fail, nontrivial := A.size > 2 && B.size > 2 && mor.size > 2 && mand.size > 2,
        tags := [s!"law-n{n}", if (oor.toNat?.getD 0) ≥ 2 ^ 64 then "count>2^64" else "count<2^64"] }
    | _, _, _ => Verdict.bad "args"
  | "C09.res", [op, f, _vars, _arg], [oRes, oExact, oClause, oBits, oSup, oSpv, oSize] =>
    -- the counting functions on the RESULT of a library operation: the library claims its results are
    -- canonical, so the support clause is evaluated unconditionally (a dead or redundant node fails it)
    match parseArr? f, parseArr? oRes with
    | some F, some R =>
      let n := numVars R
      let model := s!"{showO (exactCardO R)} {showO (clauseCardO R)} {showBitsO R} {showNats (supportSet R)} {showPairs (sizePerVariable R)} {R.size}"
      let observed := s!"{oExact} {oClause} {oBits} {oSup} {oSpv} {oSize}"
      let fail : Option String :=
        if !validArr R then none else
        match oExact.toNat?, oClause.toNat?, parseHex? oBits, parseNats? oSup, parsePairs? oSpv, oSize.toNat? with
        | some ex, some cl, some bits, some sup, some spv, some sz =>
          let br := brute R
          firstFail [
            if n ≤ maxTT then (if popcount (ttOf R n) == ex then none else some "exact≠popcount") else none,
            match br with | some (_, c) => if c == ex then none else some "exact≠Σpaths" | none => none,
            match br with | some (p, _) => if p == cl then none else some "clause≠#paths" | none => none,
            if n ≤ maxTT then (if ttSupport (ttOf R n) n == sup then none else some "support≠essential-variables") else none,
            if spv.map (·.1) == sup then none else some "spv-keys≠support",
            if (spv.map (·.2)).foldl (· + ·) 0 + 2 == sz ∨ (sz < 2 ∧ spv.isEmpty) then none else some "spv-sum≠size-2",
            if spv.all (·.2 > 0) then none else some "spv-zero-entry",
            checkF64 bits ex (roundings R) ]
        | _, _, _, _, _, _ => some s!"outcome:{oExact},{oClause},{oBits},{oSup},{oSpv}"
      { agree := model == observed, model, fail, nontrivial := R.size > 2 && R != F,
        tags := ["res", s!"op-{op}", if isCanon R then "res-canon" else "res-noncanon"] }
    | _, _ => { agree := false, model := "unparsable", fail := some s!"outcome:{oRes}", nontrivial := false, tags := ["res"] }
  | "C09.res", _, [o] => { agree := false, model := "ok", fail := some s!"outcome:{o}", nontrivial := false, tags := ["res"] }
  | "C09.bad", [a], [oExact, oClause] =>
    match parseArr? a with
    | some A =>
      let model := s!"{showO (exactCardO A)} {showO (clauseCardO A)}"
      -- nothing is claimed about malformed input; only the outcome kind is compared with the model
      { agree := model == s!"{oExact} {oClause}", model, fail := none, nontrivial := false,
        tags := ["malformed", if oExact == "panic" then "panic" else "ok"] }
    | none => Verdict.bad "args"
  | _, _, _ => Verdict.bad ("key " ++ key)

end B.Drive.C09
