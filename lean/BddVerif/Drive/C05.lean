import BddVerif.Drive.Tables
import BddVerif.Model.Limit
/-!
Driver for C05: replays each observed call through the model (`fusedBinaryFlipOpWithLimit`,
`checkFusedBinaryFlipOp`, `dryFull`, `cmpImplies`, panics included) and evaluates the property's own clauses on
the implementation's outputs, the unrestricted result being the one observed from the Rust code too:
  * limit: `Some(r)` exactly when the unrestricted result has at most `limit` nodes, and then `r` is identical
    to it; otherwise `None`;
  * dry run: the flag equals `!result.is_false()`; the (unlimited) task count is at least the number of decision
    nodes of the result; `None` exactly when the task count exceeds the limit, and otherwise the same pair;
  * `cmp_implies`: `Less/Equal/Greater/None` exactly by truth-table inclusion (same variable count);
  * inputs outside the quantifier (a flip variable `≥ num_vars`, operands with different variable counts): no
    clause at all; the verdict is agreement with the model's outcome only (also for the observation `hang`).
  Agreement only, never a clause: the exact task count equals the model's count; the limited dry-run pair repeats
  the unlimited pair.
-/
namespace B.Drive.C05
open B B.Lim B.Drive

def maxTT : Nat := 12

def showLim : Outcome (Option Arr) → String
  | .ok (some a) => showArr a
  | .ok none => "none"
  | .err _ => "err"
  | .panic _ => "panic"

def showPair (p : Bool × Nat) : String := s!"{if p.1 then 1 else 0},{p.2}"

def showDry : Outcome (Option (Bool × Nat)) → String
  | .ok (some p) => showPair p
  | .ok none => "none"
  | .err _ => "err"
  | .panic _ => "panic"

def parsePair? (s : String) : Option (Bool × Nat) :=
  match s.splitOn "," with
  | [f, c] => match c.toNat? with
    | some c => if f == "1" then some (true, c) else if f == "0" then some (false, c) else none
    | none => none
  | _ => none

def firstFail (xs : List (Option String)) : Option String := xs.findSome? id

def mustPanic (L R : Arr) (fl fr fo : Option Nat) : Bool :=
  numVars R != numVars L || [fl, fr, fo].any fun f => match f with | some x => x ≥ numVars L | none => false

/-- number of decision nodes of a (result) array -/
def decisionNodes (A : Arr) : Nat := A.size - 2

/-- pseudo-random valuations for diagrams too wide for a full truth table (SplitMix-style mixing of the index) -/
def sampleVal (n k : Nat) : Nat → Bool := fun j =>
  let z := (k + 1) * 0x9E3779B97F4A7C15 % 2 ^ 64
  let z := (z ^^^ (z >>> 29)) * 0xBF58476D1CE4E5B9 % 2 ^ 64
  let z := (z ^^^ (z >>> 32))
  j < n && (z >>> (j % 60)) % 2 == 1

def samples : Nat := 4096

/-- `v` with the bit of the flip variable inverted -/
def invV (f : Option Nat) (v : Nat → Bool) : Nat → Bool :=
  match f with
  | none => v
  | some x => fun j => if j == x then !(v j) else v j

/-- `X(v) = c (L(u with fl inverted)) (R(u with fr inverted))`, `u = v with fo inverted`: on every valuation for
    `n ≤ maxTT`, on `samples` pseudo-random valuations otherwise -/
def checkPointwise (n : Nat) (X L R : Arr) (c : Bool → Bool → Bool) (fl fr fo : Option Nat) : Option String :=
  let ok := fun (v : Nat → Bool) =>
    let u := invV fo v
    evalArr X v == c (evalArr L (invV fl u)) (evalArr R (invV fr u))
  if n ≤ maxTT then
    (if (List.range (2 ^ n)).all fun i => ok (valOfIndex n i) then none else some "limit:result-not-pointwise")
  else
    (if (List.range samples).all fun k => ok (sampleVal n k) then none else some "limit:result-not-pointwise(sampled)")

/-- cofactor of pointer `p` on variable `d` -/
def cof (A : Arr) (n p d : Nat) (b : Bool) : Nat :=
  if varOf A n p == d then (let nd := nodeAt A p; if b then nd.high else nd.low) else p

/-- exact check, independent of the apply model, that `X` denotes `c L R` (no flips): side-by-side walk of the
    three diagrams down to terminal triples, each triple visited once -/
def equivWalk (X L R : Arr) (n : Nat) (c : Bool → Bool → Bool) :
    Nat → Nat → Nat → Nat → Std.HashSet (Nat × Nat × Nat) → Bool × Std.HashSet (Nat × Nat × Nat)
  | 0, _, _, _, seen => (false, seen)
  | fuel + 1, x, l, r, seen =>
    if x < 2 && l < 2 && r < 2 then ((x == 1) == c (l == 1) (r == 1), seen)
    else if seen.contains (x, l, r) then (true, seen)
    else
      let d := min (varOf X n x) (min (varOf L n l) (varOf R n r))
      if d ≥ n then (false, seen) else
      let r1 := equivWalk X L R n c fuel (cof X n x d true) (cof L n l d true) (cof R n r d true) (seen.insert (x, l, r))
      if !r1.1 then r1
      else equivWalk X L R n c fuel (cof X n x d false) (cof L n l d false) (cof R n r d false) r1.2

def checkExact (X L R : Arr) (c : Bool → Bool → Bool) : Option String :=
  let n := numVars L
  if (equivWalk X L R n c (n + 2) (root X) (root L) (root R) {}).1 then none else some "limit:result-not-the-operator(exact-walk)"

def limCase (table conn l r fl fr fo limit : String) (obs : List String) (tag : String) : Verdict :=
  match obs, conn.toNat?, parseArr? l, parseArr? r, parseOptNat? fl, parseOptNat? fr, parseOptNat? fo, limit.toNat? with
  | [limited, unres], some c, some L, some R, some fl, some fr, some fo, some lim =>
    let op := op2OfTable table
    if !consistent2 op c then Verdict.bad "inconsistent table (harness bug)" else
    let model := showLim (fusedBinaryFlipOpWithLimit lim L R op fl fr fo)
    -- inputs outside the property's quantifier (flip variable out of range, different variable counts): every
    -- clause is off; the verdict is agreement with the model outcome only
    let outside := mustPanic L R fl fr fo
    let fail :=
      if outside then none
      else match parseArr? unres with
        | none => some ("unrestricted-outcome:" ++ unres)
        | some U =>
          let n := numVars L
          let noflip := fl.isNone && fr.isNone && fo.isNone
          -- wide operands: the unrestricted result itself is checked exactly (no flips) and on sampled valuations
          let wide := if n > maxTT then firstFail [if noflip then checkExact U L R (conn2 c) else none,
            checkPointwise n U L R (conn2 c) fl fr fo] else none
          if limited == "none" then firstFail [if U.size ≤ lim then some "limit:none-although-result-fits" else none, wide]
          else match parseArr? limited with
            | none => some ("limited-outcome:" ++ limited)
            | some X => firstFail [if U.size ≤ lim then none else some "limit:some-although-result-too-large",
                if X == U then none else some "limit:not-identical",
                checkPointwise n X L R (conn2 c) fl fr fo,
                if n > maxTT && noflip then checkExact X L R (conn2 c) else none, wide]
    let usz := (parseArr? unres).map (·.size) |>.getD 0
    { agree := model == limited && (!outside || unres == "panic"), model, fail,
      nontrivial := usz > 2 && lim + 2 ≥ usz,
      tags := (if outside then ["outside-quantifier"] else []) ++ [tag, if limited == "none" then "none" else if limited == "panic" then "panic" else "some",
        if lim == usz then "lim=size" else if lim + 1 == usz then "lim=size-1" else if lim == 0 then "lim=0" else "lim-other",
        if usz == 0 then "res-panic" else if usz == 1 then "res-false" else if usz == 2 then "res-true" else "res-nonconst"] ++
        (if lim ≥ 65535 then [if lim ≥ 2 ^ 32 then "lim>=2^32" else "lim>=2^16-1"] else []) ++
        (if L.size > 65536 || R.size > 65536 then ["big-operand"] else []) }
  | _, _, _, _, _, _, _, _ => Verdict.bad "args"

def dryCase (table conn l r fl fr fo limit : String) (obs : List String) (tag : String) : Verdict :=
  match obs, conn.toNat?, parseArr? l, parseArr? r, parseOptNat? fl, parseOptNat? fr, parseOptNat? fo, limit.toNat? with
  | [dry, full, unres], some c, some L, some R, some fl, some fr, some fo, some lim =>
    let op := op2OfTable table
    if !consistent2 op c then Verdict.bad "inconsistent table (harness bug)" else
    let model := showDry (checkFusedBinaryFlipOp lim L R op fl fr fo)
    let panics := mustPanic L R fl fr fo
    let modelFull := if panics then "panic" else showPair (dryFull L R op fl fr fo)
    -- outside the quantifier: no clause, agreement with the model outcome only. Inside: the clauses of the
    -- statement on the observed values (the task count is the one the unlimited call reports); that the counts
    -- equal the MODEL's count, or that the limited pair repeats the unlimited pair, is agreement, not a clause
    let fail :=
      if panics then none
      else match parseArr? unres, parsePair? full with
        | some U, some (flag, count) => firstFail [
            if flag == (U.size != 1) then none else some "dry:flag-differs-from-not-is_false",
            if count ≥ decisionNodes U then none else some "dry:count-below-decision-nodes",
            if dry == "none" then (if count > lim then none else some "dry:none-although-count-within-limit")
            else match parsePair? dry with
              | none => some ("dry-outcome:" ++ dry)
              | some p => firstFail [if count > lim then some "dry:some-although-count-exceeds-limit" else none,
                  if p.1 == (U.size != 1) then none else some "dry:limited-flag-differs-from-not-is_false",
                  if p.2 ≥ decisionNodes U then none else some "dry:limited-count-below-decision-nodes",
                  if p.2 ≤ lim then none else some "dry:some-with-reported-count-above-limit"]]
        | _, _ => some ("outcome:" ++ full ++ "/" ++ unres)
    let cnt := (parsePair? full).map (·.2) |>.getD 0
    { agree := model == dry && modelFull == full && (!panics || unres == "panic"), model := model ++ "/" ++ modelFull, fail,
      nontrivial := cnt > 0,
      tags := (if panics then ["outside-quantifier"] else []) ++ [tag, if dry == "none" then "none" else if dry == "panic" then "panic" else "some",
        if lim == cnt then "lim=count" else if lim + 1 == cnt then "lim=count-1" else "lim-other",
        if cnt > ((parseArr? unres).map decisionNodes |>.getD 0) then "count>nodes" else "count=nodes"] ++
        (if lim ≥ 65535 then [if lim ≥ 2 ^ 32 then "lim>=2^32" else "lim>=2^16-1"] else []) ++
        (if L.size > 65536 || R.size > 65536 then ["big-operand"] else []) }
  | _, _, _, _, _, _, _, _ => Verdict.bad "args"

/-- containment oracle for more than `maxTT` variables, independent of the apply model: every path of `A` to
    the one-terminal stays inside `B`, i.e. the side-by-side walk never reaches the pair (true, false) -/
def containedWalk (A B : Arr) (n : Nat) : Nat → Nat → Nat → Std.HashSet (Nat × Nat) → Bool × Std.HashSet (Nat × Nat)
  | 0, _, _, seen => (false, seen)
  | fuel + 1, p, q, seen =>
    if p == 0 || q == 1 then (true, seen)
    else if p == 1 && q == 0 then (false, seen)
    else if seen.contains (p, q) then (true, seen)
    else
      let d := min (varOf A n p) (varOf B n q)
      if d ≥ n then (false, seen) else
      let r1 := containedWalk A B n fuel (cof A n p d true) (cof B n q d true) (seen.insert (p, q))
      if !r1.1 then r1 else containedWalk A B n fuel (cof A n p d false) (cof B n q d false) r1.2

def containedIn (A B : Arr) : Bool :=
  (containedWalk A B (numVars A) (numVars A + 2) (root A) (root B) {}).1

def showOrd : Option Ordering → String
  | some .lt => "less"
  | some .eq => "equal"
  | some .gt => "greater"
  | none => "none"

def handleBase (key : String) (ins obs : List String) : Verdict :=
  match key, ins with
  | "C05.lim", [table, conn, l, r, fl, fr, fo, limit] => limCase table conn l r fl fr fo limit obs "lim"
  | "C05.blim", [table, conn, l, r, limit] => limCase table conn l r "-" "-" "-" limit obs "blim"
  | "C05.dry", [table, conn, l, r, fl, fr, fo, limit] => dryCase table conn l r fl fr fo limit obs "dry"
  | "C05.bdry", [table, conn, l, r, limit] => dryCase table conn l r "-" "-" "-" limit obs "bdry"
  | "C05.cmp", [a, b] =>
    match obs, parseArr? a, parseArr? b with
    | [res], some A, some B =>
      let model := showOrd (cmpImplies A B)
      let n := numVars A
      let expected :=
        if numVars B != n then "none"
        else
          let (ab, ba) :=
            if n > maxTT then (containedIn A B, containedIn B A)
            else
              let ta := ttOf A n; let tb := ttOf B n
              ((List.range (2 ^ n)).all fun i => !ta[i]! || tb[i]!, (List.range (2 ^ n)).all fun i => !tb[i]! || ta[i]!)
          if ab && ba then "equal" else if ab then "less" else if ba then "greater" else "none"
      -- different variable counts: implication between the two functions is not defined, the property says
      -- nothing; agreement with the model outcome (`none`) only
      { agree := model == res, model,
        fail := if numVars B != n || res == expected then none else some ("cmp_implies:expected-" ++ expected),
        nontrivial := A.size > 2 && B.size > 2 && numVars B == n,
        tags := (if numVars B != n then ["outside-quantifier"] else []) ++ ["cmp", res, if numVars B != n then "vars-differ" else "vars-equal", if n > maxTT then "n>12" else if n ≥ 6 then "n6-12" else "n<6"] ++
          (if A.size > 65536 || B.size > 65536 then ["big-operand"] else []) }
    | _, _, _ => Verdict.bad "args"
  | _, _ => Verdict.bad ("key " ++ key)

/-- Aliasing cases: the same function as both operands, passed by the harness either as the SAME object (`alias`)
    or as equal clones (`clone`). Values have no identity in the model and in the property: both modes are judged
    like the plain case with the operand repeated (plain entry points when all flips are absent). -/
def handle (key : String) (ins obs0 : List String) : Verdict :=
  -- the runner reports a call that did not return as the single observation `hang`: inside the quantifier that
  -- is a failed clause (an outcome the statement never allows), outside it is a plain disagreement
  let obs := if obs0 != ["hang"] then obs0
    else if key == "C05.dry" || key == "C05.bdry" || key == "C05.dryA" then ["hang", "hang", "hang"]
    else if key == "C05.cmp" || key == "C05.cmpA" then ["hang"] else ["hang", "hang"]
  match key, ins with
  | "C05.limA", [mode, table, conn, a, fl, fr, fo, limit] =>
    if mode != "alias" && mode != "clone" then Verdict.bad "mode" else
    let v := limCase table conn a a fl fr fo limit obs "limA"
    { v with tags := v.tags ++ [mode] }
  | "C05.dryA", [mode, table, conn, a, fl, fr, fo, limit] =>
    if mode != "alias" && mode != "clone" then Verdict.bad "mode" else
    let v := dryCase table conn a a fl fr fo limit obs "dryA"
    { v with tags := v.tags ++ [mode] }
  | "C05.cmpA", [mode, a] =>
    if mode != "alias" && mode != "clone" then Verdict.bad "mode" else
    let v := handleBase "C05.cmp" [a, a] obs
    { v with tags := v.tags ++ [mode] }
  | _, _ => handleBase key ins obs

end B.Drive.C05
