import BddVerif.Drive.Algo
def main : IO Unit := B.Drive.runLoop B.Drive.Algo.handle
