import BddVerif.Drive.C09
def main : IO Unit := B.Drive.runLoop B.Drive.C09.handle
