import BddVerif.Drive.C07
def main : IO Unit := B.Drive.runLoop B.Drive.C07.handle
