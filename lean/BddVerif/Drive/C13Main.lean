import BddVerif.Drive.C13
def main : IO Unit := B.Drive.runLoop B.Drive.C13.handle
