import BddVerif.Drive.C19
def main : IO Unit := B.Drive.runLoop B.Drive.C19.handle
