import BddVerif.Drive.Tables
import BddVerif.Gen.OpTables
/-!
Driver for C01: replays each observed case through the model and evaluates the property's own
predicate on the implementation's output:
  truth table of the observed result = connective applied pointwise to the operands' truth tables,
  eager-table result = lazy-table result,
  the built-in tables sampled from the Rust functions equal the regenerated Lean tables.
-/
namespace B.Drive.C01
open B B.Drive

def maxTT : Nat := 12

/-- pseudo-random valuations for diagrams too wide for a full truth table (SplitMix-style mixing of
    the index; the predicate is then checked on `samples` valuations instead of all 2^n) -/
def sampleVal (n k : Nat) : Nat → Bool := fun j =>
  let z := (k + 1) * 0x9E3779B97F4A7C15 % 2 ^ 64
  let z := (z ^^^ (z >>> 29)) * 0xBF58476D1CE4E5B9 % 2 ^ 64
  let z := (z ^^^ (z >>> 32))
  j < n && (z >>> (j % 60)) % 2 == 1

def samples : Nat := 4096

/-- pointwise predicate; `none` = holds -/
def checkTT2 (n : Nat) (res L R : Arr) (c : Bool → Bool → Bool) : Option String :=
  if n > maxTT then
    if (List.range samples).all fun k =>
        let v := sampleVal n k
        evalArr res v == c (evalArr L v) (evalArr R v) then none else some "pointwise(sampled)"
  else
  let tr := ttOf res n; let tl := ttOf L n; let trr := ttOf R n
  if (List.range (2 ^ n)).all fun i => tr[i]! == c tl[i]! trr[i]! then none else some "pointwise"

def checkTT3 (n : Nat) (res A B C : Arr) (c : Bool → Bool → Bool → Bool) : Option String :=
  if n > maxTT then
    if (List.range samples).all fun k =>
        let v := sampleVal n k
        evalArr res v == c (evalArr A v) (evalArr B v) (evalArr C v) then none else some "pointwise(sampled)"
  else
  let tr := ttOf res n; let ta := ttOf A n; let tb := ttOf B n; let tc := ttOf C n
  if (List.range (2 ^ n)).all fun i => tr[i]! == c ta[i]! tb[i]! tc[i]! then none else some "pointwise"

def nontrivial (res : Arr) (ops : List Arr) : Bool := res.size > 2 && !(ops.contains res)

def tagsOf (ops : List Arr) : List String :=
  let n := (ops.headD #[]).size
  [if ops.any (·.size ≤ 2) then "const" else "nonconst", s!"sz{Nat.log2 (n + 1)}"]

def firstFail (xs : List (Option String)) : Option String := xs.findSome? id

def handle (key : String) (ins obs : List String) : Verdict :=
  match key, ins, obs with
  | "C01.bin", [n, table, l, r, conn], [res, lazyRes] =>
    match n.toNat?, parseArr? l, parseArr? r, conn.toNat? with
    | some n, some L, some R, some c =>
      let op := op2OfTable table
      if !consistent2 op c then Verdict.bad "inconsistent table (harness bug)" else
      let model := showArr (applyWithFlip L R op none none none)
      let fail := match parseArr? res, parseArr? lazyRes with
        | some A, some Z => firstFail [checkTT2 n A L R (conn2 c), if A == Z then none else some "eager-vs-lazy"]
        | _, _ => some ("outcome:" ++ res)
      { agree := model == res, model, fail,
        nontrivial := (parseArr? res).any (nontrivial · [L, R]), tags := tagsOf [L, R] }
    | _, _, _, _ => Verdict.bad "args"
  | "C01.named", [name, l, r], [res, table] =>
    match parseArr? l, parseArr? r, Gen.builtin2.lookup name with
    | some L, some R, some op =>
      let n := numVars L
      let model := showArr (applyWithFlip L R op none none none)
      let conn := match name with
        | "and" => 8 | "or" => 14 | "xor" => 6 | "imp" => 11 | "iff" => 9 | "and_not" => 4 | _ => 0
      let fail := match parseArr? res with
        | some A => firstFail [checkTT2 n A L R (conn2 conn),
            if tableOfOp2 op == table then none else some "builtin-table-differs-from-generated",
            if consistent2 (op2OfTable table) conn then none else some "builtin-table-inconsistent"]
        | none => some ("outcome:" ++ res)
      { agree := model == res, model, fail,
        nontrivial := (parseArr? res).any (nontrivial · [L, R]), tags := name :: tagsOf [L, R] }
    | _, _, _ => Verdict.bad "args"
  | "C01.not", [l], [res] =>
    match parseArr? l with
    | some L =>
      let n := numVars L
      let model := showArr (bddNot L)
      let fail := match parseArr? res with
        | some A => if n > maxTT then
              (if (List.range samples).all fun k => evalArr A (sampleVal n k) == !(evalArr L (sampleVal n k))
               then none else some "pointwise(sampled)")
            else
            if (ttOf A n).toList == (ttOf L n).toList.map (!·) then none else some "pointwise"
        | none => some ("outcome:" ++ res)
      { agree := model == res, model, fail, nontrivial := L.size > 2, tags := tagsOf [L] }
    | none => Verdict.bad "args"
  | "C01.ite", [a, b, c], [res] =>
    match parseArr? a, parseArr? b, parseArr? c with
    | some A, some B, some C =>
      let n := numVars A
      let model := showArr (ternaryApply A B C Gen.ite_ none none none none)
      let fail := match parseArr? res with
        | some X => checkTT3 n X A B C (fun x y z => if x then y else z)
        | none => some ("outcome:" ++ res)
      { agree := model == res, model, fail,
        nontrivial := (parseArr? res).any (nontrivial · [A, B, C]), tags := "ite" :: tagsOf [A, B, C] }
    | _, _, _ => Verdict.bad "args"
  | "C01.ter", [table, conn, a, b, c], [res, lazyRes] =>
    match conn.toNat?, parseArr? a, parseArr? b, parseArr? c with
    | some cn, some A, some B, some C =>
      let n := numVars A
      let op := op3OfTable table
      if !consistent3 op cn then Verdict.bad "inconsistent table (harness bug)" else
      let model := showArr (ternaryApply A B C op none none none none)
      let fail := match parseArr? res, parseArr? lazyRes with
        | some X, some Z => firstFail [checkTT3 n X A B C (conn3 cn), if X == Z then none else some "eager-vs-lazy"]
        | _, _ => some ("outcome:" ++ res)
      { agree := model == res, model, fail,
        nontrivial := (parseArr? res).any (nontrivial · [A, B, C]), tags := "ter" :: tagsOf [A, B, C] }
    | _, _, _, _ => Verdict.bad "args"
  | "C01.eval", [l, bits], [res] =>
    match parseArr? l with
    | some L =>
      let v := valOfBits (parseBits bits)
      let model := if evalArr L v then "1" else "0"
      { agree := model == res, model, fail := if res == "panic" then some "outcome:panic" else none,
        nontrivial := L.size > 2, tags := ["eval"] }
    | none => Verdict.bad "args"
  | _, _, _ => Verdict.bad ("key " ++ key)

end B.Drive.C01
