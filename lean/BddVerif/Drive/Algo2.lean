import BddVerif.Drive.Algo
import BddVerif.Gen.Algo2
import BddVerif.Drive.C11
import BddVerif.Model.Substitute
import BddVerif.Model.Rename
import BddVerif.Model.VarSet
import BddVerif.Model.NormalForm
/-!
Driver for the second batch of GENERATED definitions (`Gen/Algo2.lean`): handles the additional case kinds and
passes every other line on to `B.Drive.Algo.handle` (so `drv_algo2` is a superset of `drv_algo`).
-/
namespace B.Drive.Algo2
open B B.Drive B.Drive.Algo B.Gen.Algo B.Gen.Algo2 B.Lim B.Count

def showVal : Outcome (Option (Array Bool)) → String := showWitness

def showClause (n : Nat) : Outcome (Option (Array (Option Bool))) → String
  | .ok (some c) => fmtPartial c n
  | .ok none => "none"
  | .err _ => "err"
  | .panic m => if isFuel m then "panic:fuel" else "panic"

/-- recorded coin flips, padded with `false` (what the harness' `CoinRng` yields once the list is exhausted) so that
    the number of draws can be read off the remaining list -/
def padFlips (fl : List Bool) : List Bool := fl ++ List.replicate 4096 false
def draws (fl rest : List Bool) : Nat := (padFlips fl).length - rest.length

def showArrDraws (fl : List Bool) : Outcome (Arr × List Bool) → String
  | .ok (A, rest) => s!"{showArr A} {draws fl rest}"
  | .err _ => "err"
  | .panic m => if isFuel m then "panic:fuel" else "panic"

/-- fuel for operations that chain several applies over intermediate results of unknown size -/
def fuelBig (A : Arr) : Nat := 64 * (A.size * A.size * (numVars A + 2) + 64) * (numVars A + 2)

def parseMap? (s : String) : Option (List (Nat × Nat)) :=
  if s == "~" then some [] else
  (s.splitOn ",").mapM fun kv => match kv.splitOn ":" with
    | [k, v] => match k.toNat?, v.toNat? with
      | some k, some v => some (k, v)
      | _, _ => none
    | _ => none

def parseNames (s : String) : List String := if s == "~" then [] else s.splitOn ","

/-- `BddVariableSet::new(names)` as the harness builds it; `none` = the constructor panics (duplicate names) -/
def varSetOfNames (names : List String) : Option (Nat × Array String × Std.HashMap String Nat) :=
  let m := Gen.Rust.hashMapFromArr ((names.zipIdx.map fun (nm, i) => (nm, i)).toArray)
  if m.size != names.length then none else some (names.length, names.toArray, m)

/-- `BddVariableSet::new_anonymous(n)` through the generated constructor -/
def anonSet (n : Nat) : Outcome (Nat × Array String × Std.HashMap String Nat) := BddVariableSet_new_anonymous n

def showPairsSorted (m : Std.HashMap Nat Nat) : String :=
  let xs := m.toList.mergeSort (fun a b => decide (a.1 ≤ b.1))
  if xs.isEmpty then "~" else ",".intercalate (xs.map fun (a, b) => s!"{a}:{b}")

def fuelSub (F G : Arr) : Nat := 64 * ((4 * F.size * G.size + 64) * (4 * F.size * G.size + 64) + numVars F)
def fuelSat (n k : Nat) : Nat := 64 * ((n + 2) * (k + 2) * (n + 2) * (k + 2) + 64)

def showOAo : Outcome (Option Arr) → String := showOOA

def parseClause (s : String) : Array (Option Bool) :=
  if s == "~" then #[] else (s.toList.map fun c => if c == '1' then some true else if c == '0' then some false else none).toArray
def parseClauses (s : String) : Array (Array (Option Bool)) :=
  if s == "." then #[] else ((s.splitOn "/").map parseClause).toArray

/-- operations that chain applies over intermediate results: a bound that no terminating run reaches -/
def fuelHuge : Nat := 1000000000

def showOutClauses (n : Nat) : Outcome (Array (Array (Option Bool))) → String
  | .ok cs => fmtSlash cs.toList n
  | .err _ => "err"
  | .panic m => if isFuel m then "panic:fuel" else "panic"

/-! ### C18: partial valuations, conversions, comparators -/
abbrev PV := Array (Option Bool)

def cellCh : Option Bool → Char | some true => '1' | some false => '0' | none => '-'
def parseCell (c : String) : Option Bool := if c == "1" then some true else if c == "0" then some false else none

/-- harness `apply_history`: `s x=b` set_value, `u x` unset_value, `i x=c` IndexMut, `r` from_values(to_values), `T bits` From<BddValuation> -/
def applyHistory (h : String) : Outcome PV := do
  let mut p : PV := BddPartialValuation_empty
  if h == "~" then return p
  for op in h.splitOn "." do
    let kind := (op.take 1).toString
    let rest := (op.drop 1).toString
    if kind == "s" then
      match rest.splitOn "=" with
      | [x, b] => p := Gen.Rust.pvalSetValue p (x.toNat?.getD 0) (b == "1")
      | _ => Outcome.panic "bad op"
    else if kind == "u" then p := Gen.Rust.pvalUnsetValue p (rest.toNat?.getD 0)
    else if kind == "i" then
      match rest.splitOn "=" with
      | [x, c] => p := Gen.Rust.pvalSet p (x.toNat?.getD 0) (parseCell c)
      | _ => Outcome.panic "bad op"
    else if kind == "r" then p ← BddPartialValuation_from_values (BddPartialValuation_to_values p)
    else if kind == "T" then p := BddPartialValuation_from (parseBits rest).toArray
    else Outcome.panic "bad op"
  return p

def fmtVals2 (v : Array (Nat × Bool)) : String :=
  if v.isEmpty then "~" else ",".intercalate (v.toList.map fun (x, b) => s!"{x}={if b then 1 else 0}")
def fmtValuation (v : Array Bool) : String := if v.isEmpty then "~" else showBits v.toList
def pOr (f : String) : Outcome String → String
  | .ok s => s
  | .err _ => "err"
  | .panic m => if isFuel m then "panic:fuel" else f

def observeOne (p : PV) (k : Nat) : List String :=
  let get := String.ofList ((List.range k).map fun i => match BddPartialValuation_get_value p i with | .ok c => cellCh c | _ => '!')
  let idx := String.ofList ((List.range k).map fun i => cellCh (Gen.Rust.pvalIndex p i))
  [get, idx, fmtVals2 (BddPartialValuation_to_values p),
   pOr "panic" ((BddPartialValuation_cardinality p).map toString),
   pOr "panic" ((BddPartialValuation_last_fixed_variable p).map fun o => match o with | some v => toString v | none => "-"),
   if BddPartialValuation_is_empty p then "1" else "0",
   match BddValuation_try_from p with
   | .ok (.ok v) => fmtValuation v
   | .ok (.error _) => "err"
   | _ => "panic"]

def ordLetter : Option Ordering → Char
  | some .lt => 'L' | some .eq => 'E' | some .gt => 'G' | none => 'N'

def cmp5 (a b : Arr) : String :=
  let f := fuel2 a b
  let c1 := ordLetter (some (Bdd_cmp_size a b))
  let c2 := match Bdd_cmp_cardinality (fuel1 a + fuel1 b) a b with | .ok o => ordLetter (some o) | _ => 'P'
  let c3 := match Bdd_cmp_cardinality_strict (fuel1 a + fuel1 b) a b with | .ok o => ordLetter o | _ => 'P'
  let c4 := match Bdd_cmp_implies f a b with | .ok o => ordLetter o | _ => 'P'
  let c5 := ordLetter (some (Bdd_cmp_structural a b))
  String.ofList [c1, c2, c3, c4, c5]

/-! ### C12 / C13: byte-level serialisation through scripted readers / writers -/
def hexDigit (d : Nat) : Char := if d < 10 then Char.ofNat (48 + d) else Char.ofNat (87 + d)
def hexOfNats (bs : Array Nat) : String := if bs.isEmpty then "~" else String.ofList (bs.toList.flatMap fun b => [hexDigit (b / 16), hexDigit (b % 16)])
def hexVal (c : Char) : Nat :=
  if c.isDigit then c.toNat - 48 else if 'a' ≤ c && c ≤ 'f' then c.toNat - 87 else if 'A' ≤ c && c ≤ 'F' then c.toNat - 55 else 0
def unhexNats (s : String) : Array Nat :=
  if s == "~" then #[] else
  let rec go : List Char → List Nat
    | a :: b :: rest => (hexVal a * 16 + hexVal b) :: go rest
    | _ => []
  (go s.toList).toArray

def parseIoEv? (t : String) : Option Gen.Rust.IoEv :=
  if t == "i" then some .interrupted else if t == "e" then some .fail
  else match t.toList with
    | 'g' :: ds => (String.ofList ds).toNat?.map Gen.Rust.IoEv.give
    | _ => none
def parseIoScript? (s : String) : Option (List Gen.Rust.IoEv) :=
  if s == "~" then some [] else (s.splitOn ".").mapM parseIoEv?

def showArrE (A : Arr) : String := if A.isEmpty then "|" else showArr A
def fuelBytes (n : Nat) : Nat := n + 8

def handle (key : String) (ins obs : List String) : Verdict :=
  match key, ins, obs with
  -- ------------------------------------------------------------------ C18
  | "C18.pv", [ks, h1, h2], _ =>
    match ks.toNat?, applyHistory h1, applyHistory h2 with
    | some k, .ok p, .ok q =>
      let b01 := fun (b : Bool) => if b then "1" else "0"
      let hashOf := fun (x : PV) => BddPartialValuation_hash x #[]
      let hashEq := match hashOf p, hashOf q with | .ok a, .ok b => b01 (a == b) | _, _ => "panic"
      let back := fun (x : PV) => match BddValuation_try_from x with
        | .ok (.ok v) => (match BddPartialValuation_eq (BddPartialValuation_from v) x with | .ok b => b01 b | _ => "panic")
        | _ => "-"
      let g := observeOne p k ++ observeOne q k ++
        [pOr "panic" ((BddPartialValuation_eq p q).map b01), pOr "panic" ((BddPartialValuation_eq q p).map b01), hashEq,
         showOB (BddPartialValuation_extends p q), showOB (BddPartialValuation_extends q p), back p, back q]
      mk (" ".intercalate g) (" ".intercalate obs) none ["partial_valuation"]
    | _, _, _ => Verdict.bad "args"
  | "C18.conv", [bits], _ =>
    let v := (parseBits bits).toArray
    let pvl := BddPartialValuation_from v
    let b01 := fun (b : Bool) => if b then "1" else "0"
    let back := match BddValuation_try_from pvl with
      | .ok (.ok w) => b01 (w == v)
      | .ok (.error _) => "err"
      | _ => "panic"
    let rest := match Bdd_from v with
      | .ok b => [showArr b, showOB (Bdd_eval_in (fuel1 b) b v), showON (Bdd_exact_cardinality (fuel1 b) b),
          (match Bdd_sat_witness b with | .ok (some w) => b01 (w == v) | .ok none => "none" | _ => "panic"),
          showOB (Bdd_is_valuation (fuel1 b) b)]
      | _ => ["panic", "panic", "panic", "panic", "panic"]
    mk (" ".intercalate ([fmtVals2 (BddPartialValuation_to_values pvl), back] ++ rest)) (" ".intercalate obs) none ["valuation_conversions"]
  | "C18.ext", [bits, h], [res] =>
    match applyHistory h with
    | .ok p => mk (showOB (BddValuation_extends (parseBits bits).toArray p)) res none ["valuation_extends"]
    | _ => Verdict.bad "args"
  | "C18.cmp", [a, b, c], _ =>
    match parseArr? a, parseArr? b, parseArr? c with
    | some X, some Y, some Z =>
      let b01 := fun (b : Bool) => if b then "1" else "0"
      let g := [cmp5 X Y, cmp5 Y X, cmp5 Y Z, cmp5 X Z, cmp5 X X, b01 (X == Y), b01 (Y == Z), b01 (X == Z)]
      mk (" ".intercalate g) (" ".intercalate obs) none ["comparators"]
    | _, _, _ => Verdict.bad "args"
  -- ------------------------------------------------------------------ C05.cmp, C16 constants and literals
  | "C05.cmp", [a, b], [res] =>
    match parseArr? a, parseArr? b with
    | some A, some B =>
      let g := match Bdd_cmp_implies (fuel2 A B) A B with
        | .ok (some .lt) => "less" | .ok (some .eq) => "equal" | .ok (some .gt) => "greater" | .ok none => "none"
        | .err _ => "err" | .panic m => if isFuel m then "panic:fuel" else "panic"
      let hand := match cmpImplies A B with
        | some .lt => "less" | some .eq => "equal" | some .gt => "greater" | none => "none"
      mk g res (if numVars A == numVars B || true then some hand else none) ["cmp_implies"]
    | _, _ => Verdict.bad "args"
  | "C16.const", [ns], [t, f] =>
    match ns.toNat? with
    | some n =>
      let g : Outcome String := do
        let set ← anonSet n
        pure s!"{showArr (BddVariableSet_mk_true set)} {showArr (BddVariableSet_mk_false set)}"
      mk (pOr "panic" g) s!"{t} {f}" none ["mk_const"]
    | none => Verdict.bad "args"
  | "C16.lit", [ns, xs], [v, nv, lt, lf, vn, nvn] =>
    match ns.toNat?, xs.toNat? with
    | some n, some x =>
      let g : List String := match anonSet n with
        | .ok set => [showArr (BddVariableSet_mk_var set x), showArr (BddVariableSet_mk_not_var set x),
            showArr (BddVariableSet_mk_literal set x true), showArr (BddVariableSet_mk_literal set x false),
            showOA (BddVariableSet_mk_var_by_name set s!"x_{x}"), showOA (BddVariableSet_mk_not_var_by_name set s!"x_{x}")]
        | _ => ["panic"]
      mk (" ".intercalate g) (" ".intercalate [v, nv, lt, lf, vn, nvn]) none ["mk_literal"]
    | _, _ => Verdict.bad "args"
  -- ------------------------------------------------------------------ C12 / C13 bytes
  | "C12.wbytes", [b, sc], [kind, out, consumed, _] =>
    match parseArrE? b, parseIoScript? sc with
    | some A, some script =>
      let g := match Bdd_write_as_bytes A { script := script } with
        | .ok (r, w) => s!"{match r with | .ok _ => "ok" | .error _ => "err"} {hexOfNats w.out} {w.sp}"
        | _ => "panic"
      mk g s!"{kind} {out} {consumed}" none ["write_as_bytes"]
    | _, _ => Verdict.bad "args"
  | "C12.rbytes", [_, data, sc], [kind, res, consumed, wants] =>
    match parseIoScript? sc with
    | some script =>
      let bytes := unhexNats data
      let g := match Bdd_read_as_bytes (fuelBytes bytes.size) { data := bytes.toList, script := script } with
        | .ok (.ok A, r) => s!"ok {showArrE A} {r.sp} {showNats r.wants}"
        | .ok (.error _, r) => s!"err ~ {r.sp} {showNats r.wants}"
        | .err _ => "err"
        | .panic m => s!"panic:{m}"
      mk g s!"{kind} {res} {consumed} {wants}" none ["read_as_bytes"]
    | none => Verdict.bad "args"
  | "C12.mem", [b], [_, bytes, _, rtB, _] =>
    match parseArrE? b with
    | some A =>
      let tb := Bdd_to_bytes A
      let g1 := match tb with | .ok bs => hexOfNats bs | _ => "panic"
      let g2 := match tb with
        | .ok bs => (match Bdd_from_bytes (fuelBytes bs.size) bs with
          | .ok (A', _) => if A' == A then "1" else "0"
          | _ => "panic")
        | _ => "panic"
      mk s!"{g1} {g2}" s!"{bytes} {rtB}" none ["to_bytes", "from_bytes"]
    | none => Verdict.bad "args"
  | "C13.bytes", [data], kind :: bdd :: v :: _ =>
    let bytes := unhexNats data
    let g := match Bdd_read_as_bytes (fuelBytes bytes.size) (Gen.Rust.Reader.ofSlice bytes) with
      | .ok (.ok A, _) => s!"ok {showArrE A} {if v == "noeval" then v else genValidate A}"
      | .ok (.error _, _) => "err ~ -"
      | .err _ => "err ~ -"
      | .panic m => s!"panic:{m} ~ -"
    mk g s!"{kind} {bdd} {v}" none ["read_as_bytes", "validate"]
  -- ------------------------------------------------------------------ C11
  | k, [a], [w, fv, lv, mp, mn, fc, lc, mfx, mfr, nec, isC, isV] =>
    if k != "C11.sel" && k != "C11.nc" then Algo.handle key ins obs else
    match parseArr? a with
    | some A =>
      let n := numVars A
      let f := fuel1 A
      let g := " ".intercalate [showWitness (Bdd_sat_witness A),
        showVal (Bdd_first_valuation f A), showVal (Bdd_last_valuation f A),
        showVal (Bdd_most_positive_valuation f A), showVal (Bdd_most_negative_valuation f A),
        showClause n (Bdd_first_clause f A), showClause n (Bdd_last_clause f A),
        showClause n (Bdd_most_fixed_clause f A), showClause n (Bdd_most_free_clause f A),
        showClause n (Bdd_necessary_clause A),
        showOB (Bdd_is_clause f A), showOB (Bdd_is_valuation f A)]
      mk g (" ".intercalate [w, fv, lv, mp, mn, fc, lc, mfx, mfr, nec, isC, isV]) (some (" ".intercalate (C11.modelSel A)))
        ["valuation_utils"]
    | none => Verdict.bad "args"
  | k, [a, fl], [rv, rc] =>
    if k != "C11.rand" && k != "C11.ncrand" then Algo.handle key ins obs else
    match parseArr? a with
    | some A =>
      let n := numVars A
      let flips := parseBits fl
      let g1 := showVal ((Bdd_random_valuation A (padFlips flips)).map (·.1))
      let g2 := showClause n ((Bdd_random_clause (fuel1 A) A (padFlips flips)).map (·.1))
      mk s!"{g1} {g2}" s!"{rv} {rc}" (some (" ".intercalate (C11.modelRand A flips))) ["random_valuation", "random_clause"]
    | none => Verdict.bad "args"
  -- ------------------------------------------------------------------ C06 through the public methods
  | "C06.vsel", [a, x, b], [res] =>
    match parseArr? a, x.toNat? with
    | some A, some x => mk (showOA (Bdd_var_select (fuel2 A A) A x (b == "1"))) res (some (showArr (varSelect A x (b == "1")))) ["var_select"]
    | _, _ => Verdict.bad "args"
  | "C06.select", [a, lits], [res] =>
    match parseArr? a, parseLits? lits with
    | some A, some ls => mk (showOA (Bdd_select (fuelBig A) A ls.toArray)) res (some (showArr (select A ls))) ["select"]
    | _, _ => Verdict.bad "args"
  | "C06.vex", [a, x], [res] =>
    match parseArr? a, x.toNat? with
    | some A, some x => mk (showOA (Bdd_var_exists (fuel2 A A) A x)) res (some (showOA (Rel.varExistsO A x))) ["var_exists"]
    | _, _ => Verdict.bad "args"
  | "C06.vall", [a, x], [res] =>
    match parseArr? a, x.toNat? with
    | some A, some x => mk (showOA (Bdd_var_for_all (fuel2 A A) A x)) res (some (showOA (Rel.varForAllO A x))) ["var_for_all"]
    | _, _ => Verdict.bad "args"
  | "C06.vpick", [a, x], [res] =>
    match parseArr? a, x.toNat? with
    | some A, some x => mk (showOA (Bdd_var_pick (fuelBig A) A x)) res (some (showOA (varPickO A x))) ["var_pick"]
    | _, _ => Verdict.bad "args"
  | "C06.vpickr", [a, x, flips], [res, pos] =>
    match parseArr? a, x.toNat? with
    | some A, some x =>
      let fl := parseBits flips
      let coin := (drawCoin fl).1
      let hand := match varPickRandomO A x coin with
        | .ok R => s!"{showArr R} 1"
        | _ => "panic"
      let obsS := if res == "panic" then "panic" else s!"{res} {pos}"
      mk (showArrDraws fl (Bdd_var_pick_random (fuelBig A) A x (padFlips fl))) obsS (some hand) ["var_pick_random"]
    | _, _ => Verdict.bad "args"
  | "C06.pick", [a, vars], [res] =>
    match parseArr? a, Algo.parseVars? vars with
    | some A, some vs => mk (showOA (Bdd_pick (fuelBig A) A vs.toArray)) res (some (showOA (pickO A vs))) ["pick"]
    | _, _ => Verdict.bad "args"
  | "C06.pickr", [a, vars, flips], [res, pos] =>
    match parseArr? a, Algo.parseVars? vars with
    | some A, some vs =>
      let fl := parseBits flips
      let hand := match pickRandomO A vs fl with
        | .ok R => s!"{showArr R} {pickRandomDraws vs}"
        | _ => "panic"
      let obsS := if res == "panic" then "panic" else s!"{res} {pos}"
      mk (showArrDraws fl (Bdd_pick_random (fuelBig A) A vs.toArray (padFlips fl))) obsS (some hand) ["pick_random"]
    | _, _ => Verdict.bad "args"
  -- ------------------------------------------------------------------ C03 through the public methods
  | "C03.exq", [_, table, _, l, r, vs1, vs2], [r1, r2] =>
    match parseArr? l, parseArr? r, Algo.parseVars? vs1, Algo.parseVars? vs2 with
    | some L, some R, some v1, some v2 =>
      let op := op2OfTable table
      let g := fun (vs : List Nat) => showOA (Bdd_binary_op_with_exists (fuelN L R) L R op vs.toArray)
      let h := fun (vs : List Nat) => showOptArr (nestedApplyO L R (trigOfList vs) op Gen.or_)
      mk s!"{g v1} {g v2}" s!"{r1} {r2}" (some s!"{h v1} {h v2}") ["binary_op_with_exists"]
    | _, _, _, _ => Verdict.bad "args"
  | "C03.allq", [_, table, _, l, r, vs1, vs2], [r1, r2] =>
    match parseArr? l, parseArr? r, Algo.parseVars? vs1, Algo.parseVars? vs2 with
    | some L, some R, some v1, some v2 =>
      let op := op2OfTable table
      let g := fun (vs : List Nat) => showOA (Bdd_binary_op_with_for_all (fuelN L R) L R op vs.toArray)
      let h := fun (vs : List Nat) => showOptArr (nestedApplyO L R (trigOfList vs) op Gen.and_)
      mk s!"{g v1} {g v2}" s!"{r1} {r2}" (some s!"{h v1} {h v2}") ["binary_op_with_for_all"]
    | _, _, _, _ => Verdict.bad "args"
  | "C03.exists", [l, vs1, vs2], [r1, r2, r3] =>
    match parseArr? l, Algo.parseVars? vs1, Algo.parseVars? vs2 with
    | some L, some v1, some v2 =>
      let g := fun (vs : List Nat) => showOA (Bdd_exists (fuelN L L) L vs.toArray)
      mk s!"{g v1} {g v2} {showOA (Bdd_project (fuelN L L) L v1.toArray)}" s!"{r1} {r2} {r3}"
        (some s!"{showArr (bddExists L v1)} {showArr (bddExists L v2)} {showArr (bddExists L v1)}") ["exists", "project"]
    | _, _, _ => Verdict.bad "args"
  | "C03.forall", [l, vs1, vs2], r1 :: r2 :: _ =>
    match parseArr? l, Algo.parseVars? vs1, Algo.parseVars? vs2 with
    | some L, some v1, some v2 =>
      let g := fun (vs : List Nat) => showOA (Bdd_for_all (fuelN L L) L vs.toArray)
      mk s!"{g v1} {g v2}" s!"{r1} {r2}" (some s!"{showArr (bddForAll L v1)} {showArr (bddForAll L v2)}") ["for_all"]
    | _, _, _ => Verdict.bad "args"
  | "C03.varex", [l, x], r1 :: rest =>
    match parseArr? l, x.toNat? with
    | some L, some x =>
      -- second observation: the deprecated alias `var_project`
      let g := showOA (Bdd_var_exists (fuel2 L L) L x)
      let g2 := showOA (Bdd_var_project (fuel2 L L) L x)
      mk s!"{g} {g2}" s!"{r1} {rest.headD r1}" (some s!"{showOptArr (varExistsO L x)} {showOptArr (varExistsO L x)}") ["var_exists", "var_project"]
    | _, _ => Verdict.bad "args"
  | "C03.varall", [l, x], r1 :: _ =>
    match parseArr? l, x.toNat? with
    | some L, some x => mk (showOA (Bdd_var_for_all (fuel2 L L) L x)) r1 (some (showOptArr (varForAllO L x))) ["var_for_all"]
    | _, _ => Verdict.bad "args"
  -- ------------------------------------------------------------------ C07 / C17 / C16 / C09
  | "C07.sub", [f, g, x], [res] =>
    match parseArr? f, parseArr? g, x.toNat? with
    | some F, some G, some x =>
      mk (showOA (Bdd_substitute (fuelSub F G) F x G)) res (some (showOA (B.Ren.Subst.substitute F x G))) ["substitute"]
    | _, _, _ => Verdict.bad "args"
  | "C17.setnv", [a, nv], [res] =>
    match parseArr? a, nv.toNat? with
    | some A, some nv => mk (showOA (Bdd_set_num_vars A nv)) res (some (showOA (B.Ren.setNumVars A nv))) ["set_num_vars"]
    | _, _ => Verdict.bad "args"
  | "C17.renvars", [a, m], [res] =>
    match parseArr? a, parseMap? m with
    | some A, some kv =>
      -- the harness inserts the pairs in order (a later pair for the same key wins)
      let pm : Std.HashMap Nat Nat := Gen.Rust.hashMapFromArr kv.toArray
      mk (showOA (Bdd_rename_variables A pm)) res (some (showOA (B.Ren.renameVariables A (B.Ren.varMapOfList kv)))) ["rename_variables"]
    | _, _ => Verdict.bad "args"
  | "C17.renvar", [a, o, nw], [res] =>
    match parseArr? a, o.toNat?, nw.toNat? with
    | some A, some o, some nw => mk (showOA (Bdd_rename_variable A o nw)) res (some (showOA (B.Ren.renameVariable A o nw))) ["rename_variable"]
    | _, _, _ => Verdict.bad "args"
  | "C17.transfer", [a, src, tgt], [res] =>
    match parseArr? a with
    | some A =>
      let g := match varSetOfNames (parseNames src), varSetOfNames (parseNames tgt) with
        | some source, some target => showOAo (BddVariableSet_transfer_from target A source)
        | _, _ => "panic"
      let hand := match B.Ren.transferFrom (parseNames tgt) A (parseNames src) with
        | .ok R => showArr R
        | .err _ => "none"
        | .panic _ => "panic"
      mk g res (some hand) ["transfer_from"]
    | none => Verdict.bad "args"
  | k, [ns, ks, vars], [res] =>
    if k != "C16.exactly" && k != "C16.upto" then Algo.handle key ins obs else
    match ns.toNat?, ks.toNat?, Algo.parseVars? vars with
    | some n, some kk, some vs =>
      let g : Outcome Arr := do
        let set ← anonSet n
        if k == "C16.exactly" then BddVariableSet_mk_sat_exactly_k (fuelSat n kk) set kk vs.toArray
        else BddVariableSet_mk_sat_up_to_k (fuelSat n kk) set kk vs.toArray
      let hand := if k == "C16.exactly" then B.VS.mkSatExactlyK n kk vs else B.VS.mkSatUpToK n kk vs
      mk (showOA g) res (some (showOA hand)) ["mk_sat_k"]
    | _, _, _ => Verdict.bad "args"
  | "C09.cnt", [a], [_, _, _, _, oSpv, _, _] =>
    match parseArr? a with
    | some A =>
      let v1 := Algo.handle key ins obs
      let g := match Bdd_size_per_variable A with
        | .ok m => showPairsSorted m
        | _ => "panic"
      let v2 := mk g oSpv none ["size_per_variable"]
      { v1 with agree := v1.agree && v2.agree, model := v1.model ++ " | " ++ v2.model, tags := v1.tags ++ v2.tags }
    | none => Verdict.bad "args"
  -- ------------------------------------------------------------------ C10
  | k, [ns, cl], [res] =>
    if k != "C10.dnf" && k != "C10.cnf" && k != "C10.conj" && k != "C10.disj" then Algo.handle key ins obs else
    match ns.toNat? with
    | some n =>
      let g : Outcome Arr := do
        let set ← anonSet n
        if k == "C10.dnf" then BddVariableSet_mk_dnf fuelHuge set (parseClauses cl)
        else if k == "C10.cnf" then BddVariableSet_mk_cnf fuelHuge set (parseClauses cl)
        else if k == "C10.conj" then BddVariableSet_mk_conjunctive_clause set (parseClause cl)
        else BddVariableSet_mk_disjunctive_clause set (parseClause cl)
      let toL := fun (c : Array (Option Bool)) => c.toList
      let hand : Outcome Arr :=
        if k == "C10.dnf" then B.NF.mkDnf n ((parseClauses cl).toList.map toL)
        else if k == "C10.cnf" then B.NF.mkCnf n ((parseClauses cl).toList.map toL)
        else if k == "C10.conj" then B.NF.mkConjClause n (parseClause cl).toList
        else B.NF.mkDisjClause n (parseClause cl).toList
      mk (showOA g) res (some (showOA hand)) [if k == "C10.dnf" then "mk_dnf" else if k == "C10.cnf" then "mk_cnf" else "mk_clause"]
    | none => Verdict.bad "args"
  | "C10.ext", [a], [dnf, cnf, rd, rc, _] =>
    match parseArr? a with
    | some A =>
      let n := numVars A
      let d := genDnf A (countSlash dnf)
      let c := genCnf A
      let g1 := showOClauses (fmtSlash · n) d
      let g2 := showOClauses (fmtSlash · n) c
      let back := fun (isD : Bool) (cs : Outcome (List (Array (Option Bool)))) => match cs with
        | .ok cs => showOA (do
            let set ← anonSet n
            if isD then BddVariableSet_mk_dnf fuelHuge set cs.toArray else BddVariableSet_mk_cnf fuelHuge set cs.toArray)
        | _ => "panic"
      mk s!"{g1} {g2} {back true d} {back false c}" s!"{dnf} {cnf} {rd} {rc}" none ["to_dnf", "to_cnf", "mk_dnf", "mk_cnf"]
    | none => Verdict.bad "args"
  | "C10.opt", [a], [dnf, rd, _] =>
    match parseArr? a with
    | some A =>
      let n := numVars A
      let d : Outcome (Array (Array (Option Bool))) := Bdd_to_optimized_dnf fuelHuge A
      let back := match d with
        | .ok cs => showOA (do
            let set ← anonSet n
            BddVariableSet_mk_dnf fuelHuge set cs)
        | _ => "panic"
      let hand := match B.NF.toOptimizedDnf A with
        | .ok cs => fmtSlash (cs.map (fun (c : List (Option Bool)) => c.toArray)) n
        | _ => "panic"
      mk s!"{showOutClauses n d} {back}" s!"{dnf} {rd}" (some s!"{hand} {back}") ["to_optimized_dnf", "mk_dnf"]
    | none => Verdict.bad "args"
  | _, _, _ => Algo.handle key ins obs

end B.Drive.Algo2
