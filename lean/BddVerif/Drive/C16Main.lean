import BddVerif.Drive.C16
def main : IO Unit := B.Drive.runLoop B.Drive.C16.handle
