import BddVerif.Drive.Util
import BddVerif.Model.NormalForm
/-!
Driver for C10: replays each observed case through the model (`Model/NormalForm.lean`) and evaluates the
property's own predicate on the implementation's output, by brute force over truth tables:

  mk_dnf  : truth table of the result = union of the clauses' truth tables, result canonical
  mk_cnf  : truth table of the result = intersection of the disjunctive clauses' tables, result canonical
  mk_conjunctive_clause / mk_disjunctive_clause : table of the single clause, result canonical
  to_dnf / to_cnf / to_optimized_dnf : the extracted list denotes the operand (and every clause of the
            optimised DNF implies it), and the rebuilt Bdd is the operand itself (structurally; for a valid but
            non-canonical operand: same function and canonical)
  a panic on clauses that only mention variables `< num_vars` is a failure.
Clauses that mention a variable `≥ num_vars` are outside the property: only model agreement is checked.
-/
namespace B.Drive.C10
open B B.Drive B.NF

def maxTT : Nat := 13

/-- clause text: the raw vector over `0`, `1`, `-`; `~` = empty vector -/
def parseClause (s : String) : PVal :=
  if s == "~" then [] else s.toList.map fun c => if c == '1' then some true else if c == '0' then some false else none

def parseClauses (s : String) : List PVal :=
  if s == "." then [] else (s.splitOn "/").map parseClause

/-- observed clause (`fmt_partial`): `01-` over the `n` variables, then `;idx=val` for the others -/
def parseObsClause (s : String) : PVal :=
  match s.splitOn ";" with
  | [] => []
  | h :: extras =>
    extras.foldl (fun pv e =>
      match e.splitOn "=" with
      | [i, b] => match i.toNat? with
        | some i => pv.set i (b == "1")
        | none => pv
      | _ => pv) (parseClause h)

def parseObsClauses (s : String) : Option (List PVal) :=
  if s == "panic" then none else if s == "." then some [] else some ((s.splitOn "/").map parseObsClause)

/-- the harness's `fmt_partial p n` -/
def showClause (n : Nat) (c : PVal) : String :=
  let base := String.ofList ((List.range n).map fun i =>
    match c.get i with | some true => '1' | some false => '0' | none => '-')
  let base := if base.isEmpty then "~" else base
  let extras := (c.toValues.filter fun l => l.1 ≥ n).map fun l => s!";{l.1}={if l.2 then 1 else 0}"
  base ++ String.join extras

def showClauses (n : Nat) (cs : List PVal) : String :=
  if cs.isEmpty then "." else "/".intercalate (cs.map (showClause n))

def showOutArr : Outcome Arr → String
  | .ok A => showArr A
  | .err _ => "err"
  | .panic _ => "panic"

def showOutClauses (n : Nat) : Outcome (List PVal) → String
  | .ok cs => showClauses n cs
  | .err _ => "err"
  | .panic _ => "panic"

/-- every fixed position of the clause is a variable `< n` -/
def inRange (n : Nat) (c : PVal) : Bool := c.toValues.all fun l => l.1 < n

/-- the conjunctive reading of a clause at valuation number `i` over `n` variables -/
def conjAt (n : Nat) (c : PVal) (i : Nat) : Bool :=
  (List.range n).all fun k => match c.get k with | some b => valOfIndex n i k == b | none => true

/-- the disjunctive reading -/
def disjAt (n : Nat) (c : PVal) (i : Nat) : Bool :=
  (List.range n).any fun k => match c.get k with | some b => valOfIndex n i k == b | none => false

def dnfAt (n : Nat) (cs : List PVal) (i : Nat) : Bool := cs.any fun c => conjAt n c i
def cnfAt (n : Nat) (cs : List PVal) (i : Nat) : Bool := cs.all fun c => disjAt n c i

def firstFail (xs : List (Option String)) : Option String := xs.findSome? id

/-- `A` is a canonical Bdd over `n` variables whose table is `f` -/
def checkBuilt (n : Nat) (A : Arr) (f : Nat → Bool) (what : String) : Option String :=
  if numVars A != n then some (what ++ ":num_vars") else
  if !isCanon A then some (what ++ ":not-canonical") else
  if n > maxTT then none else
  let t := ttOf A n
  if (List.range (2 ^ n)).all fun i => t[i]! == f i then none else some (what ++ ":function")

/-- the rebuilt Bdd against the operand -/
def checkRebuilt (n : Nat) (b : Arr) (canonB : Bool) (r : String) (what : String) : Option String :=
  match parseArr? r with
  | none => some (what ++ ":" ++ r)
  | some R =>
    if canonB then (if R == b then none else some (what ++ ":differs-from-operand"))
    else
      let tb := ttOf b n
      checkBuilt n R (fun i => tb[i]!) what

def sizeTag (k : Nat) : String := if k = 0 then "len0" else if k = 1 then "len1" else if k ≤ 3 then "len2-3" else "len4+"

def hasDup (cs : List PVal) : Bool :=
  match cs with
  | [] => false
  | c :: t => t.any (clauseEq c ·) || hasDup t

def handleMk (key : String) (n : Nat) (cs : List PVal) (model : String) (res : String) (dnf : Bool) : Verdict :=
  let ok := cs.all (inRange n)
  let fail : Option String :=
    if !ok then none else
    match parseArr? res with
    | none => some ("outcome-on-valid-clauses:" ++ res)
    | some A => checkBuilt n A (if dnf then dnfAt n cs else cnfAt n cs) key
  { agree := model == res, model, fail,
    nontrivial := ok && cs.length ≥ 2 && (parseArr? res).any (·.size > 2),
    tags := [key, sizeTag cs.length, s!"n{n}"] ++ (if ok then [] else ["oob"]) ++
      (if hasDup cs then ["dup"] else []) ++ (if res == "panic" then ["panic"] else []) }

def handle (key : String) (ins obs : List String) : Verdict :=
  match key, ins, obs with
  | "C10.dnf", [n, cl], [res] =>
    match n.toNat? with
    | some n =>
      let cs := parseClauses cl
      handleMk key n cs (showOutArr (mkDnf n cs)) res true
    | none => Verdict.bad "args"
  | "C10.cnf", [n, cl], [res] =>
    match n.toNat? with
    | some n =>
      let cs := parseClauses cl
      handleMk key n cs (showOutArr (mkCnf n cs)) res false
    | none => Verdict.bad "args"
  | "C10.conj", [n, cl], [res] =>
    match n.toNat? with
    | some n =>
      let c := parseClause cl
      let model := showOutArr (mkConjClause n c)
      let ok := inRange n c
      let fail := if !ok then (if res == "panic" then none else some "no-panic-on-foreign-variable") else
        match parseArr? res with
        | none => some ("outcome-on-valid-clause:" ++ res)
        | some A => checkBuilt n A (conjAt n c) key
      { agree := model == res, model, fail, nontrivial := ok && c.toValues.length ≥ 1,
        tags := [key, s!"n{n}"] ++ (if ok then [] else ["oob"]) }
    | none => Verdict.bad "args"
  | "C10.disj", [n, cl], [res] =>
    match n.toNat? with
    | some n =>
      let c := parseClause cl
      let model := showOutArr (mkDisjClause n c)
      let ok := inRange n c
      let fail := if !ok then (if res == "panic" then none else some "no-panic-on-foreign-variable") else
        match parseArr? res with
        | none => some ("outcome-on-valid-clause:" ++ res)
        | some A => checkBuilt n A (disjAt n c) key
      { agree := model == res, model, fail, nontrivial := ok && c.toValues.length ≥ 1,
        tags := [key, s!"n{n}"] ++ (if ok then [] else ["oob"]) }
    | none => Verdict.bad "args"
  | "C10.ext", [b], [dnf, cnf, rd, rc] =>
    match parseArr? b with
    | some A =>
      let n := numVars A
      let md := toDnf A
      let mc := toCnf A
      let mrd : Outcome Arr := match md with | .ok cs => mkDnf n cs | .err m => .err m | .panic m => .panic m
      let mrc : Outcome Arr := match mc with | .ok cs => mkCnf n cs | .err m => .err m | .panic m => .panic m
      let model := " ".intercalate [showOutClauses n md, showOutClauses n mc, showOutArr mrd, showOutArr mrc]
      let canonB := isCanon A
      let tb := ttOf A n
      let fail := firstFail [
        match parseObsClauses dnf with
        | none => some "to_dnf:panic"
        | some cs =>
          if !(cs.all (inRange n)) then some "to_dnf:foreign-variable" else
          if (List.range (2 ^ n)).all fun i => dnfAt n cs i == tb[i]! then none else some "to_dnf:function",
        match parseObsClauses cnf with
        | none => some "to_cnf:panic"
        | some cs =>
          if !(cs.all (inRange n)) then some "to_cnf:foreign-variable" else
          if (List.range (2 ^ n)).all fun i => cnfAt n cs i == tb[i]! then none else some "to_cnf:function",
        checkRebuilt n A canonB rd "mk_dnf(to_dnf)",
        checkRebuilt n A canonB rc "mk_cnf(to_cnf)"]
      { agree := model == " ".intercalate [dnf, cnf, rd, rc], model, fail, nontrivial := A.size > 2,
        tags := [key, s!"n{n}", if canonB then "canonical" else "noncanonical",
          sizeTag ((parseObsClauses dnf).getD []).length] }
    | none => Verdict.bad "args"
  | "C10.opt", [b], [dnf, rd] =>
    match parseArr? b with
    | some A =>
      let n := numVars A
      let md := toOptimizedDnf A
      let mrd : Outcome Arr := match md with | .ok cs => mkDnf n cs | .err m => .err m | .panic m => .panic m
      let model := " ".intercalate [showOutClauses n md, showOutArr mrd]
      let canonB := isCanon A
      let tb := ttOf A n
      let fail := firstFail [
        match parseObsClauses dnf with
        | none => some "to_optimized_dnf:panic"
        | some cs =>
          if !(cs.all (inRange n)) then some "to_optimized_dnf:foreign-variable" else
          if !(cs.all fun c => (List.range (2 ^ n)).all fun i => !conjAt n c i || tb[i]!) then
            some "to_optimized_dnf:clause-not-an-implicant" else
          if (List.range (2 ^ n)).all fun i => dnfAt n cs i == tb[i]! then none else some "to_optimized_dnf:function",
        checkRebuilt n A canonB rd "mk_dnf(to_optimized_dnf)"]
      { agree := model == " ".intercalate [dnf, rd], model, fail, nontrivial := A.size > 2,
        tags := [key, s!"n{n}", sizeTag ((parseObsClauses dnf).getD []).length] }
    | none => Verdict.bad "args"
  | _, _, _ => Verdict.bad ("key " ++ key)

end B.Drive.C10
