import BddVerif.Drive.Util
import BddVerif.Model.NormalForm
/-!
Driver for C10: replays each observed case through the model (`Model/NormalForm.lean`) and evaluates the
property's own predicate on the implementation's output, by brute force over truth tables:

  mk_dnf  : truth table of the result = union of the clauses' truth tables, result canonical
  mk_cnf  : truth table of the result = intersection of the disjunctive clauses' tables, result canonical
  mk_conjunctive_clause / mk_disjunctive_clause : table of the single clause, result canonical
  to_dnf / to_cnf / to_optimized_dnf : the extracted list denotes the operand (and every clause of the
            optimised DNF implies it), and the rebuilt Bdd is the operand itself (structurally; for a valid but
            non-canonical operand: same function and canonical)
  a panic on clauses that only mention variables `< num_vars` is a failure.
Wide operands (more than `maxTT` variables, no truth table): every DNF clause is an implicant and the operand
implies every CNF clause (exact, by one memoised walk of the diagram under the clause, plus evaluation at the
corner valuations of the clause), the rebuilt Bdd is the operand, the observed clause list denotes the operand
(`mkDnf`/`mkCnf` of the model on the OBSERVED list is the operand — sound by `mk_dnf_spec`/`mk_cnf_spec`), and
the library's own verdicts (the `bits` field) say the same.
Outside the property's quantifier the predicate is OFF and the verdict is agreement with the model only (OK / DIS):
  * clauses that fix a variable `≥ num_vars` (mk_dnf, mk_cnf, both clause constructors) — whatever is observed
    (a Bdd, `panic`, `hang`);
  * a valid non-canonical operand ("rebuild == b" cannot hold) on which an extraction panics or hangs — this
    includes the operands on which to_optimized_dnf refuses (`opt_dnf_refuses_spurious_support`, tag `opt-refuses`):
    the model predicts the panic, a change that makes the code work there is a disagreement, not a failure.
  When the extractions of a non-canonical operand do return, the function-preservation clauses stay on (the lists
  denote the operand, the rebuild is canonical with the same function).
The order of the clauses and the choice among several valid optimised DNFs are never part of the predicate.
Clauses that mention a variable `≥ num_vars` are outside the property: only model agreement is checked.
-/
namespace B.Drive.C10
open B B.Drive B.NF

def maxTT : Nat := 13

/-- clause text: the raw vector over `0`, `1`, `-`; `~` = empty vector -/
def parseClause (s : String) : PVal :=
  if s == "~" then [] else s.toList.map fun c => if c == '1' then some true else if c == '0' then some false else none

def parseClauses (s : String) : List PVal :=
  if s == "." then [] else (s.splitOn "/").map parseClause

/-- observed clause (`fmt_partial`): `01-` over the `n` variables, then `;idx=val` for the others -/
def parseObsClause (s : String) : PVal :=
  match s.splitOn ";" with
  | [] => []
  | h :: extras =>
    extras.foldl (fun pv e =>
      match e.splitOn "=" with
      | [i, b] => match i.toNat? with
        | some i => pv.set i (b == "1")
        | none => pv
      | _ => pv) (parseClause h)

def parseObsClauses (s : String) : Option (List PVal) :=
  if s == "panic" then none else if s == "." then some [] else some ((s.splitOn "/").map parseObsClause)

/-- the harness's `fmt_partial p n` -/
def showClause (n : Nat) (c : PVal) : String :=
  let base := String.ofList (((c.take n).map fun o =>
    match o with | some true => '1' | some false => '0' | none => '-') ++ List.replicate (n - c.length) '-')
  let base := if base.isEmpty then "~" else base
  let extras := (c.toValues.filter fun l => l.1 ≥ n).map fun l => s!";{l.1}={if l.2 then 1 else 0}"
  base ++ String.join extras

def showClauses (n : Nat) (cs : List PVal) : String :=
  if cs.isEmpty then "." else "/".intercalate (cs.map (showClause n))

def showOutArr : Outcome Arr → String
  | .ok A => showArr A
  | .err _ => "err"
  | .panic _ => "panic"

def showOutClauses (n : Nat) : Outcome (List PVal) → String
  | .ok cs => showClauses n cs
  | .err _ => "err"
  | .panic _ => "panic"

/-- every fixed position of the clause is a variable `< n` -/
def inRange (n : Nat) (c : PVal) : Bool := c.toValues.all fun l => l.1 < n

/-- the conjunctive reading of a clause at valuation number `i` over `n` variables -/
def conjAt (n : Nat) (c : PVal) (i : Nat) : Bool :=
  (List.range n).all fun k => match c.get k with | some b => valOfIndex n i k == b | none => true

/-- the disjunctive reading -/
def disjAt (n : Nat) (c : PVal) (i : Nat) : Bool :=
  (List.range n).any fun k => match c.get k with | some b => valOfIndex n i k == b | none => false

def dnfAt (n : Nat) (cs : List PVal) (i : Nat) : Bool := cs.any fun c => conjAt n c i
def cnfAt (n : Nat) (cs : List PVal) (i : Nat) : Bool := cs.all fun c => disjAt n c i

def firstFail (xs : List (Option String)) : Option String := xs.findSome? id

/-- `A` is a canonical Bdd over `n` variables whose table is `f` -/
def checkBuilt (n : Nat) (A : Arr) (f : Nat → Bool) (what : String) : Option String :=
  if numVars A != n then some (what ++ ":num_vars") else
  if !isCanon A then some (what ++ ":not-canonical") else
  if n > maxTT then none else
  let t := ttOf A n
  if (List.range (2 ^ n)).all fun i => t[i]! == f i then none else some (what ++ ":function")

/-- the rebuilt Bdd against the operand -/
def checkRebuilt (n : Nat) (b : Arr) (canonB : Bool) (r : String) (what : String) : Option String :=
  match parseArr? r with
  | none => some (what ++ ":" ++ r)
  | some R =>
    if canonB then (if R == b then none else some (what ++ ":differs-from-operand"))
    else
      let tb := ttOf b n
      checkBuilt n R (fun i => tb[i]!) what

/-- is the diagram constant once the variables fixed by `c` are substituted? `0`/`1` = constant false/true,
    `2` = not constant. One walk with a memo table (`3` = not yet known); fuel = depth. -/
def underGo (A : Arr) (c : PVal) : Nat → Nat → Array Nat → Array Nat × Nat
  | 0, _, memo => (memo, 2)
  | fuel + 1, p, memo =>
    if p < 2 then (memo, p)
    else if memo.getD p 3 != 3 then (memo, memo.getD p 3)
    else
      let nd := nodeAt A p
      let (memo, r) := match c.get nd.var with
        | some true => underGo A c fuel nd.high memo
        | some false => underGo A c fuel nd.low memo
        | none =>
          let (m1, r1) := underGo A c fuel nd.low memo
          let (m2, r2) := underGo A c fuel nd.high m1
          (m2, if r1 == r2 then r1 else 2)
      (memo.setIfInBounds p r, r)

def constUnder (A : Arr) (c : PVal) : Nat :=
  if A.size = 1 then 0 else (underGo A c (numVars A + 2) (root A) (Array.replicate A.size 3)).2

/-- the clause as a total valuation: fixed positions as given, the free ones by `fill` -/
def cornerVal (c : PVal) (fill : Nat → Bool) : Nat → Bool := fun k => (c.get k).getD (fill k)

/-- SplitMix-style bit, deterministic in (seed, k) -/
def pseudoBit (seed k : Nat) : Bool :=
  let z := ((seed + 1) * 0x9E3779B97F4A7C15 + k * 0xBF58476D1CE4E5B9) % 18446744073709551616
  let z := (z ^^^ (z >>> 30)) * 0x94D049BB133111EB % 18446744073709551616
  (z >>> 17) % 2 == 1

def cornerFills : List (Nat → Bool) :=
  [fun _ => false, fun _ => true, pseudoBit 1, pseudoBit 2, pseudoBit 3, fun k => k % 2 == 0]

/-- negation of every literal: the cube on which a disjunctive clause is false -/
def negClause (c : PVal) : PVal := c.map fun o => o.map (!·)

/-- every clause of a DNF is an implicant of `A`: exact walk and corner valuations -/
def implicantFail (A : Arr) (cs : List PVal) (what : String) : Option String :=
  if cs.any fun c => constUnder A c != 1 then some (what ++ ":clause-not-an-implicant")
  else if cs.any fun c => cornerFills.any fun fill => !evalArr A (cornerVal c fill) then
    some (what ++ ":clause-not-an-implicant(corner)")
  else none

/-- `A` implies every disjunctive clause -/
def impliedFail (A : Arr) (cs : List PVal) (what : String) : Option String :=
  if cs.any fun c => constUnder A (negClause c) != 0 then some (what ++ ":clause-not-implied")
  else if cs.any fun c => cornerFills.any fun fill => evalArr A (cornerVal (negClause c) fill) then
    some (what ++ ":clause-not-implied(corner)")
  else none

/-- the library's own verdicts -/
def bitsFail (bits : String) (names : List (String × Bool)) : Option String :=
  let bs := bits.toList
  if bs.length != names.length then some ("bits:" ++ bits) else
  (bs.zip names).findSome? fun (b, (name, required)) =>
    if required && b != '1' then some ("lib:" ++ name ++ (if b == 'p' then ":panic" else ":false")) else none

/-- does the truth table depend on variable `x`? (variable `k` is bit `n-1-k` of the index) -/
def dependsTT (n : Nat) (tb : Array Bool) (x : Nat) : Bool :=
  (List.range (2 ^ n)).any fun i => tb[i]! != tb[i ^^^ (1 <<< (n - 1 - x))]!

/-- the operand on which `to_optimized_dnf` refuses (`opt_dnf_refuses_spurious_support`): a decision node,
    a satisfiable function and some node — reachable or not — labelled by a variable the function ignores;
    on every other valid operand it must succeed (`mk_dnf_to_opt_dnf_canon`) -/
def expectOptPanic (A : Arr) (n : Nat) (tb : Array Bool) : Bool :=
  A.size ≥ 3 && tb.any id && ((A.toList.drop 2).any fun nd => !dependsTT n tb nd.var)

def sizeTag (k : Nat) : String := if k = 0 then "len0" else if k = 1 then "len1" else if k ≤ 3 then "len2-3" else "len4+"

def hasDup (cs : List PVal) : Bool :=
  match cs with
  | [] => false
  | c :: t => t.any (clauseEq c ·) || hasDup t

def handleMk (key : String) (n : Nat) (cs : List PVal) (model : String) (res : String) (dnf : Bool) : Verdict :=
  let ok := cs.all (inRange n)
  let fail : Option String :=
    if !ok then none else
    match parseArr? res with
    | none => some ("outcome-on-valid-clauses:" ++ res)
    | some A => checkBuilt n A (if dnf then dnfAt n cs else cnfAt n cs) key
  { agree := model == res, model, fail,
    nontrivial := ok && cs.length ≥ 2 && (parseArr? res).any (·.size > 2),
    tags := [key, sizeTag cs.length, s!"n{n}"] ++ (if ok then [] else ["oob"]) ++
      (if hasDup cs then ["dup"] else []) ++ (if res == "panic" then ["panic"] else []) }

def handle (key : String) (ins obs : List String) : Verdict :=
  match key, ins, obs with
  | "C10.dnf", [n, cl], [res] =>
    match n.toNat? with
    | some n =>
      let cs := parseClauses cl
      handleMk key n cs (showOutArr (mkDnf n cs)) res true
    | none => Verdict.bad "args"
  | "C10.cnf", [n, cl], [res] =>
    match n.toNat? with
    | some n =>
      let cs := parseClauses cl
      handleMk key n cs (showOutArr (mkCnf n cs)) res false
    | none => Verdict.bad "args"
  | "C10.conj", [n, cl], [res] =>
    match n.toNat? with
    | some n =>
      let c := parseClause cl
      let model := showOutArr (mkConjClause n c)
      let ok := inRange n c
      let fail := if !ok then none else
        match parseArr? res with
        | none => some ("outcome-on-valid-clause:" ++ res)
        | some A => checkBuilt n A (conjAt n c) key
      { agree := model == res, model, fail, nontrivial := ok && c.toValues.length ≥ 1,
        tags := [key, s!"n{n}"] ++ (if ok then [] else ["oob"]) }
    | none => Verdict.bad "args"
  | "C10.disj", [n, cl], [res] =>
    match n.toNat? with
    | some n =>
      let c := parseClause cl
      let model := showOutArr (mkDisjClause n c)
      let ok := inRange n c
      let fail := if !ok then none else
        match parseArr? res with
        | none => some ("outcome-on-valid-clause:" ++ res)
        | some A => checkBuilt n A (disjAt n c) key
      { agree := model == res, model, fail, nontrivial := ok && c.toValues.length ≥ 1,
        tags := [key, s!"n{n}"] ++ (if ok then [] else ["oob"]) }
    | none => Verdict.bad "args"
  | "C10.ext", [b], [dnf, cnf, rd, rc, bits] =>
    match parseArr? b with
    | some A =>
      let n := numVars A
      let md := toDnf A
      let mc := toCnf A
      let mrd : Outcome Arr := match md with | .ok cs => mkDnf n cs | .err m => .err m | .panic m => .panic m
      let mrc : Outcome Arr := match mc with | .ok cs => mkCnf n cs | .err m => .err m | .panic m => .panic m
      let canonB := isCanon A
      let mbits := String.ofList [
        (match md with | .ok cs => if (implicantFail A cs "").isNone then '1' else '0' | _ => 'p'),
        (match mc with | .ok cs => if (impliedFail A cs "").isNone then '1' else '0' | _ => 'p'),
        (match mrd with | .ok r => if r == A then '1' else '0' | _ => 'p'),
        (match mrc with | .ok r => if r == A then '1' else '0' | _ => 'p')]
      let model := " ".intercalate [showOutClauses n md, showOutClauses n mc, showOutArr mrd, showOutArr mrc, mbits]
      let od := parseObsClauses dnf
      let oc := parseObsClauses cnf
      let semFail : List (Option String) :=
        if !canonB && (od.isNone || oc.isNone) then []   -- outside the quantifier: agreement only
        else if n ≤ maxTT then
          let tb := ttOf A n
          [ (match od with
              | none => some "to_dnf:panic"
              | some cs =>
                if !(cs.all (inRange n)) then some "to_dnf:foreign-variable" else
                if (List.range (2 ^ n)).all fun i => dnfAt n cs i == tb[i]! then none else some "to_dnf:function"),
            (match oc with
              | none => some "to_cnf:panic"
              | some cs =>
                if !(cs.all (inRange n)) then some "to_cnf:foreign-variable" else
                if (List.range (2 ^ n)).all fun i => cnfAt n cs i == tb[i]! then none else some "to_cnf:function"),
            checkRebuilt n A canonB rd "mk_dnf(to_dnf)",
            checkRebuilt n A canonB rc "mk_cnf(to_cnf)" ]
        else if !canonB then [some "wide-operand-not-canonical(harness)"]
        else
          [ (match od with
              | none => some "to_dnf:panic"
              | some cs =>
                if !(cs.all (inRange n)) then some "to_dnf:foreign-variable" else
                firstFail [implicantFail A cs "to_dnf",
                  if showOutArr (mkDnf n cs) == b then none else some "to_dnf:function"]),
            (match oc with
              | none => some "to_cnf:panic"
              | some cs =>
                if !(cs.all (inRange n)) then some "to_cnf:foreign-variable" else
                firstFail [impliedFail A cs "to_cnf",
                  if showOutArr (mkCnf n cs) == b then none else some "to_cnf:function"]),
            (if rd == b then none else some "mk_dnf(to_dnf):rebuild-equals"),
            (if rc == b then none else some "mk_cnf(to_cnf):rebuild-equals") ]
      let fail := firstFail (semFail ++ (if !canonB && (od.isNone || oc.isNone) then [] else [bitsFail bits
        [("dnf-clauses-implicants", true), ("cnf-clauses-implied", true),
         ("mk_dnf(to_dnf)==b", canonB), ("mk_cnf(to_cnf)==b", canonB)]]))
      { agree := model == " ".intercalate [dnf, cnf, rd, rc, bits], model, fail, nontrivial := A.size > 2,
        tags := [key, s!"n{if n ≤ maxTT then toString n else if n < 54 then "14-53" else if n ≤ 130 then "54-130" else "131+"}",
          if canonB then "canonical" else "noncanonical"] ++ (if n > maxTT then ["wide"] else []) ++
          [sizeTag (od.getD []).length] }
    | none => Verdict.bad "args"
  | "C10.opt", [b], [dnf, rd, bits] =>
    match parseArr? b with
    | some A =>
      let n := numVars A
      let md := toOptimizedDnf A
      let mrd : Outcome Arr := match md with | .ok cs => mkDnf n cs | .err m => .err m | .panic m => .panic m
      let canonB := isCanon A
      let mbits := String.ofList [
        (match md with | .ok cs => if (implicantFail A cs "").isNone then '1' else '0' | _ => 'p'),
        (match mrd with | .ok r => if r == A then '1' else '0' | _ => 'p')]
      let model := " ".intercalate [showOutClauses n md, showOutArr mrd, mbits]
      let od := parseObsClauses dnf
      let semFail : List (Option String) :=
        if n ≤ maxTT then
          let tb := ttOf A n
          if !canonB && od.isNone then []   -- outside the quantifier (rebuild == b cannot hold): agreement only
          else
          [ (match od with
              | none => some "to_optimized_dnf:panic"
              | some cs =>
                if !(cs.all (inRange n)) then some "to_optimized_dnf:foreign-variable" else
                if !(cs.all fun c => (List.range (2 ^ n)).all fun i => !conjAt n c i || tb[i]!) then
                  some "to_optimized_dnf:clause-not-an-implicant" else
                if (List.range (2 ^ n)).all fun i => dnfAt n cs i == tb[i]! then none else some "to_optimized_dnf:function"),
            checkRebuilt n A canonB rd "mk_dnf(to_optimized_dnf)" ]
        else if !canonB then [some "wide-operand-not-canonical(harness)"]
        else
          [ (match od with
              | none => some "to_optimized_dnf:panic"
              | some cs =>
                if !(cs.all (inRange n)) then some "to_optimized_dnf:foreign-variable" else
                firstFail [implicantFail A cs "to_optimized_dnf",
                  if showOutArr (mkDnf n cs) == b then none else some "to_optimized_dnf:function"]),
            (if rd == b then none else some "mk_dnf(to_optimized_dnf):rebuild-equals") ]
      let refuses := n ≤ maxTT && expectOptPanic A n (ttOf A n)
      let fail := firstFail (semFail ++ (if !canonB && od.isNone then [] else [bitsFail bits
        [("optimized-clauses-implicants", true), ("mk_dnf(to_optimized_dnf)==b", canonB)]]))
      { agree := model == " ".intercalate [dnf, rd, bits], model, fail, nontrivial := A.size > 2,
        tags := [key, s!"n{if n ≤ maxTT then toString n else if n < 54 then "14-53" else if n ≤ 130 then "54-130" else "131+"}"] ++
          (if n > maxTT then ["wide"] else []) ++ (if canonB then [] else ["noncanonical"]) ++
          (if refuses then ["opt-refuses"] else []) ++ [sizeTag (od.getD []).length] }
    | none => Verdict.bad "args"
  | "C10.ext", [b], ["hang"] | "C10.opt", [b], ["hang"] =>
    -- the call did not return: a failure on a canonical operand, a plain disagreement on any other array
    match parseArr? b with
    | some A =>
      { agree := false, model := "returns", fail := if isCanon A then some "outcome:hang" else none,
        nontrivial := A.size > 2, tags := [key, "hang"] }
    | none => Verdict.bad "args"
  | _, _, _ => Verdict.bad ("key " ++ key)

end B.Drive.C10
