import BddVerif.Drive.C14
import BddVerif.Model.Expr
/-!
Driver for C15. Correspondence: `ExprM.evalExpr`, `ExprM.evalStringO`, `ExprM.toExpr` against the observed
values. Property predicate on the OBSERVED values, by brute force over all valuations:
* the truth table of the evaluated Bdd is the pointwise evaluation of the tree, the Bdd is canonical,
  `None` exactly when a name of the tree is not in the variable set (`eval_expression` panics exactly then);
* the exported expression denotes the function of the Bdd; evaluating it — directly and after
  print + re-parse — gives a Bdd with the same function, and the very same array for canonical Bdds;
* a `bdd!` form equals its method chain and both denote the intended connective.
-/
namespace B.Drive.C15
open B B.Drive B.Parser B.ExprM
open B.Drive.C14 (sexp unsexp dec decRaw enc)
open B.ParserRef (reference)

def parseNames (s : String) : Option (List Name) :=
  if s == "~" then some [] else (s.splitOn ",").mapM decRaw

def maxTT : Nat := 12

/-- assignment of names induced by a valuation of the variables -/
def envOf (vars : List Name) (v : Nat → Bool) : Name → Bool := fun s =>
  match indexOfName vars s with
  | some i => v i
  | none => false

def knownNames (vars : List Name) (e : Expr) : Bool := (names e).all fun s => vars.contains s

/-- truth table of the observed array = pointwise evaluation of the tree -/
def ttMatches (vars : List Name) (A : Arr) (e : Expr) : Bool :=
  let n := vars.length
  n > maxTT || (List.range (2 ^ n)).all fun i =>
    evalArr A (valOfIndex n i) == evalBool e (envOf vars (valOfIndex n i))

def sameFunction (n : Nat) (A B : Arr) : Bool := n > maxTT || (ttOf A n).toList == (ttOf B n).toList

def showOptArr : Option Arr → String
  | some A => showArr A
  | none => "none"

def firstFail (xs : List (Option String)) : Option String := xs.findSome? id

def check (b : Bool) (clause : String) : Option String := if b then none else some clause

/-- the five node shapes of `to_boolean_expression` (seven with the sub-cases) -/
def shapeOf (nd : Node) : String :=
  if nd.low < 2 && nd.high < 2 then (if nd.high == 1 then "shapeVar" else "shapeNotVar")
  else if nd.low < 2 then (if nd.low == 0 then "shapeAndHigh" else "shapeOrNotHigh")
  else if nd.high < 2 then (if nd.high == 0 then "shapeAndNotLow" else "shapeOrLow")
  else "shapeIte"

def shapes (A : Arr) : List String :=
  if A.size ≤ 2 then ["shapeConst"] else ((A.toList.drop 2).map shapeOf).eraseDups

def opTags : Expr → List String
  | .const _ => ["const"]
  | .var _ => ["var"]
  | .not e => "not" :: opTags e
  | .and l r => "and" :: (opTags l ++ opTags r)
  | .or l r => "or" :: (opTags l ++ opTags r)
  | .xor l r => "xor" :: (opTags l ++ opTags r)
  | .imp l r => "imp" :: (opTags l ++ opTags r)
  | .iff l r => "iff" :: (opTags l ++ opTags r)
  | .cond c t e => "cond" :: (opTags c ++ opTags t ++ opTags e)


/-! ### big evaluations (more than 12 variables, more than 2^16 nodes) -/

/-- SplitMix-style pseudo-random valuation number `k` (same mixing as `Drive/C01.lean: sampleVal`) -/
def sampleVal (n k : Nat) : Nat → Bool := fun j =>
  let z := (k + 1) * 0x9E3779B97F4A7C15 % 2 ^ 64
  let z := (z ^^^ (z >>> 29)) * 0xBF58476D1CE4E5B9 % 2 ^ 64
  let z := (z ^^^ (z >>> 32))
  j < n && (z >>> (j % 60)) % 2 == 1

def samples : Nat := 4096

/-- three densities (1/2, 1/4, 3/4 of the variables true): sparse and dense functions both get exercised -/
def sampleVals (n : Nat) : List (Nat → Bool) :=
  (List.range samples).flatMap fun k =>
    let a := sampleVal n k; let b := sampleVal n (k + samples)
    [a, (fun j => a j && b j), (fun j => a j || b j)]

def anonNames (n : Nat) : List Name := (List.range n).map fun i => ("x_" ++ toString i).toList

/-- value of the tree under a valuation of `x_0 … x_{n-1}` (names resolved once, by number) -/
def evalAnon (e : Expr) (v : Nat → Bool) : Bool :=
  evalBool e fun s => match (String.ofList (s.drop 2)).toNat? with | some i => v i | none => false

/-- exact number of satisfying valuations of a reduced array over `n` variables (children before parents) -/
def cardOf (A : Arr) (n : Nat) : Nat := Id.run do
  if A.size ≤ 1 then return 0
  if A.size = 2 then return 2 ^ n
  let mut c : Array Nat := #[0, 1]
  for i in [2:A.size] do
    let nd := A[i]!
    let lv := (A[nd.low]!).var; let hv := (A[nd.high]!).var
    c := c.push (c[nd.low]! * 2 ^ (lv - nd.var - 1) + c[nd.high]! * 2 ^ (hv - nd.var - 1))
  return c[A.size - 1]! * 2 ^ (A[A.size - 1]!).var

/-- closed-form number of satisfying valuations of the families of `harness/src/bin/c15.rs: big_family` -/
def closedCard (family : String) (p n : Nat) : Option Nat :=
  if family == "pairs" then some (4 ^ p - 3 ^ p)
  else if family == "cnf" then some (3 ^ p)
  else if family == "equal" then some (2 ^ p)
  else if family == "muxsop" || family == "muxcond" then some (2 ^ (n - 1))
  else none

def handle (key : String) (ins obs : List String) : Verdict :=
  match key, ins, obs with
  | k, ins', ["hang"] =>
    -- the runner's observation for a case that did not return: a violation only inside the quantifier
    let inQuantifier : Bool :=
      match k, ins' with
      | "C15.eval", [_, _] => true                       -- safe_eval_expression returns Some/None for every tree
      | "C15.evals", [ns, x] =>
        (match parseNames ns, dec x with
          | some vars, some cs => (reference cs).any (knownNames vars)
          | _, _ => false)
      | "C15.export", [ns, b] =>
        (match parseNames ns, parseArr? b with
          | some vars, some A => isCanon A && vars.all C14.safeName && vars.eraseDups.length == vars.length
          | _, _ => false)
      | "C15.macro", _ => true
      | "C15.big", _ => true
      | _, _ => false
    { agree := false, model := "returns", nontrivial := false, tags := ["hang", k],
      fail := if inQuantifier then some "did-not-return" else none }
  | k, (ns :: _), ("newpanic" :: _) =>
    -- `BddVariableSet::new` panicked in the harness: legal names (distinct, no NOT_IN_VAR_NAME character) must be accepted
    match parseNames ns with
    | some vars =>
      -- inside the quantifier of C15: distinct parser-safe names (other name sets: agreement only)
      let legal := vars.all C14.safeName && vars.eraseDups.length == vars.length
      { agree := !legal, model := "variable set accepted", nontrivial := true, tags := ["newpanic", k],
        fail := if legal then some "BddVariableSet::new-panicked-on-legal-names" else none }
    | none => Verdict.bad "args"
  | "C15.eval", [ns, t], [r, r2] =>
    match parseNames ns, unsexp t with
    | some vars, some e =>
      let m := evalExpr vars e
      let model := showOptArr m ++ " " ++ (match evalExprO vars e with | .ok A => showArr A | _ => "panic")
      let known := knownNames vars e
      let fail :=
        if r == "panic" then some "safe_eval_expression-panicked"
        -- what `eval_expression` does on an unknown name (it panics) is not part of the statement: agreement only
        else if !known then check (r == "none") "unknown-name-but-not-None"
        else match parseArr? r with
          | none => some "known-names-but-None"
          | some A => firstFail [
              check (numVars A == vars.length) "num_vars",
              check (ttMatches vars A e) "pointwise",
              check (isCanon A) "canonical",
              (match parseArr? r2 with
                | none => some "eval_expression-failed-on-known-names"
                | some B => firstFail [check (numVars B == vars.length) "eval_expression:num_vars",
                    check (ttMatches vars B e) "eval_expression:pointwise"])]
      { agree := model == r ++ " " ++ r2, model, fail,
        nontrivial := (parseArr? r).any (·.size > 2),
        tags := (if known then "known" else "unknown") :: s!"n{vars.length}" :: (opTags e).eraseDups }
    | _, _ => Verdict.bad "args"
  | "C15.evals", [ns, x], [r] =>
    match parseNames ns, dec x with
    | some vars, some cs =>
      let model := match evalStringO vars cs with | .ok A => showArr A | _ => "panic"
      -- the panics of `eval_expression_string` on a parse error / an unknown name are agreement only
      let fail := match reference cs with
        | none => none
        | some e =>
          if !knownNames vars e then none
          else match parseArr? r with
            | none => some "valid-string-panicked"
            | some A => firstFail [check (ttMatches vars A e) "pointwise", check (isCanon A) "canonical"]
      { agree := model == r, model, fail, nontrivial := (parseArr? r).any (·.size > 2),
        tags := ["string", if r == "panic" then "panic" else "ok"] }
    | _, _ => Verdict.bad "args"
  | "C15.export", [ns, b], [ex, direct, reparsed] =>
    match parseNames ns, parseArr? b with
    | some vars, some A =>
      let n := vars.length
      let me := toExpr vars A
      let model := match me with
        | .ok e => sexp e ++ " " ++ showOptArr (evalExpr vars e) ++ " " ++
            (match parse (display e) with | .ok e2 => showOptArr (evalExpr vars e2) | _ => "none")
        | _ => "panic - -"
      let canonical := isCanon A
      let reduced := isReduced A
      -- claim (statement text): for a CANONICAL b over distinct names the evaluated export is b; the printed round
      -- trip additionally needs parser-safe names. Non-canonical / non-post-order inputs and the shape of the
      -- exported tree are agreement only.
      let distinct := vars.eraseDups.length == vars.length
      let safe := vars.all C14.safeName
      let fail := if !canonical || !distinct then none else match unsexp ex with
        | none => some "export-panicked"
        | some e => firstFail [
            check (ttMatches vars A e) "export-denotes-another-function",
            (match parseArr? direct with
              | none => some "eval-of-export-failed"
              | some D => firstFail [check (sameFunction n D A) "eval-of-export-differs",
                  check (!canonical || D == A) "eval-of-export-not-identical"]),
            (if !safe then none else match parseArr? reparsed with
              | none => some "reparse-of-export-failed"
              | some D => firstFail [check (sameFunction n D A) "reparsed-export-differs",
                  check (!canonical || D == A) "reparsed-export-not-identical"])]
      { agree := model == ex ++ " " ++ direct ++ " " ++ reparsed, model, fail,
        nontrivial := A.size > 2,
        tags := (if canonical then "canonical" else if reduced then "reduced-noncanonical" else "unreduced-no-claim") ::
          s!"n{n}" :: (if ex == "panic" then ["exportPanic"] else []) ++ shapes A }
    | _, _ => Verdict.bad "args"
  | "C15.exportbad", [ns, b], [ex, direct, reparsed] =>
    match parseNames ns, parseArr? b with
    | some vars, some A =>
      let model := match toExpr vars A with
        | .ok e => sexp e ++ " " ++ showOptArr (evalExpr vars e) ++ " " ++
            (match parse (display e) with | .ok e2 => showOptArr (evalExpr vars e2) | _ => "none")
        | _ => "panic - -"
      -- malformed diagrams are outside the property: correspondence only
      { agree := model == ex ++ " " ++ direct ++ " " ++ reparsed, model, fail := none, nontrivial := false,
        tags := ["malformed", if ex == "panic" then "panic" else "ok"] }
    | _, _ => Verdict.bad "args"
  | "C15.big", [family, p, n, text], [first, second, third, fourth] =>
    match p.toNat?, n.toNat?, dec text with
    | some p, some n, some cs =>
      let vars := anonNames n
      -- model replay with the hand model of apply / ternary_apply / not
      let mtree := parse cs
      let rtree := reference cs
      let marr : Option Arr := match mtree with | .ok e => evalExpr vars e | _ => none
      let model := match marr with | some A => showArr A | none => "panic"
      -- the model evaluator applied to the REFERENCE parser's tree: by `C15.eval_expr_spec` this is exactly the
      -- canonical array of the pointwise meaning of that tree, so comparing with it is an exact predicate
      let canonStr : Option String := match rtree, mtree with
        | some e, .ok e' => if e = e' then some model else (evalExpr vars e).map showArr
        | some e, _ => (evalExpr vars e).map showArr
        | none, _ => none
      let fail := match rtree, parseArr? first with
        | none, _ => none   -- (harness text outside the grammar: no claim, shows as a disagreement)
        | _, none => some "eval_expression_string-panicked"
        | some e, some A => firstFail [
            check (numVars A == n) "num_vars",
            check (isCanon A) "canonical",
            check ((sampleVals n).all fun v => evalArr A v == evalAnon e v) "pointwise(sampled)",
            (match closedCard family p n with
              | some c => check (cardOf A n == c) s!"cardinality:expected={c}:observed={cardOf A n}"
              | none => none),
            check (canonStr == some first) "not-the-canonical-array-of-the-expression(eval_expr_spec)",
            check (second == "=") "method-chain-differs",
            check (third == "=") "print-parse-eval-differs",
            check (fourth == "=" || fourth == "skip") "export-print-parse-eval-differs"]
      { agree := model == first, model := if model == first then "-" else s!"(array of {model.length} characters)",
        fail, nontrivial := true,
        tags := ["big", family, s!"nodes2^{Nat.log2 ((parseArr? first).map (·.size) |>.getD 1)}",
                 if fourth == "skip" then "exportSkipped" else "exportDone"] }
    | _, _, _ => Verdict.bad "args"
  | "C15.macro", [idx, meaning], [eq, m, c] =>
    match unsexp meaning with
    | some e =>
      let vars : List Name := [['a'], ['b'], ['c']]
      let model := showOptArr (evalExpr vars e)
      let fail := match parseArr? m, parseArr? c with
        | some M, some C => firstFail [check (eq == "1" && M == C) "macro-differs-from-method-chain",
            check (ttMatches vars M e) "macro-denotes-another-function",
            check (ttMatches vars C e) "chain-denotes-another-function"]
        | _, _ => some "macro-case-panicked"
      { agree := model == m && model == c, model, fail, nontrivial := true,
        tags := "macro" :: (if idx.toNat?.any (· < 24) then "withVars" else "plain") :: (opTags e).eraseDups }
    | none => Verdict.bad "sexp"
  | _, _, _ => Verdict.bad ("key " ++ key)

end B.Drive.C15
